#!/usr/bin/env python3
"""py2lean.py — translate the NodeId text kernel of opcua-tools from the Python SOURCE into Lean 4 definitions.

  py2lean.py <repo> > NodeIdGen.lean

Functions: value_parser.cached_parse_nodeid, value_parser.parse_nodeid, ua_data_types.UANodeId.__str__,
nodeset_parser.extend_namespace_map (procedure mode: a loop that mutates its list and dict arguments becomes a fold
returning their final values).
Subset: assignments (names, 2-tuples), if / else, return, raise, string and int constants, ==, `in` on a dict,
indexing by a constant, str.split(sep, maxsplit=1), lstrip, startswith, int(), str(), len(), NodeIdType(..),
UANodeId(..), dict indexing, str.format on a literal (error messages only).  Anything else -> Unsupported (exit 3).

Every Python expression that can raise becomes a value of `Except PyErr _`, in evaluation order, via `bindE`;
nothing is totalised.  The meaning of the primitives the output mentions is fixed in
lean/OpcuaModel/Gen/PyPrims.lean (hand written, small, part of the trusted base)."""
import ast
import os
import sys


class Unsupported(Exception):
    pass


def chars(s):
    def ch(c):
        if c == "'":
            return "'\\''"
        if c == "\\":
            return "'\\\\'"
        if ord(c) < 32 or ord(c) > 126:
            return "(Char.ofNat %d)" % ord(c)
        return "'%s'" % c
    return "[" + ", ".join(ch(c) for c in s) + "]"


class Tr:
    """expressions are translated to (lean term, can_raise); statements to a term in continuation style"""

    def __init__(self, self_fields=None):
        self.n = 0
        self.self_fields = self_fields or {}

    def fresh(self):
        self.n += 1
        return "t%d" % self.n

    # an expression in "A-normal form": returns (prefix binds [(name, term)], pure term)
    def expr(self, e):
        if isinstance(e, ast.Constant):
            if isinstance(e.value, str):
                return [], chars(e.value)
            if isinstance(e.value, bool):
                return [], "true" if e.value else "false"
            if isinstance(e.value, int):
                return [], "(%d : Int)" % e.value
            raise Unsupported("constant %r" % (e.value,))
        if isinstance(e, ast.Name):
            return [], e.id
        if isinstance(e, ast.Attribute) and isinstance(e.value, ast.Name) and e.value.id == "self":
            if e.attr not in self.self_fields:
                raise Unsupported("self.%s" % e.attr)
            return [], "self.%s" % self.self_fields[e.attr]
        if isinstance(e, ast.Attribute) and e.attr == "value" and isinstance(e.value, ast.Attribute) \
                and isinstance(e.value.value, ast.Name) and e.value.value.id == "self" and e.value.attr == "nodeid_type":
            return [], "(pyEnumValue self.ty)"
        if isinstance(e, ast.Tuple):
            bs, ts = [], []
            for x in e.elts:
                b, t = self.expr(x)
                bs += b
                ts.append(t)
            return bs, "(" + ", ".join(ts) + ")"
        if isinstance(e, ast.Subscript):
            b, v = self.expr(e.value)
            if isinstance(e.slice, ast.Constant) and isinstance(e.slice.value, int):
                t = self.fresh()
                return b + [(t, "pyIndex %s %d" % (v, e.slice.value))], t
            b2, k = self.expr(e.slice)
            t = self.fresh()
            return b + b2 + [(t, "pyDictGet %s %s" % (v, k))], t
        if isinstance(e, ast.Compare) and len(e.ops) == 1 and isinstance(e.ops[0], ast.IsNot) \
                and isinstance(e.comparators[0], ast.Constant) and e.comparators[0].value is None:
            b1, a = self.expr(e.left)
            return b1, "(pyIsSome %s)" % a
        if isinstance(e, ast.JoinedStr):
            bs, parts = [], []
            for v in e.values:
                if isinstance(v, ast.Constant):
                    parts.append(chars(v.value))
                elif isinstance(v, ast.FormattedValue) and v.conversion == -1 and v.format_spec is None:
                    b, t = self.expr(v.value)
                    bs += b
                    parts.append("(pyFormat %s)" % t)
                else:
                    raise Unsupported("f-string part")
            return bs, "(" + " ++ ".join(parts) + ")"
        if isinstance(e, ast.Compare) and len(e.ops) == 1:
            b1, a = self.expr(e.left)
            b2, c = self.expr(e.comparators[0])
            op = e.ops[0]
            if isinstance(op, ast.Eq):
                return b1 + b2, "(decide (%s = %s))" % (a, c)
            if isinstance(op, ast.In):
                return b1 + b2, "(pyDictHas %s %s)" % (c, a)
            if isinstance(op, ast.IsNot) and isinstance(e.comparators[0], ast.Constant) and e.comparators[0].value is None:
                return b1, "(pyIsSome %s)" % a
            raise Unsupported("comparison " + type(op).__name__)
        if isinstance(e, ast.BoolOp) and isinstance(e.op, ast.And):
            # `a and b`: b is evaluated only when a holds; supported when b cannot raise
            parts = []
            for v in e.values:
                b, t = self.expr(v)
                if b:
                    raise Unsupported("raising operand of `and`")
                parts.append(t)
            return [], "(" + " && ".join(parts) + ")"
        if isinstance(e, ast.BinOp) and isinstance(e.op, ast.Add):
            b1, a = self.expr(e.left)
            b2, c = self.expr(e.right)
            return b1 + b2, "(%s ++ %s)" % (a, c)
        if isinstance(e, ast.Call):
            return self.call(e)
        raise Unsupported(ast.dump(e)[:100])

    def call(self, e):
        f = e.func
        kw = {k.arg: k.value for k in e.keywords}
        if isinstance(f, ast.Attribute):
            b, recv = self.expr(f.value)
            one = (isinstance(kw.get("maxsplit"), ast.Constant) and kw["maxsplit"].value == 1 and len(e.args) == 1) or \
                  (len(e.args) == 2 and isinstance(e.args[1], ast.Constant) and e.args[1].value == 1 and not kw)
            if f.attr == "split" and one and isinstance(e.args[0], ast.Constant) and isinstance(e.args[0].value, str) and len(e.args[0].value) == 1:
                return b, "(pySplit1 %s '%s')" % (recv, e.args[0].value)
            if f.attr == "lstrip" and not e.args:
                return b, "(lstrip %s)" % recv
            if f.attr == "startswith" and len(e.args) == 1:
                b2, a = self.expr(e.args[0])
                return b + b2, "(startsWith %s %s)" % (recv, a)
            if f.attr == "format" and isinstance(f.value, ast.Constant):
                return [], "[]"          # the text of an error message is not part of the model
            raise Unsupported("method ." + f.attr)
        if isinstance(f, ast.Name):
            bs, args = [], []
            for a in e.args:
                b, t = self.expr(a)
                bs += b
                args.append(t)
            for k, v in kw.items():
                b, t = self.expr(v)
                bs += b
                args.append(t)
            if f.id == "int" and len(args) == 1:
                t = self.fresh()
                return bs + [(t, "pyIntE %s" % args[0])], t
            if f.id == "str" and len(args) == 1:
                return bs, "(pyStr %s)" % args[0]
            if f.id == "len" and len(args) == 1:
                return bs, "(pyLen %s)" % args[0]
            if f.id == "NodeIdType" and len(args) == 1:
                t = self.fresh()
                return bs + [(t, "IdType.ofStrE %s" % args[0])], t
            if f.id == "UANodeId" and len(args) == 3:
                t = self.fresh()
                return bs + [(t, "mkNodeId %s %s %s" % tuple(args))], t
            if f.id == "cached_parse_nodeid" and len(args) == 1:
                t = self.fresh()
                return bs + [(t, "cached_parse_nodeid %s" % args[0])], t
            raise Unsupported("call " + f.id)
        raise Unsupported("call")

    def binds(self, bs, body, ind):
        pad = "  " * ind
        out = ""
        for name, term in bs:
            out += "%sbindE (%s) fun %s =>\n" % (pad, term, name)
        return out + body

    def truthy(self, e):
        """condition of an `if`: returns (binds, Bool term)"""
        if isinstance(e, ast.Name):
            return [], "(pyTruthy %s)" % e.id
        return self.expr(e)

    def block(self, stmts, ind):
        """translate a statement list whose every path ends in return / raise"""
        pad = "  " * ind
        if not stmts:
            raise Unsupported("a path that falls off the end of the function")
        s, rest = stmts[0], stmts[1:]
        if isinstance(s, ast.Expr) and isinstance(s.value, ast.Constant):
            return self.block(rest, ind)
        if isinstance(s, ast.Return):
            b, t = self.expr(s.value)
            return self.binds(b, "%s.ok %s\n" % (pad, t), ind)
        if isinstance(s, ast.Raise):
            name = s.exc.func.id if isinstance(s.exc, ast.Call) else s.exc.id
            return "%s.error PyErr.%s\n" % (pad, name[0].lower() + name[1:])
        if isinstance(s, ast.Assign) and len(s.targets) == 1:
            b, t = self.expr(s.value)
            tgt = s.targets[0]
            if isinstance(tgt, ast.Name):
                return self.binds(b, "%slet %s := %s\n" % (pad, tgt.id, t) + self.block(rest, ind), ind)
            if isinstance(tgt, ast.Tuple) and all(isinstance(x, ast.Name) for x in tgt.elts):
                names = [x.id for x in tgt.elts]
                if isinstance(s.value, ast.Call) and isinstance(s.value.func, ast.Name) and s.value.func.id == "cached_parse_nodeid":
                    pat = "(" + ", ".join(names) + ")"
                    return self.binds(b, "%smatch %s with\n%s| %s =>\n" % (pad, t, pad, pat) + self.block(rest, ind + 1), ind)
                if len(names) == 2:
                    u = self.fresh()
                    return self.binds(b + [(u, "pyUnpack2 %s" % t)],
                                      "%smatch %s with\n%s| (%s, %s) =>\n" % (pad, u, pad, names[0], names[1]) + self.block(rest, ind + 1), ind)
            raise Unsupported("assignment target")
        if isinstance(s, ast.If):
            b, c = self.truthy(s.test)
            then = self.block(s.body + ([] if self.ends(s.body) else rest), ind + 1)
            other = s.orelse if s.orelse else []
            els = self.block(other + ([] if (other and self.ends(other)) else rest), ind + 1)
            return self.binds(b, "%sif %s then\n%s%selse\n%s" % (pad, c, then, pad, els), ind)
        raise Unsupported(type(s).__name__)

    @staticmethod
    def ends(stmts):
        return bool(stmts) and isinstance(stmts[-1], (ast.Return, ast.Raise))



class TrProc(Tr):
    """procedures that mutate their list / dict arguments and return nothing: the translation returns the
    final values of the mutated parameters.  Statements: `if c: <mutations>` (no else), `xs.append(e)`,
    `d[k] = e`, calls on `logger` (ignored), `for i, x in enumerate(xs): <mutations>`."""

    assoc = ()        # names of parameters that are dicts read with d[k] (association lists)

    def mutated(self, stmts):
        out = []
        for s in stmts:
            if isinstance(s, ast.Expr) and isinstance(s.value, ast.Call) and isinstance(s.value.func, ast.Attribute) \
                    and s.value.func.attr == "append" and isinstance(s.value.func.value, ast.Name):
                out.append(s.value.func.value.id)
            elif isinstance(s, ast.Assign) and len(s.targets) == 1 and isinstance(s.targets[0], ast.Subscript) \
                    and isinstance(s.targets[0].value, ast.Name):
                out.append(s.targets[0].value.id)
            elif isinstance(s, ast.If):
                out += self.mutated(s.body) + self.mutated(s.orelse)
            elif isinstance(s, ast.For):
                out += self.mutated(s.body)
        return list(dict.fromkeys(out))

    def expr(self, e):
        if isinstance(e, ast.Compare) and len(e.ops) == 1 and isinstance(e.ops[0], (ast.In, ast.NotIn)):
            b1, a = self.expr(e.left)
            b2, c = self.expr(e.comparators[0])
            t = "(pyContains %s %s)" % (c, a)
            return b1 + b2, t if isinstance(e.ops[0], ast.In) else "(!%s)" % t
        if isinstance(e, ast.BinOp) and isinstance(e.op, ast.Add) and isinstance(e.right, ast.Constant) and isinstance(e.right.value, int):
            b, a = self.expr(e.left)
            return b, "(%s + %d)" % (a, e.right.value)
        if isinstance(e, ast.Call) and isinstance(e.func, ast.Attribute) and e.func.attr == "keys" and not e.args and isinstance(e.func.value, ast.Name):
            return [], "(pyKeys %s)" % e.func.value.id
        if isinstance(e, ast.Call) and isinstance(e.func, ast.Name) and e.func.id == "max" and len(e.args) == 1:
            b, a = self.expr(e.args[0])
            t = self.fresh()
            return b + [(t, "pyMax %s" % a)], t
        if isinstance(e, ast.Subscript) and isinstance(e.value, ast.Name) and e.value.id in self.assoc:
            b, k = self.expr(e.slice)
            t = self.fresh()
            return b + [(t, "pyAssocGet %s %s" % (e.value.id, k))], t
        if isinstance(e, ast.Call) and isinstance(e.func, ast.Attribute) and e.func.attr == "index" and len(e.args) == 1:
            b, recv = self.expr(e.func.value)
            b2, a = self.expr(e.args[0])
            t = self.fresh()
            return b + b2 + [(t, "pyListIndex %s %s" % (recv, a))], t
        return Tr.expr(self, e)

    def stmts(self, body, ind, final):
        """sequence of mutations, then `final` (a term of type Except PyErr _)"""
        pad = "  " * ind
        if not body:
            return "%s%s\n" % (pad, final)
        s, rest = body[0], body[1:]
        if isinstance(s, ast.Expr) and isinstance(s.value, ast.Constant):
            return self.stmts(rest, ind, final)
        if isinstance(s, ast.Expr) and isinstance(s.value, ast.Call):
            f = s.value.func
            if isinstance(f, ast.Attribute) and isinstance(f.value, ast.Name) and f.value.id == "logger":
                return self.stmts(rest, ind, final)          # logging has no effect on the result
            if isinstance(f, ast.Attribute) and f.attr == "append" and isinstance(f.value, ast.Name) and len(s.value.args) == 1:
                b, a = self.expr(s.value.args[0])
                return self.binds(b, "%slet %s := pyListAppend %s %s\n" % (pad, f.value.id, f.value.id, a) + self.stmts(rest, ind, final), ind)
            raise Unsupported("expression statement")
        if isinstance(s, ast.Assign) and len(s.targets) == 1 and isinstance(s.targets[0], ast.Subscript) and isinstance(s.targets[0].value, ast.Name):
            d = s.targets[0].value.id
            b1, k = self.expr(s.targets[0].slice)
            b2, v = self.expr(s.value)
            return self.binds(b1 + b2, "%slet %s := pyDictSet %s %s %s\n" % (pad, d, d, k, v) + self.stmts(rest, ind, final), ind)
        if isinstance(s, ast.Assign) and len(s.targets) == 1 and isinstance(s.targets[0], ast.Name) and isinstance(s.value, ast.List) and not s.value.elts:
            return "%slet %s : List Str := []\n" % (pad, s.targets[0].id) + self.stmts(rest, ind, final)
        if isinstance(s, ast.Assign) and len(s.targets) == 1 and isinstance(s.targets[0], ast.Name):
            b, t = self.expr(s.value)
            return self.binds(b, "%slet %s := %s\n" % (pad, s.targets[0].id, t) + self.stmts(rest, ind, final), ind)
        if isinstance(s, ast.Return) and not rest:
            b, t = self.expr(s.value)
            return self.binds(b, "%s.ok %s\n" % (pad, t), ind)
        if isinstance(s, ast.If) and s.orelse:
            vs = self.mutated([s])
            tup = vs[0] if len(vs) == 1 else "(" + ", ".join(vs) + ")"
            b, c = self.expr(s.test)
            th = self.stmts(s.body, ind + 2, ".ok %s" % tup)
            el = self.stmts(s.orelse, ind + 2, ".ok %s" % tup)
            txt = "%sbindE (if %s then\n%s%s  else\n%s%s  ) fun %s =>\n" % (pad, c, th, pad, el, pad, tup)
            return self.binds(b, txt + self.stmts(rest, ind, final), ind)
        if isinstance(s, ast.For) and isinstance(s.iter, ast.Call) and isinstance(s.iter.func, ast.Name) and s.iter.func.id == "range" \
                and len(s.iter.args) == 2 and isinstance(s.target, ast.Name) and not s.orelse:
            b1, lo = self.expr(s.iter.args[0])
            b2, hi = self.expr(s.iter.args[1])
            vs = self.mutated(s.body)
            tup = vs[0] if len(vs) == 1 else "(" + ", ".join(vs) + ")"
            inner = self.stmts(s.body, ind + 2, ".ok %s" % tup)
            txt = "%sbindE (pyRangeFoldE %s %s %s fun (%s : Int) %s =>\n%s%s  ) fun %s =>\n" % (pad, lo, hi, tup, s.target.id, tup, inner, pad, tup)
            return self.binds(b1 + b2, txt + self.stmts(rest, ind, final), ind)
        if isinstance(s, ast.If) and not s.orelse:
            vs = self.mutated(s.body)
            tup = vs[0] if len(vs) == 1 else "(" + ", ".join(vs) + ")"
            b, c = self.expr(s.test)
            inner = self.stmts(s.body, ind + 2, ".ok %s" % tup)
            txt = "%sbindE (if %s then\n%s%s  else .ok %s) fun %s =>\n" % (pad, c, inner, pad, tup, tup)
            return self.binds(b, txt + self.stmts(rest, ind, final), ind)
        if isinstance(s, ast.For) and isinstance(s.iter, ast.Call) and isinstance(s.iter.func, ast.Name) and s.iter.func.id == "enumerate" \
                and isinstance(s.target, ast.Tuple) and len(s.target.elts) == 2 and not s.orelse:
            i, x = s.target.elts[0].id, s.target.elts[1].id
            b, xs = self.expr(s.iter.args[0])
            vs = self.mutated(s.body)
            tup = vs[0] if len(vs) == 1 else "(" + ", ".join(vs) + ")"
            inner = self.stmts(s.body, ind + 2, ".ok %s" % tup)
            txt = "%sbindE (pyEnumFoldE %s %s fun (%s : Nat) %s %s =>\n%s%s  ) fun %s =>\n" % (pad, xs, tup, i, x, tup, inner, pad, tup)
            return self.binds(b, txt + self.stmts(rest, ind, final), ind)
        raise Unsupported("statement " + type(s).__name__)


def find(tree, qual):
    body, node = tree.body, None
    for p in qual.split("."):
        node = next(n for n in body if isinstance(n, (ast.FunctionDef, ast.ClassDef)) and n.name == p)
        body = node.body
    return node



class TrAcc(TrProc):
    """string-building methods (`x = "<Tag"`, `if c: x += ...`, `return x`) and small table look-ups:
    additionally `x += e`, `not e`, dict literals with constant keys / values read with `in` and `d[k]`,
    module-level string constants, `self.__str__()` / `self.<method>()` of already generated methods, `str(e)`,
    `self.nodeid_type is NodeIdType.X` (compared through the member's value as the source declares it)."""

    def __init__(self, self_fields=None, consts=None, enum_values=None, methods=None):
        TrProc.__init__(self, self_fields)
        self.consts = consts or {}
        self.enum_values = enum_values or {}
        self.methods = methods or {}
        self.litdicts = set()

    def mutated(self, stmts):
        out = []
        for s in stmts:
            if isinstance(s, ast.AugAssign) and isinstance(s.target, ast.Name):
                out.append(s.target.id)
            elif isinstance(s, ast.Assign) and len(s.targets) == 1 and isinstance(s.targets[0], ast.Name):
                out.append(s.targets[0].id)
            elif isinstance(s, ast.If):
                out += self.mutated(s.body) + self.mutated(s.orelse)
            else:
                out += TrProc.mutated(self, [s])
        return list(dict.fromkeys(out))

    @staticmethod
    def self_path(e):
        """`self.F` -> "F"; `self.A.B` -> "A.B"; anything else -> None"""
        if isinstance(e, ast.Attribute) and isinstance(e.value, ast.Name) and e.value.id == "self":
            return e.attr
        if isinstance(e, ast.Attribute) and isinstance(e.value, ast.Attribute) and isinstance(e.value.value, ast.Name) and e.value.value.id == "self":
            return e.value.attr + "." + e.attr
        return None

    @classmethod
    def isna_field(cls, t):
        """`pd.isna(self.F)` -> F (also `self.A.B` -> "A.B")"""
        if isinstance(t, ast.Call) and isinstance(t.func, ast.Attribute) and t.func.attr == "isna" and isinstance(t.func.value, ast.Name) \
                and t.func.value.id == "pd" and len(t.args) == 1:
            return cls.self_path(t.args[0])
        return None

    def expr(self, e):
        if isinstance(e, ast.Constant) and e.value == "":
            return [], "([] : Str)"
        sp = self.self_path(e)
        if sp is not None and sp in getattr(self, "bound", {}):
            return [], self.bound[sp]
        if sp is not None and "." in sp and sp in self.self_fields:
            return [], "self.%s" % self.self_fields[sp]
        if isinstance(e, ast.Name) and ("param:" + e.id) in getattr(self, "bound", {}):
            return [], self.bound["param:" + e.id]
        if isinstance(e, ast.IfExp):
            t, neg = e.test, False
            if isinstance(t, ast.UnaryOp) and isinstance(t.op, ast.Not):
                t, neg = t.operand, True
            fld = self.isna_field(t)
            if fld is not None and fld in self.self_fields:
                # `A if not pd.isna(self.F) else B`: a missing value is `none`; inside A, `self.F` is the value that is present
                present, absent = (e.body, e.orelse) if neg else (e.orelse, e.body)
                saved = dict(getattr(self, "bound", {}))
                self.bound = dict(saved)
                self.bound[fld] = fld.replace(".", "_") + "_"
                b1, pt = self.expr(present)
                self.bound = saved
                b2, at = self.expr(absent)
                if b1 or b2:
                    raise Unsupported("raising branch of a conditional expression")
                return [], "(match self.%s with | some %s_ => %s | none => %s)" % (self.self_fields[fld], fld.replace(".", "_"), pt, at)
            b0, c = self.expr(e.test)
            b1, a = self.expr(e.body)
            b2, o = self.expr(e.orelse)
            if b0 or b1 or b2:
                raise Unsupported("raising part of a conditional expression")
            return [], "(if %s then %s else %s)" % (c, a, o)
        if isinstance(e, ast.Compare) and len(e.ops) == 1 and isinstance(e.ops[0], ast.Is) and isinstance(e.comparators[0], ast.Constant) \
                and e.comparators[0].value is True:
            b, a = self.expr(e.left)
            return b, "(decide (%s = true))" % a
        if isinstance(e, ast.Name) and e.id in self.consts:
            return [], chars(self.consts[e.id])
        if isinstance(e, ast.Dict) and all(isinstance(k, ast.Constant) and isinstance(k.value, str) for k in e.keys) \
                and all(isinstance(v, ast.Constant) and isinstance(v.value, int) and not isinstance(v.value, bool) for v in e.values):
            return [], "([" + ", ".join("(%s, (%d : Int))" % (chars(k.value), v.value) for k, v in zip(e.keys, e.values)) + "] : List (Str × Int))"
        if isinstance(e, ast.UnaryOp) and isinstance(e.op, ast.Not):
            b, t = self.expr(e.operand)
            return b, "(!%s)" % t
        if isinstance(e, ast.Compare) and len(e.ops) == 1 and isinstance(e.ops[0], ast.Is) and isinstance(e.comparators[0], ast.Attribute) \
                and isinstance(e.comparators[0].value, ast.Name) and e.comparators[0].value.id == "NodeIdType" \
                and isinstance(e.left, ast.Attribute) and isinstance(e.left.value, ast.Name) and e.left.value.id == "self" and e.left.attr == "nodeid_type":
            member = e.comparators[0].attr
            if member not in self.enum_values:
                raise Unsupported("NodeIdType." + member)
            return [], "(decide ((pyEnumValue self.ty) = %s))" % chars(self.enum_values[member])
        if isinstance(e, ast.Compare) and len(e.ops) == 1 and isinstance(e.ops[0], ast.In) and isinstance(e.comparators[0], ast.Name) \
                and e.comparators[0].id in self.litdicts:
            b, a = self.expr(e.left)
            return b, "(pyLitHas %s %s)" % (e.comparators[0].id, a)
        if isinstance(e, ast.Subscript) and isinstance(e.value, ast.Name) and e.value.id in self.litdicts:
            b, k = self.expr(e.slice)
            t = self.fresh()
            return b + [(t, "pyLitGet %s %s" % (e.value.id, k))], t
        if isinstance(e, ast.Call) and isinstance(e.func, ast.Attribute) and isinstance(e.func.value, ast.Name) and e.func.value.id == "self" \
                and not e.args and not e.keywords:
            if e.func.attr not in self.methods:
                raise Unsupported("self.%s()" % e.func.attr)
            t = self.fresh()
            return [(t, "%s self" % self.methods[e.func.attr])], t
        if isinstance(e, ast.Call) and isinstance(e.func, ast.Name) and e.func.id == "str" and len(e.args) == 1 and not e.keywords:
            b, a = self.expr(e.args[0])
            return b, "(pyFormat %s)" % a
        if isinstance(e, ast.Call) and isinstance(e.func, ast.Name) and e.func.id == "escape" and len(e.args) == 1 and not e.keywords:
            # only the standard library's `xml.sax.saxutils.escape`, and only when the module imports it under that name
            if ("xml.sax.saxutils", "escape") not in getattr(self, "imports", set()):
                raise Unsupported("escape is not xml.sax.saxutils.escape")
            b, a = self.expr(e.args[0])
            return b, "(pyXmlEscape %s)" % a
        if isinstance(e, ast.Call) and isinstance(e.func, ast.Attribute) and e.func.attr == "dumps" and isinstance(e.func.value, ast.Name) \
                and e.func.value.id == "json" and len(e.args) == 1 and len(e.keywords) == 1 and e.keywords[0].arg == "ensure_ascii" \
                and isinstance(e.keywords[0].value, ast.Constant) and e.keywords[0].value.value is False:
            if ("json", None) not in getattr(self, "imports", set()):
                raise Unsupported("json is not the standard json module")
            b, a = self.expr(e.args[0])
            return b, "(pyJsonDumps %s)" % a
        return TrProc.expr(self, e)

    def block_opt(self, stmts, ind):
        """functions that return `None` or a string (`Optional[str]`): `if pd.isna(self.F): return None  else: return E`,
        `return None`, `return E`; every path ends in a return"""
        pad = "  " * ind
        if not stmts:
            raise Unsupported("a path that falls off the end of the function")
        s, rest = stmts[0], stmts[1:]
        if isinstance(s, ast.Expr) and isinstance(s.value, ast.Constant):
            return self.block_opt(rest, ind)
        if isinstance(s, ast.Return):
            if s.value is None or (isinstance(s.value, ast.Constant) and s.value.value is None):
                return "%s.ok none\n" % pad
            b, t = self.expr(s.value)
            return self.binds(b, "%s.ok (some %s)\n" % (pad, t), ind)
        if isinstance(s, ast.If):
            t, neg = s.test, False
            if isinstance(t, ast.UnaryOp) and isinstance(t.op, ast.Not):
                t, neg = t.operand, True
            fld = self.isna_field(t)
            if fld is None or fld not in self.self_fields:
                raise Unsupported("condition of an Optional-returning function")
            absent = s.body + ([] if self.ends(s.body) else rest)
            present = (s.orelse or []) + ([] if (s.orelse and self.ends(s.orelse)) else rest)
            if neg:
                absent, present = present, absent
            a = self.block_opt(absent, ind + 1)
            saved = dict(getattr(self, "bound", {}))
            self.bound = dict(saved)
            self.bound[fld] = fld + "_"
            pr = self.block_opt(present, ind + 1)
            self.bound = saved
            return "%smatch self.%s with\n%s| none =>\n%s%s| some %s_ =>\n%s" % (pad, self.self_fields[fld], pad, a, pad, fld, pr)
        raise Unsupported(type(s).__name__)

    def note(self, s):
        if isinstance(s, ast.Assign) and len(s.targets) == 1 and isinstance(s.targets[0], ast.Name) and isinstance(s.value, ast.Dict):
            self.litdicts.add(s.targets[0].id)

    def block(self, stmts, ind):
        if stmts:
            self.note(stmts[0])
        return TrProc.block(self, stmts, ind)

    def stmts(self, body, ind, final):
        pad = "  " * ind
        if body:
            self.note(body[0])
            s, rest = body[0], body[1:]
            if isinstance(s, ast.Expr) and isinstance(s.value, ast.Constant):
                return self.stmts(rest, ind, final)
            if isinstance(s, ast.If):
                t, neg = s.test, False
                if isinstance(t, ast.UnaryOp) and isinstance(t.op, ast.Not):
                    t, neg = t.operand, True
                # `if pd.isna(self.F)` / `if pd.isna(param)` on an optional field or parameter: a `match`; in the branch where the
                # value is present, `self.F` / `param` is that value
                scrut = var = key = None
                fld = self.isna_field(t)
                if fld is not None and fld in self.self_fields:
                    scrut, var, key = "self.%s" % self.self_fields[fld], fld + "_", fld
                elif isinstance(t, ast.Call) and isinstance(t.func, ast.Attribute) and t.func.attr == "isna" and isinstance(t.func.value, ast.Name) \
                        and t.func.value.id == "pd" and len(t.args) == 1 and isinstance(t.args[0], ast.Name) and t.args[0].id in getattr(self, "opt_params", ()):
                    scrut, var, key = t.args[0].id, t.args[0].id + "_", "param:" + t.args[0].id
                if scrut is not None:
                    vs = self.mutated([s])
                    tup = vs[0] if len(vs) == 1 else "(" + ", ".join(vs) + ")"
                    absent, present = (s.orelse, s.body) if neg else (s.body, s.orelse)
                    a = self.stmts(absent, ind + 2, ".ok %s" % tup)
                    saved = dict(getattr(self, "bound", {}))
                    self.bound = dict(saved)
                    self.bound[key] = var
                    pr = self.stmts(present, ind + 2, ".ok %s" % tup)
                    self.bound = saved
                    txt = "%sbindE (match %s with\n%s  | none =>\n%s%s  | some %s =>\n%s%s  ) fun %s =>\n" % (pad, scrut, pad, a, pad, var, pr, pad, tup)
                    return txt + self.stmts(rest, ind, final)
            if isinstance(s, ast.AugAssign) and isinstance(s.op, ast.Add) and isinstance(s.target, ast.Name):
                b, t = self.expr(s.value)
                return self.binds(b, "%slet %s := %s ++ %s\n" % (pad, s.target.id, s.target.id, t) + self.stmts(rest, ind, final), ind)
        return TrProc.stmts(self, body, ind, final)


def module_consts(tree):
    out = {}
    for n in tree.body:
        if isinstance(n, ast.Assign) and len(n.targets) == 1 and isinstance(n.targets[0], ast.Name) \
                and isinstance(n.value, ast.Constant) and isinstance(n.value.value, str):
            out[n.targets[0].id] = n.value.value
    return out


def module_imports(tree):
    """{(module, name)} for `from module import name` and {(module, None)} for `import module`, without aliases"""
    out = set()
    for n in tree.body:
        if isinstance(n, ast.ImportFrom):
            for a in n.names:
                if a.asname is None:
                    out.add((n.module, a.name))
        elif isinstance(n, ast.Import):
            for a in n.names:
                if a.asname is None:
                    out.add((a.name, None))
    return out


def enum_members(tree, cls):
    out = {}
    for n in find(tree, cls).body:
        if isinstance(n, ast.Assign) and len(n.targets) == 1 and isinstance(n.targets[0], ast.Name) \
                and isinstance(n.value, ast.Constant) and isinstance(n.value.value, str):
            out[n.targets[0].id] = n.value.value
    return out


PARTIAL = "--partial" in sys.argv


def guard(thunk):
    """--partial: a function that leaves the subset is reported and left out; the others are still generated"""
    try:
        return thunk()
    except Unsupported as u:
        if not PARTIAL:
            raise
        return "\0" + str(u)


def drop_unsupported(out):
    res = []
    for x in out:
        if x.startswith("\0"):
            header = res.pop()
            res.pop()                       # its doc comment
            name = header.split()[1] if header.startswith("def ") else "?"
            res.append("-- UNSUPPORTED %s: %s" % (name, x[1:]))
        else:
            res.append(x)
    return res


def main():
    repo = [a for a in sys.argv[1:] if not a.startswith("--")][0]
    vp = ast.parse(open(os.path.join(repo, "opcua_tools", "value_parser.py"), encoding="utf-8").read())
    dt = ast.parse(open(os.path.join(repo, "opcua_tools", "ua_data_types.py"), encoding="utf-8").read())
    out = ["import OpcuaModel.Gen.PyPrims",
           "/-! GENERATED by translator/py2lean.py from opcua_tools/value_parser.py and opcua_tools/ua_data_types.py — do not edit. -/",
           "namespace Opcua.Gen", "open Opcua", ""]
    try:
        f = find(vp, "cached_parse_nodeid")
        out.append("/-- `value_parser.cached_parse_nodeid` -/")
        out.append("def cached_parse_nodeid (%s : Str) : Except PyErr (Int × IdType × Str) :=" % f.args.args[0].arg)
        out.append(guard(lambda: Tr().block(f.body, 1)))
        f = find(vp, "parse_nodeid")
        a = [x.arg for x in f.args.args]
        out.append("/-- `value_parser.parse_nodeid`; an absent map / alias table is `none` -/")
        out.append("def parse_nodeid (%s : Str) (%s : Option (List (Int × Int))) (%s : Option (List (Str × NodeId))) : Except PyErr NodeId :=" % tuple(a))
        out.append(guard(lambda: Tr().block(f.body, 1)))
        f = find(dt, "UANodeId.__str__")
        out.append("/-- `UANodeId.__str__` -/")
        out.append("def nodeid_str (self : NodeId) : Except PyErr Str :=")
        out.append(guard(lambda: Tr({"namespace": "ns", "value": "ident", "nodeid_type": "ty"}).block(f.body, 1)))
        if True:
            npm = ast.parse(open(os.path.join(repo, "opcua_tools", "nodeset_parser.py"), encoding="utf-8").read())
            f = find(npm, "extend_namespace_map")
            a = [x.arg for x in f.args.args]
            tr = TrProc()
            vs = tr.mutated(f.body)
            out.append("/-- `nodeset_parser.extend_namespace_map`: returns the final values of the arguments it mutates -/")
            out.append("def extend_namespace_map (%s : List Str) (%s : List Str) (%s : List (Int × Int)) : Except PyErr (%s) :=" %
                       (a[0], a[1], a[2], " × ".join("List Str" if v == a[0] else "List (Int × Int)" for v in vs)))
            out.append(guard(lambda: tr.stmts(f.body, 1, ".ok (%s)" % ", ".join(vs))))
            ug = ast.parse(open(os.path.join(repo, "opcua_tools", "ua_graph.py"), encoding="utf-8").read())
            f = find(ug, "UAGraph._get_namespace_list")
            a = [x.arg for x in f.args.args]
            tr = TrProc()
            tr.assoc = (a[0],)
            out.append("")
            out.append("/-- `UAGraph._get_namespace_list` (a static method): the dict is an association list in insertion order -/")
            out.append("def get_namespace_list (%s : List (Int × Str)) : Except PyErr (List Str) :=" % a[0])
            out.append(guard(lambda: tr.stmts(f.body, 1, ".error .typeError")))
            nid = {"namespace": "ns", "value": "ident", "nodeid_type": "ty"}
            consts, enums = module_consts(dt), enum_members(dt, "NodeIdType")
            meths = {"__str__": "nodeid_str", "nodeid_type_value_to_int": "nodeid_type_value_to_int"}
            out.append("")
            f = find(dt, "UANodeId.nodeid_type_value_to_int")
            out.append("/-- `UANodeId.nodeid_type_value_to_int` -/")
            out.append("def nodeid_type_value_to_int (self : NodeId) : Except PyErr Int :=")
            out.append(guard(lambda: TrAcc(nid, consts, enums, meths).block(f.body, 1)))
            f = find(dt, "UANodeId.xml_encode")
            out.append("/-- `UANodeId.xml_encode` -/")
            out.append("def nodeid_xml_encode (self : NodeId) (%s : Bool) : Except PyErr Str :=" % f.args.args[1].arg)
            out.append(guard(lambda: TrAcc(nid, consts, enums, meths).stmts(f.body, 1, ".error .typeError")))
            f = find(dt, "UANodeId.json_encode")
            out.append("/-- `UANodeId.json_encode` -/")
            out.append("def nodeid_json_encode (self : NodeId) : Except PyErr Str :=")
            out.append(guard(lambda: TrAcc(nid, consts, enums, meths).stmts(f.body, 1, ".error .typeError")))
            qn = {"namespace_index": "ns", "name": "name"}
            out.append("")
            f = find(dt, "UAQualifiedName.xml_encode")
            out.append("/-- `UAQualifiedName.xml_encode` -/")
            out.append("def qname_xml_encode (self : QName) (%s : Bool) : Except PyErr Str :=" % f.args.args[1].arg)
            out.append(guard(lambda: TrAcc(qn, consts, enums, {}).stmts(f.body, 1, ".error .typeError")))
            f = find(dt, "UAQualifiedName.json_encode")
            out.append("/-- `UAQualifiedName.json_encode` -/")
            out.append("def qname_json_encode (self : QName) : Except PyErr Str :=")
            out.append(guard(lambda: TrAcc(qn, consts, enums, {}).stmts(f.body, 1, ".error .typeError")))
            out.append("")
            for cls, kind in (("UASByte", "sbyte"), ("UAByte", "byte"), ("UAInt16", "int16"), ("UAUInt16", "uint16"),
                              ("UAInt32", "int32"), ("UAUInt32", "uint32"), ("UAInt64", "int64"), ("UAUInt64", "uint64")):
                f = find(dt, cls + ".xml_encode")
                out.append("/-- `%s.xml_encode`; a missing value (`pd.NA`) is `none` -/" % cls)
                out.append("def int_xml_encode_%s (self : IntVal) (%s : Bool) : Except PyErr Str :=" % (kind, f.args.args[1].arg))
                out.append(guard(lambda: TrAcc({"value": "value"}, consts, enums, {}).stmts(f.body, 1, ".error .typeError")))
            f = find(dt, "UABoolean.xml_encode")
            out.append("/-- `UABoolean.xml_encode`; a missing value (`pd.NA`) is `none` -/")
            out.append("def bool_xml_encode (self : BoolVal) (%s : Bool) : Except PyErr Str :=" % f.args.args[1].arg)
            out.append(guard(lambda: TrAcc({"value": "value"}, consts, enums, {}).stmts(f.body, 1, ".error .typeError")))
            out.append("")
            for cls, kind in (("UASByte", "sbyte"), ("UAByte", "byte"), ("UAInt16", "int16"), ("UAUInt16", "uint16"),
                              ("UAInt32", "int32"), ("UAUInt32", "uint32")):
                f = find(dt, cls + ".json_encode")
                out.append("/-- `%s.json_encode` (the `functools.cache` decorator is not part of the translation); `None` is `none` -/" % cls)
                out.append("def int_json_encode_%s (self : IntVal) : Except PyErr (Option Str) :=" % kind)
                out.append(guard(lambda: TrAcc({"value": "value"}, consts, enums, {}).block_opt(f.body, 1)))
            out.append("")
            imports = module_imports(dt)

            def acc(fields):
                t = TrAcc(fields, consts, enums, {})
                t.imports = imports
                return t
            f = find(dt, "UAString.xml_encode")
            out.append("/-- `UAString.xml_encode` (inherited by `UAGuid`); `escape` is `xml.sax.saxutils.escape` -/")
            out.append("def str_xml_encode (self : StrVal) (%s : Bool) : Except PyErr Str :=" % f.args.args[1].arg)
            out.append(guard(lambda: acc({"value": "value"}).stmts(f.body, 1, ".error .typeError")))
            f = find(dt, "UAString.json_encode")
            out.append("/-- `UAString.json_encode` (the `functools.cache` decorator is not part of the translation) -/")
            out.append("def str_json_encode (self : StrVal) : Except PyErr (Option Str) :=")
            out.append(guard(lambda: acc({"value": "value"}).block_opt(f.body, 1)))
            f = find(dt, "UALocalizedText.xml_encode")
            out.append("/-- `UALocalizedText.xml_encode` -/")
            out.append("def loctext_xml_encode (self : LocText) (%s : Bool) : Except PyErr Str :=" % f.args.args[1].arg)
            out.append(guard(lambda: acc({"text": "text", "locale": "locale"}).stmts(f.body, 1, ".error .typeError")))
            f = find(dt, "UALocalizedText.json_encode")
            t = acc({"text": "text", "locale": "locale"})
            a = [x.arg for x in f.args.args]
            if len(a) != 2 or len(f.args.defaults) != 1 or not (isinstance(f.args.defaults[0], ast.Constant) and f.args.defaults[0].value is None):
                raise Unsupported("signature of UALocalizedText.json_encode")
            t.opt_params = (a[1],)
            out.append("/-- `UALocalizedText.json_encode`; the optional `%s` (default `None`) is an `Option` -/" % a[1])
            out.append("def loctext_json_encode (self : LocText) (%s : Option Str) : Except PyErr Str :=" % a[1])
            out.append(guard(lambda: t.stmts(f.body, 1, ".error .typeError")))
            f = find(dt, "UAEUInformation.xml_encode")
            out.append("/-- `UAEUInformation.xml_encode` -/")
            out.append("def euinfo_xml_encode (self : EUInfo) (%s : Bool) : Except PyErr Str :=" % f.args.args[1].arg)
            out.append(acc({"namespace_uri": "namespace_uri", "unit_id": "unit_id", "display_name.locale": "display_name.locale", "display_name.text": "display_name.text",
                            "description.locale": "description.locale", "description.text": "description.text"}).stmts(f.body, 1, ".error .typeError"))
    except Unsupported as u:
        print("UNSUPPORTED: %s" % u, file=sys.stderr)
        sys.exit(3)
    out.append("end Opcua.Gen")
    print("\n".join(drop_unsupported(out)))


main()

#!/usr/bin/env python3
"""tools/harmconfirm.py <area> <k> : apply a behaviour-preserving rewrite produced by a sub-agent (/tmp/harm_out/<area>/r<k>) to /repo's
WORKING TREE, run every check (quick, VERIF_SEED=0) and record which of them raise an alarm; always restores /repo.
Result in /verif/seeded/harmless/<area>-<k>/ ."""
import json
import os
import shutil
import subprocess
import sys
from concurrent.futures import ThreadPoolExecutor

VERIF = os.path.dirname(os.path.dirname(os.path.abspath(__file__)))
REPO = "/repo"


def sh(cmd, **kw):
    return subprocess.run(cmd, shell=True, capture_output=True, text=True, **kw)


def one(pid):
    c = sh("./check %s --tier quick" % pid, cwd=VERIF, env=dict(os.environ, VERIF_SEED="0"), timeout=3000)
    out = c.stdout + c.stderr
    return pid, c.returncode, [l for l in out.splitlines() if l.startswith(("VIOLATION", "INFRA"))][:3]


def main():
    area, k = sys.argv[1], sys.argv[2]
    src = "/tmp/harm_out/%s/r%s" % (area, k)
    dst = os.path.join(VERIF, "seeded", "harmless", "%s-%s" % (area, k))
    if "--reconfirm" in sys.argv:
        src = dst
    assert sh("git -C %s status --porcelain" % REPO).stdout.strip() == "", "repo working tree not clean"
    ids = [c["property_id"] for c in json.load(open(os.path.join(VERIF, "MANIFEST.json")))["checks"]]
    res = {"area": area, "rewrite": int(k)}
    try:
        a = sh("git -C %s apply %s" % (REPO, os.path.join(src, "patch.diff")))
        res["applies"] = a.returncode == 0
        if a.returncode == 0:
            sh("cd %s/lean && lake build" % VERIF)
            with ThreadPoolExecutor(10) as ex:
                rs = list(ex.map(one, ids))
            res["checks"] = {p: {"exit": rc, "lines": ls} for p, rc, ls in rs}
        else:
            res["apply_error"] = a.stderr[-400:]
    finally:
        sh("git -C %s checkout -- ." % REPO)
        sh("git -C %s clean -fdq -- opcua_tools" % REPO)
    res["alarms"] = sorted(p for p, v in res.get("checks", {}).items() if v["exit"] != 0)
    os.makedirs(dst, exist_ok=True)
    for f in ("patch.diff", "meta.json", "probe.py"):
        if src != dst and os.path.exists(os.path.join(src, f)):
            shutil.copy(os.path.join(src, f), os.path.join(dst, f))
    json.dump(res, open(os.path.join(dst, "result.json"), "w"), indent=1)
    print(area, k, "applies" if res.get("applies") else "DOES-NOT-APPLY", "alarms:", res["alarms"], {p: res["checks"][p]["lines"] for p in res["alarms"]} if res.get("checks") else "")


main()

#!/usr/bin/env python3
"""tools/seedresults.py : seeded/RESULTS.md from seeded/*/meta.json and result.json"""
import glob
import json
import os

VERIF = os.path.dirname(os.path.dirname(os.path.abspath(__file__)))
rows = []
for d in sorted(glob.glob(os.path.join(VERIF, "seeded", "C*-*"))):
    try:
        m = json.load(open(os.path.join(d, "meta.json")))
        r = json.load(open(os.path.join(d, "result.json")))
    except Exception:  # noqa: BLE001
        continue
    chk = r.get("check", {})
    first = next((s for s in sorted(chk) if chk[s]["exit"] == 1), None)
    line = ""
    if first is not None:
        line = next((l for l in chk[first]["lines"] if l.startswith("VIOLATION")), "")
    rows.append((os.path.basename(d), m.get("title", "")[:150], ", ".join(m.get("files", [])), r.get("confirmed_breaks_property"), r.get("suite_tail_mutated", "").split(",")[0:2],
                 "detected (seed %s)" % first if first is not None else "MISSED: exits %r" % {s: v["exit"] for s, v in chk.items()},
                 "no-failing-input-found" if "no-failing-input-found" in line else ("failing input" if line else "")))
out = ["# Seeded changes: results", "",
       "Each change was written by a fresh sub-agent that saw only the property's text and its own scratch worktree of the repository. "
       "`confirmed` = the agent's demonstration script exits 1 with the patch applied to /repo's working tree and 0 on the clean tree (run by tools/seedconfirm.py). "
       "`suite` = tail of the repository's own test suite with the patch applied (the unchanged tree gives 5 failed, 131 passed). "
       "`check` = `./check <property> --tier quick` with VERIF_SEED=0, then 1 if 0 did not report; the patch is removed again with `git checkout -- .`.", "",
       "| seed | change | files | confirmed | suite | check | replay kind |", "|---|---|---|---|---|---|---|"]
for r in rows:
    out.append("| %s | %s | %s | %s | %s | %s | %s |" % (r[0], r[1].replace("|", "/"), r[2], r[3], " ".join(x.strip() for x in r[4]), r[5], r[6]))
det = sum(1 for r in rows if r[5].startswith("detected"))
out += ["", "%d of %d seeded changes are reported by the check of their property on the committed machinery." % (det, len(rows)), ""]
open(os.path.join(VERIF, "seeded", "RESULTS.md"), "w").write("\n".join(out))
print("%d/%d detected" % (det, len(rows)))

#!/usr/bin/env python3
"""tools/seedconfirm.py <property> <k> [--suite] : confirm a seeded change produced by a sub-agent under /tmp/seed_out/<property>/m<k>
and record it in /verif/seeded/<property>-<k>/ . Applies the patch to /repo's WORKING TREE only and always restores it."""
import json
import os
import shutil
import subprocess
import sys

VERIF = os.path.dirname(os.path.dirname(os.path.abspath(__file__)))
REPO = "/repo"


def sh(cmd, **kw):
    return subprocess.run(cmd, shell=True, capture_output=True, text=True, **kw)


def main():
    prop, k = sys.argv[1], sys.argv[2]
    suite = "--suite" in sys.argv
    base = sys.argv[sys.argv.index("--src") + 1] if "--src" in sys.argv else "/tmp/seed_out"
    name = sys.argv[sys.argv.index("--as") + 1] if "--as" in sys.argv else k
    src = "%s/%s/m%s" % (base, prop, k)
    dst = os.path.join(VERIF, "seeded", "%s-%s" % (prop, name))
    if "--reconfirm" in sys.argv:          # the committed copy is the source: seedconfirm.py C05 3 --reconfirm
        src = dst = os.path.join(VERIF, "seeded", "%s-%s" % (prop, k))
    assert os.path.exists(os.path.join(src, "patch.diff")), src
    assert sh("git -C %s status --porcelain" % REPO).stdout.strip() == "", "repo working tree not clean"
    res = {"property": prop, "mutation": int(k)}
    env = dict(os.environ, PYTHONPATH=REPO, PYTHONHASHSEED="0")
    demo = os.path.join(src, "demonstration.py")
    try:
        a = sh("git -C %s apply %s" % (REPO, os.path.join(src, "patch.diff")))
        res["applies"] = a.returncode == 0
        if a.returncode != 0:
            res["apply_error"] = a.stderr[-500:]
        else:
            d = sh("/venv/bin/python -B %s" % demo, env=env, cwd="/tmp", timeout=600)
            res["demonstration_exit_mutated"] = d.returncode
            res["demonstration_tail_mutated"] = (d.stdout + d.stderr)[-600:]
            checks = {}
            for seed in ("0", "1"):
                c = sh("./check %s --tier quick" % prop, cwd=VERIF, env=dict(os.environ, VERIF_SEED=seed), timeout=3000)
                out = c.stdout + c.stderr
                checks[seed] = {"exit": c.returncode, "lines": [l for l in out.splitlines() if l.startswith(("VIOLATION", "KNOWN-FINDING", "INFRA")) or " seed=" in l][-6:]}
                if c.returncode == 1:
                    # keep the replay the check wrote
                    for l in out.splitlines():
                        if l.startswith("VIOLATION") and "replay=" in l:
                            rp = l.split("replay=")[1].split()[0]
                            try:
                                body = json.load(open(os.path.join(VERIF, rp)))
                                checks[seed]["replay_detail"] = json.dumps(body.get("detail"), ensure_ascii=False, default=str)[:700]
                            except Exception:  # noqa: BLE001
                                pass
                            break
                    break
            res["check"] = checks
            if suite:
                t = sh("cd %s && /venv/bin/python -m pytest -q -p no:cacheprovider --timeout=900 --continue-on-collection-errors 2>&1 | tail -1" % REPO, timeout=3000)
                res["suite_tail_mutated"] = t.stdout.strip()
    finally:
        sh("git -C %s checkout -- ." % REPO)
        sh("git -C %s clean -fdq -- opcua_tools" % REPO)
    d = sh("/venv/bin/python -B %s" % demo, env=env, cwd="/tmp", timeout=600)
    res["demonstration_exit_clean"] = d.returncode
    res["detected"] = any(v["exit"] == 1 for v in res.get("check", {}).values())
    res["confirmed_breaks_property"] = res.get("demonstration_exit_mutated") == 1 and res["demonstration_exit_clean"] == 0
    os.makedirs(dst, exist_ok=True)
    prev = os.path.join(dst, "result.json")
    if os.path.exists(prev) and "suite_tail_mutated" not in res:
        try:
            old_res = json.load(open(prev))
            if "suite_tail_mutated" in old_res:
                res["suite_tail_mutated"] = old_res["suite_tail_mutated"]
        except Exception:  # noqa: BLE001
            pass
    res["repo_head"] = sh("git -C %s rev-parse --short HEAD" % REPO).stdout.strip()
    for f in ("patch.diff", "demonstration.py", "demonstration.txt", "meta.json"):
        if src != dst and os.path.exists(os.path.join(src, f)):
            shutil.copy(os.path.join(src, f), os.path.join(dst, f))
    json.dump(res, open(os.path.join(dst, "result.json"), "w"), indent=1, ensure_ascii=False)
    print(prop, k, "applies" if res.get("applies") else "DOES-NOT-APPLY", "demo mutated/clean = %s/%s" % (res.get("demonstration_exit_mutated"), res["demonstration_exit_clean"]),
          "check:", {s: v["exit"] for s, v in res.get("check", {}).items()}, res.get("suite_tail_mutated", ""))


main()

#!/bin/bash
# tools/seedsweep.sh "<seeds>" [names...] : detection rate of every seeded change across several VERIF_SEED values.
# Each change is applied to ITS OWN scratch copy of /repo (VERIF_REPO), so the runs are independent and parallel;
# /repo itself is not touched. Output: seeded/SWEEP.md
cd "$(dirname "$0")/.."
SEEDS=${1:-"2 3 5"}; shift
NAMES=${@:-$(ls seeded | grep -E '^C[0-9]+-[0-9]+$')}
ROOT=$(mktemp -d /tmp/opcua_sweep_XXXX)
(cd lean && lake build >/dev/null 2>&1)
for n in $NAMES; do
  mkdir -p $ROOT/$n && rsync -a --exclude .git --exclude tests/output /repo/ $ROOT/$n/ && (cd $ROOT/$n && git apply /verif/seeded/$n/patch.diff 2>/dev/null || echo "$n DOES-NOT-APPLY" >> $ROOT/noapply)
done
for n in $NAMES; do for s in $SEEDS; do echo "$n $s"; done; done | xargs -P 12 -L 1 bash -c 'p=${0%%-*}; out=$(VERIF_REPO='"$ROOT"'/$0 VERIF_SEED=$1 ./check $p --tier quick 2>&1); rc=$?; echo "$0 seed=$1 exit=$rc"' > $ROOT/results.txt
python3 - "$ROOT/results.txt" "$SEEDS" <<'PY'
import sys,collections
res=collections.defaultdict(dict)
for l in open(sys.argv[1]):
    n,s,e=l.split(); res[n][s.split('=')[1]]=e.split('=')[1]
seeds=sys.argv[2].split()
out=["# Detection of the seeded changes across seeds","","`./check <property> --tier quick` with VERIF_REPO pointing at a scratch copy of /repo that has the change applied; exit 1 = reported.","","| seed | "+" | ".join("VERIF_SEED=%s"%s for s in seeds)+" |","|---|"+"---|"*len(seeds)]
tot=collections.Counter()
for n in sorted(res):
    out.append("| %s | %s |"%(n," | ".join({"1":"reported","0":"not reported","2":"exit 2"}.get(res[n].get(s,"?"),"?") for s in seeds)))
    for s in seeds: tot[res[n].get(s,"?")]+=1
out+=["","totals: %s"%dict(tot),""]
open("seeded/SWEEP.md","w").write("\n".join(out)); print(dict(tot))
PY
cat $ROOT/noapply 2>/dev/null
rm -rf $ROOT
git checkout -- evidence 2>/dev/null

#!/bin/bash
# tools/leancheck.sh : re-check the compiled property modules with the toolchain's independent checker
cd "$(dirname "$0")/../lean" && lake build >/dev/null 2>&1 && \
lake env leanchecker $(for i in $(seq -w 1 20); do echo OpcuaModel.Props.C$i; done) OpcuaModel.Gen.PyPrims OpcuaModel.Gen.NodeIdGen OpcuaModel.Gen.NodeIdTie

#!/bin/bash
# tools/runall.sh [tier] [seeds...] : run every registered check for the given seeds in parallel; prints one line per run
cd "$(dirname "$0")/.."
TIER=${1:-quick}; shift
SEEDS=${@:-0 1 2}
IDS=$(python3 -c "import json;print(' '.join(c['property_id'] for c in json.load(open('MANIFEST.json'))['checks']))")
(cd lean && lake build >/dev/null 2>&1)
for s in $SEEDS; do for p in $IDS; do echo "$s $p"; done; done | xargs -P 12 -L 1 bash -c 'out=$(VERIF_SEED=$0 ./check $1 --tier '"$TIER"' 2>&1); rc=$?; echo "seed=$0 $1 exit=$rc $(echo "$out" | grep -c KNOWN-FINDING) known $(echo "$out" | grep VIOLATION | head -2 | tr "\n" " ")"'

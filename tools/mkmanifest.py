#!/usr/bin/env python3
"""Regenerates MANIFEST.json from the table below (run after adding a check)."""
import json, os
HERE = os.path.dirname(os.path.dirname(os.path.abspath(__file__)))
ALL = ["C%02d" % i for i in range(1, 21)]
# id -> (technique, level text, level note, design ref)
CHECKS = {
 "C09": ("Lean 4 theorems about a hand model of cached_parse_nodeid/parse_nodeid/UANodeId.__str__ (round trip for every NodeId, soundness of the accepted language) + differential correspondence of the model's executable definitions against /repo on exhaustive and random texts",
         "Machine-checked proof (Lean 4 kernel): parse(print n) = n for every namespace index (any Int), identifier type and identifier string; mapped / unmapped / alias cases; no_misread: everything accepted decomposes as [ns=<int>;]<t>=<ident>. The theorems are about the model; the model is tied to the current /repo source on every run by executing model and implementation on the same texts (all 37 449 texts up to length 5 over the syntax alphabet, 5 000 printed random NodeIds, mutations, maps, aliases) and by an independent grammar oracle evaluated on the real code.",
         "Trusted: Lean kernel, the prelude's model of str.split/lstrip/int/str(int) (validated by the same run), the driver's JSON decoding, the harness. Assumes str identifiers and ASCII digits in int()/isdigit().",
         "DESIGN.md section 3 C09"),
 "C12": ("Lean 4 theorems about a hand model of fast_transitive_closure (Boolean-matrix squaring to a fixed point), typing_transitive_reflexive, subtypes/supertypes, constrain_to_reference_type, the modelling-rule selectors and find_circular_reference_nodes + differential correspondence against /repo",
         "Machine-checked proof: closure_iff_reach ((a,b) in closure E <-> a != b and TransGen edge a b, for every finite edge list, fuel |V|^2+1 proved sufficient), closure_nodup, subtypes_iff / supertypes_iff (ReflTransGen along HasSubtype for types that occur), constrain_exact, mr_partition, circular_exact. Tie: model and implementation run on all 4096 digraphs on 4 nodes, random graphs with parallel edges, random reference-type hierarchies; a BFS oracle evaluates the property directly on the real code.",
         "Trusted: Lean kernel + Mathlib.Logic.Relation, the list model of pandas joins / scipy sparse products, driver, harness, BFS oracle. Hypotheses: no self-loops (asserted by the code); selector type occurs in some reference (else known finding D-C12a).",
         "DESIGN.md section 3 C12"),
 "C13": ("Lean 4 theorems about a hand model of find_relatives (level-by-level join) and create_node_paths_by_reference_types + differential correspondence against /repo",
         "Machine-checked proof: findRelatives_iff (a row is produced iff it is a walk of <= cutoff edges from a start node), findRelatives_count (multiplicity = number of start occurrences x edge sequences; parallel edges are distinct walks), dag_walk_bound / findRelativesNoCutoff_iff (on acyclic edges the level loop enumerates all walks), nodePaths_iff. Tie: all 64 topologically labelled 4-node DAGs x directions x cut-offs x keep_paths, random DAGs, random trees with hostile browse names; a DFS oracle evaluates the property on the real code.",
         "Trusted: Lean kernel, list model of pandas inner join / melt / groupby, driver, harness, DFS oracle. Domain: acyclic edges when no cut-off; node paths on trees.",
         "DESIGN.md section 3 C13"),
 "C14": ("Lean 4 theorems about a hand model of lt/le/gt/ge, dataclass ==, row sorting and id denormalisation + differential correspondence against /repo and a metamorphic check on real graphs",
         "Machine-checked proof: lt is a strict weak order on (class name, printed tuple) keys (lt_irrefl, lt_trans, lt_trichotomy), le_iff_not_lt, sort_canonical (sorted table depends only on the multiset of rows), renumber_invariant / renumber_invariant_refs (normalised tables invariant under injective id renumbering + row permutation), eq_implies_same_fields, eq_no_error with witness eq_na_witness. Tie: all pairs of a value pool (operators vs model, trichotomy, eq=>hash, no exception), pandas sort_values vs the model's sortRows, real UAGraph shuffled and renumbered.",
         "Trusted: Lean kernel, CPython str ordering and dataclass eq/hash, pandas sort_values, driver, harness. Known finding D-C14a (== raises with one-sided pd.NA).",
         "DESIGN.md section 3 C14"),
 "C01": ("Lean 4 theorems about a hand model of iterparse_xml / process_elem_batch / parse_node_attrib / get_attrib_df / the browse-name split + differential correspondence against /repo with the generator's abstract graph as oracle",
         "Machine-checked proof: rows_pointwise (one row per node element, row i from element i), batch_invariant (result independent of the batch size, for every document), row_fields / attrs_exact (every field and attribute of the element, none added or dropped), browse_split_partial (+ witness of finding D-C01a), rstrip_spec, firstText_spec, node_ref_attr_denotes, absent_attr_missing. Tie: ~110 generated document sets per quick run parsed by the real code and by the model (rows compared cell by cell), each also compared with the abstract graph it was serialised from; iterparse_xml with small batch sizes; thorough adds a 52 000-node document crossing the real batch.",
         "Trusted: Lean kernel, lxml (text -> infoset), list model of pandas from_records/convert_dtypes/astype, driver, harness, generator. Recorded findings D-C01a..i are printed as KNOWN-FINDING and excluded from the supported domain.",
         "DESIGN.md section 3 C01"),
 "C02": ("Lean 4 theorems about a hand model of findrefs / fix_ref_attrib / explode / IsForward swap / drop_duplicates + differential correspondence and metamorphic serialisation check against /repo",
         "Machine-checked proof: refs_sound_complete (table = declared relation, nothing lost or invented, dangling end points kept), refs_nodup, parseRef_oriented, serialisation_perm, files_refs (union over files, each triple once). Tie: generated relations serialised several ways (source/target/both, forward/inverse, alias/literal, one or two files), real table vs model vs abstract relation.",
         "Trusted: Lean kernel, lxml infoset, list model of pandas explode/drop_duplicates, driver, harness, generator.",
         "DESIGN.md section 3 C02"),
 "C03": ("Lean 4 theorems about a hand model of extend_namespace_map, the namespace_map dict, the UA-namespace insertion and _get_namespace_list + differential correspondence and metamorphic permutation check against /repo",
         "Machine-checked proof: extend_prefix / caller_prefix, extend_nodup, extend_mem, extend_correct, head_is_ua, lookup_nsMapOf, parsed_id_denotes (an id written with local index k+1 gets the global index of the document's k-th URI), undeclared_index_rejected, denotation_independent, earlier_ids_stable, namespaceList_at. Tie: document sets under permuted NamespaceUris, both file orders and seven caller-list shapes; resolved content must be identical and equal to the abstract graph; the two helper functions compared directly with the model.",
         "Trusted: Lean kernel, lxml infoset, Python list.index/dict, driver, harness, generator. Hypothesis: caller list starts with the OPC UA namespace.",
         "DESIGN.md section 3 C03"),
 "C04": ("Lean 4 theorems about a hand model of normalize_wrt_nodeid (factorize + get_indexer) + differential correspondence (exact ids) against /repo",
         "Machine-checked proof: lookup_nodup, code_roundtrip, code_injective, code_sound, id_of_row, rows_ids_injective, refs_denormalize, attr_denormalize, absent_stays_absent, shape. Tie: generated document sets (ids occurring only as attribute targets / reference types, dangling ids) and synthetic frame pairs; the real lookup table, ids and denormalised columns vs the model and vs the bijection predicates evaluated directly.",
         "Trusted: Lean kernel, list model of pandas factorize/get_indexer, driver, harness.",
         "DESIGN.md section 3 C04"),
 "C08": ("Lean 4 theorems about a hand model of every xml_encode (text level) and of parse_value and its helpers (tree level), chained through a proved XML reader (XmlLite) + differential correspondence against /repo",
         "Machine-checked proof: encodeText_render (the concatenated text is the rendering of a layout tree), text_is_tree (a conforming reader recovers exactly the intended element tree from it, via parseXml_render), tree_roundtrip (parse_value maps that tree back to the value: integers exactly for all widths, tokens, text up to outer white space, DateTime fields via parseDT_print, EUInformation / Range structures, nested lists), decode_encode (end to end), int_text_roundtrip; negative witnesses for the recorded findings (null Boolean, Guid, NodeId, year < 1000). Tie: ~5 000 values per quick run: emitted text compared with the model's string, decode(encode v) evaluated on the real code with lxml, decoded value compared with the model's decodeT on the same infoset, XmlLite compared with lxml on the emitted fragments, CPython codec laws sampled.",
         "Trusted: Lean kernel, CPython float/str, base64, strftime(glibc), dateutil on the printed format (tokens are opaque in the model), lxml, driver, harness. Extension objects / raw XML are compared as trees. Recorded findings D-C08b,c,e,f,g,h,j.",
         "DESIGN.md section 3 C08"),
 "C05": ("Lean 4 junction theorems composing the stage theorems of C01-C03 and C06-C09 (each about a model tied to /repo) + the real parse -> write -> parse executed on generated multi-namespace graphs",
         "Machine-checked proof of the junctions: nodeid_junction (printed NodeId read back to the same URI through the document's own table), browse_junction, value_junction (= C08.decode_encode), int_attr_junction / bool_attr_junction, ref_junction (inverse-on-target and forward-on-source both read as (source, target, type)). The end-to-end statement RoundTrip is kept visible and is not proved as one theorem (partial): it is composed from the stage theorems and decided per run by executing the real round trip and comparing nodes, attributes, values, reference triples, namespaces and model metadata.",
         "Trusted: as C01/C06/C08 plus the harness comparison. Supported domain excludes the recorded findings D-C01a,c, D-C05b,c, D-C06a,b and value classes outside C08's domain.",
         "DESIGN.md section 3 C05"),
 "C06": ("Lean 4 theorems about a hand model of write_nodeset / find_namespaces_in_use / reindexing / generate_references_xml / remove_instance_level_outgoing_references + differential correspondence against /repo + an independent NodeSet2 reader",
         "Machine-checked proof: outgoing_filter_exact, createNodeset_inv, nodes_exact (one element per row of the written namespace, a sub-list of the rows), position_one_is_U (sorted in-use list: index 1 is the written namespace iff 0 is in use — the hypothesis the proof forces, finding D-C06b), refs_placed / placeRef_owner (each reference once, inverse on the target when the target is written, else forward on the source), ids_resolve. Tie: every non-base namespace of generated graphs written with both switch values; the infoset of the real text equals the model's document; an independent reader's view equals the graph's part for U.",
         "Trusted: Lean kernel, list model of the pandas joins (sibling order not modelled), lxml, the harness reader, generator. Recorded findings D-C06a,b.",
         "DESIGN.md section 3 C06"),
 "C07": ("Lean 4 theorems: lexical safety of both escaping functions, every written node element is the rendering of a layout tree that the proved XML reader (XmlLite) reads back exactly; byte-level correspondence of the whole document text against /repo; lxml + the bundled XSD on every generated document",
         "Machine-checked proof: text_never_breaks_markup, attr_never_breaks_markup (every string), plain_escape_not_attr_safe (witness of the repaired defect), nodeText_render + node_wellformed (parseXml (nodeText n) = the intended tree for every row: any characters in NodeId, names, texts, reference targets, supported values), node_attrs_recovered, first_uri_and_model. Tie: the model's renderDoc text equals the real text byte for byte up to the order of sibling nodes / Reference children; well-formedness, schema validity, first-URI/model and declared indices are decided by lxml and the bundled XSD on every generated document.",
         "Trusted: Lean kernel; XmlLite as the model of a conforming reader; schema validity is not proved (decided by lxml's XMLSchema per run); document-level reading proved per node element. Recorded finding D-C07e.",
         "DESIGN.md section 3 C07"),
 "C10": ("Lean 4 theorems about a hand model of json.dumps(ensure_ascii=False), every json_encode and a strict JSON reader (JsonLite) + differential correspondence against /repo with Python's json as independent reader",
         "Machine-checked proof: readBody_escBody / readString_quote (quote round trip for every string), readValue_quote, string_valid, bool_valid, int32_valid (str(int) is a JSON number token read back digit for digit), null_is_none; witnesses for D-C10a,b. Partial: object shapes (NodeId, LocalizedText, Variant, lists, extension objects) are decided by the correspondence (emitted text equals the model's) plus the shape/content oracle on the real output with json.loads. Tie: ~2 000 values per quick run, JsonLite vs Python json on emitted and mutated texts.",
         "Trusted: Lean kernel, CPython str(float) tokens, Python json as oracle, driver, harness. Recorded findings D-C10a..e.",
         "DESIGN.md section 3 C10"),
 "C11": ("Lean 4 theorems about a hand model of __validate_referenced_nodes_exists / missing_nodes and the *_by_browsename look-ups + differential correspondence against /repo",
         "Machine-checked proof: build_ok_iff_closed (the check passes iff every reference has a defined source and target), error_lists_exactly (sources first; exactly the references with a missing source, else exactly those with a missing target), lookup_unique, lookup_error_is_valueError, mem_candidates. Tie: generated closed sets with 0-3 node elements or a file removed: real construction outcome + NodeIds listed in the error text vs the model and vs the removal oracle; 400 look-ups (absent / unique / duplicated names, with and without class).",
         "Trusted: Lean kernel, list model of the pandas set algebra, the parsing of the error text (plain identifiers), driver, harness, generator.",
         "DESIGN.md section 3 C11"),
 "C16": ("Lean 4 theorems about a hand model of validate_values_in_df and DATA_TYPES_MAPPING + differential correspondence against /repo on the full class x built-in-type matrix, mixed frames and end-to-end writes",
         "Machine-checked proof: names_exact (the error names exactly the offending variables), offender_rejected, no_offender_accepted, never_offending (lists, enumerations, non-built-in DataTypes), missing_datatype_rejected, only_variables_with_values. Tie: 26 value classes x 31 DataType names, 200 mixed frames (real validate_values_in_df vs model vs oracle), 20 real graphs with an injected mismatch (ValidationError naming it, no output file).",
         "Trusted: Lean kernel, list model of the pandas masks, driver, harness. A structure value declaring a built-in DataType is treated as the code treats it (assumption recorded).",
         "DESIGN.md section 3 C16"),
 "C17": ("Lean 4 theorems about a hand model of transform_ints_to_enums / create_enum_definition_table / instantiate_enum_class + differential correspondence against /repo",
         "Machine-checked proof: frame_row (rows that are not enum-typed variables with a value are unchanged), only_value_changes / table_pointwise (one output row per input row; id, class, name, DataType kept), enum_attached (same integer, the defined string, the enumeration's name), enum_unknown, idempotent_row, xml_same_as_int32; witness of finding D-C17a. Tie: 60 generated documents per quick run (0-3 enumeration types with EnumStrings / EnumValues / no definition; scalar, list and missing values): the Value column after real construction vs the model applied to the parsed tables, plus the property evaluated directly (values, other columns, second application, XML form).",
         "Trusted: Lean kernel, list model of the pandas joins and of xmltodict on EnumValueType bodies, driver, harness, document builder. Graph-level idempotence is checked on the real code; proved at row level.",
         "DESIGN.md section 3 C17"),
 "C18": ("Lean 4 theorems about a hand model of the namespace-metadata helpers (XML and JSON side-file variants), get_xml_namespaces, exclude_files_not_in_namespaces and the models of the parse output + differential correspondence against /repo",
         "Machine-checked proof: models_as_declared (parse output lists the declared models, attributes and required models in order, nothing dropped or invented), helpers_agree (the XML and the JSON helper give the same name and the same set whenever a NamespaceUris element exists or the model is the OPC UA one) with helpers_disagree_witness for finding D-C18a, own_and_deps (name is the first model, own URI never among the dependencies, every other listed URI and the OPC UA namespace is), filter_exact / filter_sublist (a file is kept iff one of its model URIs is listed; order kept). Tie: 180 generated documents and 200 (file list, filter) pairs per quick run, both helpers, get_xml_namespaces, the filter and parse_xml_files()['models'] on the real code vs the model, plus the property evaluated directly; headers with comments and ServerUris (fixed defects D-C18b,c) are in the generated stream.",
         "Trusted: Lean kernel, model of the header pre-processing as the two lines that matter, lxml infoset, driver, harness, document builder.",
         "DESIGN.md section 3 C18"),
 "C19": ("Lean 4 theorems about a small-step model of the side-file protocol (one step per file-system / XML / JSON operation, a fault flag per operation) + differential correspondence and exhaustive fault injection against /repo",
         "Machine-checked proof: parse_restores (for EVERY set of failing operations a call on a directory without its side file ends with every path holding what it held before, outcome = lone result or the injected failure), run_terminates, parse_result, fault_restores, history_faithful (along every history of edit / remove / parse-with-fault each parse answers for the current content and no side file survives between calls), parseMany_restores, side_ne. Tie: every intercepted call of each scenario's fault-free run is made to raise once (write: before and in the middle); operation trace, outcome and final directory of the real call vs the model; the property is also evaluated directly (listing and hashes before/after, edit and parse again vs the lone result), over histories, multi-file calls and UAGraph.from_path.",
         "Trusted: Lean kernel, the interception layer (proxies for os / open / lxml.etree / json as seen by the two parser modules), driver, harness. Content functions are parameters of the theorems. Not exhibited: process kill, power loss, byte-level partial writes beyond 'half the content'.",
         "DESIGN.md section 3 C19"),
 "C20": ("Lean 4 theorems about n protocol programs over a shared file-system map (with file-object identity) under an arbitrary schedule + real threads driven operation by operation by a deterministic scheduler",
         "Machine-checked proof: runN_independent (pairwise non-colliding file names: under every schedule each parser goes through the states it goes through alone), concurrent_result (it returns the lone result and its files end as they began), runN_frame, disjoint_of_names, cache_transparent (the shared functools.cache returns the pure function's value under any interleaving of calls); same_file_missing / same_file_half / same_file_orphan are proved witnesses of finding D-C20a and are replayed on the real code. Tie: 120 runs of 2-3 threads on different files and 84 runs of 2 threads on one file per quick run, random schedules (half of them with extra switch points inside the thread-local loops); the executed order is replayed on the model and outcomes, per-thread traces and the directory are compared; every thread's tables are compared with its lone result; forked processes on different files as a sampled stress run.",
         "Trusted: Lean kernel, interception layer and scheduler, CPython running one thread at a time between switch points, driver, harness. Not exhibited: OS-level atomicity of one open/write/read call, lxml internals, schedules of separate processes.",
         "DESIGN.md section 3 C20"),
}
PENDING_REASON = "check not built yet in this session; planned as a Lean model + correspondence check (DESIGN.md section 3)"

def main():
    checks = []
    for pid in ALL:
        if pid not in CHECKS:
            continue
        tech, text, note, ref = CHECKS[pid]
        checks.append({
            "property_id": pid,
            "quick_cmd": "./check %s --tier quick" % pid,
            "thorough_cmd": "./check %s --tier thorough" % pid,
            "evidence_file": "evidence/%s.json" % pid,
            "replay_cmd_template": "./check %s --replay {path}" % pid,
            "engine": "lean4-model+correspondence",
            "level_claimed": {"category": "proof", "text": text, "design_ref": ref},
            "level_note": note,
            "technique": tech,
        })
    m = {
        "version": 1,
        "setup_cmd": "cd lean && lake build",
        "hooks": {
            "guard": "PREDIKTORAS_OPCUA_TOOLS_VERIF",
            "enable": "none needed: the harness patches os/open/json inside its own process; the variable is exported by ./check but no source in /repo reads it",
            "baseline_off_cmd": "cd /repo && /venv/bin/python -m pytest -ra -q -p no:cacheprovider --timeout=900 --continue-on-collection-errors",
            "source_commits": [],
            "add_only": True,
        },
        "engines": [{
            "name": "lean4-model+correspondence",
            "path": "lean/ (model, lemmas, property theorems, driver) + harness/ (generators, implementation runner, comparison, verdicts)",
            "serves_properties": sorted(CHECKS.keys()),
            "kind_free_text": "Lean 4 proofs about an executable model; model tied to /repo by differential execution through a JSON line protocol",
        }],
        "checks": checks,
        "notes": "Every check: lake build (no-op when unchanged), forbidden-token scan, axiom audit of the property's theorem file, then corpus + generated cases run on the real code in-process and on the compiled Lean model; exit 0 / 1 (VIOLATION line) / 2 (infrastructure). known_findings.json lists recorded defects.",
        "not_applicable": [{"property_id": p, "reason": PENDING_REASON} for p in ALL if p not in CHECKS],
    }
    json.dump(m, open(os.path.join(HERE, "MANIFEST.json"), "w"), indent=1)
    print("MANIFEST.json: %d checks, %d not_applicable" % (len(checks), len(m["not_applicable"])))
main()

#!/usr/bin/env python3
"""Regenerates MANIFEST.json from the table below (run after adding a check)."""
import json, os
HERE = os.path.dirname(os.path.dirname(os.path.abspath(__file__)))
ALL = ["C%02d" % i for i in range(1, 21)]
# id -> (technique, level text, level note, design ref)
CHECKS = {
 "C09": ("Lean 4 theorems about a hand model of cached_parse_nodeid/parse_nodeid/UANodeId.__str__ (round trip for every NodeId, soundness of the accepted language) + differential correspondence of the model's executable definitions against /repo on exhaustive and random texts",
         "Machine-checked proof (Lean 4 kernel): parse(print n) = n for every namespace index (any Int), identifier type and identifier string; mapped / unmapped / alias cases; no_misread: everything accepted decomposes as [ns=<int>;]<t>=<ident>. The theorems are about the model; the model is tied to the current /repo source on every run by executing model and implementation on the same texts (all 37 449 texts up to length 5 over the syntax alphabet, 5 000 printed random NodeIds, mutations, maps, aliases) and by an independent grammar oracle evaluated on the real code.",
         "Trusted: Lean kernel, the prelude's model of str.split/lstrip/int/str(int) (validated by the same run), the driver's JSON decoding, the harness. Assumes str identifiers and ASCII digits in int()/isdigit().",
         "DESIGN.md section 3 C09"),
}
PENDING_REASON = "check not built yet in this session; planned as a Lean model + correspondence check (DESIGN.md section 3)"

def main():
    checks = []
    for pid in ALL:
        if pid not in CHECKS:
            continue
        tech, text, note, ref = CHECKS[pid]
        checks.append({
            "property_id": pid,
            "quick_cmd": "./check %s --tier quick" % pid,
            "thorough_cmd": "./check %s --tier thorough" % pid,
            "evidence_file": "evidence/%s.json" % pid,
            "replay_cmd_template": "./check %s --replay {path}" % pid,
            "engine": "lean4-model+correspondence",
            "level_claimed": {"category": "proof", "text": text, "design_ref": ref},
            "level_note": note,
            "technique": tech,
        })
    m = {
        "version": 1,
        "setup_cmd": "cd lean && lake build",
        "hooks": {
            "guard": "PREDIKTORAS_OPCUA_TOOLS_VERIF",
            "enable": "none needed: the harness patches os/open/json inside its own process; the variable is exported by ./check but no source in /repo reads it",
            "baseline_off_cmd": "cd /repo && /venv/bin/python -m pytest -ra -q -p no:cacheprovider --timeout=900 --continue-on-collection-errors",
            "source_commits": [],
            "add_only": True,
        },
        "engines": [{
            "name": "lean4-model+correspondence",
            "path": "lean/ (model, lemmas, property theorems, driver) + harness/ (generators, implementation runner, comparison, verdicts)",
            "serves_properties": sorted(CHECKS.keys()),
            "kind_free_text": "Lean 4 proofs about an executable model; model tied to /repo by differential execution through a JSON line protocol",
        }],
        "checks": checks,
        "notes": "Every check: lake build (no-op when unchanged), forbidden-token scan, axiom audit of the property's theorem file, then corpus + generated cases run on the real code in-process and on the compiled Lean model; exit 0 / 1 (VIOLATION line) / 2 (infrastructure). known_findings.json lists recorded defects.",
        "not_applicable": [{"property_id": p, "reason": PENDING_REASON} for p in ALL if p not in CHECKS],
    }
    json.dump(m, open(os.path.join(HERE, "MANIFEST.json"), "w"), indent=1)
    print("MANIFEST.json: %d checks, %d not_applicable" % (len(checks), len(m["not_applicable"])))
main()

import OpcuaModel.Model.JsonIO
import OpcuaModel.Model.Graph
import OpcuaModel.Model.Order
import OpcuaModel.Model.Parse
import OpcuaModel.Model.Value
import OpcuaModel.Model.Json
import OpcuaModel.Model.Write
import OpcuaModel.Model.Validate
import OpcuaModel.Model.Enum
import OpcuaModel.Model.Meta
import OpcuaModel.Model.Proto
import OpcuaModel.Model.Effects
/-! Line-protocol driver: one JSON object per input line → one JSON object per output line.
    It only *evaluates* the model's definitions; it contains no logic of its own beyond decoding. -/
open Lean Opcua Opcua.IO

def opNodeIdParse (j : Json) : Except String Json := do
  let text ← getStr j "text"
  let nsmap ← (do
    if has j "nsmap" then
      let a ← getArr j "nsmap"
      a.toList.mapM fun p => do
        let q ← p.getArr?
        if q.size != 2 then throw "nsmap pair"
        return ((← q[0]!.getInt?), (← q[1]!.getInt?))
    else return [])
  let aliases ← (do
    if has j "aliases" then
      let a ← getArr j "aliases"
      let l ← a.toList.mapM fun p => do
        let q ← p.getArr?
        if q.size != 2 then throw "alias pair"
        return (strOf (← q[0]!.getStr?), (← nodeIdOfJson q[1]!))
      return some l
    else return none)
  match parseNodeId text nsmap aliases with
  | .ok n => return Json.mkObj [("ok", nodeIdToJson n)]
  | .error e => return errJson e

def opNodeIdPrint (j : Json) : Except String Json := do
  let n ← nodeIdOfJson (← j.getObjVal? "id")
  return Json.mkObj [("text", Json.str (ofStr n.print))]

/-! ### graph ops (C12, C13) -/
def natList (j : Json) : Except String (List Nat) := do
  let a ← j.getArr?
  a.toList.mapM fun x => x.getNat?

def edgesOf (j : Json) (k : String) : Except String (List Edge) := do
  let a ← getArr j k
  a.toList.mapM fun p => do
    let q ← natList p
    match q with
    | [x, y] => return (x, y)
    | _ => throw "edge: expected 2 items"

def refsOf (j : Json) (k : String) : Except String (List Ref) := do
  let a ← getArr j k
  a.toList.mapM fun p => do
    let q ← natList p
    match q with
    | [x, y, z] => return ⟨x, y, z⟩
    | _ => throw "ref: expected 3 items"

def natsToJson (l : List Nat) : Json := Json.arr (l.map fun n => Json.num (JsonNumber.fromNat n)).toArray
def edgesToJson (l : List Edge) : Json := Json.arr (l.map fun e => natsToJson [e.1, e.2]).toArray
def refsToJson (l : List Ref) : Json := Json.arr (l.map fun r => natsToJson [r.src, r.trg, r.ty]).toArray

def opClosure (j : Json) : Except String Json := do
  return Json.mkObj [("pairs", edgesToJson (closure (← edgesOf j "edges")))]

def opCircular (j : Json) : Except String Json := do
  return Json.mkObj [("nodes", natsToJson (circular (← edgesOf j "edges")))]

def opTyping (j : Json) : Except String Json := do
  let hst ← getNat j "hst"
  let typeRefs ← refsOf j "type_refs"
  let what ← (← j.getObjVal? "what").getStr?
  match what with
  | "subtypes" => return Json.mkObj [("pairs", edgesToJson (subtypesOf hst typeRefs (← natList (← j.getObjVal? "types"))))]
  | "supertypes" => return Json.mkObj [("pairs", edgesToJson (supertypesOf hst typeRefs (← natList (← j.getObjVal? "types"))))]
  | "constrain" => return Json.mkObj [("refs", refsToJson (constrain hst typeRefs (← refsOf j "inst") (← natList (← j.getObjVal? "types"))))]
  | "with_mr" => return Json.mkObj [("refs", refsToJson (selWithMR hst typeRefs (← refsOf j "inst") (← getNat j "sel") (← getNat j "hmr")))]
  | "no_mr" => return Json.mkObj [("refs", refsToJson (selNoMR hst typeRefs (← refsOf j "inst") (← getNat j "sel") (← getNat j "hmr")))]
  | _ => throw "typing: unknown what"

def opRelatives (j : Json) : Except String Json := do
  let edges ← edgesOf j "edges"
  let starts ← natList (← j.getObjVal? "starts")
  let anc ← getBool j "ancestors"
  let E := if anc then flipEdges edges else edges
  let rows ← (do
    if has j "cutoff" then return findRelatives E starts (← getNat j "cutoff")
    else return findRelativesNoCutoff E starts)
  return Json.mkObj [("rows", Json.arr (rows.map natsToJson).toArray)]

def opNodePaths (j : Json) : Except String Json := do
  let edges ← edgesOf j "edges"
  let root ← getNat j "root"
  let names ← getArr j "names"
  let tbl ← names.toList.mapM fun p => do
    let q ← p.getArr?
    if q.size != 2 then throw "names pair"
    return ((← q[0]!.getNat?), strOf (← q[1]!.getStr?))
  let name := fun (i : Nat) => (lookup i tbl).getD []
  let rows := nodePaths edges root name
  return Json.mkObj [("rows", Json.arr (rows.map fun r => Json.arr #[Json.num (JsonNumber.fromNat r.1), Json.str (ofStr r.2)]).toArray)]

/-! ### order ops (C14) -/
def keyOf (j : Json) : Except String Key := do
  let a ← j.getArr?
  if a.size != 2 then throw "key: expected 2 items"
  return ⟨strOf (← a[0]!.getStr?), strOf (← a[1]!.getStr?)⟩

def cellOf (j : Json) : Except String Cell :=
  match j with
  | .null => return none
  | _ => do return some (← keyOf j)

def cellToJson : Cell → Json
  | none => Json.null
  | some k => Json.arr #[Json.str (ofStr k.cls), Json.str (ofStr k.rep)]

def opOrderCmp (j : Json) : Except String Json := do
  let a ← keyOf (← j.getObjVal? "a")
  let b ← keyOf (← j.getObjVal? "b")
  return Json.mkObj [("lt", Json.bool (Key.lt a b)), ("le", Json.bool (Key.le a b)),
    ("gt", Json.bool (Key.gt a b)), ("ge", Json.bool (Key.ge a b))]

def opOrderSort (j : Json) : Except String Json := do
  let rows ← getArr j "rows"
  let rs ← rows.toList.mapM fun r => do
    let cs ← r.getArr?
    cs.toList.mapM cellOf
  return Json.mkObj [("rows", Json.arr ((sortRows rs).map fun r => Json.arr (r.map cellToJson).toArray).toArray)]

def fldOf (j : Json) : Except String Fld :=
  match j with
  | .null => return .pyNone
  | .str "<NA>" => return .na
  | .str s => return .atom (strOf s)
  | _ => throw "fld"

def opOrderEq (j : Json) : Except String Json := do
  let c1 ← getStr j "c1"
  let c2 ← getStr j "c2"
  let f1 ← (← getArr j "f1").toList.mapM fldOf
  let f2 ← (← getArr j "f2").toList.mapM fldOf
  match valEq c1 f1 c2 f2 with
  | .ok v => return Json.mkObj [("eq", Json.bool v)]
  | .error e => return errJson e

/-! ### small JSON helpers -/
def optStrOf (j : Json) : Option Str :=
  match j with
  | .str s => some (strOf s)
  | _ => none

def pairsOf (j : Json) : Except String (List (Str × Str)) := do
  let a ← j.getArr?
  a.toList.mapM fun p => do
    let q ← p.getArr?
    if q.size != 2 then throw "pair"
    return (strOf (← q[0]!.getStr?), strOf (← q[1]!.getStr?))

def optStrToJson : Option Str → Json
  | none => Json.null
  | some s => Json.str (ofStr s)

/-! ### value ops (C08, C10) -/
open Opcua.Xml (T TS) in
partial def treeOf (j : Json) : Except String T := do
  let tag ← getStr j "tag"
  let attrs ← pairsOf (← j.getObjVal? "attrs")
  let text := (optStrOf (j.getObjValD "text")).getD []
  let kids ← (← getArr j "kids").toList.mapM treeOf
  return .node tag attrs text (kids.foldr (fun t ts => TS.cons t ts) TS.nil)

open Opcua.Xml (T TS) in
partial def treeToJson : T → Json
  | .node tag attrs text kids =>
    let rec ks : TS → List Json
      | .nil => []
      | .cons t ts => treeToJson t :: ks ts
    Json.mkObj [("tag", Json.str (ofStr tag)),
      ("attrs", Json.arr (attrs.map fun a => Json.arr #[Json.str (ofStr a.1), Json.str (ofStr a.2)]).toArray),
      ("text", if text = [] then Json.null else Json.str (ofStr text)), ("kids", Json.arr (ks kids).toArray)]

def optIntOf (j : Json) : Option Int :=
  match j.getInt? with | .ok i => some i | _ => none

def dtOfStr (s : Str) : Except String DT :=
  match parseDT (s ++ ['Z']) with
  | some d => .ok d
  | none => .error "datetime text"

def dtToStr (d : DT) : Str := (padNat 4 d.year) ++ '-' :: padNat 2 d.month ++ '-' :: padNat 2 d.day ++ 'T' :: padNat 2 d.hour ++ ':' ::
    padNat 2 d.minute ++ ':' :: padNat 2 d.second ++ '.' :: padNat 6 d.micro

partial def valOf (j : Json) : Except String Val := do
  let t ← (← j.getObjVal? "t").getStr?
  let v := j.getObjValD "v"
  match IntKind.ofTag (strOf t) with
  | some k => return .int k (optIntOf v)
  | none =>
    match t with
    | "Float" => return .flt false (optStrOf v)
    | "Double" => return .flt true (optStrOf v)
    | "String" => return .str (optStrOf v)
    | "Guid" => return .guid (optStrOf v)
    | "Boolean" => return .bool (match v with | .bool b => some b | _ => none)
    | "DateTime" => return .dateTime (← dtOfStr (strOf (← v.getStr?)))
    | "ByteString" => return .byteString (optStrOf v)
    | "NodeId" => return .nodeId (← nodeIdOfJson v)
    | "LocalizedText" => return .locText (optStrOf (j.getObjValD "text")) (optStrOf (j.getObjValD "locale"))
    | "EngineeringUnits" =>
      let d := j.getObjValD "display"
      let e := j.getObjValD "description"
      return .engUnits (← getStr j "uri") (← getInt j "unit_id") (optStrOf (d.getObjValD "text")) (optStrOf (d.getObjValD "locale"))
        (optStrOf (e.getObjValD "text")) (optStrOf (e.getObjValD "locale"))
    | "EURange" => return .euRange (← getStr j "low") (← getStr j "high")
    | "ExtensionObject" => return .extObj (← nodeIdOfJson (← j.getObjVal? "type")) (← treeOf (← j.getObjVal? "tree"))
    | "XmlElement" => return .xmlElem (← treeOf (← j.getObjVal? "tree"))
    | "Enumeration" => return .enumeration (optIntOf v) (← getStr j "string") (← getStr j "name")
    | "Variant" => return .variant (← valOf v)
    | "QualifiedName" => return .qname (← getNat j "ns") (← getStr j "name")
    | "ListOf" =>
      let items ← (← getArr j "items").toList.mapM valOf
      return .list (← getStr j "typename") (items.foldr (fun x xs => ValS.cons x xs) ValS.nil)
    | _ => throw s!"unknown value type {t}"

def optIntToJson : Option Int → Json
  | none => Json.null
  | some i => Json.num (JsonNumber.fromInt i)

partial def valToJson : Val → Json
  | .int k v => Json.mkObj [("t", Json.str (ofStr k.tag)), ("v", optIntToJson v)]
  | .flt dbl v => Json.mkObj [("t", Json.str (if dbl then "Double" else "Float")), ("v", optStrToJson v)]
  | .str v => Json.mkObj [("t", "String"), ("v", optStrToJson v)]
  | .guid v => Json.mkObj [("t", "Guid"), ("v", optStrToJson v)]
  | .bool v => Json.mkObj [("t", "Boolean"), ("v", match v with | none => Json.null | some b => Json.bool b)]
  | .dateTime d => Json.mkObj [("t", "DateTime"), ("v", Json.str (ofStr (dtToStr d))), ("tz", "utc")]
  | .byteString v => Json.mkObj [("t", "ByteString"), ("v", optStrToJson v)]
  | .nodeId n => Json.mkObj [("t", "NodeId"), ("v", nodeIdToJson n)]
  | .locText t l => Json.mkObj [("t", "LocalizedText"), ("text", optStrToJson t), ("locale", optStrToJson l)]
  | .engUnits uri unit dT dL eT eL => Json.mkObj [("t", "EngineeringUnits"), ("uri", Json.str (ofStr uri)),
      ("unit_id", Json.num (JsonNumber.fromInt unit)),
      ("display", Json.mkObj [("text", optStrToJson dT), ("locale", optStrToJson dL)]),
      ("description", Json.mkObj [("text", optStrToJson eT), ("locale", optStrToJson eL)])]
  | .euRange lo hi => Json.mkObj [("t", "EURange"), ("low", Json.str (ofStr lo)), ("high", Json.str (ofStr hi))]
  | .extObj tid body => Json.mkObj [("t", "ExtensionObject"), ("type", nodeIdToJson tid), ("tree", treeToJson body)]
  | .xmlElem t => Json.mkObj [("t", "XmlElement"), ("tree", treeToJson t)]
  | .list tn items =>
    let rec go : ValS → List Json
      | .nil => []
      | .cons v vs => valToJson v :: go vs
    Json.mkObj [("t", "ListOf"), ("typename", Json.str (ofStr tn)), ("items", Json.arr (go items).toArray)]
  | .enumeration v s n => Json.mkObj [("t", "Enumeration"), ("v", optIntToJson v), ("string", Json.str (ofStr s)), ("name", Json.str (ofStr n))]
  | .variant inner => Json.mkObj [("t", "Variant"), ("v", valToJson inner)]
  | .qname ns name => Json.mkObj [("t", "QualifiedName"), ("ns", Json.num (JsonNumber.fromNat ns)), ("name", Json.str (ofStr name))]
  | .pyNone => Json.mkObj [("t", "PyNone")]

/-! ### parse ops (C01–C04, C18) -/


def reqModelOf (j : Json) : ReqModel :=
  ⟨optStrOf (j.getObjValD "uri"), optStrOf (j.getObjValD "publication_date"), optStrOf (j.getObjValD "version")⟩

def modelOf (j : Json) : Except String ModelElem := do
  let req ← getArr j "required"
  return ⟨optStrOf (j.getObjValD "uri"), optStrOf (j.getObjValD "publication_date"), optStrOf (j.getObjValD "version"),
    req.toList.map reqModelOf⟩

def nodeElemOf (j : Json) : Except String NodeElem := do
  let cls ← getStr j "cls"
  let attrs ← pairsOf (← j.getObjVal? "attrs")
  let dn := (← getArr j "display").toList.map optStrOf
  let ds := (← getArr j "description").toList.map optStrOf
  let refs ← (← getArr j "refs").toList.mapM fun r => do
    return (⟨← pairsOf (← r.getObjVal? "attrs"), optStrOf (r.getObjValD "text")⟩ : RefElem)
  let value ← (do
    if has j "value" then return some (← treeOf (← j.getObjVal? "value")) else return none)
  return ⟨cls, attrs, dn, ds, refs, value⟩

def docOf (j : Json) : Except String Doc := do
  let uris ← (← getArr j "uris").toList.mapM fun u => do return strOf (← u.getStr?)
  let models ← (← getArr j "models").toList.mapM modelOf
  let aliases ← (← getArr j "aliases").toList.mapM fun p => do
    let q ← p.getArr?
    if q.size != 2 then throw "alias pair"
    -- an Alias element without text cannot be parsed by the code (`None.split`): mark it
    return (strOf (← q[0]!.getStr?), (optStrOf q[1]!).getD [])
  let nodes ← (← getArr j "nodes").toList.mapM nodeElemOf
  return ⟨uris, models, aliases, nodes⟩

def optNidToJson : Option NodeId → Json
  | none => Json.null
  | some n => nodeIdToJson n

def attrValToJson : AttrVal → Json
  | .str s => Json.str (ofStr s)
  | .int i => Json.num (JsonNumber.fromInt i)
  | .bool b => Json.bool b

def rowToJson (r : NodeRow) : Json :=
  Json.mkObj [("cls", Json.str (ofStr r.cls)), ("id", nodeIdToJson r.nodeId), ("browse", Json.str (ofStr r.browseName)),
    ("browse_ns", match r.browseNs with | none => Json.null | some i => Json.num (JsonNumber.fromInt i)),
    ("display", Json.str (ofStr r.display)), ("description", Json.str (ofStr r.description)),
    ("dt", optNidToJson r.dataType), ("parent", optNidToJson r.parent), ("md", optNidToJson r.methodDecl),
    ("attrs", Json.arr (r.attrs.map fun p => Json.arr #[Json.str (ofStr p.1), attrValToJson p.2]).toArray),
    ("value", match r.value with | none => Json.null | some v => valToJson v)]

def optNatToJson : Option Nat → Json
  | none => Json.null
  | some n => Json.num (JsonNumber.fromNat n)


def modelToJson (m : ModelElem) : Json :=
  Json.mkObj [("uri", optStrToJson m.uri), ("publication_date", optStrToJson m.publicationDate), ("version", optStrToJson m.version),
    ("required_models", Json.arr (m.required.map fun r => Json.mkObj [("uri", optStrToJson r.uri),
      ("publication_date", optStrToJson r.publicationDate), ("version", optStrToJson r.version)]).toArray)]

def opParseFiles (j : Json) : Except String Json := do
  let caller ← (do
    if has j "caller" then (← getArr j "caller").toList.mapM fun u => do return strOf (← u.getStr?)
    else return [])
  let docs ← (← getArr j "docs").toList.mapM docOf
  match parseFiles caller docs with
  | .error e => return errJson e
  | .ok r =>
    let nz := normalize r.nodes r.refs
    return Json.mkObj [
      ("namespaces", Json.arr (r.namespaces.map fun u => Json.str (ofStr u)).toArray),
      ("nodes", Json.arr (r.nodes.map rowToJson).toArray),
      ("refs", Json.arr (r.refs.map fun t => Json.arr #[nodeIdToJson t.1, nodeIdToJson t.2.1, nodeIdToJson t.2.2]).toArray),
      ("lookup", Json.arr (nz.lookup.map nodeIdToJson).toArray),
      ("ids", Json.arr (nz.nodeIds.map fun x => Json.arr #[optNatToJson x.id, optNatToJson x.parent, optNatToJson x.dataType, optNatToJson x.methodDecl]).toArray),
      ("nrefs", Json.arr (nz.refs.map fun t => Json.arr #[optNatToJson t.1, optNatToJson t.2.1, optNatToJson t.2.2]).toArray),
      ("models", Json.arr (r.models.map modelToJson).toArray)]

def opParseDoc (j : Json) : Except String Json := do
  let caller ← (do
    if has j "caller" then (← getArr j "caller").toList.mapM fun u => do return strOf (← u.getStr?)
    else return [])
  let d ← docOf (← j.getObjVal? "doc")
  let batch ← (do if has j "batch" then getNat j "batch" else return 100000)
  match parseDoc caller d batch with
  | .error e => return errJson e
  | .ok (g, r) =>
    return Json.mkObj [
      ("namespaces", Json.arr (g.map fun u => Json.str (ofStr u)).toArray),
      ("nodes", Json.arr (r.nodes.map rowToJson).toArray),
      ("refs", Json.arr (r.refs.map fun t => Json.arr #[nodeIdToJson t.1, nodeIdToJson t.2.1, nodeIdToJson t.2.2]).toArray),
      ("models", Json.arr (r.models.map modelToJson).toArray)]

def opExtendNs (j : Json) : Except String Json := do
  let ex ← (← getArr j "existing").toList.mapM fun u => do return strOf (← u.getStr?)
  let us ← (← getArr j "uris").toList.mapM fun u => do return strOf (← u.getStr?)
  let (g, gs) := extendNs ex us
  return Json.mkObj [("namespaces", Json.arr (g.map fun u => Json.str (ofStr u)).toArray),
    ("map", Json.arr ((nsMapOf gs).map fun p => Json.arr #[Json.num (JsonNumber.fromInt p.1), Json.num (JsonNumber.fromInt p.2)]).toArray)]

def opNsList (j : Json) : Except String Json := do
  let d ← (← getArr j "dict").toList.mapM fun p => do
    let q ← p.getArr?
    if q.size != 2 then throw "dict pair"
    return ((← q[0]!.getNat?), strOf (← q[1]!.getStr?))
  return Json.mkObj [("list", Json.arr ((namespaceListOfDict d).map fun u => Json.str (ofStr u)).toArray)]

def opValueXml (j : Json) : Except String Json := do
  let v ← valOf (← j.getObjVal? "val")
  let b ← getBool j "xmlns"
  return Json.mkObj [("text", Json.str (ofStr (encodeText v b)))]

def opValueDecode (j : Json) : Except String Json := do
  let t ← treeOf (← j.getObjVal? "elem")
  match decodeValue t with
  | .ok v => return Json.mkObj [("val", valToJson v)]
  | .error e => return errJson e

def opXmlParse (j : Json) : Except String Json := do
  let s ← getStr j "text"
  match Xml.parseXml s with
  | some t => return Json.mkObj [("tree", treeToJson t)]
  | none => return Json.mkObj [("err", "not-well-formed")]

/-! ### JSON ops (C10) -/
partial def jsonLiteToJson : Opcua.JsonV → Lean.Json
  | .null => Lean.Json.null
  | .bool b => Lean.Json.bool b
  | .num t => Lean.Json.mkObj [("num", Lean.Json.str (ofStr t))]
  | .str s => Lean.Json.str (ofStr s)
  | .arr items => Lean.Json.arr (items.map jsonLiteToJson).toArray
  | .obj ms => Lean.Json.mkObj [("obj", Lean.Json.arr (ms.map fun m => Lean.Json.arr #[Lean.Json.str (ofStr m.1), jsonLiteToJson m.2]).toArray)]

def opValueJson (j : Lean.Json) : Except String Lean.Json := do
  let v ← valOf (← j.getObjVal? "val")
  let fsl ← (do
    if has j "fs" then
      (← getArr j "fs").toList.mapM fun p => do
        let q ← p.getArr?
        if q.size != 2 then throw "fs pair"
        return ((← q[0]!.getInt?), strOf (← q[1]!.getStr?))
    else return [])
  let fs := fun (i : Int) => (lookup i fsl).getD []
  match jsonEncode fs v with
  | .ok none => return Lean.Json.mkObj [("none", Lean.Json.bool true)]
  | .ok (some t) => return Lean.Json.mkObj [("text", Lean.Json.str (ofStr t))]
  | .error e => return errJson e

def opJsonParse (j : Lean.Json) : Except String Lean.Json := do
  let s ← getStr j "text"
  match parseJson s with
  | some v => return Lean.Json.mkObj [("json", jsonLiteToJson v)]
  | none => return Lean.Json.mkObj [("err", "invalid")]

/-! ### write ops (C05–C07, C15, C16) -/
def attrValOf (j : Json) : Except String AttrVal :=
  match j with
  | .bool b => .ok (.bool b)
  | .str s => .ok (.str (strOf s))
  | .num _ => do return .int (← j.getInt?)
  | _ => .error "attr value"

def optNatOf (j : Json) : Option Nat :=
  match j.getNat? with | .ok n => some n | _ => none

def gnodeOf (j : Json) : Except String GNode := do
  let attrs ← (← getArr j "attrs").toList.mapM fun p => do
    let q ← p.getArr?
    if q.size != 2 then throw "attr pair"
    return (strOf (← q[0]!.getStr?), (← attrValOf q[1]!))
  let value ← (do if has j "value" then return some (← valOf (← j.getObjVal? "value")) else return none)
  return { id := ← getNat j "id", cls := ← getStr j "cls", nodeId := ← nodeIdOfJson (← j.getObjVal? "nid"),
           browseName := ← getStr j "browse", browseNs := ← getInt j "browse_ns", display := ← getStr j "display",
           description := ← getStr j "description", dataType := optNatOf (j.getObjValD "dt"),
           parent := optNatOf (j.getObjValD "parent"), methodDecl := optNatOf (j.getObjValD "md"), attrs := attrs, value := value }

def graphOf (j : Json) : Except String Graph := do
  let ns ← (← getArr j "namespaces").toList.mapM fun u => do return strOf (← u.getStr?)
  let nodes ← (← getArr j "nodes").toList.mapM gnodeOf
  let refs ← (← getArr j "refs").toList.mapM fun p => do
    match ← natList p with
    | [a, b, c] => return (a, b, c)
    | _ => throw "ref triple"
  let models ← (← getArr j "models").toList.mapM fun m => do
    let req ← getArr m "required_models"
    return (⟨optStrOf (m.getObjValD "uri"), optStrOf (m.getObjValD "publication_date"), optStrOf (m.getObjValD "version"),
      req.toList.map reqModelOf⟩ : ModelElem)
  return ⟨ns, nodes, refs, models⟩

def wdocToJson (d : WDoc) : Json :=
  Json.mkObj [("uris", Json.arr (d.uris.map fun u => Json.str (ofStr u)).toArray), ("model_uri", Json.str (ofStr d.modelUri)),
    ("version", Json.str (ofStr d.version)),
    ("required", Json.arr (d.required.map fun r => Json.mkObj [("uri", optStrToJson r.uri),
      ("publication_date", optStrToJson r.publicationDate), ("version", optStrToJson r.version)]).toArray),
    ("nodes", Json.arr (d.nodes.map fun n => Json.mkObj [("cls", Json.str (ofStr n.cls)),
      ("attrs", Json.arr (n.attrs.map fun a => Json.arr #[Json.str (ofStr a.1), Json.str (ofStr a.2)]).toArray),
      ("display", Json.str (ofStr n.display)), ("description", Json.str (ofStr n.description)),
      ("refs", Json.arr (n.refs.map fun r => Json.arr #[Json.bool r.forward, Json.str (ofStr r.ty), Json.str (ofStr r.other)]).toArray),
      ("value_text", match n.value with | none => Json.null | some v => Json.str (ofStr (encodeText v true))),
      ("text", Json.str (ofStr (nodeText n)))]).toArray)]

def opWriteDoc (j : Json) : Except String Json := do
  let g ← graphOf (← j.getObjVal? "graph")
  let uri ← getStr j "uri"
  let incl ← getBool j "outgoing"
  let lm := (getStrOpt j "last_modified").getD []
  let pd := (getStrOpt j "publication_date").getD []
  match writeDoc g uri incl with
  | .ok d => return Json.mkObj [("doc", wdocToJson d), ("text", Json.str (ofStr (renderDoc d lm pd)))]
  | .error e => return errJson e

/-! ### validation ops (C11, C16) -/
def tripleOf (p : Json) : Except String RefRow := do
  match ← natList p with
  | [a, b, c] => return (a, b, c)
  | _ => throw "ref triple"

def triplesToJson (l : List RefRow) : Json := Json.arr (l.map fun r => natsToJson [r.1, r.2.1, r.2.2]).toArray

def opClosed (j : Json) : Except String Json := do
  let ids ← natList (← j.getObjVal? "ids")
  let refs ← (← getArr j "refs").toList.mapM tripleOf
  match validateClosed ids refs with
  | .ok _ => return Json.mkObj [("ok", Json.bool true)]
  | .error (.missingSource l) => return Json.mkObj [("missing", "source"), ("rows", triplesToJson l)]
  | .error (.missingTarget l) => return Json.mkObj [("missing", "target"), ("rows", triplesToJson l)]

def opLookup (j : Json) : Except String Json := do
  let nodes ← (← getArr j "nodes").toList.mapM fun n => do
    return (⟨← getNat n "id", ← getStr n "cls", ← getStr n "browse"⟩ : NameRow)
  let name ← getStr j "name"
  match lookupBrowse nodes name (getStrOpt j "cls") with
  | .ok i => return Json.mkObj [("id", Json.num (JsonNumber.fromNat i))]
  | .error e => return errJson e

def opValidateValues (j : Json) : Except String Json := do
  let rows ← (← getArr j "rows").toList.mapM fun r => do
    return (⟨← getStr r "cls", ← getStr r "display", getStrOpt r "value_class", optNatOf (r.getObjValD "dt")⟩ : VRow)
  let names ← (← getArr j "dt_names").toList.mapM fun p => do
    let q ← p.getArr?
    if q.size != 2 then throw "dt name pair"
    return ((← q[0]!.getNat?), strOf (← q[1]!.getStr?))
  match validateValues rows (fun i => lookup i names) with
  | .ok _ => return Json.mkObj [("ok", Json.bool true)]
  | .error .noDataType => return Json.mkObj [("err", "ValidationError"), ("kind", "no-datatype")]
  | .error (.invalid ns) => return Json.mkObj [("err", "ValidationError"), ("kind", "invalid"),
      ("names", Json.arr (ns.map fun n => Json.str (ofStr n)).toArray)]

/-! ### enumeration op (C17) -/
def enodeOf (j : Json) : Except String ENode := do
  let value ← (do if has j "value" then return some (← valOf (← j.getObjVal? "value")) else return none)
  return ⟨← getNat j "id", ← getStr j "cls", ← getStr j "browse", optNatOf (j.getObjValD "dt"), value⟩

def opEnumTransform (j : Json) : Except String Json := do
  let nodes ← (← getArr j "nodes").toList.mapM enodeOf
  let refs ← (← getArr j "refs").toList.mapM tripleOf
  match transformEnums nodes refs (optNatOf (j.getObjValD "has_property")) with
  | .error e => return errJson e
  | .ok out => return Json.mkObj [("values", Json.arr (out.map fun n =>
      Json.arr #[Json.num (JsonNumber.fromNat n.id), match n.value with | none => Json.null | some v => valToJson v]).toArray)]

/-! ### metadata ops (C18) -/
def fileDocOf (j : Json) : Except String FileDoc := do
  return ⟨← getStr j "name", ← getBool j "has_ns_uris", ← docOf (← j.getObjVal? "doc")⟩

def nsDataToJson : Except PyErr NsData → Json
  | .ok d => Json.mkObj [("name", Json.str (ofStr d.name)), ("included", Json.arr (d.included.map fun u => Json.str (ofStr u)).toArray)]
  | .error e => errJson e

def opMetaNsData (j : Json) : Except String Json := do
  let f ← fileDocOf (← j.getObjVal? "file")
  return Json.mkObj [("xml", nsDataToJson (nsDataXml f)), ("json", nsDataToJson (nsDataJson f)),
    ("namespaces", Json.arr ((xmlNamespaces f).map fun u => Json.str (ofStr u)).toArray)]

def opMetaFilter (j : Json) : Except String Json := do
  let files ← (← getArr j "files").toList.mapM fileDocOf
  let nss := (← getArr j "namespaces").toList.map optStrOf
  return Json.mkObj [("kept", Json.arr ((excludeFiles files nss).map fun f => Json.str (ofStr f.name)).toArray)]

/-! ### side-file protocol ops (C19, C20) -/
namespace ProtoIO
open Opcua.Proto

def fileOf (j : Json) : Except String (String × File) := do
  let path := ofStr (← getStr j "path")
  let kind := ofStr (← getStr j "kind")
  if kind == "doc" then return (path, .doc (← getNat j "c"))
  else
    let g ← getNat j "g"
    match j.getObjVal? "h" with
    | .ok (Json.num n) => return (path, .side g (some n.mantissa.toNat))
    | _ => return (path, .side g none)

def fsOf (files : List (String × File)) : FS String := fun p => files.lookup p

def natList (j : Json) (k : String) : Except String (List Nat) := do
  (← getArr j k).toList.mapM fun x => match x with
    | Json.num n => pure n.mantissa.toNat
    | _ => throw s!"{k}: number expected"

def big : Nat := 1000000

def semOf (j : Json) : Except String Sem := do
  let nwf ← natList j "not_wf"
  let bh ← natList j "bad_header"
  let bb ← natList j "bad_body"
  return ⟨fun c => !nwf.contains c, fun c => if bh.contains c then none else some c,
    -- the generated documents use namespace index 1, which an empty header does not declare
    fun c ho => if bb.contains c then none else match ho with | none => none | some h => some (c * big + (h + 1))⟩

def errName : Err → String
  | .io => "io" | .syntax => "syntax" | .decode => "decode" | .element => "element" | .fault => "fault"

def pcJson (pc : PC) : Json :=
  match pc with
  | .done (.ok r) =>
    let hc := r % big
    Json.mkObj [("ok", Json.mkObj [("body", Json.num (r / big)), ("header", if hc = 0 then Json.null else Json.num (hc - 1 : Nat))])]
  | .done (.err e) => Json.mkObj [("err", Json.str (errName e))]
  | pc => Json.mkObj [("at", Json.str pc.label)]

def fileJson (p : String) : Option File → Json
  | none => Json.mkObj [("path", Json.str p), ("kind", Json.str "absent")]
  | some (.doc c) => Json.mkObj [("path", Json.str p), ("kind", Json.str "doc"), ("c", Json.num c)]
  | some (.side g ho) => Json.mkObj [("path", Json.str p), ("kind", Json.str "side"), ("g", Json.num g),
      ("h", match ho with | none => Json.null | some h => Json.num h)]

def sideName (x : String) : String := x ++ "_parsed.json"

/-- one parser, a set of failing operation indices -/
def opSolo (j : Json) : Except String Json := do
  let files ← (← getArr j "files").toList.mapM fileOf
  let S ← semOf (← j.getObjVal? "sem")
  let x := ofStr (← getStr j "xml")
  let faults ← natList j "faults"
  let flt : Nat → Bool := fun i => faults.contains i
  let st := (fsOf files, start x (sideName x))
  let out := runF S flt fuel 0 st
  let watch := (files.map (·.1) ++ [x, sideName x]).eraseDups
  return Json.mkObj [("outcome", pcJson out.2.pc), ("trace", Json.arr ((traceF S flt fuel 0 st).map Json.str).toArray),
    ("files", Json.arr (watch.map fun p => fileJson p (out.1 p)).toArray)]

/-- a history of edits, removals and parses (each with at most one failing operation) of one input -/
def opHistory (j : Json) : Except String Json := do
  let files ← (← getArr j "files").toList.mapM fileOf
  let S ← semOf (← j.getObjVal? "sem")
  let x := ofStr (← getStr j "xml")
  let ops ← (← getArr j "ops").toList.mapM fun o => do
    let k := ofStr (← getStr o "k")
    if k == "edit" then return HOp.edit (← getNat o "c")
    else if k == "remove" then return HOp.remove
    else match o.getObjVal? "fault" with
      | .ok (Json.num n) => return HOp.parse (some n.mantissa.toNat)
      | _ => return HOp.parse none
  let out := history S x (sideName x) ops (fsOf files)
  let watch := (files.map (·.1) ++ [x, sideName x]).eraseDups
  return Json.mkObj [("outcomes", Json.arr (out.2.map pcJson).toArray),
    ("files", Json.arr (watch.map fun p => fileJson p (out.1 p)).toArray)]

/-- several files in one call -/
def opMany (j : Json) : Except String Json := do
  let files ← (← getArr j "files").toList.mapM fileOf
  let S ← semOf (← j.getObjVal? "sem")
  let xs := (← getArr j "inputs").toList.map fun x => match x with | Json.str s => s | _ => ""
  let out := parseMany S sideName xs (fsOf files)
  let watch := (files.map (·.1) ++ xs ++ xs.map sideName).eraseDups
  return Json.mkObj [("outcomes", Json.arr (out.2.map pcJson).toArray),
    ("files", Json.arr (watch.map fun p => fileJson p (out.1 p)).toArray)]

/-- several parsers under a schedule -/
def opSched (j : Json) : Except String Json := do
  let files ← (← getArr j "files").toList.mapM fileOf
  let S ← semOf (← j.getObjVal? "sem")
  let xs := (← getArr j "inputs").toList.map fun x => match x with | Json.str s => s | _ => ""
  let sched ← natList j "sched"
  let ps : Nat → Proc String := fun i => let x := xs.getD i ""; start x (sideName x) i
  let st := (fsOf files, ps)
  let out := runN S sched st
  let watch := (files.map (·.1) ++ xs ++ xs.map sideName).eraseDups
  return Json.mkObj [("outcomes", Json.arr ((List.range xs.length).map fun i => pcJson (out.2 i).pc).toArray),
    ("trace", Json.arr ((traceN S sched st).map fun e => Json.arr #[Json.num e.1, Json.str e.2]).toArray),
    ("files", Json.arr (watch.map fun p => fileJson p (out.1 p)).toArray)]

end ProtoIO

/-! ### operation histories on a graph (C15) -/
namespace HistIO
open Opcua.Eff

def gopOf (j : Json) : Except String GOp := do
  let k := ofStr (← getStr j "k")
  if k == "write" then
    return .write (← getStr j "uri") (← getBool j "outgoing") (getStrOpt j "new_version")
      ((getStrOpt j "last_modified").getD []) ((getStrOpt j "publication_date").getD [])
  else if k == "lookup" then return .lookup (← getStr j "name") (getStrOpt j "cls")
  else if k == "refs_of_type" then return .refsOfType (← getStr j "name")
  else if k == "closure" then return .closure (← getStr j "name")
  else if k == "circular" then return .circular (← getStr j "name")
  else throw s!"unknown graph op {k}"

def exJson {α} (f : α → Json) : Except PyErr α → Json
  | .ok a => Json.mkObj [("ok", f a)]
  | .error e => errJson e

def goutJson : GOut → Json
  | .text r => exJson (fun t => Json.str (ofStr t)) r
  | .id r => exJson (fun (i : Nat) => Json.num i) r
  | .triples r => exJson (fun l => Json.arr (l.map fun (t : Nat × Nat × Nat) => natsToJson [t.1, t.2.1, t.2.2]).toArray) r
  | .edges r => exJson (fun l => Json.arr (l.map fun (t : Nat × Nat) => natsToJson [t.1, t.2]).toArray) r
  | .ids r => exJson natsToJson r

def opHist (j : Json) : Except String Json := do
  let g ← graphOf (← j.getObjVal? "graph")
  let ops ← (← getArr j "ops").toList.mapM gopOf
  let res := graphSys.run g ops
  -- for write operations also the document content (the same `writeDocV` the output text is rendered from)
  let docs := ops.map fun op => match op with
    | .write uri incl v _ _ => (match writeDocV g uri incl v with | .ok d => wdocToJson d | .error _ => Json.null)
    | _ => Json.null
  return Json.mkObj [("outputs", Json.arr (res.2.map goutJson).toArray), ("docs", Json.arr docs.toArray),
    ("namespaces", Json.arr (res.1.namespaces.map fun u => Json.str (ofStr u)).toArray),
    ("model_versions", Json.arr (res.1.models.map fun m => optStrToJson m.version).toArray),
    ("counts", natsToJson [res.1.nodes.length, res.1.refs.length])]

end HistIO

def dispatch (j : Json) : Except String Json := do
  let op ← (← j.getObjVal? "op").getStr?
  match op with
  | "nodeid.parse" => opNodeIdParse j
  | "nodeid.print" => opNodeIdPrint j
  | "closure" => opClosure j
  | "circular" => opCircular j
  | "typing" => opTyping j
  | "relatives" => opRelatives j
  | "nodepaths" => opNodePaths j
  | "order.cmp" => opOrderCmp j
  | "order.sort" => opOrderSort j
  | "order.eq" => opOrderEq j
  | "parse.files" => opParseFiles j
  | "parse.doc" => opParseDoc j
  | "ns.extend" => opExtendNs j
  | "ns.list" => opNsList j
  | "value.xml" => opValueXml j
  | "value.decode" => opValueDecode j
  | "xml.parse" => opXmlParse j
  | "value.json" => opValueJson j
  | "json.parse" => opJsonParse j
  | "write.doc" => opWriteDoc j
  | "closed.validate" => opClosed j
  | "browse.lookup" => opLookup j
  | "values.validate" => opValidateValues j
  | "enum.transform" => opEnumTransform j
  | "meta.nsdata" => opMetaNsData j
  | "meta.filter" => opMetaFilter j
  | "proto.solo" => ProtoIO.opSolo j
  | "proto.history" => ProtoIO.opHistory j
  | "proto.many" => ProtoIO.opMany j
  | "proto.sched" => ProtoIO.opSched j
  | "hist.run" => HistIO.opHist j
  | "ping" => return Json.mkObj [("pong", Json.bool true)]
  | _ => throw s!"unknown op {op}"

partial def loop (hin hout : IO.FS.Stream) : IO Unit := do
  let line ← hin.getLine
  if line.isEmpty then return ()
  let out := match Json.parse line with
    | .error e => Json.mkObj [("driver_error", Json.str s!"json: {e}")]
    | .ok j => match dispatch j with
      | .ok r => r
      | .error e => Json.mkObj [("driver_error", Json.str e)]
  hout.putStrLn out.compress
  hout.flush
  loop hin hout

def main : IO Unit := do loop (← IO.getStdin) (← IO.getStdout)

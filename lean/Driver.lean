import OpcuaModel.Model.JsonIO
import OpcuaModel.Model.Graph
import OpcuaModel.Model.Order
/-! Line-protocol driver: one JSON object per input line → one JSON object per output line.
    It only *evaluates* the model's definitions; it contains no logic of its own beyond decoding. -/
open Lean Opcua Opcua.IO

def opNodeIdParse (j : Json) : Except String Json := do
  let text ← getStr j "text"
  let nsmap ← (do
    if has j "nsmap" then
      let a ← getArr j "nsmap"
      a.toList.mapM fun p => do
        let q ← p.getArr?
        if q.size != 2 then throw "nsmap pair"
        return ((← q[0]!.getInt?), (← q[1]!.getInt?))
    else return [])
  let aliases ← (do
    if has j "aliases" then
      let a ← getArr j "aliases"
      let l ← a.toList.mapM fun p => do
        let q ← p.getArr?
        if q.size != 2 then throw "alias pair"
        return (strOf (← q[0]!.getStr?), (← nodeIdOfJson q[1]!))
      return some l
    else return none)
  match parseNodeId text nsmap aliases with
  | .ok n => return Json.mkObj [("ok", nodeIdToJson n)]
  | .error e => return errJson e

def opNodeIdPrint (j : Json) : Except String Json := do
  let n ← nodeIdOfJson (← j.getObjVal? "id")
  return Json.mkObj [("text", Json.str (ofStr n.print))]

/-! ### graph ops (C12, C13) -/
def natList (j : Json) : Except String (List Nat) := do
  let a ← j.getArr?
  a.toList.mapM fun x => x.getNat?

def edgesOf (j : Json) (k : String) : Except String (List Edge) := do
  let a ← getArr j k
  a.toList.mapM fun p => do
    let q ← natList p
    match q with
    | [x, y] => return (x, y)
    | _ => throw "edge: expected 2 items"

def refsOf (j : Json) (k : String) : Except String (List Ref) := do
  let a ← getArr j k
  a.toList.mapM fun p => do
    let q ← natList p
    match q with
    | [x, y, z] => return ⟨x, y, z⟩
    | _ => throw "ref: expected 3 items"

def natsToJson (l : List Nat) : Json := Json.arr (l.map fun n => Json.num (JsonNumber.fromNat n)).toArray
def edgesToJson (l : List Edge) : Json := Json.arr (l.map fun e => natsToJson [e.1, e.2]).toArray
def refsToJson (l : List Ref) : Json := Json.arr (l.map fun r => natsToJson [r.src, r.trg, r.ty]).toArray

def opClosure (j : Json) : Except String Json := do
  return Json.mkObj [("pairs", edgesToJson (closure (← edgesOf j "edges")))]

def opCircular (j : Json) : Except String Json := do
  return Json.mkObj [("nodes", natsToJson (circular (← edgesOf j "edges")))]

def opTyping (j : Json) : Except String Json := do
  let hst ← getNat j "hst"
  let typeRefs ← refsOf j "type_refs"
  let what ← (← j.getObjVal? "what").getStr?
  match what with
  | "subtypes" => return Json.mkObj [("pairs", edgesToJson (subtypesOf hst typeRefs (← natList (← j.getObjVal? "types"))))]
  | "supertypes" => return Json.mkObj [("pairs", edgesToJson (supertypesOf hst typeRefs (← natList (← j.getObjVal? "types"))))]
  | "constrain" => return Json.mkObj [("refs", refsToJson (constrain hst typeRefs (← refsOf j "inst") (← natList (← j.getObjVal? "types"))))]
  | "with_mr" => return Json.mkObj [("refs", refsToJson (selWithMR hst typeRefs (← refsOf j "inst") (← getNat j "sel") (← getNat j "hmr")))]
  | "no_mr" => return Json.mkObj [("refs", refsToJson (selNoMR hst typeRefs (← refsOf j "inst") (← getNat j "sel") (← getNat j "hmr")))]
  | _ => throw "typing: unknown what"

def opRelatives (j : Json) : Except String Json := do
  let edges ← edgesOf j "edges"
  let starts ← natList (← j.getObjVal? "starts")
  let anc ← getBool j "ancestors"
  let E := if anc then flipEdges edges else edges
  let rows ← (do
    if has j "cutoff" then return findRelatives E starts (← getNat j "cutoff")
    else return findRelativesNoCutoff E starts)
  return Json.mkObj [("rows", Json.arr (rows.map natsToJson).toArray)]

def opNodePaths (j : Json) : Except String Json := do
  let edges ← edgesOf j "edges"
  let root ← getNat j "root"
  let names ← getArr j "names"
  let tbl ← names.toList.mapM fun p => do
    let q ← p.getArr?
    if q.size != 2 then throw "names pair"
    return ((← q[0]!.getNat?), strOf (← q[1]!.getStr?))
  let name := fun (i : Nat) => (lookup i tbl).getD []
  let rows := nodePaths edges root name
  return Json.mkObj [("rows", Json.arr (rows.map fun r => Json.arr #[Json.num (JsonNumber.fromNat r.1), Json.str (ofStr r.2)]).toArray)]

/-! ### order ops (C14) -/
def keyOf (j : Json) : Except String Key := do
  let a ← j.getArr?
  if a.size != 2 then throw "key: expected 2 items"
  return ⟨strOf (← a[0]!.getStr?), strOf (← a[1]!.getStr?)⟩

def cellOf (j : Json) : Except String Cell :=
  match j with
  | .null => return none
  | _ => do return some (← keyOf j)

def cellToJson : Cell → Json
  | none => Json.null
  | some k => Json.arr #[Json.str (ofStr k.cls), Json.str (ofStr k.rep)]

def opOrderCmp (j : Json) : Except String Json := do
  let a ← keyOf (← j.getObjVal? "a")
  let b ← keyOf (← j.getObjVal? "b")
  return Json.mkObj [("lt", Json.bool (Key.lt a b)), ("le", Json.bool (Key.le a b)),
    ("gt", Json.bool (Key.gt a b)), ("ge", Json.bool (Key.ge a b))]

def opOrderSort (j : Json) : Except String Json := do
  let rows ← getArr j "rows"
  let rs ← rows.toList.mapM fun r => do
    let cs ← r.getArr?
    cs.toList.mapM cellOf
  return Json.mkObj [("rows", Json.arr ((sortRows rs).map fun r => Json.arr (r.map cellToJson).toArray).toArray)]

def fldOf (j : Json) : Except String Fld :=
  match j with
  | .null => return .pyNone
  | .str "<NA>" => return .na
  | .str s => return .atom (strOf s)
  | _ => throw "fld"

def opOrderEq (j : Json) : Except String Json := do
  let c1 ← getStr j "c1"
  let c2 ← getStr j "c2"
  let f1 ← (← getArr j "f1").toList.mapM fldOf
  let f2 ← (← getArr j "f2").toList.mapM fldOf
  match valEq c1 f1 c2 f2 with
  | .ok v => return Json.mkObj [("eq", Json.bool v)]
  | .error e => return errJson e

def dispatch (j : Json) : Except String Json := do
  let op ← (← j.getObjVal? "op").getStr?
  match op with
  | "nodeid.parse" => opNodeIdParse j
  | "nodeid.print" => opNodeIdPrint j
  | "closure" => opClosure j
  | "circular" => opCircular j
  | "typing" => opTyping j
  | "relatives" => opRelatives j
  | "nodepaths" => opNodePaths j
  | "order.cmp" => opOrderCmp j
  | "order.sort" => opOrderSort j
  | "order.eq" => opOrderEq j
  | "ping" => return Json.mkObj [("pong", Json.bool true)]
  | _ => throw s!"unknown op {op}"

partial def loop (hin hout : IO.FS.Stream) : IO Unit := do
  let line ← hin.getLine
  if line.isEmpty then return ()
  let out := match Json.parse line with
    | .error e => Json.mkObj [("driver_error", Json.str s!"json: {e}")]
    | .ok j => match dispatch j with
      | .ok r => r
      | .error e => Json.mkObj [("driver_error", Json.str e)]
  hout.putStrLn out.compress
  hout.flush
  loop hin hout

def main : IO Unit := do loop (← IO.getStdin) (← IO.getStdout)

import OpcuaModel.Model.JsonIO
/-! Line-protocol driver: one JSON object per input line → one JSON object per output line.
    It only *evaluates* the model's definitions; it contains no logic of its own beyond decoding. -/
open Lean Opcua Opcua.IO

def opNodeIdParse (j : Json) : Except String Json := do
  let text ← getStr j "text"
  let nsmap ← (do
    if has j "nsmap" then
      let a ← getArr j "nsmap"
      a.toList.mapM fun p => do
        let q ← p.getArr?
        if q.size != 2 then throw "nsmap pair"
        return ((← q[0]!.getInt?), (← q[1]!.getInt?))
    else return [])
  let aliases ← (do
    if has j "aliases" then
      let a ← getArr j "aliases"
      let l ← a.toList.mapM fun p => do
        let q ← p.getArr?
        if q.size != 2 then throw "alias pair"
        return (strOf (← q[0]!.getStr?), (← nodeIdOfJson q[1]!))
      return some l
    else return none)
  match parseNodeId text nsmap aliases with
  | .ok n => return Json.mkObj [("ok", nodeIdToJson n)]
  | .error e => return errJson e

def opNodeIdPrint (j : Json) : Except String Json := do
  let n ← nodeIdOfJson (← j.getObjVal? "id")
  return Json.mkObj [("text", Json.str (ofStr n.print))]

def dispatch (j : Json) : Except String Json := do
  let op ← (← j.getObjVal? "op").getStr?
  match op with
  | "nodeid.parse" => opNodeIdParse j
  | "nodeid.print" => opNodeIdPrint j
  | "ping" => return Json.mkObj [("pong", Json.bool true)]
  | _ => throw s!"unknown op {op}"

partial def loop (hin hout : IO.FS.Stream) : IO Unit := do
  let line ← hin.getLine
  if line.isEmpty then return ()
  let out := match Json.parse line with
    | .error e => Json.mkObj [("driver_error", Json.str s!"json: {e}")]
    | .ok j => match dispatch j with
      | .ok r => r
      | .error e => Json.mkObj [("driver_error", Json.str e)]
  hout.putStrLn out.compress
  hout.flush
  loop hin hout

def main : IO Unit := do loop (← IO.getStdin) (← IO.getStdout)

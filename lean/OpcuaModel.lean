-- Root of the `OpcuaModel` library: the executable model, helper lemmas and property theorems.
import OpcuaModel.Model.Prelude
import OpcuaModel.Model.NodeId

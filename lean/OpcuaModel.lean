-- Root of the `OpcuaModel` library: the executable model, helper lemmas and property theorems.
import OpcuaModel.Model.Prelude
import OpcuaModel.Model.NodeId
import OpcuaModel.Model.Graph
import OpcuaModel.Model.Order
import OpcuaModel.Model.JsonIO
import OpcuaModel.Model.Parse
import OpcuaModel.Lemmas.MapE
import OpcuaModel.Lemmas.Str
import OpcuaModel.Lemmas.Order
import OpcuaModel.Props.C01
import OpcuaModel.Props.C02
import OpcuaModel.Props.C03
import OpcuaModel.Props.C04
import OpcuaModel.Props.C09
import OpcuaModel.Props.C12
import OpcuaModel.Props.C13
import OpcuaModel.Props.C14

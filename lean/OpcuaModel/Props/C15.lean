import OpcuaModel.Model.Effects
/-! # C15 — queries and writes leave the graph unchanged; results do not depend on history -/
namespace Opcua.C15
open Opcua Opcua.Eff

variable {S Op Out : Type}

/-- no operation changes the state -/
def ReadOnly (sys : Sys S Op Out) : Prop := ∀ s op, (sys.step s op).1 = s

/-- **state unchanged after any history** -/
theorem run_state (sys : Sys S Op Out) (h : ReadOnly sys) (s : S) (ops : List Op) : (sys.run s ops).1 = s := by
  induction ops generalizing s with
  | nil => rfl
  | cons op r ih => simp only [Sys.run]; rw [h s op, ih]

/-- **history independence**: every output of a history is the output of that operation on the
    initial (freshly built) state -/
theorem history_independent (sys : Sys S Op Out) (h : ReadOnly sys) (s : S) (ops : List Op) :
    (sys.run s ops).2 = ops.map fun op => (sys.step s op).2 := by
  induction ops generalizing s with
  | nil => rfl
  | cons op r ih => simp only [Sys.run, List.map_cons]; rw [h s op, ih]

/-- the i-th step of any history returns what that operation returns on a fresh state -/
theorem output_at (sys : Sys S Op Out) (h : ReadOnly sys) (s : S) (ops : List Op) (i : Nat) :
    (sys.run s ops).2[i]? = (ops[i]?).map fun op => (sys.step s op).2 := by
  rw [history_independent sys h]; simp

/-- what came before an operation is irrelevant -/
theorem prefix_irrelevant (sys : Sys S Op Out) (h : ReadOnly sys) (s : S) (before₁ before₂ : List Op) (op : Op) :
    (sys.run s (before₁ ++ [op])).2.getLast? = (sys.run s (before₂ ++ [op])).2.getLast? := by
  rw [history_independent sys h, history_independent sys h]; simp

/-- the same operation twice — with anything in between — gives the same output twice -/
theorem twice_identical (sys : Sys S Op Out) (h : ReadOnly sys) (s : S) (between : List Op) (op : Op) :
    (sys.run s (op :: between ++ [op])).2.head? = (sys.run s (op :: between ++ [op])).2.getLast? := by
  rw [history_independent sys h]
  have : (op :: between ++ [op]) = (op :: between) ++ [op] := rfl
  rw [this, List.map_append, List.getLast?_append]
  simp

/-- the converse direction, for the record: a system that is not read-only for some reachable state
    need not be history independent (a counter) — the hypothesis is not decoration -/
def counter : Sys Nat Unit Nat := ⟨fun n _ => (n + 1, n)⟩
theorem counter_depends : (counter.run 0 [(), ()]).2 ≠ [(), ()].map fun op => (counter.step 0 op).2 := by decide

/-! ### the graph -/
theorem graph_readOnly : ReadOnly graphSys := fun _ _ => rfl

/-- **C15 for the modelled operations**: nodes, references, namespaces and models are what they were -/
theorem graph_unchanged (g : Graph) (ops : List GOp) : (graphSys.run g ops).1 = g :=
  run_state graphSys graph_readOnly g ops

theorem graph_history_independent (g : Graph) (ops : List GOp) :
    (graphSys.run g ops).2 = ops.map (out g) :=
  history_independent graphSys graph_readOnly g ops

/-- writing the same namespace twice with fixed time stamps gives identical documents, whatever was
    done in between — including a write with a new model version or without outgoing references -/
theorem write_twice_identical (g : Graph) (between : List GOp) (uri : Str) (incl : Bool) (v : Option Str) (lm pd : Str) :
    (graphSys.run g (.write uri incl v lm pd :: between ++ [.write uri incl v lm pd])).2.head? =
    (graphSys.run g (.write uri incl v lm pd :: between ++ [.write uri incl v lm pd])).2.getLast? :=
  twice_identical graphSys graph_readOnly g between _

/-- a new model version shows in that document only: the version text of the header is the argument,
    everything else is the document written without it -/
theorem new_version_local (g : Graph) (uri : Str) (incl : Bool) (v : Str) (d : WDoc)
    (h : writeDoc g uri incl = .ok d) :
    writeDocV g uri incl (some v) = .ok { d with version := v } ∧ writeDocV g uri incl none = .ok d := by
  simp [writeDocV, h]

end Opcua.C15

import OpcuaModel.Model.Enum
import OpcuaModel.Lemmas.MapE
/-! # C17 — enumeration values are attached without altering the data. -/
namespace Opcua.C17
open Opcua

/-- which rows the transformation may touch: variables whose DataType is one of the enumeration types -/
def IsEnumVar (isEnumType : Nat → Bool) (n : ENode) : Prop :=
  n.cls = kUAVar ∧ ∃ dt, n.dataType = some dt ∧ isEnumType dt = true

/-- **frame (row level)**: a row that is not an enum-typed variable is returned unchanged, and so is
    an enum-typed variable without a value -/
theorem frame_row (isEnumType : Nat → Bool) (defs : Nat → Option (Str × List (Int × Option Str))) (n : ENode)
    (h : ¬ IsEnumVar isEnumType n ∨ n.value = none) : transformNode isEnumType defs n = .ok n := by
  unfold transformNode
  cases hd : n.dataType with
  | none => rfl
  | some dt =>
    simp only
    split
    · next hc =>
      rcases h with h | h
      · exact absurd ⟨hc.1, dt, hd, hc.2⟩ h
      · simp [h]
    · rfl

/-- **frame (column level)**: whatever happens, only the Value cell can change — id, class, name and
    DataType of every row are kept -/
theorem only_value_changes (isEnumType : Nat → Bool) (defs : Nat → Option (Str × List (Int × Option Str))) (n n' : ENode)
    (h : transformNode isEnumType defs n = .ok n') :
    n'.id = n.id ∧ n'.cls = n.cls ∧ n'.browse = n.browse ∧ n'.dataType = n.dataType := by
  unfold transformNode at h
  cases hd : n.dataType with
  | none => simp [hd] at h; subst h; exact ⟨rfl, rfl, rfl, hd⟩
  | some dt =>
    simp only [hd] at h
    split at h
    · cases hv : n.value with
      | none => simp [hv] at h; subst h; exact ⟨rfl, rfl, rfl, hd⟩
      | some v =>
        simp only [hv] at h
        split at h
        · simp at h
        · simp only [Except.ok.injEq] at h; subst h; exact ⟨rfl, rfl, rfl, rfl⟩
    · simp only [Except.ok.injEq] at h; subst h; exact ⟨rfl, rfl, rfl, hd⟩

/-- **enum_attached**: an enum-typed variable holding the Int32 `i`, whose DataType defines the string
    `s` for `i`, gets the enumeration value (same integer, that string, the enumeration's name) -/
theorem enum_attached (isEnumType : Nat → Bool) (defs : Nat → Option (Str × List (Int × Option Str))) (n : ENode)
    (dt : Nat) (i : Int) (name s : Str) (dict : List (Int × Option Str))
    (hc : n.cls = kUAVar) (hd : n.dataType = some dt) (he : isEnumType dt = true)
    (hv : n.value = some (.int .int32 (some i))) (hdef : defs dt = some (name, dict)) (hs : lookup i dict = some (some s)) :
    transformNode isEnumType defs n = .ok { n with value := some (.enumeration (some i) s name) } := by
  unfold transformNode
  simp only [hd, hc, he, and_self, if_true, hv, toEnumValue, enumInt, hdef, hs]

/-- without a definition the integer is kept and the names are "Unknown" -/
theorem enum_unknown (isEnumType : Nat → Bool) (defs : Nat → Option (Str × List (Int × Option Str))) (n : ENode)
    (dt : Nat) (i : Option Int) (hc : n.cls = kUAVar) (hd : n.dataType = some dt) (he : isEnumType dt = true)
    (hv : n.value = some (.int .int32 i)) (hdef : defs dt = none) :
    transformNode isEnumType defs n = .ok { n with value := some (.enumeration i kUnknown kUnknown) } := by
  unfold transformNode
  simp only [hd, hc, he, and_self, if_true, hv, toEnumValue, enumInt, hdef]

/-- **idempotent (row level)**: transforming an already transformed row changes nothing -/
theorem idempotent_row (isEnumType : Nat → Bool) (defs : Nat → Option (Str × List (Int × Option Str))) (n n' : ENode)
    (h : transformNode isEnumType defs n = .ok n') : transformNode isEnumType defs n' = .ok n' := by
  unfold transformNode at h ⊢
  cases hd : n.dataType with
  | none =>
    simp only [hd] at h
    simp only [Except.ok.injEq] at h; subst h; simp [hd]
  | some dt =>
    simp only [hd] at h
    split at h
    · next hc =>
      cases hv : n.value with
      | none => simp only [hv, Except.ok.injEq] at h; subst h; simp [hd, hc, hv]
      | some v =>
        simp only [hv] at h
        cases ht : toEnumValue (defs dt) v with
        | error e => simp [ht] at h
        | ok v' =>
          simp only [ht, Except.ok.injEq] at h
          subst h
          simp only [hd, hc, and_self, if_true]
          -- the new value is an enumeration whose integer is the one just used: the second run agrees
          unfold toEnumValue at ht ⊢
          cases hi : enumInt v with
          | none => simp [hi] at ht
          | some oi =>
            simp only [hi] at ht
            cases hdef : defs dt with
            | none =>
              simp only [hdef, Except.ok.injEq] at ht
              subst ht; simp [enumInt, hdef]
            | some p =>
              obtain ⟨name, dict⟩ := p
              simp only [hdef] at ht
              cases oi with
              | none => simp at ht
              | some i =>
                simp only at ht
                cases hl : lookup i dict with
                | none => simp [hl] at ht
                | some os =>
                  cases os with
                  | none => simp [hl] at ht
                  | some s =>
                    simp only [hl, Except.ok.injEq] at ht
                    subst ht
                    simp [enumInt, hdef, hl]
    · next hc => simp only [Except.ok.injEq] at h; subst h; simp [hd, hc]

def SameRow (n n' : ENode) : Prop := n'.id = n.id ∧ n'.cls = n.cls ∧ n'.browse = n.browse ∧ n'.dataType = n.dataType

theorem sameRow_refl (l : List ENode) : List.Forall₂ SameRow l l := by
  induction l with
  | nil => exact List.Forall₂.nil
  | cons a as ih => exact List.Forall₂.cons ⟨rfl, rfl, rfl, rfl⟩ ih

theorem mapE_sameRow (isEnumType : Nat → Bool) (defs : Nat → Option (Str × List (Int × Option Str))) (l out : List ENode)
    (h : mapE (transformNode isEnumType defs) l = .ok out) : List.Forall₂ SameRow l out := by
  have hf := mapE_ok_forall _ _ _ h
  clear h
  induction hf with
  | nil => exact List.Forall₂.nil
  | cons hab _ ih => exact List.Forall₂.cons (only_value_changes _ _ _ _ hab) ih

/-- **frame / no rows added or lost (table level)**: the transformed table has one row per input
    row, in order, each obtained from its own input row; only Value cells can differ -/
theorem table_pointwise (nodes out : List ENode) (refs : List (Nat × Nat × Nat)) (hp : Option Nat)
    (h : transformEnums nodes refs hp = .ok out) : out.length = nodes.length ∧ List.Forall₂ SameRow nodes out := by
  unfold transformEnums at h
  split at h
  · simp at h
  · simp only [Except.ok.injEq] at h; subst h; exact ⟨rfl, sameRow_refl _⟩
  · simp only at h
    split at h
    · simp only [Except.ok.injEq] at h; subst h; exact ⟨rfl, sameRow_refl _⟩
    · split at h
      · simp at h
      · split at h
        · simp at h
        · exact ⟨mapE_ok_length _ _ _ h, mapE_sameRow _ _ _ _ h⟩

/-- **xml_same_as_int32**: an enumeration value is written to XML exactly as the Int32 it came from -/
theorem xml_same_as_int32 (v : Option Int) (s name : Str) (b : Bool) :
    encodeText (.enumeration v s name) b = encodeText (.int .int32 v) b := rfl

/-- finding D-C17a as a witness: a list-valued enum variable is collapsed to its first element -/
theorem list_collapsed_witness :
    toEnumValue (some ("E".toList, [(0, some "Off".toList), (1, some "On".toList)]))
      (.list "Int32".toList (.cons (.int .int32 (some 1)) (.cons (.int .int32 (some 0)) .nil))) =
    .ok (.enumeration (some 1) "On".toList "E".toList) := by
  simp [toEnumValue, enumInt, lookup]

/-- **only the definition property counts**: a further HasProperty reference from the data type to a
    node that is named neither EnumStrings nor EnumValues does not change the definition read for it,
    whatever that node holds and wherever the reference stands -/
theorem enumDef_other_property (nodes : List ENode) (pre post : List (Nat × Nat × Nat)) (hp dt p : Nat)
    (hname : ∀ n ∈ nodes, n.id = p → n.browse ≠ kEnumStrings ∧ n.browse ≠ kEnumValues) :
    enumDef nodes (pre ++ (dt, p, hp) :: post) hp dt = enumDef nodes (pre ++ post) hp dt := by
  unfold enumDef
  cases hfd : nodes.find? (fun n => n.id = dt) with
  | none => rfl
  | some dtn =>
    simp only [List.filter_append, List.map_append, List.filterMap_append]
    have hskip : (List.filterMap (fun q => (List.find? (fun n => decide (n.id = q)) nodes).bind
          (fun n => if n.browse = kEnumStrings ∨ n.browse = kEnumValues then n.value else none))
          (List.map (fun r => r.2.1) (List.filter (fun r => decide (r.1 = dt ∧ r.2.2 = hp)) ((dt, p, hp) :: post)))) =
        (List.filterMap (fun q => (List.find? (fun n => decide (n.id = q)) nodes).bind
          (fun n => if n.browse = kEnumStrings ∨ n.browse = kEnumValues then n.value else none))
          (List.map (fun r => r.2.1) (List.filter (fun r => decide (r.1 = dt ∧ r.2.2 = hp)) post))) := by
      simp only [List.filter_cons, and_self, decide_true, if_true, List.map_cons, List.filterMap_cons]
      cases hf : List.find? (fun n => decide (n.id = p)) nodes with
      | none => simp
      | some n =>
        have hm := List.mem_of_find?_eq_some hf
        have hid : n.id = p := by simpa using List.find?_some hf
        obtain ⟨h1, h2⟩ := hname n hm hid
        simp [h1, h2]
    rw [hskip]


/-- **no Enumeration node, nothing to do**: on a graph that holds no node named `Enumeration` (a document
    set loaded without the base document) the transformation succeeds and returns the table unchanged —
    construction of such a graph therefore succeeds exactly when its references are closed (C11) -/
theorem no_enumeration_noop (nodes : List ENode) (refs : List (Nat × Nat × Nat)) (hp : Option Nat)
    (h : nodes.any (fun n => decide (n.browse = kEnumeration)) = false) :
    transformEnums nodes refs hp = .ok nodes := by
  unfold transformEnums enumTypeIds
  simp [h]


end Opcua.C17

import OpcuaModel.Model.Order
import OpcuaModel.Lemmas.Order
/-! # C14 — normalised tables are canonical; UA values are well ordered. -/
namespace Opcua.C14
open Opcua

/-- **strict weak order of `lt`**: irreflexive, transitive, and for any two values exactly one of
    `a < b`, `b < a`, or "same class and same printed tuple" holds. Generic in the printed form. -/
theorem lt_irrefl (a : Key) : Key.lt a a = false := keyLt_sto.irrefl a

theorem lt_trans (a b c : Key) (h1 : Key.lt a b = true) (h2 : Key.lt b c = true) : Key.lt a c = true :=
  keyLt_sto.trans a b c h1 h2

theorem lt_trichotomy (a b : Key) :
    (Key.lt a b = true ∧ Key.lt b a = false ∧ a ≠ b) ∨
    (Key.lt a b = false ∧ Key.lt b a = true ∧ a ≠ b) ∨
    (Key.lt a b = false ∧ Key.lt b a = false ∧ a = b) := by
  rcases keyLt_sto.tri a b with t | t | t
  · refine Or.inl ⟨t, keyLt_sto.asymm a b t, ?_⟩
    intro e; subst e; rw [lt_irrefl] at t; exact absurd t (by simp)
  · refine Or.inr (Or.inl ⟨keyLt_sto.asymm b a t, t, ?_⟩)
    intro e; subst e; rw [lt_irrefl] at t; exact absurd t (by simp)
  · subst t; exact Or.inr (Or.inr ⟨lt_irrefl a, lt_irrefl a, rfl⟩)

theorem sle_iff (a b : Str) : sle a b = !slt b a := by
  unfold sle
  rcases slt_sto.tri a b with t | t | t
  · simp [t, slt_sto.asymm a b t]
  · have : ¬ a = b := by intro e; subst e; rw [slt_sto.irrefl] at t; exact absurd t (by simp)
    simp [t, slt_sto.asymm b a t, this]
  · subst t; simp [slt_sto.irrefl]

/-- `<=` is consistent with `<`: `a <= b ↔ ¬ (b < a)`; `>` and `>=` are the flipped operators -/
theorem le_iff_not_lt (a b : Key) : Key.le a b = !Key.lt b a := by
  unfold Key.le Key.lt
  by_cases hc : a.cls = b.cls
  · simp only [hc, ne_eq, not_true_eq_false, if_false, sle_iff]
  · have hc' : ¬ b.cls = a.cls := fun e => hc e.symm
    simp only [hc, hc', ne_eq, not_false_eq_true, if_true, sle_iff]

theorem gt_ge_flip (a b : Key) : Key.gt a b = Key.lt b a ∧ Key.ge a b = Key.le b a := ⟨rfl, rfl⟩

/-- **sorting is canonical**: the sorted table depends only on the multiset of rows, not on the
    order in which they were stored. -/
theorem sort_canonical (rows₁ rows₂ : List Row) (h : rows₁.Perm rows₂) :
    sortRows rows₁ = sortRows rows₂ := by
  unfold sortRows rowLe
  exact mergeSort_canonical rowLt_sto rows₁ rows₂ h

/-- the graph's ids determine NodeIds (two rows with one id carry one NodeId) -/
def IdsConsistent (nodes : List NRow) : Prop :=
  ∀ r ∈ nodes, ∀ s ∈ nodes, r.id = s.id → r.nid = s.nid

theorem lookupId_perm (l l' : List NRow) (hc : IdsConsistent l) (hp : l'.Perm l) (i : Nat) :
    lookupId l' i = lookupId l i := by
  unfold lookupId
  cases h1 : l'.find? (fun r => r.id = i) with
  | none =>
    cases h2 : l.find? (fun r => r.id = i) with
    | none => rfl
    | some s =>
      have hs := List.mem_of_find?_eq_some h2
      have hi := List.find?_some h2
      have := List.find?_eq_none.1 h1 s (hp.symm.subset hs)
      exact absurd hi this
  | some r =>
    have hr := List.mem_of_find?_eq_some h1
    have hri := List.find?_some h1
    cases h2 : l.find? (fun r => r.id = i) with
    | none =>
      have := List.find?_eq_none.1 h2 r (hp.subset hr)
      exact absurd hri this
    | some s =>
      have hs := List.mem_of_find?_eq_some h2
      have hsi := List.find?_some h2
      simp only [decide_eq_true_eq] at hri hsi
      simp only [Option.map_some, Option.some.injEq]
      exact hc r (hp.subset hr) s hs (hri.trans hsi.symm)

theorem lookupId_renumber (π : Nat → Nat) (hπ : ∀ a b, π a = π b → a = b) (l : List NRow) (i : Nat) :
    lookupId (l.map (renumberNode π)) (π i) = lookupId l i := by
  unfold lookupId
  induction l with
  | nil => rfl
  | cons r rs ih =>
    simp only [List.map_cons, List.find?_cons]
    by_cases e : r.id = i
    · subst e; simp [renumberNode]
    · have : ¬ π r.id = π i := fun h => e (hπ _ _ h)
      simp only [renumberNode, e, this, decide_false]
      exact ih

theorem bind_renumber (π : Nat → Nat) (hπ : ∀ a b, π a = π b → a = b) (l : List NRow) (o : Option Nat) :
    (o.map π).bind (lookupId (l.map (renumberNode π))) = o.bind (lookupId l) := by
  cases o with
  | none => rfl
  | some i => simp [lookupId_renumber π hπ l i]

theorem denorm_renumber (π : Nat → Nat) (hπ : ∀ a b, π a = π b → a = b) (l : List NRow) (r : NRow) :
    denormNode (l.map (renumberNode π)) (renumberNode π r) = denormNode l r := by
  simp only [denormNode, renumberNode, bind_renumber π hπ l]

theorem consistent_renumber (π : Nat → Nat) (hπ : ∀ a b, π a = π b → a = b) (l : List NRow)
    (hc : IdsConsistent l) : IdsConsistent (l.map (renumberNode π)) := by
  intro r hr s hs e
  simp only [List.mem_map] at hr hs
  obtain ⟨r0, hr0, rfl⟩ := hr
  obtain ⟨s0, hs0, rfl⟩ := hs
  simp only [renumberNode] at e ⊢
  exact hc r0 hr0 s0 hs0 (hπ _ _ e)

/-- **renumber_invariant**: the normalised node table of a graph is unchanged by any injective
    renumbering of the internal ids combined with any permutation of the rows. -/
theorem renumber_invariant (π : Nat → Nat) (hπ : ∀ a b, π a = π b → a = b) (nodes nodes' : List NRow)
    (hc : IdsConsistent nodes) (hp : nodes'.Perm (nodes.map (renumberNode π))) :
    normalizedNodes nodes' = normalizedNodes nodes := by
  unfold normalizedNodes
  apply sort_canonical
  have hc' := consistent_renumber π hπ nodes hc
  have hfun : ∀ r, denormNode nodes' r = denormNode (nodes.map (renumberNode π)) r := by
    intro r
    simp only [denormNode]
    have hl : lookupId nodes' = lookupId (nodes.map (renumberNode π)) := by
      funext i; exact lookupId_perm _ _ hc' hp i
    rw [hl]
  have h1 : (nodes'.map (denormNode nodes')).Perm
      ((nodes.map (renumberNode π)).map (denormNode nodes')) := hp.map _
  refine h1.trans ?_
  have : (nodes.map (renumberNode π)).map (denormNode nodes') = nodes.map (denormNode nodes) := by
    rw [List.map_map]
    apply List.map_congr_left
    intro r _
    simp only [Function.comp, hfun, denorm_renumber π hπ nodes r]
  rw [this]

/-- the same for the reference table -/
theorem renumber_invariant_refs (π : Nat → Nat) (hπ : ∀ a b, π a = π b → a = b)
    (nodes nodes' : List NRow) (refs refs' : List (Nat × Nat × Nat))
    (hc : IdsConsistent nodes) (hp : nodes'.Perm (nodes.map (renumberNode π)))
    (hr : refs'.Perm (refs.map fun r => (π r.1, π r.2.1, π r.2.2))) :
    normalizedRefs nodes' refs' = normalizedRefs nodes refs := by
  unfold normalizedRefs
  apply sort_canonical
  have hc' := consistent_renumber π hπ nodes hc
  have hl : lookupId nodes' = lookupId (nodes.map (renumberNode π)) := by
    funext i; exact lookupId_perm _ _ hc' hp i
  refine (hr.map _).trans ?_
  rw [List.map_map]
  have : (fun r : Nat × Nat × Nat => [lookupId nodes' r.1, lookupId nodes' r.2.1, lookupId nodes' r.2.2]) ∘
      (fun r : Nat × Nat × Nat => (π r.1, π r.2.1, π r.2.2)) =
      fun r => [lookupId nodes r.1, lookupId nodes r.2.1, lookupId nodes r.2.2] := by
    funext r
    simp only [Function.comp, hl, lookupId_renumber π hπ nodes]
  rw [this]

/-! ### equality and hashing of values -/

/-- equal values have equal field tuples, hence equal hashes (`hash` is a function of the tuple) -/
theorem eq_implies_same_fields (a b : List Fld) (h : tupleEq a b = .ok true) : a = b := by
  induction a generalizing b with
  | nil => cases b <;> simp_all [tupleEq]
  | cons x xs ih =>
    cases b with
    | nil => simp [tupleEq] at h
    | cons y ys =>
      simp only [tupleEq] at h
      cases hf : fldEq x y with
      | error e => simp [hf] at h
      | ok v =>
        cases v with
        | false => simp [hf] at h
        | true =>
          simp only [hf] at h
          have hxy : x = y := by
            cases x <;> cases y <;> simp_all [fldEq]
          rw [hxy, ih ys h]

/-- **no comparison error without a one-sided `pd.NA`**: `==` raises only if some compared position
    holds `pd.NA` on exactly one side (finding D-C14a is the excluded case) -/
theorem eq_no_error (a b : List Fld) (h : ∀ x ∈ a, x ≠ .na) (h' : ∀ y ∈ b, y ≠ .na) :
    ∃ v, tupleEq a b = .ok v := by
  induction a generalizing b with
  | nil => cases b <;> simp [tupleEq]
  | cons x xs ih =>
    cases b with
    | nil => simp [tupleEq]
    | cons y ys =>
      have hx : x ≠ .na := h x (by simp)
      have hy : y ≠ .na := h' y (by simp)
      have hf : fldEq x y = .ok (x == y) := by
        cases x <;> cases y <;> simp_all [fldEq]
      simp only [tupleEq, hf]
      cases x == y with
      | false => exact ⟨false, rfl⟩
      | true => exact ih ys (fun z hz => h z (by simp [hz])) (fun z hz => h' z (by simp [hz]))

/-- the excluded point is real: `UAInt32(1) == UAInt32(pd.NA)` raises `TypeError` -/
theorem eq_na_witness : valEq "UAInt32".toList [.atom "1".toList] "UAInt32".toList [.na] = .error .typeError := by
  decide

/-! ### non-vacuity -/
example : Key.lt ⟨"UAInt32".toList, "(1,)".toList⟩ ⟨"UAInt32".toList, "(2,)".toList⟩ = true := by decide
example : sortRows [[some ⟨"B".toList, []⟩], [none]] = sortRows [[none], [some ⟨"B".toList, []⟩]] :=
  sort_canonical _ _ (List.Perm.swap _ _ _)
example : IdsConsistent [⟨1, ⟨[], ['a']⟩, none, some 1, none, []⟩] := by
  intro r hr s hs _; simp at hr hs; subst hr; subst hs; rfl

end Opcua.C14

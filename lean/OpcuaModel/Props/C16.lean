import OpcuaModel.Model.Validate
/-! # C16 — value/DataType validation on write rejects exactly the mismatching variables. -/
namespace Opcua.C16
open Opcua

/-- the variables the error must name -/
def offenders (rows : List VRow) (dtName : Nat → Option Str) : List VRow := (checkedRows rows).filter (offending dtName)

theorem offenders_eq (rows : List VRow) (dtName : Nat → Option Str) :
    ((checkedRows rows).filter (potentially dtName)).filter
        (fun r => !decide (classOf r = expectedOf dtName r) && !decide (classOf r = kUAEnumeration)) =
      offenders rows dtName := by
  unfold offenders offending
  rw [List.filter_filter]
  congr 1
  funext r
  cases potentially dtName r <;> simp

/-- **names_exact**: whenever the validator rejects for a value mismatch, the message names exactly
    the offending variables, in table order -/
theorem names_exact (rows : List VRow) (dtName : Nat → Option Str) (names : List Str)
    (h : validateValues rows dtName = .error (.invalid names)) : names = (offenders rows dtName).map (·.display) := by
  unfold validateValues at h
  simp only at h
  split at h
  · simp at h
  · split at h
    · simp at h
    · split at h
      · simp at h
      · split at h
        · simp at h
        · simp only [Except.error.injEq, ValErr.invalid.injEq] at h
          rw [← h, offenders_eq]

/-- **rejects**: with every checked variable declaring a DataType, one offending variable is enough
    for the write to be rejected, and the error is the value-mismatch error naming the offenders -/
theorem offender_rejected (rows : List VRow) (dtName : Nat → Option Str)
    (hd : ∀ r ∈ checkedRows rows, r.dataType.isNone = false) (r : VRow) (hr : r ∈ offenders rows dtName) :
    validateValues rows dtName = .error (.invalid ((offenders rows dtName).map (·.display))) := by
  have hrc : r ∈ checkedRows rows := (List.mem_filter.1 hr).1
  have hoff : offending dtName r = true := (List.mem_filter.1 hr).2
  unfold offending at hoff
  simp only [Bool.and_eq_true, Bool.not_eq_true', decide_eq_false_iff_not] at hoff
  obtain ⟨⟨hp, hne⟩, hnenum⟩ := hoff
  have hpot : r ∈ (checkedRows rows).filter (potentially dtName) := List.mem_filter.2 ⟨hrc, hp⟩
  unfold validateValues
  simp only
  have h1 : checkedRows rows ≠ [] := List.ne_nil_of_mem hrc
  have h2 : (checkedRows rows).any (fun r => r.dataType.isNone) = false := by
    simp only [List.any_eq_false]; intro x hx; simp [hd x hx]
  have h3 : ((checkedRows rows).filter (potentially dtName)).all (fun r => decide (classOf r = expectedOf dtName r)) = false := by
    cases hh : ((checkedRows rows).filter (potentially dtName)).all (fun r => decide (classOf r = expectedOf dtName r)) with
    | false => rfl
    | true =>
      rw [List.all_eq_true] at hh
      have := hh r hpot
      simp only [decide_eq_true_eq] at this
      exact absurd this hne
  have h4 : ((checkedRows rows).filter (potentially dtName)).all (fun r => decide (classOf r = kUAEnumeration)) = false := by
    cases hh : ((checkedRows rows).filter (potentially dtName)).all (fun r => decide (classOf r = kUAEnumeration)) with
    | false => rfl
    | true =>
      rw [List.all_eq_true] at hh
      have := hh r hpot
      simp only [decide_eq_true_eq] at this
      exact absurd this hnenum
  simp only [h1, if_false, h2, Bool.false_eq_true, h3, h4, offenders_eq]

/-- **accepts**: when no checked variable offends — and no enumeration value declares a built-in
    DataType of another name, which graph construction never produces — the write goes ahead -/
theorem no_offender_accepted (rows : List VRow) (dtName : Nat → Option Str)
    (hd : ∀ r ∈ checkedRows rows, r.dataType.isNone = false)
    (hno : ∀ r ∈ checkedRows rows, potentially dtName r = true → classOf r = expectedOf dtName r) :
    validateValues rows dtName = .ok () := by
  unfold validateValues
  simp only
  split
  · rfl
  · have h2 : (checkedRows rows).any (fun r => r.dataType.isNone) = false := by
      simp only [List.any_eq_false]; intro x hx; simp [hd x hx]
    have h3 : ((checkedRows rows).filter (potentially dtName)).all (fun r => decide (classOf r = expectedOf dtName r)) = true := by
      rw [List.all_eq_true]
      intro x hx
      have := List.mem_filter.1 hx
      simp [hno x this.1 this.2]
    simp only [h2, Bool.false_eq_true, if_false, h3, if_true]

/-- **never rejected for a value mismatch**: list values, enumeration values and variables whose
    DataType is not a built-in type are not offenders, whatever they hold -/
theorem never_offending (dtName : Nat → Option Str) (r : VRow)
    (h : classOf r = kUAListOf ∨ classOf r = kUAEnumeration ∨ builtinNames.contains (expectedOf dtName r) = false) :
    offending dtName r = false := by
  unfold offending potentially
  rcases h with h | h | h
  · simp [h]
  · simp [h]
  · rw [h]; simp

/-- **no DataType**: a variable with a value but no DataType is rejected -/
theorem missing_datatype_rejected (rows : List VRow) (dtName : Nat → Option Str)
    (h : ∃ r ∈ checkedRows rows, r.dataType = none) : validateValues rows dtName = .error .noDataType := by
  obtain ⟨r, hr, hd⟩ := h
  unfold validateValues
  simp only
  have hne : checkedRows rows ≠ [] := List.ne_nil_of_mem hr
  have hany : (checkedRows rows).any (fun r => r.dataType.isNone) = true := by
    simp only [List.any_eq_true]
    exact ⟨r, hr, by simp [hd]⟩
  simp only [hne, if_false, hany, if_true]

/-- only variables that hold a value are looked at -/
theorem only_variables_with_values (rows : List VRow) (r : VRow) :
    r ∈ checkedRows rows ↔ r ∈ rows ∧ r.cls = kUAVariable ∧ r.valueClass.isSome = true := by
  simp [checkedRows, isChecked]

/-! ### non-vacuity -/
def dt (i : Nat) : Option Str := if i = 6 then some "Int32".toList else if i = 12 then some "String".toList else if i = 99 then some "MyEnum".toList else none
example : validateValues [⟨kUAVariable, "Bad".toList, some "UAString".toList, some 6⟩,
                          ⟨kUAVariable, "Good".toList, some "UAInt32".toList, some 6⟩,
                          ⟨kUAVariable, "L".toList, some "UAListOf".toList, some 6⟩,
                          ⟨kUAVariable, "E".toList, some "UAEnumeration".toList, some 99⟩] dt =
    .error (.invalid ["Bad".toList]) := by decide

end Opcua.C16

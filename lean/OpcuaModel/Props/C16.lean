import OpcuaModel.Model.Validate
/-! # C16 — value/DataType validation on write rejects exactly the mismatching variables. -/
namespace Opcua.C16
open Opcua

/-- the variables the error must name -/
def offenders (rows : List VRow) (dtName : Nat → Option Str) : List VRow := (checkedRows rows).filter (offending dtName)

theorem offenders_eq (rows : List VRow) (dtName : Nat → Option Str) :
    ((checkedRows rows).filter (potentially dtName)).filter
        (fun r => !decide (classOf r = expectedOf dtName r) && !decide (classOf r = kUAEnumeration)) =
      offenders rows dtName := by
  unfold offenders offending
  rw [List.filter_filter]
  congr 1
  funext r
  cases potentially dtName r <;> simp

theorem bad_all_valid (rows : List VRow) (dtName : Nat → Option Str)
    (h : ((checkedRows rows).filter (potentially dtName)).all (fun r => decide (classOf r = expectedOf dtName r)) = true) :
    offenders rows dtName = [] := by
  rw [← offenders_eq]
  apply List.filter_eq_nil_iff.2
  intro r hr
  rw [List.all_eq_true] at h
  have := h r hr
  simp only [decide_eq_true_eq] at this
  simp [this]

/-- **the decision, exactly**: with every checked variable declaring a DataType, the write is accepted
    when there is no offending variable and is rejected with the value-mismatch error naming exactly
    the offending variables (in table order) when there is one -/
theorem decision (rows : List VRow) (dtName : Nat → Option Str)
    (hd : ∀ r ∈ checkedRows rows, r.dataType.isNone = false) :
    validateValues rows dtName =
      if offenders rows dtName = [] then .ok () else .error (.invalid ((offenders rows dtName).map (·.display))) := by
  unfold validateValues
  simp only
  by_cases h1 : checkedRows rows = []
  · simp [h1, offenders]
  · have h2 : (checkedRows rows).any (fun r => r.dataType.isNone) = false := by
      simp only [List.any_eq_false]; intro x hx; simp [hd x hx]
    simp only [h1, if_false, h2, Bool.false_eq_true]
    by_cases h3 : ((checkedRows rows).filter (potentially dtName)).all (fun r => decide (classOf r = expectedOf dtName r)) = true
    · simp [h3, bad_all_valid rows dtName h3]
    · simp only [h3, if_false, offenders_eq]
      simp

/-- **names_exact**: whenever the validator rejects for a value mismatch, the message names exactly
    the offending variables, in table order — and there is at least one -/
theorem names_exact (rows : List VRow) (dtName : Nat → Option Str) (names : List Str)
    (h : validateValues rows dtName = .error (.invalid names)) :
    names = (offenders rows dtName).map (·.display) ∧ offenders rows dtName ≠ [] := by
  unfold validateValues at h
  simp only at h
  split at h
  · simp at h
  · split at h
    · simp at h
    · split at h
      · simp at h
      · rw [offenders_eq] at h
        split at h
        · simp at h
        · next hne =>
          simp only [Except.error.injEq, ValErr.invalid.injEq] at h
          exact ⟨h.symm, hne⟩

/-- **rejects**: one offending variable is enough for the write to be rejected -/
theorem offender_rejected (rows : List VRow) (dtName : Nat → Option Str)
    (hd : ∀ r ∈ checkedRows rows, r.dataType.isNone = false) (r : VRow) (hr : r ∈ offenders rows dtName) :
    validateValues rows dtName = .error (.invalid ((offenders rows dtName).map (·.display))) := by
  rw [decision rows dtName hd, if_neg (List.ne_nil_of_mem hr)]

/-- **accepts**: when no checked variable offends, the write goes ahead — whatever enumeration and
    list values are among the variables -/
theorem no_offender_accepted (rows : List VRow) (dtName : Nat → Option Str)
    (hd : ∀ r ∈ checkedRows rows, r.dataType.isNone = false) (hno : offenders rows dtName = []) :
    validateValues rows dtName = .ok () := by
  rw [decision rows dtName hd, if_pos hno]

/-- **never rejected for a value mismatch**: list values, enumeration values and variables whose
    DataType is not a built-in type are not offenders, whatever they hold -/
theorem never_offending (dtName : Nat → Option Str) (r : VRow)
    (h : classOf r = kUAListOf ∨ classOf r = kUAEnumeration ∨ builtinNames.contains (expectedOf dtName r) = false) :
    offending dtName r = false := by
  unfold offending potentially
  rcases h with h | h | h
  · simp [h]
  · simp [h]
  · rw [h]; simp

/-- **no DataType**: a variable with a value but no DataType is rejected -/
theorem missing_datatype_rejected (rows : List VRow) (dtName : Nat → Option Str)
    (h : ∃ r ∈ checkedRows rows, r.dataType = none) : validateValues rows dtName = .error .noDataType := by
  obtain ⟨r, hr, hd⟩ := h
  unfold validateValues
  simp only
  have hne : checkedRows rows ≠ [] := List.ne_nil_of_mem hr
  have hany : (checkedRows rows).any (fun r => r.dataType.isNone) = true := by
    simp only [List.any_eq_true]
    exact ⟨r, hr, by simp [hd]⟩
  simp only [hne, if_false, hany, if_true]

/-- only variables that hold a value are looked at -/
theorem only_variables_with_values (rows : List VRow) (r : VRow) :
    r ∈ checkedRows rows ↔ r ∈ rows ∧ r.cls = kUAVariable ∧ r.valueClass.isSome = true := by
  simp [checkedRows, isChecked]

/-! ### non-vacuity -/
def dt (i : Nat) : Option Str := if i = 6 then some "Int32".toList else if i = 12 then some "String".toList else if i = 99 then some "MyEnum".toList else none
example : validateValues [⟨kUAVariable, "Bad".toList, some "UAString".toList, some 6⟩,
                          ⟨kUAVariable, "Good".toList, some "UAInt32".toList, some 6⟩,
                          ⟨kUAVariable, "L".toList, some "UAListOf".toList, some 6⟩,
                          ⟨kUAVariable, "E".toList, some "UAEnumeration".toList, some 99⟩] dt =
    .error (.invalid ["Bad".toList]) := by decide
/-- the regression of the repaired defect: an enumeration value under a built-in DataType of another
    name next to a correctly typed variable is accepted -/
example : validateValues [⟨kUAVariable, "Good".toList, some "UAInt32".toList, some 6⟩,
                          ⟨kUAVariable, "E".toList, some "UAEnumeration".toList, some 12⟩] dt = .ok () := by decide

end Opcua.C16

import OpcuaModel.Model.NodeId
import OpcuaModel.Lemmas.Str
/-! # C09 — NodeId text is parsed and printed inversely, for every identifier.

Property theorems only (helpers are in `Lemmas/Str.lean`, except the three small facts about the
identifier-type letter below). The model is `cachedParse` / `parseNodeId` / `NodeId.print` /
`mkNodeId` of `Model/NodeId.lean`. -/
namespace Opcua.C09
open Opcua

theorem IdType.ofStr_char (t : IdType) : IdType.ofStr [t.char] = some t := by cases t <;> rfl
theorem IdType.char_ne_eq (t : IdType) : t.char ≠ '=' := by cases t <;> decide
theorem IdType.char_facts (t : IdType) : isSpace t.char = false ∧ t.char ≠ 'n' := by
  cases t <;> exact ⟨by decide, by decide⟩

theorem IdType.ofStr_inv (t : Str) (ty : IdType) (h : IdType.ofStr t = some ty) : t = [ty.char] := by
  unfold IdType.ofStr at h
  split at h <;> simp at h <;> subst h <;> rfl

/-- the guard distinguishes the two printed forms exactly -/
theorem nsPrefixed_print (n : NodeId) : nsPrefixed (n.print) = decide (n.ns ≠ 0) := by
  unfold NodeId.print nsPrefixed
  by_cases h0 : n.ns = 0
  · obtain ⟨hsp, hn⟩ := IdType.char_facts n.ty
    simp only [h0, if_true, lstrip_cons _ _ hsp]
    simp [startsWith]
  · have hsp : isSpace 'n' = false := by decide
    simp only [h0, if_false, lstrip_cons _ _ hsp]
    simp [startsWith, h0]

/-- text level: for **every** namespace index, identifier type and identifier string,
    the split made by `cached_parse_nodeid` recovers exactly the three components. -/
theorem cachedParse_print (n : NodeId) : cachedParse n.print = .ok (n.ns, n.ty, n.ident) := by
  have h3 : split1 '=' (n.ty.char :: '=' :: n.ident) = ([n.ty.char], some n.ident) := by
    have := split1_append '=' [n.ty.char] n.ident (by simp; exact (IdType.char_ne_eq n.ty).symm)
    simpa using this
  unfold cachedParse
  rw [nsPrefixed_print]
  by_cases h0 : n.ns = 0
  · simp only [h0, ne_eq, not_true_eq_false, decide_false, Bool.false_eq_true, if_false]
    have : n.print = n.ty.char :: '=' :: n.ident := by simp [NodeId.print, h0]
    rw [this, h3]
    simp [IdType.ofStr_char, h0]
  · have hp : n.print = ('n' :: 's' :: '=' :: pyStrInt n.ns) ++ ';' :: (n.ty.char :: '=' :: n.ident) := by
      simp [NodeId.print, h0]
    have h1 : split1 ';' n.print = ('n' :: 's' :: '=' :: pyStrInt n.ns, some (n.ty.char :: '=' :: n.ident)) := by
      rw [hp]; apply split1_append
      simp only [List.mem_cons, not_or]
      exact ⟨by decide, by decide, by decide, (pyStrInt_no_syntax n.ns).1⟩
    have h2 : split1 '=' ('n' :: 's' :: '=' :: pyStrInt n.ns) = (['n', 's'], some (pyStrInt n.ns)) := by
      have := split1_append '=' ['n', 's'] (pyStrInt n.ns) (by decide)
      simpa using this
    simp only [h0, ne_eq, not_false_eq_true, decide_true, if_true, h1, h2, pyInt_pyStrInt, h3,
      IdType.ofStr_char]

/-- **C09 round trip** — printing any NodeId the constructor accepts and parsing the text
    (no namespace map, no aliases) gives back the same NodeId. -/
theorem parse_print (n : NodeId) (h : n.Valid) : parseNodeId n.print [] none = .ok n := by
  unfold parseNodeId
  simp only [Option.bind_none, cachedParse_print, List.isEmpty_nil, if_true]
  unfold mkNodeId
  by_cases ht : n.ty = .i
  · have := h ht
    cases n; simp_all
  · simp [ht]

/-- with a (non-empty) namespace map the result carries the mapped index … -/
theorem parse_mapped (n : NodeId) (m : List (Int × Int)) (hm : m ≠ []) (g : Int)
    (hg : lookup n.ns m = some g) (h : n.Valid) :
    parseNodeId n.print m none = .ok { n with ns := g } := by
  unfold parseNodeId
  have : m.isEmpty = false := by cases m <;> simp_all
  simp only [Option.bind_none, cachedParse_print, this, hg]
  unfold mkNodeId
  by_cases ht : n.ty = .i
  · have := h ht
    cases n; simp_all
  · simp [ht]

/-- … and an index the map does not know is an error (`KeyError`), never a silent default. -/
theorem parse_unmapped (n : NodeId) (m : List (Int × Int)) (hm : m ≠ [])
    (hg : lookup n.ns m = none) : parseNodeId n.print m none = .error .keyError := by
  unfold parseNodeId
  have : m.isEmpty = false := by cases m <;> simp_all
  simp only [Option.bind_none, cachedParse_print, this, hg]
  rfl

/-- an alias name yields the aliased NodeId, whatever the text looks like -/
theorem alias_first (s : Str) (m : List (Int × Int)) (al : List (Str × NodeId)) (a : NodeId)
    (h : lookup s al = some a) : parseNodeId s m (some al) = .ok a := by
  simp [parseNodeId, h]

/-- **no misread (soundness)**: whatever `cached_parse_nodeid` accepts *is* a NodeId text of one of
    the two forms, with exactly the components it returns; everything else is rejected. -/
theorem no_misread (s : Str) (ns : Int) (ty : IdType) (v : Str)
    (h : cachedParse s = .ok (ns, ty, v)) :
    (nsPrefixed s = false ∧ ns = 0 ∧ s = ty.char :: '=' :: v) ∨
    (nsPrefixed s = true ∧ ∃ a k, s = a ++ '=' :: k ++ ';' :: ty.char :: '=' :: v ∧
        '=' ∉ a ∧ ';' ∉ a ++ '=' :: k ∧ pyInt k = some ns) := by
  unfold cachedParse at h
  split at h
  · next hp =>
    right
    refine ⟨hp, ?_⟩
    generalize hs1 : split1 ';' s = r1 at h
    obtain ⟨hd, rest?⟩ := r1
    simp only at h
    generalize hs2 : split1 '=' hd = r2 at h
    obtain ⟨a, k?⟩ := r2
    cases k? with
    | none => simp at h
    | some k =>
      simp only at h
      cases hk : pyInt k with
      | none => simp [hk] at h
      | some n0 =>
        simp only [hk] at h
        cases rest? with
        | none => simp at h
        | some rest =>
          simp only at h
          generalize hs3 : split1 '=' rest = r3 at h
          obtain ⟨t, v?⟩ := r3
          cases v? with
          | none => simp at h
          | some v0 =>
            simp only at h
            cases ht : IdType.ofStr t with
            | none => simp [ht] at h
            | some ty0 =>
              simp only [ht, Except.ok.injEq, Prod.mk.injEq] at h
              obtain ⟨rfl, rfl, rfl⟩ := h
              obtain ⟨e1, n1⟩ := split1_some_inv ';' s hd rest hs1
              obtain ⟨e2, n2⟩ := split1_some_inv '=' hd a k hs2
              obtain ⟨e3, _⟩ := split1_some_inv '=' rest t v0 hs3
              have := IdType.ofStr_inv t ty0 ht
              subst this
              refine ⟨a, k, ?_, n2, ?_, hk⟩
              · rw [e1, e2, e3]; simp
              · rw [← e2]; exact n1
  · next hp =>
    left
    have hp' : nsPrefixed s = false := by simpa using hp
    generalize hs1 : split1 '=' s = r1 at h
    obtain ⟨t, v?⟩ := r1
    cases v? with
    | none => simp at h
    | some v0 =>
      simp only at h
      cases ht : IdType.ofStr t with
      | none => simp [ht] at h
      | some ty0 =>
        simp only [ht, Except.ok.injEq, Prod.mk.injEq] at h
        obtain ⟨rfl, rfl, rfl⟩ := h
        obtain ⟨e1, _⟩ := split1_some_inv '=' s t v0 hs1
        have := IdType.ofStr_inv t ty0 ht
        subst this
        exact ⟨hp', rfl, by simpa using e1⟩

/-- consequence: a text that is accepted without a map denotes a NodeId whose printed form parses
    to the same NodeId — parsing is a retraction onto canonical texts. -/
theorem parse_idempotent (s : Str) (n : NodeId) (h : parseNodeId s [] none = .ok n) :
    parseNodeId n.print [] none = .ok n := by
  apply parse_print
  unfold parseNodeId at h
  simp only [Option.bind_none, List.isEmpty_nil, if_true] at h
  cases hc : cachedParse s with
  | error e => simp [hc] at h
  | ok r =>
    obtain ⟨ns, ty, v⟩ := r
    simp only [hc, mkNodeId] at h
    split at h
    · simp at h
    · next hcond =>
      simp only [Except.ok.injEq] at h
      subst h
      intro hty
      simp only at hty
      cases hv : numericOk v with
      | true => rfl
      | false => exact absurd ⟨hty, hv⟩ hcond

/-! ### non-vacuity and the regression witnesses of the repaired defect D-C09a -/

/-- hostile identifiers satisfy the hypotheses and round-trip (instances of the theorem) -/
example : parseNodeId (NodeId.print ⟨3, .s, "x;ns=2;s=ns".toList⟩) [] none = .ok ⟨3, .s, "x;ns=2;s=ns".toList⟩ :=
  parse_print _ (by decide)
example : parseNodeId (NodeId.print ⟨0, .s, "2;s=ns".toList⟩) [] none = .ok ⟨0, .s, "2;s=ns".toList⟩ :=
  parse_print _ (by decide)
example : parseNodeId (NodeId.print ⟨-7, .i, "42".toList⟩) [(-7, 5)] none = .ok ⟨5, .i, "42".toList⟩ :=
  parse_mapped _ _ (by decide) 5 (by decide) (by decide)

/-- evaluation witnesses (tests, not theorems about all inputs): the texts that the code before
    `fix: cached_parse_nodeid …` rejected or misread -/
theorem witness_transform : parseNodeId "s=transform".toList [] none = .ok ⟨0, .s, "transform".toList⟩ := by decide
theorem witness_no_misread : parseNodeId "s=2;s=ns".toList [] none = .ok ⟨0, .s, "2;s=ns".toList⟩ := by decide
theorem witness_rejects : parseNodeId "ns=1".toList [] none = .error .indexError ∧
    parseNodeId "HasComponent".toList [] none = .error .valueError ∧
    parseNodeId "i=abc".toList [] none = .error .typeError := by decide

end Opcua.C09

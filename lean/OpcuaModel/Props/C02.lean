import OpcuaModel.Model.Parse
import OpcuaModel.Lemmas.MapE
import OpcuaModel.Props.C01
import OpcuaModel.Props.C12
/-! # C02 — the references table is exactly the declared relation, oriented forward. -/
namespace Opcua.C02
open Opcua

theorem mem_dedup {α} [DecidableEq α] (l : List α) (a : α) : a ∈ dedup l ↔ a ∈ l := C12.mem_uniques l a
theorem nodup_dedup {α} [DecidableEq α] (l : List α) : (dedup l).Nodup := C12.nodup_uniques l

/-- the relation a document declares, read off its elements (specification; no tables, no order):
    some Reference element `x` of some node element `e` (whose row is `r`) yields the triple -/
def Declared (nsmap : List (Int × Int)) (al : List (Str × NodeId)) (elems : List NodeElem) (rows : List NodeRow)
    (t : Triple) : Prop :=
  ∃ q ∈ elems.zip rows, ∃ x ∈ q.1.refs, parseRef nsmap al q.2.nodeId x = .ok t

/-- **orientation**: a Reference whose `IsForward` is literally `"false"` is stored other → node,
    every other Reference node → other, with the type resolved from alias or NodeId -/
theorem parseRef_oriented (nsmap : List (Int × Int)) (al : List (Str × NodeId)) (src : NodeId) (x : RefElem)
    (t : Triple) (h : parseRef nsmap al src x = .ok t) :
    ∃ txt other tyText ty, x.text = some txt ∧ parseNodeId (rstrip txt) nsmap (some al) = .ok other ∧
      lookup kReferenceType x.attrs = some tyText ∧ parseNodeId tyText nsmap (some al) = .ok ty ∧
      t = (if lookup kIsForward x.attrs = some kFalse then (other, src, ty) else (src, other, ty)) := by
  unfold parseRef at h
  split at h
  · simp at h
  · next txt htxt =>
    split at h
    · simp at h
    · next other ho =>
      split at h
      · simp at h
      · next tyText hty =>
        split at h
        · simp at h
        · next ty hp =>
          refine ⟨txt, other, tyText, ty, htxt, ho, hty, hp, ?_⟩
          split at h <;> simp_all

/-- **refs_sound_complete** (one document): the table holds exactly the declared triples — none
    lost, none invented, whether or not the other end point is defined anywhere -/
theorem refs_sound_complete (g : List Str) (d : Doc) (k : Nat) (g1 : List Str) (p : ParsedDoc)
    (h : parseDoc g d k = .ok (g1, p)) :
    ∃ al, aliasTable (nsMapOf (extendNs (withUA g) d.uris).2) d.aliases = .ok al ∧
      ∀ t, t ∈ p.refs ↔ Declared (nsMapOf (extendNs (withUA g) d.uris).2) al d.nodes p.nodes t := by
  obtain ⟨al, rows, trips, hal, _, _, htr, _, hp⟩ := C01.parseDoc_inv g d k g1 p h
  subst hp
  refine ⟨al, hal, fun t => ?_⟩
  simp only [mem_dedup, List.mem_flatten, Declared]
  constructor
  · rintro ⟨l, hl, ht⟩
    obtain ⟨q, hq, hm⟩ := (mapE_mem _ _ _ htr l).1 hl
    obtain ⟨x, hx, hpx⟩ := (mapE_mem _ _ _ hm t).1 ht
    exact ⟨q, hq, x, hx, hpx⟩
  · rintro ⟨q, hq, x, hx, hpx⟩
    -- the inner comprehension for q succeeded as part of the outer one
    obtain ⟨l, hl, hm⟩ := mapE_ok_of_mem _ _ _ htr q hq
    exact ⟨l, hl, (mapE_mem _ _ _ hm t).2 ⟨x, hx, hpx⟩⟩

/-- **each triple once** per document -/
theorem refs_nodup (g : List Str) (d : Doc) (k : Nat) (g1 : List Str) (p : ParsedDoc)
    (h : parseDoc g d k = .ok (g1, p)) : p.refs.Nodup := by
  obtain ⟨al, rows, trips, _, _, _, _, _, hp⟩ := C01.parseDoc_inv g d k g1 p h
  subst hp
  exact nodup_dedup _

/-- **serialisation independence**: two documents (or two layouts of one) that declare the same
    relation yield tables that are permutations of one another — where and in which direction each
    reference is written does not matter -/
theorem serialisation_perm (l₁ l₂ : List Triple) (h : ∀ t, t ∈ l₁ ↔ t ∈ l₂) : (dedup l₁).Perm (dedup l₂) :=
  (List.perm_ext_iff_of_nodup (nodup_dedup l₁) (nodup_dedup l₂)).2 fun t => by
    rw [mem_dedup, mem_dedup, h]

/-- writing a reference on its target as an inverse declares the same triple as writing it on its
    source: both orientations of `parseRef` meet in one triple -/
theorem inverse_same (s t ty : NodeId) :
    (if (some kFalse : Option Str) = some kFalse then (s, t, ty) else (t, s, ty)) =
    (if (none : Option Str) = some kFalse then (t, s, ty) else (s, t, ty)) := by simp

/-- **several files**: the combined table holds exactly the union of the files' tables, each triple
    once even when two files declare it -/
theorem files_refs (caller : List Str) (docs : List Doc) (r : ParseOut) (h : parseFiles caller docs = .ok r) :
    r.refs.Nodup ∧ ∃ raw, parseFilesAux caller docs = .ok raw ∧ ∀ t, t ∈ r.refs ↔ t ∈ raw.refs := by
  unfold parseFiles at h
  split at h
  · simp at h
  · split at h
    · simp at h
    · next raw hraw =>
      simp only [Except.ok.injEq] at h
      subst h
      exact ⟨nodup_dedup _, raw, hraw, fun t => mem_dedup _ t⟩

theorem filesAux_refs (g : List Str) (d : Doc) (ds : List Doc) (r : ParseOut)
    (h : parseFilesAux g (d :: ds) = .ok r) :
    ∃ g1 p r', parseDoc g d = .ok (g1, p) ∧ parseFilesAux g1 ds = .ok r' ∧ r.refs = p.refs ++ r'.refs ∧
      r.nodes = p.nodes ++ r'.nodes := by
  simp only [parseFilesAux] at h
  split at h
  · simp at h
  · next g1 p hp =>
    split at h
    · simp at h
    · next r' hr' =>
      simp only [Except.ok.injEq] at h
      subst h
      exact ⟨g1, p, r', hp, hr', rfl, rfl⟩

/-! ### non-vacuity -/
def fwd : RefElem := RefElem.mk [(kReferenceType, "i=47".toList)] (some "i=2 ".toList)
def inv : RefElem := RefElem.mk [(kReferenceType, "HasComponent".toList), (kIsForward, kFalse)] (some "i=1".toList)
/-- declared forward on the source (literal type, trailing blank) and inverse on the target (alias):
    one and the same triple -/
example : parseRef (nsMapOf []) [("HasComponent".toList, ⟨0, .i, "47".toList⟩)] ⟨0, .i, "1".toList⟩ fwd =
    parseRef (nsMapOf []) [("HasComponent".toList, ⟨0, .i, "47".toList⟩)] ⟨0, .i, "2".toList⟩ inv := by decide +kernel


theorem uniques_of_nodup {α} [DecidableEq α] (l : List α) (h : l.Nodup) : uniques l = l := by
  induction l with
  | nil => rfl
  | cons a r ih =>
    have hr := (List.nodup_cons.1 h)
    simp only [uniques, ih hr.2]
    congr 1
    apply List.filter_eq_self.2
    intro x hx
    simp only [ne_eq, decide_eq_true_eq]
    intro e; subst e; exact hr.1 hx

/-- **the single-file entry point agrees with the list entry point**: for one document the references of
    `parse_xml_files([file])` are exactly those of the document's own parse (`parse_xml(file)`), in the
    same order — the second, global de-duplication changes nothing -/
theorem single_file_refs (g : List Str) (d : Doc) (g1 : List Str) (p : ParsedDoc) (out : ParseOut)
    (hd : parseDoc g d = .ok (g1, p)) (hf : parseFiles g [d] = .ok out) : out.refs = p.refs ∧ out.nodes = p.nodes ∧ out.models = p.models := by
  unfold parseFiles at hf
  simp only [List.cons_ne_nil, if_false, parseFilesAux, hd] at hf
  simp only [Except.ok.injEq] at hf
  subst hf
  refine ⟨?_, by simp, by simp⟩
  simp only [List.append_nil]
  exact uniques_of_nodup _ (refs_nodup g d _ g1 p hd)


end Opcua.C02

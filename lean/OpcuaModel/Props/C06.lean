import OpcuaModel.Model.Write
import OpcuaModel.Props.C12
/-! # C06 — a written NodeSet denotes exactly the requested namespace's part of the graph. -/
namespace Opcua.C06
open Opcua

/-! ### sorting of the namespaces in use -/

def Sorted : List Int → Prop
  | [] => True
  | [_] => True
  | a :: b :: r => a ≤ b ∧ Sorted (b :: r)

theorem sorted_tail {a : Int} {l : List Int} (h : Sorted (a :: l)) : Sorted l := by
  cases l with
  | nil => trivial
  | cons b r => exact h.2

theorem mem_insertSorted (x y : Int) (l : List Int) : y ∈ insertSorted x l ↔ y = x ∨ y ∈ l := by
  induction l with
  | nil => simp [insertSorted]
  | cons a as ih =>
    simp only [insertSorted]
    split
    · simp
    · simp only [List.mem_cons, ih]
      constructor
      · rintro (h | h | h)
        · exact Or.inr (Or.inl h)
        · exact Or.inl h
        · exact Or.inr (Or.inr h)
      · rintro (h | h | h)
        · exact Or.inr (Or.inl h)
        · exact Or.inl h
        · exact Or.inr (Or.inr h)

theorem sorted_insert (x : Int) (l : List Int) (h : Sorted l) : Sorted (insertSorted x l) := by
  induction l with
  | nil => simp [insertSorted, Sorted]
  | cons a as ih =>
    simp only [insertSorted]
    split
    · next hle => exact ⟨hle, h⟩
    · next hgt =>
      have hs := ih (sorted_tail h)
      cases as with
      | nil => exact ⟨by omega, trivial⟩
      | cons b r =>
        simp only [insertSorted] at hs ⊢
        split
        · next hxb => exact ⟨by omega, by simp only [hxb, if_true] at hs; exact hs⟩
        · next hxb => exact ⟨h.1, by simp only [hxb, if_false] at hs; exact hs⟩

theorem sortInts_sorted (l : List Int) : Sorted (sortInts l) := by
  induction l with
  | nil => trivial
  | cons a as ih => exact sorted_insert a _ ih

theorem mem_sortInts (l : List Int) (y : Int) : y ∈ sortInts l ↔ y ∈ l := by
  induction l with
  | nil => simp [sortInts]
  | cons a as ih =>
    have : sortInts (a :: as) = insertSorted a (sortInts as) := rfl
    rw [this, mem_insertSorted, ih]; simp

theorem nodup_insert (x : Int) (l : List Int) (h : l.Nodup) (hx : x ∉ l) : (insertSorted x l).Nodup := by
  induction l with
  | nil => simp [insertSorted]
  | cons a as ih =>
    simp only [insertSorted]
    split
    · exact List.nodup_cons.2 ⟨hx, h⟩
    · have ha := (List.nodup_cons.1 h)
      refine List.nodup_cons.2 ⟨?_, ih ha.2 (fun m => hx (by simp [m]))⟩
      rw [mem_insertSorted]
      rintro (e | m)
      · exact hx (by simp [e])
      · exact ha.1 m

theorem sortInts_nodup (l : List Int) (h : l.Nodup) : (sortInts l).Nodup := by
  induction l with
  | nil => simp [sortInts]
  | cons a as ih =>
    have ha := List.nodup_cons.1 h
    exact nodup_insert a _ (ih ha.2) (fun m => ha.1 ((mem_sortInts as a).1 m))

/-- in a sorted duplicate-free list of non-negative indices that contains 0 and 1, the index 1 sits
    at position 1 -/
theorem idxOf_one (l : List Int) (hs : Sorted l) (hn : l.Nodup) (hpos : ∀ x ∈ l, 0 ≤ x) (h0 : (0 : Int) ∈ l) (h1 : (1 : Int) ∈ l) :
    l.idxOf (1 : Int) = 1 := by
  match l, hs, hn, hpos, h0, h1 with
  | [], _, _, _, h0, _ => simp at h0
  | [a], _, _, _, h0, h1 => simp at h0 h1; omega
  | a :: b :: r, hs, hn, hpos, h0, h1 =>
    have hab : a ≤ b := hs.1
    have ha0 : 0 ≤ a := hpos a (by simp)
    have hane : a ≠ b := fun e => (List.nodup_cons.1 hn).1 (by simp [e])
    -- every later element is ≥ b > a, so 0 must be a
    have hge : ∀ x ∈ b :: r, b ≤ x := by
      have : ∀ (l : List Int) (c : Int), Sorted (c :: l) → ∀ x ∈ c :: l, c ≤ x := by
        intro l
        induction l with
        | nil => intro c _ x hx; simp at hx; omega
        | cons d ds ih =>
          intro c hcs x hx
          simp only [List.mem_cons] at hx
          rcases hx with rfl | hx
          · omega
          · have := ih d hcs.2 x (by simpa using hx)
            have := hcs.1
            omega
      exact this r b hs.2
    have ha : a = 0 := by
      simp only [List.mem_cons] at h0
      rcases h0 with e | e
      · exact e.symm
      · have := hge 0 (by simpa using e); omega
    subst ha
    have hb : b = 1 := by
      simp only [List.mem_cons] at h1
      rcases h1 with e | e | e
      · omega
      · exact e.symm
      · have h1' := hge 1 (by simp [e])
        have : 0 < b := by omega
        omega
    subst hb
    simp [List.idxOf_cons]

/-! ### property theorems -/

/-- **outgoing_filter_exact**: with the switch off, a reference is kept iff its target lies in the
    written namespace or its type is HasModellingRule / HasTypeDefinition — nothing else is dropped,
    nothing is added -/
theorem outgoing_filter_exact (g : Graph) (idx : Nat) (hmr htd : Nat)
    (h1 : typeIdByName g.nodes kHMR = some hmr)
    (h2 : typeIdByName g.nodes kHTD = some htd) (r : Nat × Nat × Nat) :
    ∃ kept, dropOutgoing g idx = .ok kept ∧
      (r ∈ kept ↔ r ∈ g.refs ∧ ((∃ n ∈ g.nodes, n.nodeId.ns = (idx : Int) ∧ n.id = r.2.1) ∨ r.2.2 = hmr ∨ r.2.2 = htd)) := by
  have hd : dropOutgoing g idx = .ok (g.refs.filter fun r =>
      ((g.nodes.filter fun n => n.nodeId.ns = (idx : Int)).map (·.id)).contains r.2.1 || r.2.2 = hmr || r.2.2 = htd) := by
    simp only [dropOutgoing, h1, h2]
  refine ⟨_, hd, ?_⟩
  simp only [List.mem_filter, Bool.or_eq_true, List.contains_iff_mem, List.mem_map, decide_eq_true_eq]
  constructor
  · rintro ⟨hr, (⟨n, hn, e⟩ | e) | e⟩
    · exact ⟨hr, Or.inl ⟨n, hn.1, hn.2, e⟩⟩
    · exact ⟨hr, Or.inr (Or.inl e)⟩
    · exact ⟨hr, Or.inr (Or.inr e)⟩
  · rintro ⟨hr, ⟨n, hn, e1, e2⟩ | e | e⟩
    · exact ⟨hr, Or.inl (Or.inl ⟨n, ⟨hn, e1⟩, e2⟩)⟩
    · exact ⟨hr, Or.inl (Or.inr e)⟩
    · exact ⟨hr, Or.inr e⟩

/-- inversion of a successful `createNodeset` -/
theorem createNodeset_inv (ns : List Str) (nodes : List GNode) (refs : List (Nat × Nat × Nat)) (models : List ModelElem)
    (d : WDoc) (h : createNodeset ns nodes refs models = .ok d) :
    let inUse := namespacesInUse nodes refs
    let tbl := lookupTable inUse nodes
    let wids := (writtenNodes inUse nodes).filterMap fun n => (lookupNid tbl n.id).map NodeId.print
    d.nodes = (writtenNodes inUse nodes).map (wnodeOf inUse tbl (refs.map (placeRef wids tbl))) ∧
    (inUse.filterMap fun k => if k < 0 then none else ns[k.toNat]?)[1]? = some d.modelUri ∧
    d.uris = (inUse.filterMap fun k => if k < 0 then none else ns[k.toNat]?).drop 1 := by
  unfold createNodeset at h
  simp only at h
  split at h
  · simp at h
  · next mu hmu =>
    simp only [Except.ok.injEq] at h
    subst h
    exact ⟨rfl, hmu, rfl⟩

/-- **nodes_exact**: the document declares one element per graph row whose namespace is the one
    written (position 1 of the in-use list), in the rows' order — none invented, none dropped, none
    twice (the rows are a sub-list of the graph's rows) -/
theorem nodes_exact (ns : List Str) (nodes : List GNode) (refs : List (Nat × Nat × Nat)) (models : List ModelElem)
    (d : WDoc) (h : createNodeset ns nodes refs models = .ok d) :
    d.nodes.length = (writtenNodes (namespacesInUse nodes refs) nodes).length ∧
    (writtenNodes (namespacesInUse nodes refs) nodes).Sublist nodes ∧
    ∀ n, n ∈ writtenNodes (namespacesInUse nodes refs) nodes ↔
      n ∈ nodes ∧ posOf (namespacesInUse nodes refs) n.nodeId.ns = some 1 := by
  obtain ⟨hn, _, _⟩ := createNodeset_inv ns nodes refs models d h
  refine ⟨by rw [hn]; simp, List.filter_sublist, fun n => ?_⟩
  simp [writtenNodes]

/-- **the written namespace is U**: when the namespaces in use include 0 (something of the base
    namespace is used) and 1 (U owns a node), the rows written are exactly those of remapped
    namespace 1 — i.e. of U. (`0 ∈ inUse` is the hypothesis the proof forces; the real code fails at
    the excluded point, finding D-C06b.) -/
theorem position_one_is_U (nodes : List GNode) (refs : List (Nat × Nat × Nat))
    (hpos : ∀ x ∈ namespacesInUse nodes refs, 0 ≤ x) (h0 : (0 : Int) ∈ namespacesInUse nodes refs)
    (h1 : (1 : Int) ∈ namespacesInUse nodes refs) (k : Int) :
    posOf (namespacesInUse nodes refs) k = some 1 ↔ k = 1 := by
  have hs : Sorted (namespacesInUse nodes refs) := sortInts_sorted _
  have hn : (namespacesInUse nodes refs).Nodup := sortInts_nodup _ (C12.nodup_uniques _)
  have hi := idxOf_one _ hs hn hpos h0 h1
  unfold posOf
  constructor
  · intro h
    split at h
    · next hk =>
      simp only [Option.some.injEq] at h
      have hik : (namespacesInUse nodes refs).idxOf k = 1 := by omega
      have e1 := List.getElem_idxOf (List.idxOf_lt_length_of_mem hk)
      have e2 := List.getElem_idxOf (List.idxOf_lt_length_of_mem h1)
      rw [← e1, ← e2]; simp [hik, hi]
    · simp at h
  · rintro rfl
    simp [h1, hi]

/-- **references are placed once, on the right node, in the right direction**: every reference of
    the (filtered) table is written on its target as an inverse if the target is written, otherwise
    on its source as a forward reference; a node's Reference children are exactly the references
    whose owner text is its NodeId -/
theorem refs_placed (ns : List Str) (nodes : List GNode) (refs : List (Nat × Nat × Nat)) (models : List ModelElem)
    (d : WDoc) (h : createNodeset ns nodes refs models = .ok d) :
    let inUse := namespacesInUse nodes refs
    let tbl := lookupTable inUse nodes
    let wids := (writtenNodes inUse nodes).filterMap fun n => (lookupNid tbl n.id).map NodeId.print
    ∀ n ∈ writtenNodes inUse nodes, ∀ w : WRef,
      w ∈ (wnodeOf inUse tbl (refs.map (placeRef wids tbl)) n).refs ↔
        ∃ r ∈ refs, placeRef wids tbl r = (((lookupNid tbl n.id).getD n.nodeId).print, w) := by
  intro inUse tbl wids n _ w
  simp only [wnodeOf, List.mem_map, List.mem_filter, decide_eq_true_eq]
  constructor
  · rintro ⟨p, ⟨⟨r, hr, rfl⟩, hp⟩, rfl⟩
    exact ⟨r, hr, by rw [← hp]⟩
  · rintro ⟨r, hr, he⟩
    exact ⟨placeRef wids tbl r, ⟨⟨r, hr, rfl⟩, by rw [he]⟩, by rw [he]⟩

/-- a reference touches the document iff one of its end points is written; it is an inverse on the
    target exactly when the target is written -/
theorem placeRef_owner (wids : List Str) (tbl : List (Nat × NodeId)) (r : Nat × Nat × Nat) :
    ((placeRef wids tbl r).1 ∈ wids ↔ refText tbl r.2.1 ∈ wids ∨ refText tbl r.1 ∈ wids) ∧
    ((placeRef wids tbl r).2.forward = false ↔ refText tbl r.2.1 ∈ wids) := by
  unfold placeRef
  by_cases h : wids.contains (refText tbl r.2.1) = true
  · have hm : refText tbl r.2.1 ∈ wids := by simpa using h
    simp [h, hm]
  · have hm : refText tbl r.2.1 ∉ wids := by simpa using h
    simp [h, hm]

/-- **ids_resolve**: every NodeId in the lookup table carries a namespace index that is a position
    of the in-use list, and the document's own table maps that position back to the namespace the
    node has in the graph -/
theorem ids_resolve (ns : List Str) (inUse : List Int) (nodes : List GNode) (i : Nat) (n : NodeId)
    (h : lookupNid (lookupTable inUse nodes) i = some n) :
    ∃ g ∈ nodes, ∃ p : Nat, n = setNs g.nodeId (p : Int) ∧ inUse[p]? = some g.nodeId.ns := by
  unfold lookupNid at h
  have : ∀ (l : List (Nat × NodeId)), lookup i l = some n → (i, n) ∈ l := by
    intro l
    induction l with
    | nil => simp [lookup]
    | cons a as ih =>
      obtain ⟨a1, a2⟩ := a
      simp only [lookup]
      split
      · next e => intro he; injection he with he; subst he; subst e; simp
      · intro he; exact List.mem_cons_of_mem _ (ih he)
  have hm := this _ h
  simp only [lookupTable, List.mem_filterMap] at hm
  obtain ⟨g, hg, he⟩ := hm
  unfold posOf at he
  split at he
  · next hk =>
    simp only [Option.map_some, Option.some.injEq, Prod.mk.injEq] at he
    refine ⟨g, hg, inUse.idxOf g.nodeId.ns, he.2.symm, ?_⟩
    have hlt := List.idxOf_lt_length_of_mem hk
    simp [List.getElem?_eq_getElem hlt]
  · simp at he

/-! ### non-vacuity -/
example : idxOf_one [0, 1, 3] (by simp [Sorted]) (by decide) (by decide) (by decide) (by decide) = rfl := rfl
example : sortInts [3, 0, 1] = [0, 1, 3] := by decide

end Opcua.C06

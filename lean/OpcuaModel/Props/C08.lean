import OpcuaModel.Model.Value
import OpcuaModel.Lemmas.Xml
import OpcuaModel.Lemmas.Str
import OpcuaModel.Lemmas.DateTime
/-! # C08 — XML value encoding and decoding are inverse for every supported value.

Chain proved here: the text the encoders concatenate **is** the rendering of a layout tree
(`encodeText_render`), a conforming reader gets exactly the intended data tree back from that text
(`text_is_tree`, via `Xml.parseXml_render`), and the value parser maps that tree to the original
value (`tree_roundtrip`). -/
namespace Opcua.C08
open Opcua Opcua.Xml

/-! ### text tokens that need no escaping and survive `strip` -/

def XmlSafe (s : Str) : Prop := ∀ c ∈ s, c ≠ '&' ∧ c ≠ '<' ∧ c ≠ '>'
def NoSpace (s : Str) : Prop := ∀ c ∈ s, isSpace c = false
/-- what CPython's `str(float)` / `b64encode` produce: non-empty, no white space, no markup -/
def CleanTok (s : Str) : Prop := s ≠ [] ∧ XmlSafe s ∧ NoSpace s

theorem escText_safe (s : Str) (h : XmlSafe s) : escText s = s := by
  induction s with
  | nil => rfl
  | cons c cs ih =>
    have hc := h c (by simp)
    have hcs : XmlSafe cs := fun d hd => h d (by simp [hd])
    unfold escText
    simp [hc.1, hc.2.1, hc.2.2, ih hcs]

theorem digits_safe (n : Nat) : XmlSafe (showNat n) ∧ NoSpace (showNat n) := by
  constructor
  · intro c hc
    have hd := showNat_digits n c hc
    have h1 : 48 ≤ c.toNat := hd.1
    have h2 : c.toNat ≤ 57 := hd.2
    refine ⟨?_, ?_, ?_⟩ <;> (intro e; subst e; revert h1 h2; decide)
  · intro c hc; exact (showNat_digits n c hc).facts.2.2.2.2.2

theorem pyStrInt_safe (i : Int) : XmlSafe (pyStrInt i) ∧ NoSpace (pyStrInt i) ∧ pyStrInt i ≠ [] := by
  cases i with
  | ofNat n => exact ⟨(digits_safe n).1, (digits_safe n).2, showNat_ne_nil n⟩
  | negSucc n =>
    refine ⟨?_, ?_, by simp [pyStrInt]⟩
    · intro c hc
      simp only [pyStrInt, List.mem_cons] at hc
      rcases hc with rfl | hc
      · decide
      · exact (digits_safe _).1 c hc
    · intro c hc
      simp only [pyStrInt, List.mem_cons] at hc
      rcases hc with rfl | hc
      · decide
      · exact (digits_safe _).2 c hc

/-- **integers keep every digit**: `int(str(i)) == i` for every integer, hence for every width -/
theorem int_text_roundtrip (i : Int) : pyInt (strip (pyStrInt i)) = some i := by
  rw [strip_of_no_space _ (pyStrInt_safe i).2.1]; exact pyInt_pyStrInt i

/-! ### the layout tree behind the emitted text -/

def xmlnsAttrs (b : Bool) : List PAttr := if b then [⟨[' '], "xmlns".toList, TYPES_NS⟩] else []

theorem printAttrs_xmlns (b : Bool) : printAttrs (xmlnsAttrs b) = xmlnsAttr b := by
  cases b
  · rfl
  · decide

def leafX (tag : Str) (b : Bool) (text : Str) : X := .node tag (xmlnsAttrs b) [] false text .nil
def nodeX (tag : Str) (b : Bool) (kids : XS) : X := .node tag (xmlnsAttrs b) [] false [] kids

theorem wrap_leaf (tag : Str) (b : Bool) (text : Str) : wrap tag b (escText text) = render (leafX tag b text) := by
  simp [wrap, leafX, render, renderS, printOpen, printClose, printAttrs_xmlns, escOf]

theorem wrap_node (tag : Str) (b : Bool) (kids : XS) : wrap tag b (renderS kids) = render (nodeX tag b kids) := by
  simp [wrap, nodeX, render, printOpen, printClose, printAttrs_xmlns, escText, escOf]

def xs2 (a b : X) : XS := .cons a (.cons b .nil)
theorem renderS_xs2 (a b : X) : renderS (xs2 a b) = render a ++ render b := by simp [xs2, renderS]

def ltX (tag : Str) (b : Bool) (text loc : Str) : X :=
  nodeX tag b (xs2 (leafX tLoc false loc) (leafX tText false text))

-- the supported values (the statement's domain minus the recorded findings)
mutual
def Supported : Val → Prop
  | .int k v => ∀ i, v = some i → k.unsigned = true → 0 ≤ i
  | .flt _ v => ∀ s, v = some s → CleanTok s
  | .str _ => True
  | .bool v => v ≠ none
  | .dateTime d => 1000 ≤ d.year ∧ d.year ≤ 9999 ∧ d.month ≤ 99 ∧ d.day ≤ 99 ∧ d.hour ≤ 99 ∧ d.minute ≤ 99 ∧
      d.second ≤ 99 ∧ d.micro ≤ 999999
  | .byteString v => ∀ s, v = some s → CleanTok s
  | .locText t l => t ≠ some [] ∧ ∀ s, l = some s → CleanTok s
  | .euRange lo hi => CleanTok lo ∧ CleanTok hi
  | .engUnits uri _ dT dL eT eL => uri ≠ [] ∧ rstrip uri = uri ∧ dT ≠ some [] ∧ eT ≠ some [] ∧
      (∃ s, dL = some s ∧ CleanTok s) ∧ (∃ s, eL = some s ∧ CleanTok s)
  | .list tn items => NameOK (tListOf ++ tn) ∧ SupportedS items
  | _ => False
def SupportedS : ValS → Prop
  | .nil => True
  | .cons v vs => Supported v ∧ SupportedS vs
end

mutual
def encodeX : Val → Bool → X
  | .int k v, b => leafX k.tag b (intText v)
  | .flt dbl v, b => leafX (if dbl then tDouble else tFloat) b (optS v)
  | .str v, b => leafX tString b (optS v)
  | .bool v, b => leafX tBoolean b (boolText v)
  | .dateTime d, b => leafX tDateTime b d.print
  | .byteString v, b => leafX tByteString b (optS v)
  | .locText t l, b => ltX tLT b (optS t) (optS l)
  | .euRange lo hi, b => nodeX tExt b (xs2
      (nodeX tTypeId false (.cons (leafX tId false "i=885".toList) .nil))
      (nodeX tBody false (.cons (nodeX tRange false (xs2 (leafX tLow false lo) (leafX tHigh false hi))) .nil)))
  | .engUnits uri unit dT dL eT eL, b => nodeX tExt b (xs2
      (nodeX tTypeId false (.cons (leafX tId false "i=888".toList) .nil))
      (nodeX tBody false (.cons (nodeX tEU false
        (.cons (leafX tNsUri false uri) (.cons (leafX tUnitId false (pyStrInt unit))
          (xs2 (ltX tDispName false (optS dT) (dL.getD "en".toList))
               (ltX tDescr false (optS eT) (eL.getD "en".toList)))))) .nil)))
  | .list tn items, b =>
    .node (tListOf ++ tn) (if b then [⟨[' ', ' '], "xmlns".toList, TYPES_NS⟩] else []) (if b then [] else [' ']) false []
      (encodeXS items)
  | _, _ => leafX [] false []
def encodeXS : ValS → XS
  | .nil => .nil
  | .cons v vs => .cons (encodeX v false) (encodeXS vs)
end

theorem cleanTok_esc {s : Str} (h : CleanTok s) : escText s = s := escText_safe s h.2.1

theorem optS_esc (v : Option Str) (h : ∀ s, v = some s → CleanTok s) : escText (optS v) = optS v := by
  cases v with
  | none => rfl
  | some s => exact cleanTok_esc (h s rfl)

theorem intText_esc (v : Option Int) : escText (intText v) = intText v := by
  cases v with
  | none => rfl
  | some i => exact escText_safe _ (pyStrInt_safe i).1

theorem boolText_esc (v : Option Bool) : escText (boolText v) = boolText v := by
  cases v with
  | none => rfl
  | some b => cases b <;> decide

theorem padNat_safe (w n : Nat) : XmlSafe (padNat w n) := by
  intro c hc
  simp only [padNat, List.mem_append, List.mem_replicate] at hc
  rcases hc with ⟨_, rfl⟩ | hc
  · decide
  · exact (digits_safe n).1 c hc

theorem safe_append {a b : Str} (ha : XmlSafe a) (hb : XmlSafe b) : XmlSafe (a ++ b) := by
  intro c hc
  simp only [List.mem_append] at hc
  rcases hc with h | h
  · exact ha c h
  · exact hb c h

theorem safe_cons {x : Char} {b : Str} (hx : x ≠ '&' ∧ x ≠ '<' ∧ x ≠ '>') (hb : XmlSafe b) : XmlSafe (x :: b) := by
  intro c hc
  simp only [List.mem_cons] at hc
  rcases hc with rfl | h
  · exact hx
  · exact hb c h

theorem dtPrint_safe (d : DT) : XmlSafe d.print := by
  unfold DT.print
  have hy := (digits_safe d.year).1
  have hp := padNat_safe
  have hz : XmlSafe ['Z'] := safe_cons (by decide) (fun _ h => by simp at h)
  exact safe_append hy (safe_cons (by decide) (safe_append (hp _ _) (safe_cons (by decide) (safe_append (hp _ _)
    (safe_cons (by decide) (safe_append (hp _ _) (safe_cons (by decide) (safe_append (hp _ _) (safe_cons (by decide)
    (safe_append (hp _ _) (safe_cons (by decide) (safe_append (hp _ _) hz))))))))))))

theorem ltX_text (tag : Str) (b : Bool) (text loc : Str) (hl : escText loc = loc) :
    wrap tag b (wrap tLoc false loc ++ wrap tText false (escText text)) = render (ltX tag b text loc) := by
  unfold ltX
  rw [← wrap_node, renderS_xs2, ← wrap_leaf, ← wrap_leaf, hl]

mutual
/-- **the emitted text is the rendering of the layout tree** (for supported values) -/
theorem encodeText_render (v : Val) (b : Bool) (h : Supported v) : encodeText v b = render (encodeX v b) := by
  match v, h with
  | .int k v, _ => simp only [encodeText, encodeX]; rw [← wrap_leaf, intText_esc]
  | .flt dbl v, h => simp only [encodeText, encodeX]; rw [← wrap_leaf, optS_esc v h]
  | .str v, _ => simp only [encodeText, encodeX]; rw [← wrap_leaf]
  | .bool v, _ => simp only [encodeText, encodeX]; rw [← wrap_leaf, boolText_esc]
  | .dateTime d, _ => simp only [encodeText, encodeX]; rw [← wrap_leaf, escText_safe _ (dtPrint_safe d)]
  | .byteString v, h => simp only [encodeText, encodeX]; rw [← wrap_leaf, optS_esc v h]
  | .locText t l, h =>
    simp only [encodeText, encodeX]
    exact ltX_text tLT b (optS t) (optS l) (optS_esc l h.2)
  | .euRange lo hi, h =>
    simp only [encodeText, encodeX, extWrap]
    rw [← wrap_node, renderS_xs2, ← wrap_node, ← wrap_node, renderS, renderS, renderS, renderS, List.append_nil, List.append_nil,
      ← wrap_leaf, ← wrap_node, renderS_xs2, ← wrap_leaf, ← wrap_leaf, cleanTok_esc h.1, cleanTok_esc h.2]
    rfl
  | .engUnits uri unit dT dL eT eL, h =>
    obtain ⟨_, _, _, _, ⟨dl, rfl, hdl⟩, ⟨el, rfl, hel⟩⟩ := h
    simp only [encodeText, encodeX, extWrap, euLT, Option.getD_some]
    rw [← wrap_node, renderS_xs2, ← wrap_node, ← wrap_node, renderS, renderS, renderS, renderS, List.append_nil, List.append_nil,
      ← wrap_leaf, ← wrap_node]
    simp only [renderS, renderS_xs2]
    rw [← wrap_leaf, ← wrap_leaf, escText_safe _ (pyStrInt_safe unit).1,
      ← ltX_text tDispName false (optS dT) dl (cleanTok_esc hdl),
      ← ltX_text tDescr false (optS eT) el (cleanTok_esc hel)]
    simp [List.append_assoc]
    rfl
  | .list tn items, h =>
    simp only [encodeText, encodeX, render, printOpen, printClose, escText, escOf, Bool.false_eq_true, if_false]
    rw [encodeTexts_render items h.2]
    cases b
    · simp [printAttrs, xmlnsAttr]
    · have : printAttrs [⟨[' ', ' '], ['x', 'm', 'l', 'n', 's'], TYPES_NS⟩] = ' ' :: xmlnsAttr true := by decide
      simp [this]
theorem encodeTexts_render (vs : ValS) (h : SupportedS vs) : encodeTexts vs = renderS (encodeXS vs) := by
  match vs, h with
  | .nil, _ => rfl
  | .cons v rest, h =>
    simp only [encodeTexts, encodeXS, renderS]
    rw [encodeText_render v false h.1, encodeTexts_render rest h.2]
end

/-! ### well-formedness of the layout, and what a conforming reader sees -/

theorem ws_space : ∀ c ∈ [' '], isWs c = true := by decide
theorem ws_space2 : ∀ c ∈ [' ', ' '], isWs c = true := by decide

theorem xmlns_ok (b : Bool) : (∀ a ∈ xmlnsAttrs b, a.OK) ∧ ∀ a, (xmlnsAttrs b).head? = some a → a.ws ≠ [] := by
  cases b
  · simp [xmlnsAttrs]
  · refine ⟨?_, ?_⟩
    · intro a ha
      simp only [xmlnsAttrs, if_true, List.mem_singleton] at ha
      subst ha
      exact ⟨ws_space, by decide, by decide⟩
    · intro a ha
      simp only [xmlnsAttrs, if_true, List.head?_cons, Option.some.injEq] at ha
      subst ha; decide

theorem leafX_WF (tag : Str) (b : Bool) (text : Str) (h : NameOK tag) : WF (leafX tag b text) := by
  simp only [leafX, WF, WFS, and_true, OpenOK]
  exact ⟨h, (xmlns_ok b).1, by simp, (xmlns_ok b).2⟩

theorem nodeX_WF (tag : Str) (b : Bool) (kids : XS) (h : NameOK tag) (hk : WFS kids) : WF (nodeX tag b kids) := by
  simp only [nodeX, WF, OpenOK]
  exact ⟨⟨h, (xmlns_ok b).1, by simp, (xmlns_ok b).2⟩, hk⟩

theorem xs2_WF (a b : X) (ha : WF a) (hb : WF b) : WFS (xs2 a b) := by simp [xs2, WFS, ha, hb]
theorem xs1_WF (a : X) (ha : WF a) : WFS (.cons a .nil) := by simp [WFS, ha]

theorem ltX_WF (tag : Str) (b : Bool) (text loc : Str) (h : NameOK tag) : WF (ltX tag b text loc) :=
  nodeX_WF tag b _ h (xs2_WF _ _ (leafX_WF _ _ _ (by decide)) (leafX_WF _ _ _ (by decide)))

theorem intTag_ok (k : IntKind) : NameOK k.tag := by cases k <;> decide

mutual
theorem encodeX_WF (v : Val) (b : Bool) (h : Supported v) : WF (encodeX v b) := by
  match v, h with
  | .int k v, _ => exact leafX_WF _ _ _ (intTag_ok k)
  | .flt dbl v, _ => cases dbl <;> exact leafX_WF _ _ _ (by decide)
  | .str v, _ => exact leafX_WF _ _ _ (by decide)
  | .bool v, _ => exact leafX_WF _ _ _ (by decide)
  | .dateTime d, _ => exact leafX_WF _ _ _ (by decide)
  | .byteString v, _ => exact leafX_WF _ _ _ (by decide)
  | .locText t l, _ => exact ltX_WF _ _ _ _ (by decide)
  | .euRange lo hi, _ =>
    exact nodeX_WF _ _ _ (by decide) (xs2_WF _ _
      (nodeX_WF _ _ _ (by decide) (xs1_WF _ (leafX_WF _ _ _ (by decide))))
      (nodeX_WF _ _ _ (by decide) (xs1_WF _ (nodeX_WF _ _ _ (by decide)
        (xs2_WF _ _ (leafX_WF _ _ _ (by decide)) (leafX_WF _ _ _ (by decide)))))))
  | .engUnits uri unit dT dL eT eL, _ =>
    refine nodeX_WF _ _ _ (by decide) (xs2_WF _ _
      (nodeX_WF _ _ _ (by decide) (xs1_WF _ (leafX_WF _ _ _ (by decide))))
      (nodeX_WF _ _ _ (by decide) (xs1_WF _ (nodeX_WF _ _ _ (by decide) ?_))))
    simp only [WFS]
    exact ⟨leafX_WF _ _ _ (by decide), leafX_WF _ _ _ (by decide),
      xs2_WF _ _ (ltX_WF _ _ _ _ (by decide)) (ltX_WF _ _ _ _ (by decide))⟩
  | .list tn items, h =>
    simp only [encodeX, WF, OpenOK]
    refine ⟨⟨h.1, ?_, ?_, ?_⟩, encodeXS_WF items h.2⟩
    · cases b
      · simp
      · intro a ha
        simp only [if_true, List.mem_singleton] at ha
        subst ha
        exact ⟨ws_space2, by decide, by decide⟩
    · cases b <;> simp [isWs]
    · cases b
      · simp
      · intro a ha
        simp only [if_true, List.head?_cons, Option.some.injEq] at ha
        subst ha; decide
theorem encodeXS_WF (vs : ValS) (h : SupportedS vs) : WFS (encodeXS vs) := by
  match vs, h with
  | .nil, _ => simp [encodeXS, WFS]
  | .cons v rest, h => simp only [encodeXS, WFS]; exact ⟨encodeX_WF v false h.1, encodeXS_WF rest h.2⟩
end

/-- **text_is_tree** — the encoding is a well-formed fragment, and reading it gives exactly the
    intended element tree (with the types-namespace declaration on the outer element when asked) -/
theorem text_is_tree (v : Val) (b : Bool) (h : Supported v) :
    parseXml (encodeText v b) = some (Xml.strip (encodeX v b)) := by
  rw [encodeText_render v b h]
  exact parseXml_render _ (encodeX_WF v b h)

/-! ### from the tree back to the value -/

-- what decoding promises: text modulo outer white space, empty = null
mutual
def canon : Val → Val
  | .str v => .str (optOfText (Opcua.strip (optS v)))
  | .list tn items => .list tn (canonS items)
  | v => v
def canonS : ValS → ValS
  | .nil => .nil
  | .cons v vs => .cons (canon v) (canonS vs)
end

theorem strip_leafX (tag : Str) (b : Bool) (text : Str) :
    Xml.strip (leafX tag b text) = .node tag ((xmlnsAttrs b).map fun a => (a.k, a.v)) text .nil := by
  simp [leafX, Xml.strip, stripS]

theorem strip_nodeX (tag : Str) (b : Bool) (kids : XS) :
    Xml.strip (nodeX tag b kids) = .node tag ((xmlnsAttrs b).map fun a => (a.k, a.v)) [] (stripS kids) := by
  simp [nodeX, Xml.strip]

theorem ofTag_tag (k : IntKind) : IntKind.ofTag k.tag = some k := by cases k <;> decide
theorem intTag_notList (k : IntKind) : startsWith k.tag tListOf = false := by cases k <;> decide

theorem strip_clean {s : Str} (h : CleanTok s) : Opcua.strip s = s := strip_of_no_space s h.2.2

theorem optOfText_optS (v : Option Str) (h : v ≠ some []) : optOfText (optS v) = v := by
  cases v with
  | none => rfl
  | some s =>
    have : s ≠ [] := fun e => h (by rw [e])
    simp [optOfText, optS, this]

theorem optOfText_clean (v : Option Str) (h : ∀ s, v = some s → CleanTok s) :
    optOfText (Opcua.strip (optS v)) = v := by
  cases v with
  | none => rfl
  | some s =>
    have hc := h s rfl
    simp [optS, strip_clean hc, optOfText, hc.1]

theorem decodeT_scalar (tag : Str) (attrs : List (Str × Str)) (text : Str) (kids : TS)
    (h : startsWith tag tListOf = false) : decodeT (.node tag attrs text kids) = decodeScalar tag attrs text kids := by
  simp [decodeT, h]

theorem decode_int (k : IntKind) (v : Option Int) (attrs : List (Str × Str))
    (h : ∀ i, v = some i → k.unsigned = true → 0 ≤ i) :
    decodeT (.node k.tag attrs (intText v) .nil) = .ok (.int k v) := by
  rw [decodeT_scalar _ _ _ _ (intTag_notList k)]
  unfold decodeScalar
  simp only [ofTag_tag]
  cases v with
  | none => simp [intText, Opcua.strip, lstrip, rstrip]
  | some i =>
    have hs := strip_of_no_space _ (pyStrInt_safe i).2.1
    have hne := (pyStrInt_safe i).2.2
    simp only [intText, hs, hne, if_false, pyInt_pyStrInt]
    by_cases hu : k.unsigned = true
    · have := h i rfl hu
      have : ¬ (k.unsigned = true ∧ i < 0) := by omega
      simp [this]
    · simp [hu]

theorem parseLT_ltX (tag : Str) (attrs : List (Str × Str)) (t l : Option Str) (ht : t ≠ some [])
    (hl : ∀ s, l = some s → CleanTok s) :
    parseLT (.node tag attrs [] (stripS (xs2 (leafX tLoc false (optS l)) (leafX tText false (optS t))))) = (t, l) := by
  have h1 : tLoc ≠ tText := by decide
  simp only [parseLT, xs2, stripS, strip_leafX, T.kids, findKid, T.tag, h1, if_false, if_true, T.text,
    optOfText_optS t ht]
  cases l with
  | none => simp [optS, Opcua.strip, lstrip, rstrip]
  | some s =>
    have hc := hl s rfl
    simp [optS, strip_clean hc, hc.1]

/-- evaluation of the dispatch for each fixed tag (no recursion involved) -/
theorem dec_float (a : List (Str × Str)) (t : Str) (k : TS) :
    decodeScalar tFloat a t k = .ok (.flt false (optOfText (Opcua.strip t))) := by
  have e : IntKind.ofTag tFloat = none := by decide
  simp [decodeScalar, e]
theorem dec_double (a : List (Str × Str)) (t : Str) (k : TS) :
    decodeScalar tDouble a t k = .ok (.flt true (optOfText (Opcua.strip t))) := by
  have e : IntKind.ofTag tDouble = none := by decide
  have n : tDouble ≠ tFloat := by decide
  simp [decodeScalar, e, n]
theorem dec_string (a : List (Str × Str)) (t : Str) (k : TS) :
    decodeScalar tString a t k = .ok (.str (optOfText (Opcua.strip t))) := by
  have e : IntKind.ofTag tString = none := by decide
  have n : tString ≠ tFloat ∧ tString ≠ tDouble := by decide
  simp [decodeScalar, e, n.1, n.2]
theorem dec_bytes (a : List (Str × Str)) (t : Str) (k : TS) :
    decodeScalar tByteString a t k = .ok (.byteString (optOfText (Opcua.strip t))) := by
  have e : IntKind.ofTag tByteString = none := by decide
  have n : tByteString ≠ tFloat ∧ tByteString ≠ tDouble ∧ tByteString ≠ tString ∧ tByteString ≠ tGuid := by decide
  simp [decodeScalar, e, n.1, n.2.1, n.2.2.1, n.2.2.2]
theorem dec_datetime (a : List (Str × Str)) (t : Str) (k : TS) (d : DT) (h : parseDT (Opcua.strip t) = some d) :
    decodeScalar tDateTime a t k = .ok (.dateTime d) := by
  have e : IntKind.ofTag tDateTime = none := by decide
  have n : tDateTime ≠ tFloat ∧ tDateTime ≠ tDouble ∧ tDateTime ≠ tString ∧ tDateTime ≠ tGuid ∧ tDateTime ≠ tByteString := by decide
  simp only [decodeScalar, e, n.1, n.2.1, n.2.2.1, n.2.2.2.1, n.2.2.2.2, if_false, if_true, h]
theorem dec_bool (a : List (Str × Str)) (t : Str) (k : TS) :
    decodeScalar tBoolean a t k =
      if t = [] then .ok .pyNone else if Opcua.strip t = [] then .ok (.bool none)
      else .ok (.bool (some (decide (Opcua.strip t = tTrue ∨ Opcua.strip t = tTrue')))) := by
  have e : IntKind.ofTag tBoolean = none := by decide
  have n : tBoolean ≠ tFloat ∧ tBoolean ≠ tDouble ∧ tBoolean ≠ tString ∧ tBoolean ≠ tGuid ∧ tBoolean ≠ tByteString ∧
      tBoolean ≠ tDateTime := by decide
  simp [decodeScalar, e, n.1, n.2.1, n.2.2.1, n.2.2.2.1, n.2.2.2.2.1, n.2.2.2.2.2]
theorem dec_lt (a : List (Str × Str)) (t : Str) (k : TS) :
    decodeScalar tLT a t k = .ok (.locText (parseLT (.node tLT a t k)).1 (parseLT (.node tLT a t k)).2) := by
  have e : IntKind.ofTag tLT = none := by decide
  have n : tLT ≠ tFloat ∧ tLT ≠ tDouble ∧ tLT ≠ tString ∧ tLT ≠ tGuid ∧ tLT ≠ tByteString ∧ tLT ≠ tDateTime ∧
      tLT ≠ tBoolean ∧ tLT ≠ tNodeId ∧ tLT ≠ tTypeId := by decide
  simp [decodeScalar, e, n.1, n.2.1, n.2.2.1, n.2.2.2.1, n.2.2.2.2.1, n.2.2.2.2.2.1, n.2.2.2.2.2.2.1, n.2.2.2.2.2.2.2.1,
    n.2.2.2.2.2.2.2.2]
theorem dec_ext_888 (a : List (Str × Str)) (t : Str) (k : TS) (n : NodeId) (h : typeIdOf k = .ok (some n))
    (hn : isNumeric888 n "888".toList = true) : decodeScalar tExt a t k = parseEU (findKid tBody k) := by
  have e : IntKind.ofTag tExt = none := by decide
  have m : tExt ≠ tFloat ∧ tExt ≠ tDouble ∧ tExt ≠ tString ∧ tExt ≠ tGuid ∧ tExt ≠ tByteString ∧ tExt ≠ tDateTime ∧
      tExt ≠ tBoolean ∧ tExt ≠ tNodeId ∧ tExt ≠ tTypeId ∧ tExt ≠ tLT := by decide
  simp only [decodeScalar, e, m.1, m.2.1, m.2.2.1, m.2.2.2.1, m.2.2.2.2.1, m.2.2.2.2.2.1, m.2.2.2.2.2.2.1,
    m.2.2.2.2.2.2.2.1, m.2.2.2.2.2.2.2.2.1, m.2.2.2.2.2.2.2.2.2, if_false, if_true, h, hn]
theorem dec_ext_885 (a : List (Str × Str)) (t : Str) (k : TS) (n : NodeId) (h : typeIdOf k = .ok (some n))
    (hn1 : isNumeric888 n "888".toList = false) (hn : isNumeric888 n "885".toList = true) :
    decodeScalar tExt a t k = parseRange (findKid tBody k) := by
  have e : IntKind.ofTag tExt = none := by decide
  have m : tExt ≠ tFloat ∧ tExt ≠ tDouble ∧ tExt ≠ tString ∧ tExt ≠ tGuid ∧ tExt ≠ tByteString ∧ tExt ≠ tDateTime ∧
      tExt ≠ tBoolean ∧ tExt ≠ tNodeId ∧ tExt ≠ tTypeId ∧ tExt ≠ tLT := by decide
  simp only [decodeScalar, e, m.1, m.2.1, m.2.2.1, m.2.2.2.1, m.2.2.2.2.1, m.2.2.2.2.2.1, m.2.2.2.2.2.2.1,
    m.2.2.2.2.2.2.2.1, m.2.2.2.2.2.2.2.2.1, m.2.2.2.2.2.2.2.2.2, if_false, if_true, h, hn1, hn, Bool.false_eq_true]

theorem typeId_of (idText : Str) (n : NodeId) (rest : TS) (a1 a2 : List (Str × Str))
    (hne : idText ≠ []) (hp : parseNodeId idText [] none = .ok n) :
    typeIdOf (.cons (.node tTypeId a1 [] (.cons (.node tId a2 idText .nil) .nil)) rest) = .ok (some n) := by
  simp [typeIdOf, findKid, T.tag, T.kids, T.text, hne, hp]

theorem dtPrint_nospace (d : DT) : NoSpace d.print := by
  have hd : ∀ (w n : Nat), NoSpace (padNat w n) := fun w n c hc => (padNat_digits w n c hc).facts.2.2.2.2.2
  have hy : NoSpace (showNat d.year) := (digits_safe d.year).2
  have app : ∀ {a b : Str}, NoSpace a → NoSpace b → NoSpace (a ++ b) := by
    intro a b ha hb c hc
    simp only [List.mem_append] at hc
    rcases hc with h | h
    · exact ha c h
    · exact hb c h
  have cons : ∀ {x : Char} {b : Str}, isSpace x = false → NoSpace b → NoSpace (x :: b) := by
    intro x b hx hb c hc
    simp only [List.mem_cons] at hc
    rcases hc with rfl | h
    · exact hx
    · exact hb c h
  have hz : NoSpace ['Z'] := cons (by decide) (fun _ h => by simp at h)
  unfold DT.print
  exact app hy (cons (by decide) (app (hd _ _) (cons (by decide) (app (hd _ _) (cons (by decide) (app (hd _ _)
    (cons (by decide) (app (hd _ _) (cons (by decide) (app (hd _ _) (cons (by decide) (app (hd _ _) hz))))))))))))

theorem parseEU_tree (uri : Str) (unit : Int) (dn de : T) (a0 a1 a2 a3 : List (Str × Str))
    (hu : uri ≠ []) (hr : rstrip uri = uri) (hdn : dn.tag = tDispName) (hde : de.tag = tDescr) :
    parseEU (some (.node tBody a0 [] (.cons (.node tEU a1 [] (.cons (.node tNsUri a2 uri .nil)
      (.cons (.node tUnitId a3 (pyStrInt unit) .nil) (.cons dn (.cons de .nil))))) .nil))) =
    .ok (.engUnits uri unit (parseLT dn).1 (parseLT dn).2 (parseLT de).1 (parseLT de).2) := by
  have q : tNsUri ≠ tUnitId ∧ tNsUri ≠ tDispName ∧ tNsUri ≠ tDescr ∧ tUnitId ≠ tDispName ∧ tUnitId ≠ tDescr ∧
      tDispName ≠ tDescr := by decide
  have hst := strip_of_no_space _ (pyStrInt_safe unit).2.1
  have tn : ∀ (t : Str) (a : List (Str × Str)) (x : Str) (k : TS), T.tag (.node t a x k) = t := fun _ _ _ _ => rfl
  have f1 : findKid tEU (T.kids (.node tBody a0 [] (.cons (.node tEU a1 [] (.cons (.node tNsUri a2 uri .nil)
      (.cons (.node tUnitId a3 (pyStrInt unit) .nil) (.cons dn (.cons de .nil))))) .nil))) =
      some (.node tEU a1 [] (.cons (.node tNsUri a2 uri .nil)
      (.cons (.node tUnitId a3 (pyStrInt unit) .nil) (.cons dn (.cons de .nil))))) := by
    simp only [T.kids, findKid, tn, if_true]
  unfold parseEU
  simp only [f1]
  have g1 : findKid tNsUri (T.kids (.node tEU a1 [] (.cons (.node tNsUri a2 uri .nil)
      (.cons (.node tUnitId a3 (pyStrInt unit) .nil) (.cons dn (.cons de .nil)))))) = some (.node tNsUri a2 uri .nil) := by
    simp only [T.kids, findKid, tn, if_true]
  have g2 : findKid tUnitId (T.kids (.node tEU a1 [] (.cons (.node tNsUri a2 uri .nil)
      (.cons (.node tUnitId a3 (pyStrInt unit) .nil) (.cons dn (.cons de .nil)))))) =
      some (.node tUnitId a3 (pyStrInt unit) .nil) := by
    simp only [T.kids, findKid, tn, q.1, if_false, if_true]
  have g3 : findKid tDispName (T.kids (.node tEU a1 [] (.cons (.node tNsUri a2 uri .nil)
      (.cons (.node tUnitId a3 (pyStrInt unit) .nil) (.cons dn (.cons de .nil)))))) = some dn := by
    simp only [T.kids, findKid, tn, q.2.1, q.2.2.2.1, hdn, if_false, if_true]
  have g4 : findKid tDescr (T.kids (.node tEU a1 [] (.cons (.node tNsUri a2 uri .nil)
      (.cons (.node tUnitId a3 (pyStrInt unit) .nil) (.cons dn (.cons de .nil)))))) = some de := by
    simp only [T.kids, findKid, tn, q.2.2.1, q.2.2.2.2.1, q.2.2.2.2.2, hdn, hde, if_false, if_true]
  simp only [g1, g2, g3, g4, T.text, hu, if_false, hst, pyInt_pyStrInt, hr]

mutual
/-- **tree_roundtrip** — the value parser maps the intended tree of every supported value back to
    that value: integers exactly, tokens unchanged, text up to outer white space, DateTime fields,
    structures field by field, lists element by element (nested lists included) -/
theorem tree_roundtrip (v : Val) (b : Bool) (h : Supported v) :
    decodeT (Xml.strip (encodeX v b)) = .ok (canon v) := by
  match v, h with
  | .int k v, h => simp only [encodeX, strip_leafX, canon]; exact decode_int k v _ h
  | .flt dbl v, h =>
    simp only [encodeX, strip_leafX, canon]
    cases dbl
    · simp only [Bool.false_eq_true, if_false]
      rw [decodeT_scalar _ _ _ _ (by decide), dec_float, optOfText_clean v h]
    · simp only [if_true]
      rw [decodeT_scalar _ _ _ _ (by decide), dec_double, optOfText_clean v h]
  | .str v, _ =>
    simp only [encodeX, strip_leafX, canon]
    rw [decodeT_scalar _ _ _ _ (by decide), dec_string]
  | .bool v, h =>
    simp only [encodeX, strip_leafX, canon]
    rw [decodeT_scalar _ _ _ _ (by decide), dec_bool]
    cases v with
    | none => exact absurd rfl h
    | some bb =>
      cases bb
      · have s1 : Opcua.strip (boolText (some false)) = "false".toList := by decide
        have n1 : boolText (some false) ≠ [] := by decide
        have n2 : "false".toList ≠ ([] : Str) := by decide
        have d : decide ("false".toList = tTrue ∨ "false".toList = tTrue') = false := by decide
        simp only [s1, n1, n2, if_false, d]
      · have s1 : Opcua.strip (boolText (some true)) = "true".toList := by decide
        have n1 : boolText (some true) ≠ [] := by decide
        have n2 : "true".toList ≠ ([] : Str) := by decide
        have d : decide ("true".toList = tTrue ∨ "true".toList = tTrue') = true := by decide
        simp only [s1, n1, n2, if_false, d]
  | .dateTime d, h =>
    simp only [encodeX, strip_leafX, canon]
    rw [decodeT_scalar _ _ _ _ (by decide)]
    apply dec_datetime
    rw [strip_of_no_space _ (dtPrint_nospace d)]
    exact parseDT_print d ⟨h.1, h.2.1⟩ h.2.2.1 h.2.2.2.1 h.2.2.2.2.1 h.2.2.2.2.2.1 h.2.2.2.2.2.2.1 h.2.2.2.2.2.2.2
  | .byteString v, h =>
    simp only [encodeX, strip_leafX, canon]
    rw [decodeT_scalar _ _ _ _ (by decide), dec_bytes, optOfText_clean v h]
  | .locText t l, h =>
    simp only [encodeX, ltX, strip_nodeX, canon]
    rw [decodeT_scalar _ _ _ _ (by decide), dec_lt, parseLT_ltX tLT _ t l h.1 h.2]
  | .euRange lo hi, h =>
    simp only [encodeX, strip_nodeX, canon, xs2, stripS, strip_leafX]
    rw [decodeT_scalar _ _ _ _ (by decide),
      dec_ext_885 _ _ _ ⟨0, .i, "885".toList⟩ (typeId_of "i=885".toList _ _ _ _ (by decide) (by decide)) (by decide) (by decide)]
    have k1 : tTypeId ≠ tBody := by decide
    have k2 : tLow ≠ tHigh := by decide
    simp only [if_false, if_true, parseRange, findKid, T.tag, T.kids, T.text, k1, k2,
      strip_clean h.1, strip_clean h.2, h.1.1, h.2.1, or_self]
  | .engUnits uri unit dT dL eT eL, h =>
    obtain ⟨hu, hr, hdt, het, ⟨dl, rfl, hdl⟩, ⟨el, rfl, hel⟩⟩ := h
    simp only [encodeX, strip_nodeX, canon, xs2, stripS, strip_leafX, Option.getD_some, ltX]
    rw [decodeT_scalar _ _ _ _ (by decide),
      dec_ext_888 _ _ _ ⟨0, .i, "888".toList⟩ (typeId_of "i=888".toList _ _ _ _ (by decide) (by decide)) (by decide)]
    have k1 : tTypeId ≠ tBody := by decide
    have p1 := parseLT_ltX tDispName [] dT (some dl) hdt (fun s hs => by injection hs with e; subst e; exact hdl)
    have p2 := parseLT_ltX tDescr [] eT (some el) het (fun s hs => by injection hs with e; subst e; exact hel)
    simp only [xs2, stripS, strip_leafX, optS, Option.getD_some, xmlnsAttrs, Bool.false_eq_true, if_false, List.map_nil] at p1 p2
    simp only [if_true, findKid, T.tag, k1, if_false, xmlnsAttrs, Bool.false_eq_true, List.map_nil]
    rw [parseEU_tree uri unit _ _ _ _ _ _ hu hr rfl rfl]
    simp only [optS, Option.getD_some] at p1 p2 ⊢
    rw [p1, p2]
  | .list tn items, h =>
    simp only [encodeX, Xml.strip, canon]
    have e1 : startsWith (tListOf ++ tn) tListOf = true := startsWith_append _ _
    have e2 : (tListOf ++ tn).drop 6 = tn := by simp [tListOf]
    simp only [decodeT, e1, if_true, roundtripS items h.2, e2]
theorem roundtripS (vs : ValS) (h : SupportedS vs) : decodeTS (stripS (encodeXS vs)) = .ok (canonS vs) := by
  match vs, h with
  | .nil, _ => simp [encodeXS, stripS, decodeTS, canonS]
  | .cons v rest, h =>
    simp only [encodeXS, stripS, decodeTS, canonS, tree_roundtrip v false h.1, roundtripS rest h.2]
end

/-- **C08, end to end on the model**: read the emitted text with a conforming reader and decode:
    the original value comes back. -/
theorem decode_encode (v : Val) (b : Bool) (h : Supported v) :
    (parseXml (encodeText v b)).map decodeT = some (.ok (canon v)) := by
  rw [text_is_tree v b h]; simp [tree_roundtrip v b h]

/-! ### recorded findings as negative witnesses (tests on single values) -/

/-- D-C08e: a null Boolean is written as an empty element, which the parser turns into Python `None` -/
theorem null_boolean_witness :
    decodeT (Xml.strip (encodeX (.bool none) true)) = .ok .pyNone := by
  simp only [encodeX, strip_leafX]
  rw [decodeT_scalar _ _ _ _ (by decide), dec_bool]; rfl
/-- D-C08b: a Guid is written with the `<String>` tag and comes back as a String -/
theorem guid_witness : (parseXml (encodeText (.guid (some "ab".toList)) false)).map decodeT =
    some (.ok (.str (some "ab".toList))) := by
  have h : encodeText (.guid (some "ab".toList)) false = encodeText (.str (some "ab".toList)) false := rfl
  have hs : Supported (.str (some "ab".toList)) := by unfold Supported; trivial
  rw [h, text_is_tree _ _ hs]
  simp only [Option.map_some, tree_roundtrip _ _ hs, canon]
  rfl
/-- D-C08c: a NodeId is written as a bare `<Identifier>`, which is read as a raw XML element -/
theorem nodeid_witness : (parseXml (encodeText (.nodeId ⟨0, .s, "x".toList⟩) false)).map decodeT =
    some (.ok (.xmlElem (.node "Identifier".toList [] "s=x".toList .nil))) := by
  have hw : WF (leafX tId false "s=x".toList) := leafX_WF _ _ _ (by decide)
  have ht : encodeText (.nodeId ⟨0, .s, "x".toList⟩) false = render (leafX tId false "s=x".toList) := by
    simp only [encodeText]; rw [← wrap_leaf]; rfl
  rw [ht, parseXml_render _ hw, strip_leafX]
  rfl

/-! ### non-vacuity -/
example : Supported (.list "Int32".toList (.cons (.int .int32 (some (-5))) (.cons (.int .int32 none) .nil))) := by
  simp only [Supported, SupportedS, and_true]
  refine ⟨by decide, ?_, ?_⟩ <;> intro i hi hu <;> simp [IntKind.unsigned] at hu
example : Supported (.str (some " a<b & c> ".toList)) := by unfold Supported; trivial

end Opcua.C08

import OpcuaModel.Model.Json
import OpcuaModel.Lemmas.Str
/-! # C10 — JSON encodings are valid JSON of the right shape and lose nothing. -/
namespace Opcua.C10
open Opcua

theorem hex_roundtrip (n : Nat) (h : n < 16) : hexVal (hexDigit n) = some n := by
  have : n = 0 ∨ n = 1 ∨ n = 2 ∨ n = 3 ∨ n = 4 ∨ n = 5 ∨ n = 6 ∨ n = 7 ∨ n = 8 ∨ n = 9 ∨ n = 10 ∨
      n = 11 ∨ n = 12 ∨ n = 13 ∨ n = 14 ∨ n = 15 := by omega
  rcases this with h|h|h|h|h|h|h|h|h|h|h|h|h|h|h|h <;> subst h <;> decide

/-- **quote_roundtrip**: for every string (quotes, backslashes, control and non-ASCII characters)
    the strict reader gives back exactly the string, and stops right after the closing quote. -/
theorem readBody_escBody (s rest : Str) : readBody (escBody s ++ '"' :: rest) = some (s, rest) := by
  induction s with
  | nil => unfold readBody; simp [escBody]
  | cons c cs ih =>
    simp only [escBody, escChar]
    split
    · next h => subst h; unfold readBody; simp [ih]
    · split
      · next h => subst h; unfold readBody; simp [ih]
      · split
        · next h => subst h; unfold readBody; simp [ih]
        · split
          · next h => subst h; unfold readBody; simp [ih]
          · split
            · next h => subst h; unfold readBody; simp [ih]
            · split
              · next h => subst h; unfold readBody; simp [ih]
              · split
                · next h => subst h; unfold readBody; simp [ih]
                · split
                  · next h1 h2 h3 h4 h5 h6 h7 h8 =>
                    unfold readBody
                    have z : hexVal '0' = some 0 := by decide
                    have e : c.toNat / 16 * 16 + c.toNat % 16 = c.toNat := by omega
                    simp [z, hex_roundtrip (c.toNat / 16) (by omega),
                      hex_roundtrip (c.toNat % 16) (by omega), ih, e, Char.ofNat_toNat]
                  · next h1 h2 h3 h4 h5 h6 h7 h8 =>
                    unfold readBody
                    simp [h1, h2, h8, ih]

theorem readString_quote (s rest : Str) : readString (pyJsonQuote s ++ rest) = some (s, rest) := by
  simp [readString, pyJsonQuote, readBody_escBody]

theorem skipWs_cons (c : Char) (r : Str) (h : isJsWs c = false) : skipWs (c :: r) = c :: r := by
  simp [skipWs, List.dropWhile, h]

/-- a quoted string is read as a JSON string value, with any fuel -/
theorem readValue_quote (f : Nat) (s rest : Str) :
    readValue (f + 1) (pyJsonQuote s ++ rest) = some (.str s, rest) := by
  have : pyJsonQuote s ++ rest = '"' :: (escBody s ++ '"' :: rest) := by simp [pyJsonQuote]
  rw [this, readValue, skipWs_cons _ _ (by decide)]
  simp [readBody_escBody]

/-- **strings lose nothing**: `json_encode` of a string value is valid JSON and decodes to exactly
    the same characters -/
theorem string_valid (s : Str) : parseJson (pyJsonQuote s) = some (.str s) := by
  unfold parseJson
  have := readValue_quote (pyJsonQuote s).length s []
  simp only [List.append_nil] at this
  rw [this]; simp [skipWs]

theorem jsonEncode_str (fs : Int → Str) (s : Str) : jsonEncode fs (.str (some s)) = .ok (some (pyJsonQuote s)) := by
  simp [jsonEncode]

/-- null values are reported as `None`, never as text -/
theorem null_is_none (fs : Int → Str) :
    jsonEncode fs (.str none) = .ok none ∧ jsonEncode fs (.bool none) = .ok none ∧
    (∀ k, jsonEncode fs (.int k none) = .ok none) ∧ (∀ d, jsonEncode fs (.flt d none) = .ok none) := by
  simp [jsonEncode]

/-- Booleans are JSON literals -/
theorem bool_valid (fs : Int → Str) (b : Bool) :
    ∃ t, jsonEncode fs (.bool (some b)) = .ok (some t) ∧ parseJson t = some (.bool b) := by
  cases b
  · refine ⟨"false".toList, by simp [jsonEncode], ?_⟩
    simp [parseJson, readValue, skipWs, isJsWs, startsWith, isDigitC]
  · refine ⟨"true".toList, by simp [jsonEncode], ?_⟩
    simp [parseJson, readValue, skipWs, isJsWs, startsWith, isDigitC]

/-! ### numbers: `str(int)` is a JSON number token, read back digit for digit -/

theorem takeDigits_showNat (n : Nat) (rest : Str) (hr : ∀ c, rest.head? = some c → isDigitC c = false) :
    takeDigits (showNat n ++ rest) = (showNat n, rest) := by
  have hall : ∀ c ∈ showNat n, ('0' ≤ c && c ≤ '9') = true := by
    intro c hc
    have := showNat_digits n c hc
    simp [this.1, this.2]
  unfold takeDigits
  have h1 : (showNat n ++ rest).takeWhile (fun c => '0' ≤ c && c ≤ '9') = showNat n := by
    rw [List.takeWhile_append_of_pos hall]
    cases rest with
    | nil => simp
    | cons c r =>
      have := hr c rfl
      simp only [isDigitC] at this
      simp [List.takeWhile_cons, this]
  have h2 : (showNat n ++ rest).dropWhile (fun c => '0' ≤ c && c ≤ '9') = rest := by
    rw [List.dropWhile_append_of_pos hall]
    cases rest with
    | nil => simp
    | cons c r =>
      have := hr c rfl
      simp only [isDigitC] at this
      simp [List.dropWhile_cons, this]
  rw [h1, h2]

/-- `str(n)` never has a superfluous leading zero -/
theorem showNat_no_leading_zero (n : Nat) : ¬ ((showNat n).length > 1 ∧ (showNat n).head? = some '0') := by
  induction n using Nat.strongRecOn with
  | _ n ih =>
    unfold showNat
    split
    · simp
    · next h =>
      intro ⟨_, hh⟩
      have hne := showNat_ne_nil (n / 10)
      cases hs : showNat (n / 10) with
      | nil => exact absurd hs hne
      | cons c cs =>
        rw [hs] at hh
        simp only [List.cons_append, List.head?_cons, Option.some.injEq] at hh
        subst hh
        by_cases hl : (showNat (n / 10)).length > 1
        · exact ih (n / 10) (by omega) ⟨hl, by rw [hs]; rfl⟩
        · have hlen : cs = [] := by
            rw [hs] at hl; simp at hl; exact hl
          subst hlen
          have h1 : readNat (showNat (n / 10)) = some (n / 10) := readNat_showNat _
          have h0 : readNat ['0'] = some 0 := by decide
          rw [hs, h0] at h1
          injection h1 with h1
          omega

theorem readNumber_nat (n : Nat) : readNumber (showNat n) = some (showNat n, []) := by
  have hne := showNat_ne_nil n
  have hsg : readSign (showNat n) = ([], showNat n) := by
    cases hs : showNat n with
    | nil => exact absurd hs hne
    | cons x xs =>
      have hx : x ≠ '-' := (showNat_digits n x (by rw [hs]; simp)).facts.2.2.2.1
      unfold readSign
      split
      · next h => injection h with h1 _; exact absurd h1 hx
      · rfl
  have htd := takeDigits_showNat n [] (by simp)
  simp only [List.append_nil] at htd
  unfold readNumber
  simp only [hsg, htd, hne, false_or, showNat_no_leading_zero n, if_false, readFrac, readExp, List.append_nil, List.nil_append]

/-- **integers up to 32 bits**: the encoding is a JSON number whose token is the integer's decimal
    text — every digit is kept (non-negative case; the sign is one more leading character) -/
theorem int32_valid (fs : Int → Str) (k : IntKind) (hk : is64 k = false) (n : Nat) :
    jsonEncode fs (.int k (some (n : Int))) = .ok (some (showNat n)) ∧
    parseJson (showNat n) = some (.num (showNat n)) := by
  constructor
  · simp [jsonEncode, hk, pyStrInt]
  · unfold parseJson
    have hne := showNat_ne_nil n
    cases hs : showNat n with
    | nil => exact absurd hs hne
    | cons c cs =>
      have hd : IsDigit c := showNat_digits n c (by rw [hs]; simp)
      have h48 : 48 ≤ c.toNat := hd.1
      have h57 : c.toNat ≤ 57 := hd.2
      have hws : isJsWs c = false := by
        simp only [isJsWs, Bool.or_eq_false_iff, beq_eq_false_iff_ne, ne_eq]
        refine ⟨⟨⟨?_, ?_⟩, ?_⟩, ?_⟩ <;> (intro e; subst e; revert h48; decide)
      have hc : c ≠ '"' ∧ c ≠ '[' ∧ c ≠ '{' := by
        refine ⟨?_, ?_, ?_⟩ <;> (intro e; subst e; revert h48 h57; decide)
      have hdc : isDigitC c = true := by simp [isDigitC, hd.1, hd.2]
      have hnum := readNumber_nat n
      rw [hs] at hnum
      rw [readValue, skipWs_cons _ _ hws]
      simp [hc.1, hc.2.1, hc.2.2, hdc, hnum, skipWs]

/-- the 64-bit encoders go through `float` — `2^53 + 1` does not survive (finding D-C10a);
    stated on the model with CPython's `str(float(2^53+1))` as input -/
theorem int64_witness : jsonEncode (fun _ => "9007199254740992.0".toList) (.int .int64 (some 9007199254740993)) =
    .ok (some "\"9007199254740992.0\"".toList) := by
  simp [jsonEncode, is64]

/-- NodeId / QualifiedName text is not escaped: a quote in the identifier gives invalid JSON (D-C10b) -/
theorem nodeid_quote_witness : nodeIdJson ⟨0, .s, "a\"b".toList⟩ = "{\"IdType\":1,\"Id\":\"a\"b\"}".toList := by decide

/-! ### object shapes -/

/-- one `"key":"string value"` member followed by `tail`, read with any fuel ≥ 2 -/
theorem readMembers_strMember (f : Nat) (k v tail : Str) (hk : escBody k = k)
    (rest : List (Str × JsonV)) (after : Str)
    (htail : (tail = '}' :: after ∧ rest = []) ∨
             (∃ r4, tail = ',' :: r4 ∧ readMembers (f + 1) r4 = some (rest, after))) :
    readMembers (f + 2) (pyJsonQuote k ++ ':' :: (pyJsonQuote v ++ tail)) = some ((k, .str v) :: rest, after) := by
  have e1 : pyJsonQuote k ++ ':' :: (pyJsonQuote v ++ tail) = '"' :: (escBody k ++ '"' :: (':' :: (pyJsonQuote v ++ tail))) := by
    simp [pyJsonQuote]
  rw [e1, readMembers, skipWs_cons _ _ (by decide)]
  simp only [readBody_escBody]
  rw [skipWs_cons _ _ (by decide)]
  simp only [readValue_quote]
  rcases htail with ⟨ht, hr⟩ | ⟨r4, ht, hm⟩
  · subst ht; subst hr
    rw [skipWs_cons _ _ (by decide)]
    simp
  · subst ht
    rw [skipWs_cons _ _ (by decide)]
    simp [hm]

theorem textKey_eq : "{\"Text\":".toList = '{' :: (pyJsonQuote "Text".toList ++ [':']) := by decide
theorem localeKey_eq : ",\"Locale\":".toList = ',' :: (pyJsonQuote "Locale".toList ++ [':']) := by decide

def kText : Str := "Text".toList
def kLocale : Str := "Locale".toList

/-- **LocalizedText has the right shape and loses nothing**: the encoding is one JSON object whose
    `Text` member is exactly the text and whose `Locale` member, present iff the value has a
    locale, is exactly the locale — for every text and locale (quotes, backslashes, control and
    non-ASCII characters included) -/
theorem locText_valid (fs : Int → Str) (t : Str) (l : Option Str) :
    ∃ j, jsonEncode fs (.locText (some t) l) = .ok (some j) ∧
      parseJson j = some (.obj ((kText, .str t) :: (match l with | none => [] | some x => [(kLocale, .str x)]))) := by
  refine ⟨ltJson (some t) l, by simp [jsonEncode], ?_⟩
  unfold parseJson
  -- the text of the object, as `{` members `}`
  have hshape : ltJson (some t) l = '{' :: (pyJsonQuote kText ++ ':' :: (pyJsonQuote t ++
      (match l with | none => ['}'] | some x => ',' :: (pyJsonQuote kLocale ++ ':' :: (pyJsonQuote x ++ ['}']))))) := by
    unfold ltJson kText kLocale
    rw [textKey_eq, localeKey_eq]
    cases l <;> simp
  have hlen : ∃ n, (ltJson (some t) l).length + 1 = n + 4 := by
    refine ⟨(ltJson (some t) l).length - 3, ?_⟩
    have : 3 ≤ (ltJson (some t) l).length := by rw [hshape]; simp [pyJsonQuote]; omega
    omega
  obtain ⟨n, hn⟩ := hlen
  rw [hn, hshape, readValue, skipWs_cons _ _ (by decide)]
  have hq : ∀ r, skipWs (pyJsonQuote kText ++ r) = pyJsonQuote kText ++ r := by
    intro r; simp [pyJsonQuote, skipWs, List.dropWhile, isJsWs]
  have hk1 : escBody kText = kText := by decide
  have hk2 : escBody kLocale = kLocale := by decide
  simp only [show ('{' : Char) ≠ '"' from by decide, show ('{' : Char) ≠ '[' from by decide, if_false, if_true, hq]
  cases l with
  | none =>
    have hm := readMembers_strMember (n + 1) kText t ['}'] hk1 [] [] (Or.inl ⟨rfl, rfl⟩)
    have hne : ∀ r, (pyJsonQuote kText ++ r) = '"' :: (escBody kText ++ '"' :: r) := by intro r; simp [pyJsonQuote]
    simp only [hne] at hm ⊢
    simp only [hm]
    simp [skipWs]
  | some x =>
    have hin := readMembers_strMember n kLocale x ['}'] hk2 [] [] (Or.inl ⟨rfl, rfl⟩)
    have hm := readMembers_strMember (n + 1) kText t (',' :: (pyJsonQuote kLocale ++ ':' :: (pyJsonQuote x ++ ['}']))) hk1
      [(kLocale, .str x)] [] (Or.inr ⟨_, rfl, hin⟩)
    have hne : ∀ r, (pyJsonQuote kText ++ r) = '"' :: (escBody kText ++ '"' :: r) := by intro r; simp [pyJsonQuote]
    simp only [hne] at hm ⊢
    simp only [hm]
    simp [skipWs]

/-! ### object shapes with number members: NodeId and QualifiedName -/

/-- what may follow a number inside an object: not a digit, not a fraction or exponent mark -/
def EndsNumber (tail : Str) : Prop := ∀ c, tail.head? = some c → isDigitC c = false ∧ c ≠ '.' ∧ c ≠ 'e' ∧ c ≠ 'E'

theorem endsNumber_comma (r : Str) : EndsNumber (',' :: r) := by
  intro c h; simp at h; subst h; decide
theorem endsNumber_brace (r : Str) : EndsNumber ('}' :: r) := by
  intro c h; simp at h; subst h; decide

theorem readNumber_nat_tail (n : Nat) (tail : Str) (ht : EndsNumber tail) :
    readNumber (showNat n ++ tail) = some (showNat n, tail) := by
  have hne := showNat_ne_nil n
  have hsg : readSign (showNat n ++ tail) = ([], showNat n ++ tail) := by
    cases hs : showNat n with
    | nil => exact absurd hs hne
    | cons x xs =>
      have hx : x ≠ '-' := (showNat_digits n x (by rw [hs]; simp)).facts.2.2.2.1
      simp only [List.cons_append]
      unfold readSign
      split
      · next h => injection h with h1 _; exact absurd h1 hx
      · rfl
  have htd := takeDigits_showNat n tail (fun c hc => (ht c hc).1)
  unfold readNumber
  simp only [hsg, htd, hne, false_or, showNat_no_leading_zero n, if_false]
  cases tail with
  | nil => simp [readFrac, readExp]
  | cons c r =>
    obtain ⟨_, h1, h2, h3⟩ := ht c rfl
    have hf : readFrac (c :: r) = some ([], c :: r) := by
      unfold readFrac
      split
      · next h => injection h with hh _; exact absurd hh h1
      · rfl
    simp [hf, readExp, h2, h3]

theorem readValue_nat (f n : Nat) (tail : Str) (ht : EndsNumber tail) :
    readValue (f + 1) (showNat n ++ tail) = some (.num (showNat n), tail) := by
  have hne := showNat_ne_nil n
  have hnum := readNumber_nat_tail n tail ht
  cases hs : showNat n with
  | nil => exact absurd hs hne
  | cons c cs =>
    have hd : IsDigit c := showNat_digits n c (by rw [hs]; simp)
    have h48 : 48 ≤ c.toNat := hd.1
    have h57 : c.toNat ≤ 57 := hd.2
    have hws : isJsWs c = false := by
      simp only [isJsWs, Bool.or_eq_false_iff, beq_eq_false_iff_ne, ne_eq]
      refine ⟨⟨⟨?_, ?_⟩, ?_⟩, ?_⟩ <;> (intro e; subst e; revert h48; decide)
    have hc : c ≠ '"' ∧ c ≠ '[' ∧ c ≠ '{' := by
      refine ⟨?_, ?_, ?_⟩ <;> (intro e; subst e; revert h48 h57; decide)
    have hdc : isDigitC c = true := by simp [isDigitC, hd.1, hd.2]
    rw [hs] at hnum
    simp only [List.cons_append] at hnum ⊢
    rw [readValue, skipWs_cons _ _ hws]
    simp [hc.1, hc.2.1, hc.2.2, hdc, hnum]

/-- one `"key":value` member followed by `tail`, for any value text that the value reader reads back -/
theorem readMembers_member (f : Nat) (k vt tail : Str) (v : JsonV)
    (hv : readValue (f + 1) (vt ++ tail) = some (v, tail))
    (rest : List (Str × JsonV)) (after : Str)
    (htail : (tail = '}' :: after ∧ rest = []) ∨
             (∃ r4, tail = ',' :: r4 ∧ readMembers (f + 1) r4 = some (rest, after))) :
    readMembers (f + 2) (pyJsonQuote k ++ ':' :: (vt ++ tail)) = some ((k, v) :: rest, after) := by
  have e1 : pyJsonQuote k ++ ':' :: (vt ++ tail) = '"' :: (escBody k ++ '"' :: (':' :: (vt ++ tail))) := by
    simp [pyJsonQuote]
  rw [e1, readMembers, skipWs_cons _ _ (by decide)]
  simp only [readBody_escBody]
  rw [skipWs_cons _ _ (by decide)]
  simp only [hv]
  rcases htail with ⟨ht, hr⟩ | ⟨r4, ht, hm⟩
  · subst ht; subst hr
    rw [skipWs_cons _ _ (by decide)]
    simp
  · subst ht
    rw [skipWs_cons _ _ (by decide)]
    simp [hm]


def kNamespace : Str := "Namespace".toList
def kIdType : Str := "IdType".toList
def kId : Str := "Id".toList

theorem nsKey_eq : "\"Namespace\":".toList = pyJsonQuote kNamespace ++ [':'] := by decide
theorem idTypeKey_eq : "\"IdType\":".toList = pyJsonQuote kIdType ++ [':'] := by decide
theorem idKey_eq : "\"Id\":".toList = pyJsonQuote kId ++ [':'] := by decide
theorem idKeyQ_eq : "\"Id\":\"".toList = pyJsonQuote kId ++ [':', '"'] := by decide

/-- the object reader applied to `{` members: what `parseJson` does with an object text -/
theorem parseJson_obj (body : Str) (ms : List (Str × JsonV)) (c : Char) (r : Str) (hb : body = c :: r) (hc : c = '"')
    (hm : readMembers (body.length + 1) body = some (ms, [])) :
    parseJson ('{' :: body) = some (.obj ms) := by
  subst hc
  unfold parseJson
  simp only [List.length_cons]
  rw [readValue, skipWs_cons _ _ (by decide)]
  simp only [show ('{' : Char) ≠ '"' from by decide, show ('{' : Char) ≠ '[' from by decide, if_false, if_true]
  rw [hb, skipWs_cons _ _ (by decide)]
  rw [hb] at hm
  simp only [List.length_cons] at hm
  simp [hm, skipWs]


theorem exists_fuel (m c : Nat) (h : c ≤ m) : ∃ n, m = n + c := ⟨m - c, by omega⟩

/-- **numeric NodeIds have the right shape and lose nothing**: the encoding of `ns=<n>;i=<k>` is one JSON
    object with the member `Id` holding exactly the digits of `k` as a number and, iff the namespace
    index is not 0, a member `Namespace` holding exactly the digits of `n` -/
theorem nodeId_numeric_valid (ns k : Nat) :
    parseJson (nodeIdJson ⟨(ns : Int), .i, showNat k⟩) =
      some (.obj ((if ns = 0 then [] else [(kNamespace, .num (showNat ns))]) ++ [(kId, .num (showNat k))])) := by
  have hq : ∀ (key r : Str), pyJsonQuote key ++ r = '"' :: (escBody key ++ '"' :: r) := by intro key r; simp [pyJsonQuote]
  by_cases h0 : ns = 0
  · subst h0
    have hshape : nodeIdJson ⟨((0 : Nat) : Int), .i, showNat k⟩ = '{' :: (pyJsonQuote kId ++ ':' :: (showNat k ++ ['}'])) := by
      simp [nodeIdJson, idKey_eq]
    rw [hshape]
    refine parseJson_obj _ _ '"' _ (hq _ _) rfl ?_
    obtain ⟨n, hn⟩ : ∃ n, (pyJsonQuote kId ++ ':' :: (showNat k ++ ['}'])).length + 1 = n + 2 := exists_fuel _ 2 (by simp; omega)
    rw [hn]
    simpa using readMembers_member n kId (showNat k) ['}'] (.num (showNat k)) (readValue_nat n k _ (endsNumber_brace _)) [] [] (Or.inl ⟨rfl, rfl⟩)
  · have hshape : nodeIdJson ⟨(ns : Int), .i, showNat k⟩ =
        '{' :: (pyJsonQuote kNamespace ++ ':' :: (showNat ns ++ (',' :: (pyJsonQuote kId ++ ':' :: (showNat k ++ ['}']))))) := by
      have : ((ns : Int) = 0) = False := by simp [h0]
      simp [nodeIdJson, idKey_eq, nsKey_eq, pyStrInt, h0]
    rw [hshape]
    refine parseJson_obj _ _ '"' _ (hq _ _) rfl ?_
    obtain ⟨n, hn⟩ : ∃ n, (pyJsonQuote kNamespace ++ ':' :: (showNat ns ++ (',' :: (pyJsonQuote kId ++ ':' :: (showNat k ++ ['}']))))).length + 1 = n + 3 :=
      exists_fuel _ 3 (by simp [pyJsonQuote]; omega)
    rw [hn]
    have hin := readMembers_member n kId (showNat k) ['}'] (.num (showNat k)) (readValue_nat n k _ (endsNumber_brace _)) [] [] (Or.inl ⟨rfl, rfl⟩)
    have hm := readMembers_member (n + 1) kNamespace (showNat ns) (',' :: (pyJsonQuote kId ++ ':' :: (showNat k ++ ['}']))) (.num (showNat ns))
      (readValue_nat (n + 1) ns _ (endsNumber_comma _)) [(kId, .num (showNat k))] [] (Or.inr ⟨_, rfl, hin⟩)
    simpa [h0] using hm


theorem idType_digit (ty : IdType) : [digitChar (idTypeInt ty)] = showNat (idTypeInt ty) := by
  cases ty <;> (unfold showNat; simp [idTypeInt])

/-- **string, GUID and opaque NodeIds** whose identifier needs no JSON escape (no quote, backslash or
    control character — finding D-C10b is what happens otherwise): one JSON object with `IdType`, the
    identifier as the string member `Id`, character for character, and `Namespace` iff it is not 0 -/
theorem nodeId_text_valid (ns : Nat) (ty : IdType) (hty : ty ≠ .i) (ident : Str) (hid : escBody ident = ident) :
    parseJson (nodeIdJson ⟨(ns : Int), ty, ident⟩) =
      some (.obj ((if ns = 0 then [] else [(kNamespace, .num (showNat ns))]) ++
        [(kIdType, .num (showNat (idTypeInt ty))), (kId, .str ident)])) := by
  have hq : ∀ (key r : Str), pyJsonQuote key ++ r = '"' :: (escBody key ++ '"' :: r) := by intro key r; simp [pyJsonQuote]
  have hidq : "\"Id\":\"".toList ++ ident ++ ['"'] = pyJsonQuote kId ++ ':' :: pyJsonQuote ident := by
    rw [idKeyQ_eq]; simp [pyJsonQuote, hid]
  -- the two members every such NodeId has
  have htwo : ∀ n, readMembers (n + 3) (pyJsonQuote kIdType ++ ':' :: (showNat (idTypeInt ty) ++ (',' :: (pyJsonQuote kId ++ ':' :: (pyJsonQuote ident ++ ['}']))))) =
      some ([(kIdType, .num (showNat (idTypeInt ty))), (kId, .str ident)], []) := by
    intro n
    have hin := readMembers_member n kId (pyJsonQuote ident) ['}'] (.str ident) (readValue_quote n ident _) [] [] (Or.inl ⟨rfl, rfl⟩)
    exact readMembers_member (n + 1) kIdType (showNat (idTypeInt ty)) _ (.num (showNat (idTypeInt ty)))
      (readValue_nat (n + 1) _ _ (endsNumber_comma _)) [(kId, .str ident)] [] (Or.inr ⟨_, rfl, hin⟩)
  by_cases h0 : ns = 0
  · subst h0
    have hshape : nodeIdJson ⟨((0 : Nat) : Int), ty, ident⟩ =
        '{' :: (pyJsonQuote kIdType ++ ':' :: (showNat (idTypeInt ty) ++ (',' :: (pyJsonQuote kId ++ ':' :: (pyJsonQuote ident ++ ['}']))))) := by
      unfold nodeIdJson
      simp only [hty, if_false, Int.natCast_zero, if_true, List.nil_append, hidq, idTypeKey_eq, idType_digit]
      simp
    rw [hshape]
    refine parseJson_obj _ _ '"' _ (hq _ _) rfl ?_
    obtain ⟨n, hn⟩ := exists_fuel ((pyJsonQuote kIdType ++ ':' :: (showNat (idTypeInt ty) ++ (',' :: (pyJsonQuote kId ++ ':' :: (pyJsonQuote ident ++ ['}']))))).length + 1) 3
      (by simp [pyJsonQuote]; omega)
    rw [hn]
    simpa using htwo n
  · have hshape : nodeIdJson ⟨(ns : Int), ty, ident⟩ =
        '{' :: (pyJsonQuote kNamespace ++ ':' :: (showNat ns ++ (',' :: (pyJsonQuote kIdType ++ ':' :: (showNat (idTypeInt ty) ++ (',' :: (pyJsonQuote kId ++ ':' :: (pyJsonQuote ident ++ ['}']))))))))
        := by
      unfold nodeIdJson
      have : ¬ ((ns : Int) = 0) := by simp [h0]
      simp only [hty, if_false, this, hidq, idTypeKey_eq, idType_digit, nsKey_eq, pyStrInt]
      simp
    rw [hshape]
    refine parseJson_obj _ _ '"' _ (hq _ _) rfl ?_
    obtain ⟨n, hn⟩ := exists_fuel ((pyJsonQuote kNamespace ++ ':' :: (showNat ns ++ (',' :: (pyJsonQuote kIdType ++ ':' :: (showNat (idTypeInt ty) ++ (',' :: (pyJsonQuote kId ++ ':' :: (pyJsonQuote ident ++ ['}'])))))))).length + 1) 4
      (by simp [pyJsonQuote]; omega)
    rw [hn]
    have hm := readMembers_member (n + 2) kNamespace (showNat ns) _ (.num (showNat ns))
      (readValue_nat (n + 2) ns _ (endsNumber_comma _)) _ [] (Or.inr ⟨_, rfl, htwo n⟩)
    simpa [h0] using hm


def kName : Str := "Name".toList
def kUri : Str := "Uri".toList
theorem nameKeyQ_eq : "{\"Name\":\"".toList = '{' :: (pyJsonQuote kName ++ [':', '"']) := by decide
theorem uriKey_eq : ",\"Uri\":".toList = ',' :: (pyJsonQuote kUri ++ [':']) := by decide

/-- **QualifiedName** whose name needs no JSON escape: one object with the string member `Name`,
    character for character, and the member `Uri` (the namespace index as a number) iff it is not 0 -/
theorem qname_valid (fs : Int → Str) (ns : Nat) (name : Str) (hname : escBody name = name) :
    ∃ j, jsonEncode fs (.qname ns name) = .ok (some j) ∧
      parseJson j = some (.obj ((kName, .str name) :: (if ns = 0 then [] else [(kUri, .num (showNat ns))]))) := by
  refine ⟨"{\"Name\":\"".toList ++ name ++ ['"'] ++ (if ns = 0 then [] else ",\"Uri\":".toList ++ showNat ns) ++ ['}'], by rw [jsonEncode], ?_⟩
  have hq : ∀ (key r : Str), pyJsonQuote key ++ r = '"' :: (escBody key ++ '"' :: r) := by intro key r; simp [pyJsonQuote]
  by_cases h0 : ns = 0
  · subst h0
    have hshape : "{\"Name\":\"".toList ++ name ++ ['"'] ++ (if (0 : Nat) = 0 then [] else ",\"Uri\":".toList ++ showNat 0) ++ ['}'] =
        '{' :: (pyJsonQuote kName ++ ':' :: (pyJsonQuote name ++ ['}'])) := by
      rw [nameKeyQ_eq]; simp [pyJsonQuote, hname]
    rw [hshape]
    refine parseJson_obj _ _ '"' _ (hq _ _) rfl ?_
    obtain ⟨n, hn⟩ := exists_fuel ((pyJsonQuote kName ++ ':' :: (pyJsonQuote name ++ ['}'])).length + 1) 2 (by simp; omega)
    rw [hn]
    simpa using readMembers_member n kName (pyJsonQuote name) ['}'] (.str name) (readValue_quote n name _) [] [] (Or.inl ⟨rfl, rfl⟩)
  · have hshape : "{\"Name\":\"".toList ++ name ++ ['"'] ++ (if ns = 0 then [] else ",\"Uri\":".toList ++ showNat ns) ++ ['}'] =
        '{' :: (pyJsonQuote kName ++ ':' :: (pyJsonQuote name ++ (',' :: (pyJsonQuote kUri ++ ':' :: (showNat ns ++ ['}']))))) := by
      rw [nameKeyQ_eq, uriKey_eq]; simp [pyJsonQuote, hname, h0]
    rw [hshape]
    refine parseJson_obj _ _ '"' _ (hq _ _) rfl ?_
    obtain ⟨n, hn⟩ := exists_fuel ((pyJsonQuote kName ++ ':' :: (pyJsonQuote name ++ (',' :: (pyJsonQuote kUri ++ ':' :: (showNat ns ++ ['}']))))).length + 1) 3
      (by simp [pyJsonQuote]; omega)
    rw [hn]
    have hin := readMembers_member n kUri (showNat ns) ['}'] (.num (showNat ns)) (readValue_nat n ns _ (endsNumber_brace _)) [] [] (Or.inl ⟨rfl, rfl⟩)
    have hm := readMembers_member (n + 1) kName (pyJsonQuote name) _ (.str name) (readValue_quote (n + 1) name _) _ [] (Or.inr ⟨_, rfl, hin⟩)
    simpa [h0] using hm


theorem nodeId_encode (fs : Int → Str) (n : NodeId) : jsonEncode fs (.nodeId n) = .ok (some (nodeIdJson n)) := by rw [jsonEncode]

/-! ### nested objects: Variant and ExtensionObject -/

/-- an object text `{` members, inside a larger text: what the value reader does with it -/
theorem readValue_obj (f : Nat) (r' : Str) (ms : List (Str × JsonV)) (after : Str)
    (hm : readMembers f ('"' :: r') = some (ms, after)) :
    readValue (f + 1) ('{' :: '"' :: r') = some (.obj ms, after) := by
  rw [readValue, skipWs_cons _ _ (by decide)]
  simp only [show ('{' : Char) ≠ '"' from by decide, show ('{' : Char) ≠ '[' from by decide, if_false, if_true]
  rw [skipWs_cons _ _ (by decide)]
  simp [hm]

def kType : Str := "Type".toList
def kBody : Str := "Body".toList
theorem typeKey_eq : "{\"Type\":".toList = '{' :: (pyJsonQuote kType ++ [':']) := by decide
theorem bodyKey_eq : ",\"Body\":".toList = ',' :: (pyJsonQuote kBody ++ [':']) := by decide

/-- **Variant has the right shape**: whenever the encoding `body` of the inner value is read back as the
    JSON value `v` (in front of a closing brace, with whatever fuel), the Variant's encoding is the object
    `{"Type": <built-in type number>, "Body": v}` -/
theorem variant_shape (n : Nat) (body : Str) (v : JsonV)
    (hv : ∀ f, readValue (f + 1) (body ++ ['}']) = some (v, ['}'])) :
    parseJson ("{\"Type\":".toList ++ showNat n ++ ",\"Body\":".toList ++ body ++ ['}']) =
      some (.obj [(kType, .num (showNat n)), (kBody, v)]) := by
  have hq : ∀ (key r : Str), pyJsonQuote key ++ r = '"' :: (escBody key ++ '"' :: r) := by intro key r; simp [pyJsonQuote]
  have hshape : "{\"Type\":".toList ++ showNat n ++ ",\"Body\":".toList ++ body ++ ['}'] =
      '{' :: (pyJsonQuote kType ++ ':' :: (showNat n ++ (',' :: (pyJsonQuote kBody ++ ':' :: (body ++ ['}']))))) := by
    rw [typeKey_eq, bodyKey_eq]; simp
  rw [hshape]
  refine parseJson_obj _ _ '"' _ (hq _ _) rfl ?_
  obtain ⟨m, hm⟩ := exists_fuel ((pyJsonQuote kType ++ ':' :: (showNat n ++ (',' :: (pyJsonQuote kBody ++ ':' :: (body ++ ['}']))))).length + 1) 3
    (by simp [pyJsonQuote]; omega)
  rw [hm]
  have hin := readMembers_member m kBody body ['}'] v (hv m) [] [] (Or.inl ⟨rfl, rfl⟩)
  exact readMembers_member (m + 1) kType (showNat n) _ (.num (showNat n)) (readValue_nat (m + 1) n _ (endsNumber_comma _)) _ [] (Or.inr ⟨_, rfl, hin⟩)

/-- … instantiated: a Variant holding a string -/
theorem variant_string_valid (fs : Int → Str) (s : Str) :
    ∃ j, jsonEncode fs (.variant (.str (some s))) = .ok (some j) ∧
      parseJson j = some (.obj [(kType, .num (showNat 12)), (kBody, .str s)]) := by
  refine ⟨"{\"Type\":".toList ++ showNat 12 ++ ",\"Body\":".toList ++ pyJsonQuote s ++ ['}'], ?_, ?_⟩
  · simp [jsonEncode, variantTypeOf]
  · exact variant_shape 12 (pyJsonQuote s) (.str s) (fun f => readValue_quote f s _)

/-- … and a Variant holding a non-negative integer of at most 32 bits -/
theorem variant_int_valid (fs : Int → Str) (k : IntKind) (hk : is64 k = false) (t : Nat) (ht : variantNumber k.tag = some t) (n : Nat) :
    ∃ j, jsonEncode fs (.variant (.int k (some (n : Int)))) = .ok (some j) ∧
      parseJson j = some (.obj [(kType, .num (showNat t)), (kBody, .num (showNat n))]) := by
  refine ⟨"{\"Type\":".toList ++ showNat t ++ ",\"Body\":".toList ++ showNat n ++ ['}'], ?_, ?_⟩
  · simp [jsonEncode, variantTypeOf, hk, ht, pyStrInt]
  · exact variant_shape t (showNat n) (.num (showNat n)) (fun f => readValue_nat f n _ (endsNumber_brace _))


/-- a numeric NodeId object inside a larger text, read with any fuel ≥ 4 -/
theorem nodeId_numeric_read (ns k f : Nat) (after : Str) :
    readValue (f + 4) (nodeIdJson ⟨(ns : Int), .i, showNat k⟩ ++ after) =
      some (.obj ((if ns = 0 then [] else [(kNamespace, .num (showNat ns))]) ++ [(kId, .num (showNat k))]), after) := by
  have hq : ∀ (key r : Str), pyJsonQuote key ++ r = '"' :: (escBody key ++ '"' :: r) := by intro key r; simp [pyJsonQuote]
  by_cases h0 : ns = 0
  · subst h0
    have hshape : nodeIdJson ⟨((0 : Nat) : Int), .i, showNat k⟩ ++ after = '{' :: (pyJsonQuote kId ++ ':' :: (showNat k ++ '}' :: after)) := by
      simp [nodeIdJson, idKey_eq]
    rw [hshape, hq]
    refine readValue_obj (f + 3) _ _ after ?_
    rw [← hq]
    simpa using readMembers_member (f + 1) kId (showNat k) ('}' :: after) (.num (showNat k)) (readValue_nat (f + 1) k _ (endsNumber_brace _)) [] after (Or.inl ⟨rfl, rfl⟩)
  · have hshape : nodeIdJson ⟨(ns : Int), .i, showNat k⟩ ++ after =
        '{' :: (pyJsonQuote kNamespace ++ ':' :: (showNat ns ++ (',' :: (pyJsonQuote kId ++ ':' :: (showNat k ++ '}' :: after))))) := by
      simp [nodeIdJson, idKey_eq, nsKey_eq, pyStrInt, h0]
    rw [hshape, hq]
    refine readValue_obj (f + 3) _ _ after ?_
    rw [← hq]
    have hin := readMembers_member f kId (showNat k) ('}' :: after) (.num (showNat k)) (readValue_nat f k _ (endsNumber_brace _)) [] after (Or.inl ⟨rfl, rfl⟩)
    have hm := readMembers_member (f + 1) kNamespace (showNat ns) (',' :: (pyJsonQuote kId ++ ':' :: (showNat k ++ '}' :: after))) (.num (showNat ns))
      (readValue_nat (f + 1) ns _ (endsNumber_comma _)) [(kId, .num (showNat k))] after (Or.inr ⟨_, rfl, hin⟩)
    simpa [h0] using hm

def kTypeId : Str := "TypeId".toList
def kEncoding : Str := "Encoding".toList
theorem typeIdKey_eq : "{\"TypeId\":".toList = '{' :: (pyJsonQuote kTypeId ++ [':']) := by decide
theorem encKey_eq : ",\"Encoding\":2}".toList = ',' :: (pyJsonQuote kEncoding ++ [':', '2', '}']) := by decide

/-- **extension objects with an XML body and a numeric type id**: one object with the type id as a NodeId
    object, the body as a JSON string holding the XML text character for character, and `Encoding` 2 -/
theorem extObj_valid (fs : Int → Str) (ns k : Nat) (body : Xml.T) :
    ∃ j, jsonEncode fs (.extObj ⟨(ns : Int), .i, showNat k⟩ body) = .ok (some j) ∧
      parseJson j = some (.obj [(kTypeId, .obj ((if ns = 0 then [] else [(kNamespace, .num (showNat ns))]) ++ [(kId, .num (showNat k))])),
                                (kBody, .str (Xml.render (layoutT body))), (kEncoding, .num ['2'])]) := by
  refine ⟨"{\"TypeId\":".toList ++ nodeIdJson ⟨(ns : Int), .i, showNat k⟩ ++ ",\"Body\":".toList ++ pyJsonQuote (Xml.render (layoutT body)) ++
      ",\"Encoding\":2}".toList, by rw [jsonEncode], ?_⟩
  have hq : ∀ (key r : Str), pyJsonQuote key ++ r = '"' :: (escBody key ++ '"' :: r) := by intro key r; simp [pyJsonQuote]
  have hshape : "{\"TypeId\":".toList ++ nodeIdJson ⟨(ns : Int), .i, showNat k⟩ ++ ",\"Body\":".toList ++ pyJsonQuote (Xml.render (layoutT body)) ++
      ",\"Encoding\":2}".toList =
      '{' :: (pyJsonQuote kTypeId ++ ':' :: (nodeIdJson ⟨(ns : Int), .i, showNat k⟩ ++ (',' :: (pyJsonQuote kBody ++ ':' :: (pyJsonQuote (Xml.render (layoutT body)) ++
        (',' :: (pyJsonQuote kEncoding ++ ':' :: (['2'] ++ ['}'])))))))) := by
    rw [typeIdKey_eq, bodyKey_eq, encKey_eq]; simp
  rw [hshape]
  refine parseJson_obj _ _ '"' _ (hq _ _) rfl ?_
  obtain ⟨m, hm⟩ := exists_fuel ((pyJsonQuote kTypeId ++ ':' :: (nodeIdJson ⟨(ns : Int), .i, showNat k⟩ ++ (',' :: (pyJsonQuote kBody ++ ':' :: (pyJsonQuote (Xml.render (layoutT body)) ++
        (',' :: (pyJsonQuote kEncoding ++ ':' :: (['2'] ++ ['}'])))))))).length + 1) 6 (by
      have hl : 8 ≤ (pyJsonQuote kTypeId).length := by decide
      simp only [List.length_append, List.length_cons]; omega)
  rw [hm]
  have h2 : showNat 2 = ['2'] := by unfold showNat; simp; decide
  have h3 := readMembers_member (m + 2) kEncoding ['2'] ['}'] (.num ['2']) (by rw [← h2]; exact readValue_nat (m + 2) 2 _ (endsNumber_brace _)) [] [] (Or.inl ⟨rfl, rfl⟩)
  have h2' := readMembers_member (m + 3) kBody (pyJsonQuote (Xml.render (layoutT body))) _ (.str (Xml.render (layoutT body)))
    (readValue_quote (m + 3) _ _) _ [] (Or.inr ⟨_, rfl, h3⟩)
  exact readMembers_member (m + 4) kTypeId (nodeIdJson ⟨(ns : Int), .i, showNat k⟩) _ _ (nodeId_numeric_read ns k (m + 1) _) _ [] (Or.inr ⟨_, rfl, h2'⟩)


/-! ### non-vacuity -/
example : parseJson (nodeIdJson ⟨2, .s, "Pump 1".toList⟩) =
    some (.obj [(kNamespace, .num ['2']), (kIdType, .num ['1']), (kId, .str "Pump 1".toList)]) := by
  have := nodeId_text_valid 2 .s (by decide) "Pump 1".toList (by decide)
  have d2 : digitChar 2 = '2' := by decide
  have d1 : digitChar 1 = '1' := by decide
  simpa [showNat, idTypeInt, d1, d2] using this
example : parseJson (pyJsonQuote ['a', '"', '\\', '\n', Char.ofNat 1, 'é']) = some (.str ['a', '"', '\\', '\n', Char.ofNat 1, 'é']) :=
  string_valid _
end Opcua.C10

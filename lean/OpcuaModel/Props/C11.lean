import OpcuaModel.Model.Validate
/-! # C11 — a UAGraph is closed under its references and look-ups are unambiguous. -/
namespace Opcua.C11
open Opcua

theorem missingSrc_nil_iff (ids : List Nat) (refs : List RefRow) :
    missingSrc ids refs = [] ↔ ∀ r ∈ refs, r.1 ∈ ids := by
  simp [missingSrc, List.filter_eq_nil_iff]

theorem missingTrg_nil_iff (ids : List Nat) (refs : List RefRow) :
    missingTrg ids refs = [] ↔ ∀ r ∈ refs, r.2.1 ∈ ids := by
  simp [missingTrg, List.filter_eq_nil_iff]

theorem mem_missingSrc (ids : List Nat) (refs : List RefRow) (r : RefRow) :
    r ∈ missingSrc ids refs ↔ r ∈ refs ∧ r.1 ∉ ids := by simp [missingSrc]

theorem mem_missingTrg (ids : List Nat) (refs : List RefRow) (r : RefRow) :
    r ∈ missingTrg ids refs ↔ r ∈ refs ∧ r.2.1 ∉ ids := by simp [missingTrg]

/-- **build_ok_iff_closed**: the check passes exactly when the source and the target of every
    reference are defined nodes -/
theorem build_ok_iff_closed (ids : List Nat) (refs : List RefRow) :
    validateClosed ids refs = .ok () ↔ ∀ r ∈ refs, r.1 ∈ ids ∧ r.2.1 ∈ ids := by
  unfold validateClosed
  by_cases h1 : missingSrc ids refs = []
  · by_cases h2 : missingTrg ids refs = []
    · simp only [h1, h2, ne_eq, not_true_eq_false, if_false, true_iff]
      intro r hr
      exact ⟨(missingSrc_nil_iff ids refs).1 h1 r hr, (missingTrg_nil_iff ids refs).1 h2 r hr⟩
    · simp only [h1, h2, ne_eq, not_true_eq_false, not_false_eq_true, if_false, if_true]
      constructor
      · intro h; simp at h
      · intro h; exact absurd ((missingTrg_nil_iff ids refs).2 fun r hr => (h r hr).2) h2
  · simp only [h1, ne_eq, not_false_eq_true, if_true]
    constructor
    · intro h; simp at h
    · intro h; exact absurd ((missingSrc_nil_iff ids refs).2 fun r hr => (h r hr).1) h1

/-- **error_lists_exactly**: when a source is missing the error concerns exactly the references
    with a missing source (they are reported through their present target); only when every source
    exists does it concern exactly the references with a missing target -/
theorem error_lists_exactly (ids : List Nat) (refs : List RefRow) :
    (missingSrc ids refs ≠ [] → validateClosed ids refs = .error (.missingSource (missingSrc ids refs))) ∧
    (missingSrc ids refs = [] → missingTrg ids refs ≠ [] →
        validateClosed ids refs = .error (.missingTarget (missingTrg ids refs))) := by
  unfold validateClosed
  constructor
  · intro h; simp [h]
  · intro h1 h2; simp [h1, h2]

/-- **lookup_unique**: a look-up returns an id iff exactly one node (of the class, when one is given)
    carries the browse name; zero or several matches, or an empty name, give `ValueError` -/
theorem lookup_unique (nodes : List NameRow) (name : Str) (cls : Option Str) (hne : name ≠ []) (i : Nat) :
    lookupBrowse nodes name cls = .ok i ↔ ∃ n, candidates nodes name cls = [n] ∧ n.id = i := by
  unfold lookupBrowse
  simp only [hne, if_false]
  constructor
  · intro h
    split at h
    · next n hm => simp only [Except.ok.injEq] at h; exact ⟨n, hm, h⟩
    · simp at h
  · rintro ⟨n, hm, rfl⟩
    rw [hm]

theorem lookup_error_is_valueError (nodes : List NameRow) (name : Str) (cls : Option Str) (e : PyErr)
    (h : lookupBrowse nodes name cls = .error e) : e = .valueError := by
  unfold lookupBrowse at h
  split at h
  · simp only [Except.error.injEq] at h; exact h.symm
  · split at h
    · simp at h
    · simp only [Except.error.injEq] at h; exact h.symm

/-- a candidate is a node of the graph with that name (and class): nothing is invented -/
theorem mem_candidates (nodes : List NameRow) (name : Str) (cls : Option Str) (n : NameRow) :
    n ∈ candidates nodes name cls ↔ n ∈ nodes ∧ n.browse = name ∧ (∀ c, cls = some c → n.cls = 'U' :: 'A' :: c) := by
  unfold candidates
  cases cls with
  | none => simp
  | some c => simp; intro _; exact And.comm

/-! ### non-vacuity -/
example : validateClosed [1, 2, 3] [(1, 2, 3), (2, 1, 3)] = .ok () := by decide
example : validateClosed [1, 2] [(9, 2, 1), (1, 8, 1)] = .error (.missingSource [(9, 2, 1)]) := by decide
example : validateClosed [1, 2] [(1, 8, 1)] = .error (.missingTarget [(1, 8, 1)]) := by decide
example : lookupBrowse [⟨1, "UAObject".toList, "a".toList⟩, ⟨2, "UAVariable".toList, "a".toList⟩] "a".toList (some "Object".toList) = .ok 1 := by decide
example : lookupBrowse [⟨1, "UAObject".toList, "a".toList⟩, ⟨2, "UAVariable".toList, "a".toList⟩] "a".toList none = .error .valueError := by decide

end Opcua.C11

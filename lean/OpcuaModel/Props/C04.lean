import OpcuaModel.Model.Parse
import OpcuaModel.Props.C12
/-! # C04 — integer-id normalisation is a consistent bijection with NodeIds. -/
namespace Opcua.C04
open Opcua

/-- **uniques_nodup**: the lookup table holds every NodeId once (id ↦ NodeId is injective) -/
theorem lookup_nodup (nodes : List NodeRow) (refs : List Triple) : (normalize nodes refs).lookup.Nodup :=
  C12.nodup_uniques _

/-- **code_roundtrip**: every NodeId that occurs anywhere gets an id, and the lookup table maps
    the id back to exactly that NodeId -/
theorem code_roundtrip {α} [DecidableEq α] (l : List α) (a : α) (h : a ∈ l) :
    ∃ i, code (uniques l) a = some i ∧ (uniques l)[i]? = some a := by
  have hm : a ∈ uniques l := (C12.mem_uniques l a).2 h
  refine ⟨(uniques l).idxOf a, by simp [code, hm], ?_⟩
  have hlt := List.idxOf_lt_length_of_mem hm
  simp [List.getElem?_eq_getElem hlt]

/-- **code_injective**: two NodeIds with the same id are the same NodeId -/
theorem code_injective {α} [DecidableEq α] (us : List α) (a b : α) (i : Nat)
    (ha : code us a = some i) (hb : code us b = some i) : a = b := by
  unfold code at ha hb
  split at ha
  · next h1 =>
    split at hb
    · next h2 =>
      simp only [Option.some.injEq] at ha hb
      have e1 := List.getElem_idxOf (List.idxOf_lt_length_of_mem h1)
      have e2 := List.getElem_idxOf (List.idxOf_lt_length_of_mem h2)
      have : us.idxOf a = us.idxOf b := ha.trans hb.symm
      rw [← e1, ← e2]; simp [this]
    · simp at hb
  · simp at ha

/-- a code only ever denotes the NodeId it was computed from -/
theorem code_sound {α} [DecidableEq α] (us : List α) (a : α) (i : Nat) (h : code us a = some i) :
    us[i]? = some a := by
  unfold code at h
  split at h
  · next hm =>
    simp only [Option.some.injEq] at h; subst h
    have hlt := List.idxOf_lt_length_of_mem hm
    simp [List.getElem?_eq_getElem hlt]
  · simp at h

theorem mem_allIds_node (nodes : List NodeRow) (refs : List Triple) (r : NodeRow) (h : r ∈ nodes) :
    r.nodeId ∈ allIds nodes refs := by
  simp only [allIds, List.mem_append, List.mem_map]
  exact Or.inl (Or.inl (Or.inl (Or.inl (Or.inl (Or.inl ⟨r, h, rfl⟩)))))

/-- **id_of_row**: every node row has an id, and the lookup entry of that id is the row's NodeId -/
theorem id_of_row (nodes : List NodeRow) (refs : List Triple) (r : NodeRow) (h : r ∈ nodes) :
    ∃ i, code (normalize nodes refs).lookup r.nodeId = some i ∧
      (normalize nodes refs).lookup[i]? = some r.nodeId :=
  code_roundtrip _ _ (mem_allIds_node nodes refs r h)

/-- **rows_ids_injective**: rows with distinct NodeIds get distinct ids (two node elements that
    declare the *same* NodeId share an id — in the real code as well) -/
theorem rows_ids_injective (nodes : List NodeRow) (refs : List Triple) (r s : NodeRow) (i : Nat)
    (hr : code (normalize nodes refs).lookup r.nodeId = some i)
    (hs : code (normalize nodes refs).lookup s.nodeId = some i) : r.nodeId = s.nodeId :=
  code_injective _ _ _ i hr hs

/-- **denormalize ∘ normalize** on the reference table: replacing the three ids of a row by their
    lookup entries gives back exactly the triple the documents named -/
theorem refs_denormalize (nodes : List NodeRow) (refs : List Triple) (t : Triple) (h : t ∈ refs) :
    ∃ a b c, (code (normalize nodes refs).lookup t.1 = some a ∧ (normalize nodes refs).lookup[a]? = some t.1) ∧
      (code (normalize nodes refs).lookup t.2.1 = some b ∧ (normalize nodes refs).lookup[b]? = some t.2.1) ∧
      (code (normalize nodes refs).lookup t.2.2 = some c ∧ (normalize nodes refs).lookup[c]? = some t.2.2) := by
  have m1 : t.1 ∈ allIds nodes refs := by
    simp only [allIds, List.mem_append, List.mem_map]
    exact Or.inl (Or.inl (Or.inr ⟨t, h, rfl⟩))
  have m2 : t.2.1 ∈ allIds nodes refs := by
    simp only [allIds, List.mem_append, List.mem_map]
    exact Or.inl (Or.inr ⟨t, h, rfl⟩)
  have m3 : t.2.2 ∈ allIds nodes refs := by
    simp only [allIds, List.mem_append, List.mem_map]
    exact Or.inr ⟨t, h, rfl⟩
  obtain ⟨a, ha⟩ := code_roundtrip _ _ m1
  obtain ⟨b, hb⟩ := code_roundtrip _ _ m2
  obtain ⟨c, hc⟩ := code_roundtrip _ _ m3
  exact ⟨a, b, c, ha, hb, hc⟩

/-- the node-reference columns: a present attribute becomes an id whose lookup entry is the NodeId
    the document named … -/
theorem attr_denormalize (nodes : List NodeRow) (refs : List Triple) (r : NodeRow) (h : r ∈ nodes)
    (n : NodeId) :
    (r.parent = some n → ∃ i, r.parent.bind (code (normalize nodes refs).lookup) = some i ∧
        (normalize nodes refs).lookup[i]? = some n) ∧
    (r.dataType = some n → ∃ i, r.dataType.bind (code (normalize nodes refs).lookup) = some i ∧
        (normalize nodes refs).lookup[i]? = some n) ∧
    (r.methodDecl = some n → ∃ i, r.methodDecl.bind (code (normalize nodes refs).lookup) = some i ∧
        (normalize nodes refs).lookup[i]? = some n) := by
  refine ⟨?_, ?_, ?_⟩
  · intro hp
    have m : n ∈ allIds nodes refs := by
      simp only [allIds, List.mem_append, List.mem_filterMap]
      exact Or.inl (Or.inl (Or.inl (Or.inl (Or.inl (Or.inr ⟨r, h, hp⟩)))))
    obtain ⟨i, hi⟩ := code_roundtrip _ _ m
    exact ⟨i, by rw [hp]; exact hi.1, hi.2⟩
  · intro hp
    have m : n ∈ allIds nodes refs := by
      simp only [allIds, List.mem_append, List.mem_filterMap]
      exact Or.inl (Or.inl (Or.inl (Or.inl (Or.inr ⟨r, h, hp⟩))))
    obtain ⟨i, hi⟩ := code_roundtrip _ _ m
    exact ⟨i, by rw [hp]; exact hi.1, hi.2⟩
  · intro hp
    have m : n ∈ allIds nodes refs := by
      simp only [allIds, List.mem_append, List.mem_filterMap]
      exact Or.inl (Or.inl (Or.inl (Or.inr ⟨r, h, hp⟩)))
    obtain ⟨i, hi⟩ := code_roundtrip _ _ m
    exact ⟨i, by rw [hp]; exact hi.1, hi.2⟩

/-- … **absent_stays_absent**: and an attribute the element does not have is never turned into an id -/
theorem absent_stays_absent (us : List NodeId) (r : NodeRow) :
    (r.parent = none → r.parent.bind (code us) = none) ∧
    (r.dataType = none → r.dataType.bind (code us) = none) ∧
    (r.methodDecl = none → r.methodDecl.bind (code us) = none) := by
  refine ⟨?_, ?_, ?_⟩ <;> intro h <;> rw [h] <;> rfl

/-- the tables keep their shape: one id row per node row, one id triple per reference -/
theorem shape (nodes : List NodeRow) (refs : List Triple) :
    (normalize nodes refs).nodeIds.length = nodes.length ∧ (normalize nodes refs).refs.length = refs.length := by
  simp [normalize]

/-! ### non-vacuity -/
example : code (uniques [3, 5, 3, 7]) 7 = some 2 := by decide
example : (uniques [3, 5, 3, 7])[2]? = some 7 := by decide

end Opcua.C04

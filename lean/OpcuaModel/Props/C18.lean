import OpcuaModel.Model.Meta
import OpcuaModel.Props.C01
/-! # C18 — model and namespace metadata are reported faithfully and consistently. -/
namespace Opcua.C18
open Opcua

/-- **models_as_declared**: the models in the parse output of a document are exactly the Model
    elements it declares (URI, version, publication date, required models), in order -/
theorem models_as_declared (g : List Str) (d : Doc) (k : Nat) (g1 : List Str) (p : ParsedDoc)
    (h : parseDoc g d k = .ok (g1, p)) : p.models = d.models := by
  obtain ⟨_, _, _, _, _, _, _, _, hp⟩ := C01.parseDoc_inv g d k g1 p h
  rw [hp]

/-- **helpers_agree**: the XML helper and the JSON (side-file) helper give the same answer for every
    document that has a NamespaceUris element or whose model is the OPC UA model. (The hypothesis is
    what the proof needs; at the excluded point — a non-UA model and no NamespaceUris — the JSON
    helper raises while the XML helper answers: finding D-C18a.) -/
theorem helpers_agree (f : FileDoc)
    (h : f.hasNsUris = true ∨ (∀ m, f.doc.models.head? = some m → m.uri = some UA_URI)) :
    nsDataJson f = nsDataXml f := by
  unfold nsDataJson nsDataXml sideLines
  by_cases hb : nsDataXml.endsWithStr f.name kBaseName = true
  · simp [hb]
  · simp only [hb, Bool.false_eq_true, if_false]
    cases hm : f.doc.models with
    | nil =>
      cases f.hasNsUris <;> simp [List.findSome?]
    | cons m ms =>
      cases hn : f.hasNsUris with
      | true => simp [List.findSome?]
      | false =>
        have hu : m.uri = some UA_URI := by
          rcases h with h | h
          · rw [hn] at h; exact absurd h (by simp)
          · exact h m (by simp [hm])
        simp [List.findSome?, hu, addUris]

/-- the excluded point is real -/
theorem helpers_disagree_witness :
    nsDataXml ⟨"x.xml".toList, false, ⟨[], [⟨some "urn:x".toList, none, none, []⟩], [], []⟩⟩ = .ok ⟨"urn:x".toList, [UA_URI]⟩ ∧
    nsDataJson ⟨"x.xml".toList, false, ⟨[], [⟨some "urn:x".toList, none, none, []⟩], [], []⟩⟩ = .error .valueError := by
  constructor <;> decide

theorem mem_insertSet (s : List Str) (x y : Str) : y ∈ insertSet s x ↔ y ∈ s ∨ y = x := by
  unfold insertSet; split
  · next h => constructor
              · exact Or.inl
              · rintro (h1 | rfl); exact h1; exact h
  · simp

theorem mem_addUris (own : Str) (init uris : List Str) (y : Str) :
    y ∈ addUris own init uris ↔ y ∈ init ∨ (y ∈ uris ∧ y ≠ own) := by
  unfold addUris
  induction uris generalizing init with
  | nil => simp
  | cons u us ih =>
    simp only [List.foldl_cons]
    rw [ih]
    by_cases hu : u = own
    · subst hu
      simp only [if_true, List.mem_cons]
      constructor
      · rintro (h | ⟨h, hne⟩)
        · exact Or.inl h
        · exact Or.inr ⟨Or.inr h, hne⟩
      · rintro (h | ⟨h | h, hne⟩)
        · exact Or.inl h
        · exact absurd h hne
        · exact Or.inr ⟨h, hne⟩
    · simp only [hu, if_false, mem_insertSet, List.mem_cons]
      constructor
      · rintro ((h | rfl) | ⟨h, hne⟩)
        · exact Or.inl h
        · exact Or.inr ⟨Or.inl rfl, hu⟩
        · exact Or.inr ⟨Or.inr h, hne⟩
      · rintro (h | ⟨rfl | h, hne⟩)
        · exact Or.inl (Or.inl h)
        · exact Or.inl (Or.inr rfl)
        · exact Or.inr ⟨h, hne⟩

/-- **own_and_deps**: for a file that is not the base document by name and whose first model is not
    the OPC UA model, the helper reports the first model URI as the file's own namespace, and as
    dependencies exactly the other NamespaceUris entries plus the OPC UA namespace -/
theorem own_and_deps (f : FileDoc) (m : ModelElem) (ms : List ModelElem) (u : Str)
    (hb : nsDataXml.endsWithStr f.name kBaseName = false) (hm : f.doc.models = m :: ms) (hu : m.uri = some u)
    (hne : u ≠ UA_URI) (hn : f.hasNsUris = true) :
    ∃ d, nsDataXml f = .ok d ∧ d.name = u ∧ ∀ y, y ∈ d.included ↔ y = UA_URI ∨ (y ∈ f.doc.uris ∧ y ≠ u) := by
  unfold nsDataXml
  have h1 : ¬ (some u = some UA_URI) := by simpa using hne
  simp only [hb, Bool.false_eq_true, if_false, hm, hu, h1, hn, if_true, Option.getD_some]
  refine ⟨_, rfl, rfl, fun y => ?_⟩
  simp [mem_addUris]

/-- **filter_exact**: filtering a file list by namespaces keeps exactly the files one of whose
    (model) URIs is in the list, in their order -/
theorem filter_exact (files : List FileDoc) (namespaces : List (Option Str)) (f : FileDoc) :
    f ∈ excludeFiles files namespaces ↔
      f ∈ files ∧ ∃ u ∈ xmlNamespaces f, u ≠ [] ∧ some u ∈ namespaces := by
  unfold excludeFiles
  simp only [List.mem_filter, List.any_eq_true, List.contains_iff_mem, List.mem_filterMap]
  constructor
  · rintro ⟨hf, u, hu, x, hx, hxu⟩
    refine ⟨hf, u, hu, ?_⟩
    cases x with
    | none => simp at hxu
    | some v =>
      simp only at hxu
      split at hxu
      · simp at hxu
      · next hv => simp only [Option.some.injEq] at hxu; subst hxu; exact ⟨hv, hx⟩
  · rintro ⟨hf, u, hu, hne, hx⟩
    exact ⟨hf, u, hu, some u, hx, by simp [hne]⟩

theorem filter_sublist (files : List FileDoc) (namespaces : List (Option Str)) :
    (excludeFiles files namespaces).Sublist files := List.filter_sublist

/-! ### non-vacuity -/
example : nsDataXml ⟨"a.xml".toList, true, ⟨["urn:a".toList, "urn:b".toList], [⟨some "urn:a".toList, none, none, []⟩], [], []⟩⟩ =
    .ok ⟨"urn:a".toList, [UA_URI, "urn:b".toList]⟩ := by decide


theorem filesAux_models (g : List Str) (docs : List Doc) (r : ParseOut) (h : parseFilesAux g docs = .ok r) :
    r.models = docs.flatMap (·.models) := by
  induction docs generalizing g r with
  | nil => simp [parseFilesAux] at h; subst h; rfl
  | cons d ds ih =>
    simp only [parseFilesAux] at h
    cases hd : parseDoc g d with
    | error e => rw [hd] at h; simp at h
    | ok gp =>
      obtain ⟨g1, p⟩ := gp
      rw [hd] at h
      simp only at h
      cases hr : parseFilesAux g1 ds with
      | error e => rw [hr] at h; simp at h
      | ok r' =>
        rw [hr] at h
        simp only [Except.ok.injEq] at h
        subst h
        simp only [List.flatMap_cons]
        rw [ih g1 r' hr, models_as_declared g d _ g1 p hd]

/-- **several documents in one call**: the models of the output are the documents' Model elements, document
    after document in reading order — every one of them, also when two documents declare the same ModelUri -/
theorem files_models_concat (caller : List Str) (docs : List Doc) (out : ParseOut) (h : parseFiles caller docs = .ok out) :
    out.models = docs.flatMap (·.models) := by
  unfold parseFiles at h
  split at h
  · simp at h
  · cases hr : parseFilesAux caller docs with
    | error e => rw [hr] at h; simp at h
    | ok r =>
      rw [hr] at h
      simp only [Except.ok.injEq] at h
      subst h
      exact filesAux_models caller docs r hr


end Opcua.C18

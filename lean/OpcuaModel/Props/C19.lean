import OpcuaModel.Model.Proto
import Batteries.Data.List.Basic
/-! # C19 — parsing leaves the input directory as it found it, even when it fails -/
namespace Opcua.C19
open Opcua.Proto

variable {P : Type} [DecidableEq P]

/-- operations left before the parser is done, at most -/
def rank : PC → Nat
  | .start => 9 | .preRead => 8 | .preDecode _ => 7 | .preCreate _ => 6 | .preWrite _ _ => 5
  | .rdOpen => 4 | .fin _ => 3 | .decode _ => 2 | .body _ => 1 | .wclean => 1 | .done _ => 0

theorem step_xml_side (S : Sem) (f : Bool) (fs : FS P) (p : Proc P) :
    (step S f fs p).2.xml = p.xml ∧ (step S f fs p).2.side = p.side := by
  unfold step
  cases p.pc <;> simp only [Proc.to] <;> (repeat' split) <;> simp

theorem rank_step (S : Sem) (f : Bool) (fs : FS P) (p : Proc P) :
    rank (step S f fs p).2.pc ≤ rank p.pc - 1 := by
  unfold step
  cases h : p.pc <;> simp only [Proc.to] <;> (repeat' split) <;> simp_all [rank]

theorem rank_run (S : Sem) (flt : Nat → Bool) (n i : Nat) (s : FS P × Proc P) :
    rank (runF S flt n i s).2.pc ≤ rank s.2.pc - n := by
  induction n generalizing i s with
  | zero => simp [runF]
  | succ n ih =>
    simp only [runF]
    have h1 := ih (i+1) (step S (flt i) s.1 s.2)
    have h2 := rank_step S (flt i) s.1 s.2
    omega

theorem done_of_rank {pc : PC} (h : rank pc = 0) : ∃ r, pc = .done r := by
  cases pc <;> simp [rank] at h
  exact ⟨_, rfl⟩

/-- **termination**: whatever fails, the call is over after at most 9 operations -/
theorem run_terminates (S : Sem) (flt : Nat → Bool) (fs : FS P) (x s : P) :
    ∃ r, (runF S flt fuel 0 (fs, start x s)).2.pc = .done r := by
  apply done_of_rank
  have := rank_run S flt fuel 0 (fs, start x s)
  simp [start, rank, fuel] at this
  exact this

/-- the invariant of a call on a directory that held no side file when the call began:
    `fx` is what is stored at the input path, `mayFault` whether any operation may raise -/
def Inv (S : Sem) (mayFault : Bool) (fs0 : FS P) (x s : P) (st : FS P × Proc P) : Prop :=
  st.2.xml = x ∧ st.2.side = s ∧ (∀ q, q ≠ s → st.1 q = fs0 q) ∧
  match st.2.pc with
  | .start => st.1 s = none
  | .preRead => st.1 s = none
  | .preDecode c => st.1 s = none ∧ fs0 x = some (.doc c) ∧ S.wf c = true
  | .preCreate h => st.1 s = none ∧ ∃ c, fs0 x = some (.doc c) ∧ S.wf c = true ∧ S.header c = some h
  | .preWrite h g => ∃ c, fs0 x = some (.doc c) ∧ S.wf c = true ∧ S.header c = some h ∧
      st.1 s = some (.side g none)
  | .wclean => mayFault = true
  | .rdOpen => ∃ c h g, fs0 x = some (.doc c) ∧ S.wf c = true ∧ S.header c = some h ∧
      st.1 s = some (.side g (some h))
  | .fin (.ok l) => ∃ c h, fs0 x = some (.doc c) ∧ S.wf c = true ∧ S.header c = some h ∧ l = .hdr (some h)
  | .fin (.error e) => mayFault = true ∧ e = .fault
  | .decode l => st.1 s = none ∧ ∃ c h, fs0 x = some (.doc c) ∧ S.wf c = true ∧ S.header c = some h ∧
      l = .hdr (some h)
  | .body ho => st.1 s = none ∧ ∃ c h, fs0 x = some (.doc c) ∧ S.wf c = true ∧ S.header c = some h ∧
      ho = some h
  | .done r => st.1 s = none ∧ (r = loneFile S (fs0 x) ∨ (mayFault = true ∧ r = .err .fault))

theorem inv_step (S : Sem) (mf : Bool) (fs0 : FS P) (x s : P) (hxs : x ≠ s) (f : Bool) (hf : f = true → mf = true)
    (st : FS P × Proc P) (h : Inv S mf fs0 x s st) :
    Inv S mf fs0 x s (step S f st.1 st.2) := by
  obtain ⟨fs, p⟩ := st
  obtain ⟨hx, hs, hfr, hpc⟩ := h
  obtain ⟨pid, px, ps, pc⟩ := p
  simp only at hx hs hfr hpc
  subst hx; subst hs
  have hxfs : fs px = fs0 px := hfr px hxs
  unfold Inv step
  cases pc with
  | start =>
    simp only at hpc
    cases f <;> simp_all [Proc.to]
  | preRead =>
    simp only at hpc
    cases f
    · simp only [Bool.false_eq_true, if_false, readXml, hxfs]
      cases hc : fs0 px with
      | none => simp_all [Proc.to, loneFile]
      | some fl =>
        cases fl with
        | side ho => simp_all [Proc.to, loneFile]
        | doc c =>
          by_cases hw : S.wf c = true
          · simp_all [Proc.to]
          · simp_all [Proc.to, loneFile, lone]
    · simp_all [Proc.to]
  | preDecode c =>
    simp only at hpc
    cases f
    · cases hh : S.header c <;> simp_all [Proc.to, loneFile, lone]
    · simp_all [Proc.to]
  | preCreate h =>
    simp only at hpc
    cases f
    · simp only [Bool.false_eq_true, if_false, Proc.to, hpc.1]
      obtain ⟨_, c, h1, h2, h3⟩ := hpc
      refine ⟨trivial, trivial, ?_, c, h1, h2, h3, by simp [upd]⟩
      intro q hq; simp [upd, hq, hfr q hq]
    · simp_all [Proc.to]
  | preWrite h g =>
    simp only at hpc
    cases f
    · obtain ⟨c, h1, h2, h3, h4⟩ := hpc
      simp only [Bool.false_eq_true, if_false, Proc.to, h4, if_true]
      refine ⟨trivial, trivial, ?_, c, h, g, h1, h2, h3, by simp [upd]⟩
      intro q hq; simp [upd, hq, hfr q hq]
    · simp_all [Proc.to]
  | wclean =>
    simp only at hpc
    simp only [Proc.to]
    refine ⟨trivial, trivial, ?_, by simp [upd], Or.inr (by simp [hpc])⟩
    intro q hq; simp [upd, hq, hfr q hq]
  | rdOpen =>
    simp only at hpc
    obtain ⟨c, h, g, h1, h2, h3, h4⟩ := hpc
    cases f
    · simp only [Bool.false_eq_true, if_false, h4, Proc.to]
      exact ⟨trivial, trivial, hfr, c, h, h1, h2, h3, rfl⟩
    · simp only [if_true, Proc.to]
      exact ⟨trivial, trivial, hfr, by simp [hf rfl]⟩
  | fin r =>
    cases r with
    | error e =>
      simp only at hpc
      simp only [Proc.to]
      refine ⟨trivial, trivial, ?_, by simp [upd], Or.inr ⟨hpc.1, by rw [hpc.2]⟩⟩
      intro q hq; simp [upd, hq, hfr q hq]
    | ok l =>
      simp only at hpc
      simp only [Proc.to]
      refine ⟨trivial, trivial, ?_, by simp [upd], hpc⟩
      intro q hq; simp [upd, hq, hfr q hq]
  | decode l =>
    simp only at hpc
    obtain ⟨h0, c, h, h1, h2, h3, h4⟩ := hpc
    subst h4
    cases f
    · simp only [Bool.false_eq_true, if_false, Proc.to]
      exact ⟨trivial, trivial, hfr, h0, c, h, h1, h2, h3, rfl⟩
    · simp_all [Proc.to]
  | body ho =>
    simp only at hpc
    obtain ⟨h0, c, h, h1, h2, h3, h4⟩ := hpc
    subst h4
    cases f
    · simp only [Bool.false_eq_true, if_false, readXml, hxfs, h1, h2, if_true]
      cases hb : S.body c (some h) <;> simp_all [Proc.to, loneFile, lone]
    · simp_all [Proc.to]
  | done r =>
    exact ⟨rfl, rfl, hfr, hpc⟩

theorem inv_run (S : Sem) (mf : Bool) (fs0 : FS P) (x s : P) (hxs : x ≠ s) (flt : Nat → Bool)
    (hf : ∀ i, flt i = true → mf = true) (n i : Nat) (st : FS P × Proc P) (h : Inv S mf fs0 x s st) :
    Inv S mf fs0 x s (runF S flt n i st) := by
  induction n generalizing i st with
  | zero => exact h
  | succ n ih => exact ih (i+1) _ (inv_step S mf fs0 x s hxs (flt i) (hf i) st h)

theorem inv_start (S : Sem) (mf : Bool) (fs : FS P) (x s : P) (hs : fs s = none) :
    Inv S mf fs x s (fs, start x s) := ⟨rfl, rfl, fun _ _ => rfl, hs⟩

/-- **directory restored, for every set of failing operations**: a call that starts in a
    directory without its side file ends — returning or raising — with every path holding exactly
    what it held before: the input unmodified, no side file, nothing else touched. The outcome is
    the lone result for the file's content, or the injected failure. No assumption on the content. -/
theorem parse_restores (S : Sem) (flt : Nat → Bool) (fs : FS P) (x s : P) (hxs : x ≠ s) (hs : fs s = none) :
    ∃ r, (runF S flt fuel 0 (fs, start x s)).2.pc = .done r ∧
      (r = loneFile S (fs x) ∨ r = .err .fault) ∧
      ∀ q, (runF S flt fuel 0 (fs, start x s)).1 q = fs q := by
  obtain ⟨r, hr⟩ := run_terminates S flt fs x s
  have hi := inv_run S true fs x s hxs flt (fun _ _ => rfl) fuel 0 _ (inv_start S true fs x s hs)
  obtain ⟨_, _, hfr, hpc⟩ := hi
  rw [hr] at hpc
  simp only at hpc
  refine ⟨r, hr, ?_, ?_⟩
  · rcases hpc.2 with h | h
    · exact Or.inl h
    · exact Or.inr h.2
  · intro q
    by_cases hq : q = s
    · rw [hq, hpc.1, hs]
    · exact hfr q hq

/-- **without a failure the answer is the lone result of the current content** -/
theorem parse_result (S : Sem) (fs : FS P) (x s : P) (hxs : x ≠ s) (hs : fs s = none) :
    (solo S fuel (fs, start x s)).2.pc = .done (loneFile S (fs x)) := by
  obtain ⟨r, hr⟩ := run_terminates S (oneFault none) fs x s
  have hi := inv_run S false fs x s hxs (oneFault none) (by simp [oneFault]) fuel 0 _ (inv_start S false fs x s hs)
  obtain ⟨_, _, _, hpc⟩ := hi
  unfold solo soloF
  rw [hr] at hpc ⊢
  simp only at hpc
  rcases hpc.2 with h | h
  · rw [h]
  · simp at h

/-- single fault position, the form the harness enumerates -/
theorem fault_restores (S : Sem) (k : Option Nat) (fs : FS P) (x s : P) (hxs : x ≠ s) (hs : fs s = none) :
    ∃ r, (soloF S k fuel 0 (fs, start x s)).2.pc = .done r ∧
      (r = loneFile S (fs x) ∨ r = .err .fault) ∧
      ∀ q, (soloF S k fuel 0 (fs, start x s)).1 q = fs q :=
  parse_restores S (oneFault k) fs x s hxs hs

/-! ### histories: fail → edit → parse again -/

/-- what is stored at the input path when each parse of a history runs, with its fault position -/
def histSpec : List HOp → Option File → List (Option File × Option Nat)
  | [], _ => []
  | .edit c :: r, _ => histSpec r (some (.doc c))
  | .remove :: r, _ => histSpec r none
  | .parse k :: r, fx => (fx, k) :: histSpec r fx

/-- **no stale data**: along every history of edits, removals and parses with or without a failing
    operation, each parse answers for the content the file has at that moment (or raises the
    injected failure), and the directory never holds a side file between calls -/
theorem history_faithful (S : Sem) (x s : P) (hxs : x ≠ s) (ops : List HOp) (fs : FS P) (hs : fs s = none) :
    (history S x s ops fs).1 s = none ∧
    (∀ q, q ≠ x → (history S x s ops fs).1 q = fs q) ∧
    List.Forall₂ (fun pc (e : Option File × Option Nat) =>
        ∃ r, pc = PC.done r ∧ (r = loneFile S e.1 ∨ (e.2 ≠ none ∧ r = .err .fault)))
      (history S x s ops fs).2 (histSpec ops (fs x)) := by
  induction ops generalizing fs with
  | nil => exact ⟨hs, fun _ _ => rfl, List.Forall₂.nil⟩
  | cons op r ih =>
    cases op with
    | edit c =>
      have hs' : (upd fs x (some (.doc c))) s = none := by simp [upd, Ne.symm hxs, hs]
      obtain ⟨h1, h2, h3⟩ := ih (upd fs x (some (.doc c))) hs'
      refine ⟨h1, ?_, ?_⟩
      · intro q hq; simp only [history]; rw [h2 q hq]; simp [upd, hq]
      · simp only [history, histSpec]; simpa [upd] using h3
    | remove =>
      have hs' : (upd fs x none) s = none := by simp [upd, Ne.symm hxs, hs]
      obtain ⟨h1, h2, h3⟩ := ih (upd fs x none) hs'
      refine ⟨h1, ?_, ?_⟩
      · intro q hq; simp only [history]; rw [h2 q hq]; simp [upd, hq]
      · simp only [history, histSpec]; simpa [upd] using h3
    | parse k =>
      obtain ⟨res, hr, hres, hfs⟩ := fault_restores S k fs x s hxs hs
      have hs' : (soloF S k fuel 0 (fs, start x s)).1 s = none := by rw [hfs, hs]
      obtain ⟨h1, h2, h3⟩ := ih _ hs'
      simp only [history, histSpec]
      refine ⟨h1, ?_, ?_⟩
      · intro q hq; rw [h2 q hq, hfs]
      · refine List.Forall₂.cons ⟨res, hr, ?_⟩ (by rw [hfs x] at h3; exact h3)
        cases k with
        | none =>
          have := parse_result S fs x s hxs hs
          unfold solo at this
          rw [hr] at this
          injection this with this
          exact Or.inl this
        | some k =>
          rcases hres with h | h
          · exact Or.inl h
          · exact Or.inr ⟨by simp, h⟩

/-! ### several files in one call (`parse_xml_files`, `UAGraph.from_path`) -/
theorem parseMany_restores (S : Sem) (side : P → P) (files : List P) (fs : FS P)
    (hne : ∀ x ∈ files, side x ≠ x) (hs : ∀ x ∈ files, fs (side x) = none) :
    ∀ q, (parseMany S side files fs).1 q = fs q := by
  induction files generalizing fs with
  | nil => intro q; rfl
  | cons x r ih =>
    intro q
    have hx := hne x (List.mem_cons_self ..)
    obtain ⟨res, hr, _, hfs⟩ := parse_restores S (oneFault none) fs x (side x) (Ne.symm hx) (hs x (List.mem_cons_self ..))
    have hfs' : ∀ q, (solo S fuel (fs, start x (side x))).1 q = fs q := hfs
    have hr' : (solo S fuel (fs, start x (side x))).2.pc = .done res := hr
    simp only [parseMany]
    rw [hr']
    cases res with
    | err e => simp [hfs']
    | ok v =>
      simp only
      rw [ih _ (fun y hy => hne y (List.mem_cons_of_mem _ hy))
        (fun y hy => by rw [hfs']; exact hs y (List.mem_cons_of_mem _ hy)) q, hfs']

/-! ### the real naming: the side file of `x` is `x ++ "_parsed.json"`, never `x` itself -/
theorem side_ne (x sfx : List Char) (h : sfx ≠ []) : x ++ sfx ≠ x := by
  intro e
  have := congrArg List.length e
  simp at this
  exact h this

/-! ### non-vacuity: a concrete directory, every single fault position -/
def S0 : Sem := ⟨fun c => c != 13, fun c => if c = 7 then none else some (c + 100), fun c ho => if c = 9 then none else some (c * 1000 + ho.getD 0)⟩
def fs0 : FS Nat := fun p => if p = 0 then some (.doc 5) else if p = 2 then some (.doc 9) else none

example : (solo S0 fuel (fs0, start 0 1)).2.pc matches .done (.ok 5105) := by decide
example : ∀ k ∈ List.range 10, (soloF S0 (some k) fuel 0 (fs0, start 0 1)).1 1 = none := by decide
example : (soloF S0 (some 4) fuel 0 (fs0, start 0 1)).2.pc matches .done (.err .fault) := by decide
example : (solo S0 fuel (fs0, start 2 3)).2.pc matches .done (.err .element) := by decide

end Opcua.C19

import OpcuaModel.Props.C19
/-! # C20 — concurrent parses do not interfere with each other -/
namespace Opcua.C20
open Opcua.Proto

variable {P : Type} [DecidableEq P]

/-- what a parser can observe of the file system: its input and its side file -/
def Agree (fs fs' : FS P) (p : Proc P) : Prop := fs p.xml = fs' p.xml ∧ fs p.side = fs' p.side

/-- the file names of two parsers do not collide: nobody's side file is the other's side file or input -/
def Disjoint (a b : Proc P) : Prop := a.side ≠ b.side ∧ a.side ≠ b.xml ∧ b.side ≠ a.xml

/-- a parser writes to its own side-file path only -/
theorem step_frame (S : Sem) (f : Bool) (fs : FS P) (p : Proc P) (k : P) (hk : k ≠ p.side) :
    (step S f fs p).1 k = fs k := by
  unfold step
  cases p.pc <;> simp only [Proc.to] <;> (repeat' split) <;> simp [upd, hk]

/-- … and what it does depends only on its own two files -/
theorem step_local (S : Sem) (f : Bool) (fs fs' : FS P) (p : Proc P)
    (h1 : fs p.xml = fs' p.xml) (h2 : fs p.side = fs' p.side) :
    (step S f fs p).2 = (step S f fs' p).2 ∧ (step S f fs p).1 p.side = (step S f fs' p).1 p.side := by
  unfold step
  cases p.pc <;> simp only [Proc.to, readXml, h1, h2] <;> (repeat' split) <;> simp_all [upd]

theorem step_agree (S : Sem) (f : Bool) (fs fs' : FS P) (p : Proc P) (hw : p.xml ≠ p.side) (h : Agree fs fs' p) :
    (step S f fs p).2 = (step S f fs' p).2 ∧ Agree (step S f fs p).1 (step S f fs' p).1 (step S f fs p).2 := by
  obtain ⟨h1, h2⟩ := h
  obtain ⟨e1, e2⟩ := step_local S f fs fs' p h1 h2
  obtain ⟨x1, x2⟩ := C19.step_xml_side S f fs p
  refine ⟨e1, ?_, ?_⟩
  · rw [x1, step_frame S f fs p p.xml hw, step_frame S f fs' p p.xml hw]; exact h1
  · rw [x2]; exact e2

/-- fault-free run of one parser, as plain iteration -/
def iter (S : Sem) : Nat → FS P × Proc P → FS P × Proc P
  | 0, s => s
  | n+1, s => iter S n (step S false s.1 s.2)

theorem runF_none (S : Sem) (n i : Nat) (s : FS P × Proc P) : runF S (oneFault none) n i s = iter S n s := by
  induction n generalizing i s with
  | zero => rfl
  | succ n ih => simp only [runF, iter]; rw [ih]; simp [oneFault]

theorem solo_eq_iter (S : Sem) (n : Nat) (s : FS P × Proc P) : solo S n s = iter S n s := runF_none S n 0 s

theorem iter_agree (S : Sem) (n : Nat) (fs fs' : FS P) (p : Proc P) (hw : p.xml ≠ p.side) (h : Agree fs fs' p) :
    (iter S n (fs, p)).2 = (iter S n (fs', p)).2 ∧ Agree (iter S n (fs, p)).1 (iter S n (fs', p)).1 p := by
  induction n generalizing fs fs' p with
  | zero => exact ⟨rfl, h⟩
  | succ n ih =>
    simp only [iter]
    obtain ⟨e, ha⟩ := step_agree S false fs fs' p hw h
    obtain ⟨x1, x2⟩ := C19.step_xml_side S false fs p
    have hw' : (step S false fs p).2.xml ≠ (step S false fs p).2.side := by rw [x1, x2]; exact hw
    have := ih (step S false fs p).1 (step S false fs' p).1 (step S false fs p).2 hw' ha
    have key : iter S n (step S false fs' p) = iter S n ((step S false fs' p).1, (step S false fs p).2) := by rw [e]
    rw [key]
    refine ⟨this.1, ?_⟩
    unfold Agree at this ⊢
    rw [x1, x2] at this
    exact this.2

/-- **independence on disjoint files, any number of parsers, every schedule**: parser `i` goes
    through exactly the states it goes through alone, and sees exactly the files it sees alone -/
theorem runN_independent (S : Sem) (sched : List Nat) (fs : FS P) (ps : Nat → Proc P) (i : Nat)
    (hw : (ps i).xml ≠ (ps i).side) (hd : ∀ j, j ≠ i → Disjoint (ps i) (ps j)) :
    (runN S sched (fs, ps)).2 i = (iter S (sched.count i) (fs, ps i)).2 ∧
    Agree (runN S sched (fs, ps)).1 (iter S (sched.count i) (fs, ps i)).1 (ps i) := by
  induction sched generalizing fs ps with
  | nil => exact ⟨rfl, rfl, rfl⟩
  | cons j r ih =>
    by_cases hj : j = i
    · subst hj
      obtain ⟨x1, x2⟩ := C19.step_xml_side S false fs (ps j)
      let ps' : Nat → Proc P := fun k => if k = j then (step S false fs (ps j)).2 else ps k
      have hps' : ps' j = (step S false fs (ps j)).2 := by simp [ps']
      have hw' : (ps' j).xml ≠ (ps' j).side := by rw [hps', x1, x2]; exact hw
      have hd' : ∀ k, k ≠ j → Disjoint (ps' j) (ps' k) := by
        intro k hk
        have : ps' k = ps k := by simp [ps', hk]
        rw [this, hps']; unfold Disjoint; rw [x1, x2]; exact hd k hk
      have := ih (step S false fs (ps j)).1 ps' hw' hd'
      simp only [runN, List.count_cons_self, iter]
      rw [hps'] at this
      unfold Agree at this ⊢
      rw [x1, x2] at this
      exact this
    · obtain ⟨d1, d2, d3⟩ := hd j hj
      let ps' : Nat → Proc P := fun k => if k = j then (step S false fs (ps j)).2 else ps k
      have hps' : ps' i = ps i := by simp [ps', Ne.symm hj]
      have hd' : ∀ k, k ≠ i → Disjoint (ps' i) (ps' k) := by
        intro k hk
        rw [hps']
        by_cases hkj : k = j
        · subst hkj
          have : ps' k = (step S false fs (ps k)).2 := by simp [ps']
          obtain ⟨y1, y2⟩ := C19.step_xml_side S false fs (ps k)
          rw [this]; unfold Disjoint; rw [y1, y2]; exact hd k hk
        · have : ps' k = ps k := by simp [ps', hkj]
          rw [this]; exact hd k hk
      have h := ih (step S false fs (ps j)).1 ps' (by rw [hps']; exact hw) hd'
      rw [hps'] at h
      have hag : Agree (step S false fs (ps j)).1 fs (ps i) :=
        ⟨step_frame S false fs (ps j) _ (fun e => d3 e.symm), step_frame S false fs (ps j) _ d1⟩
      obtain ⟨s1, s2⟩ := iter_agree S (r.count i) (step S false fs (ps j)).1 fs (ps i) hw hag
      have hc : (j :: r).count i = r.count i := by simp [List.count_cons, hj]
      simp only [runN, hc]
      refine ⟨h.1.trans s1, ?_⟩
      exact ⟨h.2.1.trans s2.1, h.2.2.trans s2.2⟩

/-- files nobody uses as a side file are never written, under any schedule -/
theorem runN_frame (S : Sem) (sched : List Nat) (fs : FS P) (ps : Nat → Proc P) (q : P)
    (hq : ∀ j, q ≠ (ps j).side) : (runN S sched (fs, ps)).1 q = fs q := by
  induction sched generalizing fs ps with
  | nil => rfl
  | cons j r ih =>
    simp only [runN]
    rw [ih]
    · exact step_frame S false fs (ps j) q (hq j)
    · intro k
      by_cases hk : k = j
      · subst hk; simp only [if_true]; rw [(C19.step_xml_side S false fs (ps k)).2]; exact hq k
      · simp only [hk, if_false]; exact hq k

/-! ### a lone run that is given at least 9 operations is finished, with the lone result -/
theorem iter_done (S : Sem) (n : Nat) (hn : 9 ≤ n) (fs : FS P) (x s : P) (pid : Nat) (hxs : x ≠ s) (hs : fs s = none) :
    (iter S n (fs, start x s pid)).2.pc = .done (loneFile S (fs x)) ∧
    ∀ q, (iter S n (fs, start x s pid)).1 q = fs q := by
  rw [← runF_none S n 0]
  have hrank := C19.rank_run S (oneFault none) n 0 (fs, start x s pid)
  have h0 : C19.rank (runF S (oneFault none) n 0 (fs, start x s pid)).2.pc = 0 := by
    have h9 : C19.rank (start x s pid).pc = 9 := rfl
    simp only [h9] at hrank; omega
  obtain ⟨r, hr⟩ := C19.done_of_rank h0
  have hi := C19.inv_run S false fs x s hxs (oneFault none) (by simp [oneFault]) n 0 _
    (show C19.Inv S false fs x s (fs, start x s pid) from ⟨rfl, rfl, fun _ _ => rfl, hs⟩)
  obtain ⟨_, _, hfr, hpc⟩ := hi
  rw [hr] at hpc ⊢
  simp only at hpc
  refine ⟨?_, ?_⟩
  · rcases hpc.2 with h | h
    · rw [h]
    · simp at h
  · intro q
    by_cases hq : q = s
    · rw [hq, hpc.1, hs]
    · exact hfr q hq

/-- **C20 on different files**: parsers started on pairwise non-colliding files of a directory that
    holds none of their side files; under every schedule that lets parser `i` finish, it returns
    exactly what a lone call returns for its file, and its two files end as they began -/
theorem concurrent_result (S : Sem) (sched : List Nat) (fs : FS P) (ps : Nat → Proc P) (i : Nat)
    (hstart : (ps i).pc = .start)
    (hw : (ps i).xml ≠ (ps i).side) (hd : ∀ j, j ≠ i → Disjoint (ps i) (ps j))
    (hs : fs (ps i).side = none) (hn : 9 ≤ sched.count i) :
    ((runN S sched (fs, ps)).2 i).pc = .done (loneFile S (fs (ps i).xml)) ∧
    (runN S sched (fs, ps)).1 (ps i).xml = fs (ps i).xml ∧
    (runN S sched (fs, ps)).1 (ps i).side = none := by
  obtain ⟨h1, h2, h3⟩ := runN_independent S sched fs ps i hw hd
  have hp : ps i = start (ps i).xml (ps i).side (ps i).pid := by
    cases hpi : ps i; simp_all [start]
  obtain ⟨d1, d2⟩ := iter_done S (sched.count i) hn fs (ps i).xml (ps i).side (ps i).pid hw hs
  rw [← hp] at d1 d2
  refine ⟨by rw [h1, d1], by rw [h2, d2], by rw [h3, d2, hs]⟩

/-! ### the real naming: `side x = x ++ "_parsed.json"` -/
theorem side_inj (x y sfx : List Char) (h : x ++ sfx = y ++ sfx) : x = y := List.append_cancel_right h

/-- parsers of distinct inputs collide only when one input is named like the other's side file -/
theorem disjoint_of_names (a b : Proc (List Char)) (sfx : List Char)
    (ha : a.side = a.xml ++ sfx) (hb : b.side = b.xml ++ sfx) (hne : a.xml ≠ b.xml)
    (h1 : b.xml ≠ a.xml ++ sfx) (h2 : a.xml ≠ b.xml ++ sfx) : Disjoint a b := by
  refine ⟨?_, ?_, ?_⟩
  · rw [ha, hb]; exact fun e => hne (side_inj _ _ _ e)
  · rw [ha]; exact fun e => h1 e.symm
  · rw [hb]; exact fun e => h2 e.symm

/-! ### the very same file: schedules on which it fails (finding D-C20a) -/
def fs1 : FS Nat := fun p => if p = 0 then some (.doc 5) else none
def two : Nat → Proc Nat := fun i => start 0 1 i

/-- B sees the side file A completed and opens it after A removed it: FileNotFoundError -/
theorem same_file_missing :
    ((runN C19.S0 [0, 0, 0, 0, 0, 1, 0, 0, 1, 1] (fs1, two)).2 1).pc matches .done (.err .io) := by decide

/-- B reads the side file A has created but not yet written: a result that is not the lone result -/
theorem same_file_half :
    ((runN C19.S0 [0, 0, 0, 0, 1, 1, 1, 1, 1] (fs1, two)).2 1).pc matches .done (.ok 5000) ∧
    lone C19.S0 5 = .ok 5105 := by decide

/-- B removes the file A created; A's write goes to the removed file object and A cannot open it -/
theorem same_file_orphan :
    ((runN C19.S0 [0, 0, 0, 0, 1, 1, 1, 0, 0, 0] (fs1, two)).2 0).pc matches .done (.err .io) := by decide

/-- run one after the other they both return the lone result (no interference without overlap) -/
theorem same_file_sequential :
    ((runN C19.S0 (List.replicate 9 0 ++ List.replicate 9 1) (fs1, two)).2 0).pc matches .done (.ok 5105) ∧
    ((runN C19.S0 (List.replicate 9 0 ++ List.replicate 9 1) (fs1, two)).2 1).pc matches .done (.ok 5105) := by decide

/-- overlapping, but harmless: both find no side file, A creates, writes, reads and removes its side
    file while B is still decoding the document, then B does the same — both return the lone result -/
theorem same_file_overlap_ok :
    ((runN C19.S0 [0, 1, 0, 0, 0, 1, 1, 0, 0, 0, 0, 0, 1, 1, 1, 1, 1, 1, 1] (fs1, two)).2 0).pc matches .done (.ok 5105) ∧
    ((runN C19.S0 [0, 1, 0, 0, 0, 1, 1, 0, 0, 0, 0, 0, 1, 1, 1, 1, 1, 1, 1] (fs1, two)).2 1).pc matches .done (.ok 5105) := by decide

/-! ### the process-wide NodeId cache is transparent -/
def CacheOk {K V : Type} (f : K → V) (cache : List (K × V)) : Prop := ∀ e ∈ cache, e.2 = f e.1

theorem cacheGet_value {K V : Type} [DecidableEq K] (f : K → V) (cache : List (K × V)) (k : K)
    (h : CacheOk f cache) : (cacheGet f cache k).2 = f k ∧ CacheOk f (cacheGet f cache k).1 := by
  unfold cacheGet
  cases hl : cache.lookup k with
  | none =>
    refine ⟨rfl, ?_⟩
    intro e he
    simp only [List.mem_cons] at he
    rcases he with rfl | he
    · rfl
    · exact h e he
  | some v =>
    refine ⟨?_, h⟩
    have : (k, v) ∈ cache := by
      clear h
      induction cache with
      | nil => simp at hl
      | cons e r ih =>
        obtain ⟨a, b⟩ := e
        simp only [List.lookup] at hl
        by_cases hka : k = a
        · subst hka; simp at hl; subst hl; simp
        · have : (k == a) = false := by simp [hka]
          rw [this] at hl
          exact List.mem_cons_of_mem _ (ih hl)
    exact h _ this

/-- **any interleaving of look-ups by any number of callers**: whatever calls came before, from
    whichever thread, every call returns the value of the pure function -/
theorem cache_transparent {K V : Type} [DecidableEq K] (f : K → V) (calls : List K) (cache : List (K × V))
    (h : CacheOk f cache) :
    (calls.foldl (fun (st : List (K × V) × List V) k =>
        let r := cacheGet f st.1 k; (r.1, st.2 ++ [r.2])) (cache, [])).2 = calls.map f := by
  suffices ∀ (acc : List V), (calls.foldl (fun (st : List (K × V) × List V) k =>
        let r := cacheGet f st.1 k; (r.1, st.2 ++ [r.2])) (cache, acc)).2 = acc ++ calls.map f by
    simpa using this []
  induction calls generalizing cache with
  | nil => intro acc; simp
  | cons k r ih =>
    intro acc
    obtain ⟨hv, hc⟩ := cacheGet_value f cache k h
    simp only [List.foldl_cons, List.map_cons]
    rw [ih _ hc, hv]
    simp

end Opcua.C20

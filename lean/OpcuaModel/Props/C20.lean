import OpcuaModel.Props.C19
/-! # C20 — concurrent parses do not interfere with each other -/
namespace Opcua.C20
open Opcua.Proto

variable {P : Type} [DecidableEq P]

/-- what a parser can observe of the file system: its input and its side file -/
def Agree (fs fs' : FS P) (p : Proc P) : Prop := fs p.xml = fs' p.xml ∧ fs p.side = fs' p.side

/-- the file names of two parsers do not collide: nobody's side file is the other's side file or input -/
def Disjoint (a b : Proc P) : Prop := a.side ≠ b.side ∧ a.side ≠ b.xml ∧ b.side ≠ a.xml

/-- a parser writes to its own side-file path only -/
theorem step_frame (S : Sem) (f : Bool) (fs : FS P) (p : Proc P) (k : P) (hk : k ≠ p.side) :
    (step S f fs p).1 k = fs k := by
  unfold step
  cases p.pc <;> simp only [Proc.to] <;> (repeat' split) <;> simp [upd, hk]

/-- … and what it does depends only on its own two files -/
theorem step_local (S : Sem) (f : Bool) (fs fs' : FS P) (p : Proc P)
    (h1 : fs p.xml = fs' p.xml) (h2 : fs p.side = fs' p.side) :
    (step S f fs p).2 = (step S f fs' p).2 ∧ (step S f fs p).1 p.side = (step S f fs' p).1 p.side := by
  unfold step
  cases p.pc <;> simp only [Proc.to, readXml, h1, h2] <;> (repeat' split) <;> simp_all [upd]

theorem step_agree (S : Sem) (f : Bool) (fs fs' : FS P) (p : Proc P) (hw : p.xml ≠ p.side) (h : Agree fs fs' p) :
    (step S f fs p).2 = (step S f fs' p).2 ∧ Agree (step S f fs p).1 (step S f fs' p).1 (step S f fs p).2 := by
  obtain ⟨h1, h2⟩ := h
  obtain ⟨e1, e2⟩ := step_local S f fs fs' p h1 h2
  obtain ⟨x1, x2⟩ := C19.step_xml_side S f fs p
  refine ⟨e1, ?_, ?_⟩
  · rw [x1, step_frame S f fs p p.xml hw, step_frame S f fs' p p.xml hw]; exact h1
  · rw [x2]; exact e2

/-- fault-free run of one parser, as plain iteration -/
def iter (S : Sem) : Nat → FS P × Proc P → FS P × Proc P
  | 0, s => s
  | n+1, s => iter S n (step S false s.1 s.2)

theorem runF_none (S : Sem) (n i : Nat) (s : FS P × Proc P) : runF S (oneFault none) n i s = iter S n s := by
  induction n generalizing i s with
  | zero => rfl
  | succ n ih => simp only [runF, iter]; rw [ih]; simp [oneFault]

theorem solo_eq_iter (S : Sem) (n : Nat) (s : FS P × Proc P) : solo S n s = iter S n s := runF_none S n 0 s

theorem iter_agree (S : Sem) (n : Nat) (fs fs' : FS P) (p : Proc P) (hw : p.xml ≠ p.side) (h : Agree fs fs' p) :
    (iter S n (fs, p)).2 = (iter S n (fs', p)).2 ∧ Agree (iter S n (fs, p)).1 (iter S n (fs', p)).1 p := by
  induction n generalizing fs fs' p with
  | zero => exact ⟨rfl, h⟩
  | succ n ih =>
    simp only [iter]
    obtain ⟨e, ha⟩ := step_agree S false fs fs' p hw h
    obtain ⟨x1, x2⟩ := C19.step_xml_side S false fs p
    have hw' : (step S false fs p).2.xml ≠ (step S false fs p).2.side := by rw [x1, x2]; exact hw
    have := ih (step S false fs p).1 (step S false fs' p).1 (step S false fs p).2 hw' ha
    have key : iter S n (step S false fs' p) = iter S n ((step S false fs' p).1, (step S false fs p).2) := by rw [e]
    rw [key]
    refine ⟨this.1, ?_⟩
    unfold Agree at this ⊢
    rw [x1, x2] at this
    exact this.2

/-- **independence on disjoint files, any number of parsers, every schedule**: parser `i` goes
    through exactly the states it goes through alone, and sees exactly the files it sees alone -/
theorem runN_independent (S : Sem) (sched : List Nat) (fs : FS P) (ps : Nat → Proc P) (i : Nat)
    (hw : (ps i).xml ≠ (ps i).side) (hd : ∀ j, j ≠ i → Disjoint (ps i) (ps j)) :
    (runN S sched (fs, ps)).2 i = (iter S (sched.count i) (fs, ps i)).2 ∧
    Agree (runN S sched (fs, ps)).1 (iter S (sched.count i) (fs, ps i)).1 (ps i) := by
  induction sched generalizing fs ps with
  | nil => exact ⟨rfl, rfl, rfl⟩
  | cons j r ih =>
    by_cases hj : j = i
    · subst hj
      obtain ⟨x1, x2⟩ := C19.step_xml_side S false fs (ps j)
      let ps' : Nat → Proc P := fun k => if k = j then (step S false fs (ps j)).2 else ps k
      have hps' : ps' j = (step S false fs (ps j)).2 := by simp [ps']
      have hw' : (ps' j).xml ≠ (ps' j).side := by rw [hps', x1, x2]; exact hw
      have hd' : ∀ k, k ≠ j → Disjoint (ps' j) (ps' k) := by
        intro k hk
        have : ps' k = ps k := by simp [ps', hk]
        rw [this, hps']; unfold Disjoint; rw [x1, x2]; exact hd k hk
      have := ih (step S false fs (ps j)).1 ps' hw' hd'
      simp only [runN, List.count_cons_self, iter]
      rw [hps'] at this
      unfold Agree at this ⊢
      rw [x1, x2] at this
      exact this
    · obtain ⟨d1, d2, d3⟩ := hd j hj
      let ps' : Nat → Proc P := fun k => if k = j then (step S false fs (ps j)).2 else ps k
      have hps' : ps' i = ps i := by simp [ps', Ne.symm hj]
      have hd' : ∀ k, k ≠ i → Disjoint (ps' i) (ps' k) := by
        intro k hk
        rw [hps']
        by_cases hkj : k = j
        · subst hkj
          have : ps' k = (step S false fs (ps k)).2 := by simp [ps']
          obtain ⟨y1, y2⟩ := C19.step_xml_side S false fs (ps k)
          rw [this]; unfold Disjoint; rw [y1, y2]; exact hd k hk
        · have : ps' k = ps k := by simp [ps', hkj]
          rw [this]; exact hd k hk
      have h := ih (step S false fs (ps j)).1 ps' (by rw [hps']; exact hw) hd'
      rw [hps'] at h
      have hag : Agree (step S false fs (ps j)).1 fs (ps i) :=
        ⟨step_frame S false fs (ps j) _ (fun e => d3 e.symm), step_frame S false fs (ps j) _ d1⟩
      obtain ⟨s1, s2⟩ := iter_agree S (r.count i) (step S false fs (ps j)).1 fs (ps i) hw hag
      have hc : (j :: r).count i = r.count i := by simp [List.count_cons, hj]
      simp only [runN, hc]
      refine ⟨h.1.trans s1, ?_⟩
      exact ⟨h.2.1.trans s2.1, h.2.2.trans s2.2⟩

/-- files nobody uses as a side file are never written, under any schedule -/
theorem runN_frame (S : Sem) (sched : List Nat) (fs : FS P) (ps : Nat → Proc P) (q : P)
    (hq : ∀ j, q ≠ (ps j).side) : (runN S sched (fs, ps)).1 q = fs q := by
  induction sched generalizing fs ps with
  | nil => rfl
  | cons j r ih =>
    simp only [runN]
    rw [ih]
    · exact step_frame S false fs (ps j) q (hq j)
    · intro k
      by_cases hk : k = j
      · subst hk; simp only [if_true]; rw [(C19.step_xml_side S false fs (ps k)).2]; exact hq k
      · simp only [hk, if_false]; exact hq k

/-! ### a lone run that is given at least 9 operations is finished, with the lone result -/
theorem iter_done (S : Sem) (n : Nat) (hn : 9 ≤ n) (fs : FS P) (x s : P) (pid : Nat) (hxs : x ≠ s) (hs : fs s = none) :
    (iter S n (fs, start x s pid)).2.pc = .done (loneFile S (fs x)) ∧
    ∀ q, (iter S n (fs, start x s pid)).1 q = fs q := by
  rw [← runF_none S n 0]
  have hrank := C19.rank_run S (oneFault none) n 0 (fs, start x s pid)
  have h0 : C19.rank (runF S (oneFault none) n 0 (fs, start x s pid)).2.pc = 0 := by
    have h9 : C19.rank (start x s pid).pc = 9 := rfl
    simp only [h9] at hrank; omega
  obtain ⟨r, hr⟩ := C19.done_of_rank h0
  have hi := C19.inv_run S false fs x s hxs (oneFault none) (by simp [oneFault]) n 0 _
    (show C19.Inv S false fs x s (fs, start x s pid) from ⟨rfl, rfl, fun _ _ => rfl, hs⟩)
  obtain ⟨_, _, hfr, hpc⟩ := hi
  rw [hr] at hpc ⊢
  simp only at hpc
  refine ⟨?_, ?_⟩
  · rcases hpc.2 with h | h
    · rw [h]
    · simp at h
  · intro q
    by_cases hq : q = s
    · rw [hq, hpc.1, hs]
    · exact hfr q hq

/-- **C20 on different files**: parsers started on pairwise non-colliding files of a directory that
    holds none of their side files; under every schedule that lets parser `i` finish, it returns
    exactly what a lone call returns for its file, and its two files end as they began -/
theorem concurrent_result (S : Sem) (sched : List Nat) (fs : FS P) (ps : Nat → Proc P) (i : Nat)
    (hstart : (ps i).pc = .start)
    (hw : (ps i).xml ≠ (ps i).side) (hd : ∀ j, j ≠ i → Disjoint (ps i) (ps j))
    (hs : fs (ps i).side = none) (hn : 9 ≤ sched.count i) :
    ((runN S sched (fs, ps)).2 i).pc = .done (loneFile S (fs (ps i).xml)) ∧
    (runN S sched (fs, ps)).1 (ps i).xml = fs (ps i).xml ∧
    (runN S sched (fs, ps)).1 (ps i).side = none := by
  obtain ⟨h1, h2, h3⟩ := runN_independent S sched fs ps i hw hd
  have hp : ps i = start (ps i).xml (ps i).side (ps i).pid := by
    cases hpi : ps i; simp_all [start]
  obtain ⟨d1, d2⟩ := iter_done S (sched.count i) hn fs (ps i).xml (ps i).side (ps i).pid hw hs
  rw [← hp] at d1 d2
  refine ⟨by rw [h1, d1], by rw [h2, d2], by rw [h3, d2, hs]⟩

/-! ### the real naming: `side x = x ++ "_parsed.json"` -/
theorem side_inj (x y sfx : List Char) (h : x ++ sfx = y ++ sfx) : x = y := List.append_cancel_right h

/-- parsers of distinct inputs collide only when one input is named like the other's side file -/
theorem disjoint_of_names (a b : Proc (List Char)) (sfx : List Char)
    (ha : a.side = a.xml ++ sfx) (hb : b.side = b.xml ++ sfx) (hne : a.xml ≠ b.xml)
    (h1 : b.xml ≠ a.xml ++ sfx) (h2 : a.xml ≠ b.xml ++ sfx) : Disjoint a b := by
  refine ⟨?_, ?_, ?_⟩
  · rw [ha, hb]; exact fun e => hne (side_inj _ _ _ e)
  · rw [ha]; exact fun e => h1 e.symm
  · rw [hb]; exact fun e => h2 e.symm

/-! ### the very same file: schedules on which it fails (finding D-C20a) -/
def fs1 : FS Nat := fun p => if p = 0 then some (.doc 5) else none
def two : Nat → Proc Nat := fun i => start 0 1 i

/-- B sees the side file A completed and opens it after A removed it: FileNotFoundError -/
theorem same_file_missing :
    ((runN C19.S0 [0, 0, 0, 0, 0, 1, 0, 0, 1, 1] (fs1, two)).2 1).pc matches .done (.err .io) := by decide

/-- B reads the side file A has created but not yet written: a result that is not the lone result -/
theorem same_file_half :
    ((runN C19.S0 [0, 0, 0, 0, 1, 1, 1, 1, 1] (fs1, two)).2 1).pc matches .done (.ok 5000) ∧
    lone C19.S0 5 = .ok 5105 := by decide

/-- B removes the file A created; A's write goes to the removed file object and A cannot open it -/
theorem same_file_orphan :
    ((runN C19.S0 [0, 0, 0, 0, 1, 1, 1, 0, 0, 0] (fs1, two)).2 0).pc matches .done (.err .io) := by decide

/-- run one after the other they both return the lone result (no interference without overlap) -/
theorem same_file_sequential :
    ((runN C19.S0 (List.replicate 9 0 ++ List.replicate 9 1) (fs1, two)).2 0).pc matches .done (.ok 5105) ∧
    ((runN C19.S0 (List.replicate 9 0 ++ List.replicate 9 1) (fs1, two)).2 1).pc matches .done (.ok 5105) := by decide

/-- overlapping, but harmless: both find no side file, A creates, writes, reads and removes its side
    file while B is still decoding the document, then B does the same — both return the lone result -/
theorem same_file_overlap_ok :
    ((runN C19.S0 [0, 1, 0, 0, 0, 1, 1, 0, 0, 0, 0, 0, 1, 1, 1, 1, 1, 1, 1] (fs1, two)).2 0).pc matches .done (.ok 5105) ∧
    ((runN C19.S0 [0, 1, 0, 0, 0, 1, 1, 0, 0, 0, 0, 0, 1, 1, 1, 1, 1, 1, 1] (fs1, two)).2 1).pc matches .done (.ok 5105) := by decide

/-! ### parses of the very same file that do not overlap: the general statements -/

def setProc (ps : Nat → Proc P) (i : Nat) (p : Proc P) : Nat → Proc P := fun j => if j = i then p else ps j

theorem runN_replicate (S : Sem) (n i : Nat) (fs : FS P) (ps : Nat → Proc P) :
    runN S (List.replicate n i) (fs, ps) = ((iter S n (fs, ps i)).1, setProc ps i (iter S n (fs, ps i)).2) := by
  induction n generalizing fs ps with
  | zero =>
    simp only [List.replicate, runN, iter]
    congr 1
    funext j
    unfold setProc
    split
    · next h => rw [h]
    · rfl
  | succ n ih =>
    simp only [List.replicate, runN, iter]
    rw [ih]
    simp only [if_true]
    congr 1
    funext j
    unfold setProc
    split <;> simp_all

theorem runN_append (S : Sem) (a b : List Nat) (s : FS P × (Nat → Proc P)) :
    runN S (a ++ b) s = runN S b (runN S a s) := by
  induction a generalizing s with
  | nil => rfl
  | cons i r ih =>
    obtain ⟨fs, ps⟩ := s
    simp only [List.cons_append, runN]
    exact ih _

/-- **calls on the very same file that do not overlap in time**: any number of parses of one file,
    each given its (at least nine) operations in one block, one block after the other in any order —
    every one of them returns what a lone call returns, and the directory ends as it began. For every
    content semantics and every document (the general form of the witness `same_file_sequential`). -/
theorem same_file_blocks (S : Sem) (n : Nat) (hn : 9 ≤ n) (x s : P) (hxs : x ≠ s)
    (order : List Nat) (hnd : order.Nodup) (fs : FS P) (hs : fs s = none) (ps : Nat → Proc P)
    (hps : ∀ i ∈ order, ps i = start x s i) :
    (∀ i ∈ order, ((runN S (order.flatMap fun i => List.replicate n i) (fs, ps)).2 i).pc = .done (loneFile S (fs x))) ∧
    (runN S (order.flatMap fun i => List.replicate n i) (fs, ps)).1 = fs ∧
    (∀ j, j ∉ order → (runN S (order.flatMap fun i => List.replicate n i) (fs, ps)).2 j = ps j) := by
  induction order generalizing ps with
  | nil => simp [runN]
  | cons i r ih =>
    have hi := hps i (by simp)
    obtain ⟨d1, d2⟩ := iter_done S n hn fs x s i hxs hs
    have hfs : (iter S n (fs, ps i)).1 = fs := by rw [hi]; funext q; exact d2 q
    simp only [List.flatMap_cons, runN_append, runN_replicate, hfs]
    have hnd' := (List.nodup_cons.1 hnd)
    have hps' : ∀ j ∈ r, setProc ps i (iter S n (fs, ps i)).2 j = start x s j := by
      intro j hj
      have : j ≠ i := fun e => hnd'.1 (e ▸ hj)
      simp [setProc, this, hps j (by simp [hj])]
    obtain ⟨a, b, c⟩ := ih hnd'.2 (setProc ps i (iter S n (fs, ps i)).2) hps'
    refine ⟨?_, b, ?_⟩
    · intro j hj
      rcases List.mem_cons.1 hj with rfl | hj
      · rw [c j hnd'.1]
        simp only [setProc, if_true]
        rw [hi]; exact d1
      · exact a j hj
    · intro j hj
      have hji : j ≠ i := fun e => hj (by simp [e])
      rw [c j (fun h => hj (by simp [h]))]
      simp [setProc, hji]


/-! ### window-respecting schedules: the exact complement of finding D-C20a -/

/-- the operations between the creation of the side file and its removal -/
def Win : PC → Bool
  | .preWrite _ _ | .rdOpen | .fin _ => true
  | _ => false

/-- the operations that look at, or create, the side-file name -/
def Sens : PC → Bool
  | .start | .preCreate _ => true
  | _ => false

/-- what a parser knows about the document, at each point of the protocol -/
def Facts (S : Sem) (fx : Option File) : PC → Prop
  | .start | .preRead => True
  | .preDecode c => fx = some (.doc c) ∧ S.wf c = true
  | .preCreate h => ∃ c, fx = some (.doc c) ∧ S.wf c = true ∧ S.header c = some h
  | .preWrite h _ => ∃ c, fx = some (.doc c) ∧ S.wf c = true ∧ S.header c = some h
  | .wclean => False
  | .rdOpen => ∃ c h, fx = some (.doc c) ∧ S.wf c = true ∧ S.header c = some h
  | .fin (.ok l) => ∃ c h, fx = some (.doc c) ∧ S.wf c = true ∧ S.header c = some h ∧ l = .hdr (some h)
  | .fin (.error _) => False
  | .decode l => ∃ c h, fx = some (.doc c) ∧ S.wf c = true ∧ S.header c = some h ∧ l = .hdr (some h)
  | .body ho => ∃ c h, fx = some (.doc c) ∧ S.wf c = true ∧ S.header c = some h ∧ ho = some h
  | .done r => r = loneFile S fx

/-- what the side file holds while parser `p` is between its creation and its removal -/
def OwnerFact (S : Sem) (fx : Option File) (sf : Option File) : PC → Prop
  | .preWrite _ g => sf = some (.side g none)
  | .rdOpen => ∃ g c h, fx = some (.doc c) ∧ S.header c = some h ∧ sf = some (.side g (some h))
  | _ => True

structure MInv (S : Sem) (fs0 : FS P) (x s : P) (st : FS P × (Nat → Proc P)) : Prop where
  frame : ∀ q, q ≠ s → st.1 q = fs0 q
  procs : ∀ i, (st.2 i).xml = x ∧ (st.2 i).side = s ∧ Facts S (fs0 x) (st.2 i).pc
  own : (st.1 s = none ∧ ∀ j, Win (st.2 j).pc = false) ∨
        ∃ i, Win (st.2 i).pc = true ∧ (∀ j, j ≠ i → Win (st.2 j).pc = false) ∧ OwnerFact S (fs0 x) (st.1 s) (st.2 i).pc

/-- one scheduled operation -/
def next (S : Sem) (i : Nat) (st : FS P × (Nat → Proc P)) : FS P × (Nat → Proc P) :=
  ((step S false st.1 (st.2 i)).1, fun j => if j = i then (step S false st.1 (st.2 i)).2 else st.2 j)

theorem runN_cons (S : Sem) (i : Nat) (r : List Nat) (st : FS P × (Nat → Proc P)) :
    runN S (i :: r) st = runN S r (next S i st) := by
  obtain ⟨fs, ps⟩ := st; rfl

/-- a schedule is *window-respecting* when no parser checks for, or creates, the side file while
    another one is between its own creation and removal of it -/
def Safe (S : Sem) : List Nat → FS P × (Nat → Proc P) → Prop
  | [], _ => True
  | i :: r, st => (Sens (st.2 i).pc = true → ∀ j, Win (st.2 j).pc = false) ∧ Safe S r (next S i st)

theorem loneFile_of_readXml_error (S : Sem) (fs : FS P) (x : P) (e : Err) (h : readXml S fs x = .error e) :
    Res.err e = loneFile S (fs x) := by
  unfold readXml at h
  cases hx : fs x with
  | none => rw [hx] at h; simp at h; subst h; rfl
  | some fl =>
    rw [hx] at h
    cases fl with
    | side g ho => simp at h; subst h; rfl
    | doc c =>
      simp only at h
      split at h
      · simp at h
      · next hwf => simp at h; subst h; simp [loneFile, lone, hwf]

theorem minv_next (S : Sem) (fs0 : FS P) (x s : P) (hxs : x ≠ s) (st : FS P × (Nat → Proc P)) (i : Nat)
    (h : MInv S fs0 x s st) (hsafe : Sens (st.2 i).pc = true → ∀ j, Win (st.2 j).pc = false) :
    MInv S fs0 x s (next S i st) := by
  obtain ⟨fs, ps⟩ := st
  obtain ⟨hfr, hpr, hown⟩ := h
  simp only at hfr hpr hown hsafe
  obtain ⟨hx, hs, hfacts⟩ := hpr i
  have hxfs : fs x = fs0 x := hfr x hxs
  -- the new state of the others is their old state
  have hothers : ∀ j, j ≠ i → (next S i (fs, ps)).2 j = ps j := by intro j hj; simp [next, hj]
  have hself : (next S i (fs, ps)).2 i = (step S false fs (ps i)).2 := by simp [next]
  have hfs' : (next S i (fs, ps)).1 = (step S false fs (ps i)).1 := rfl
  -- when parser i is inside its window, it is the owner
  have owner_is : Win (ps i).pc = true → OwnerFact S (fs0 x) (fs s) (ps i).pc ∧ ∀ j, j ≠ i → Win (ps j).pc = false := by
    intro hw
    rcases hown with ⟨_, hall⟩ | ⟨k, hk, hrest, hof⟩
    · rw [hall i] at hw; exact absurd hw (by simp)
    · by_cases hki : i = k
      · subst hki; exact ⟨hof, hrest⟩
      · rw [hrest i hki] at hw; exact absurd hw (by simp)
  rcases hp : ps i with ⟨pid, px, psd, pc⟩
  simp only [hp] at hx hs hfacts hsafe owner_is
  subst hx; subst hs
  -- generic re-assembly: given the new fs at s, the new pc and its facts
  have build : ∀ (fs' : FS P) (pc' : PC), (step S false fs (ps i)) = (fs', ⟨pid, px, psd, pc'⟩) →
      (∀ q, q ≠ psd → fs' q = fs q) → Facts S (fs0 px) pc' →
      ((fs' psd = none ∧ Win pc' = false ∧ (∀ j, j ≠ i → Win (ps j).pc = false)) ∨
       (Win pc' = true ∧ (∀ j, j ≠ i → Win (ps j).pc = false) ∧ OwnerFact S (fs0 px) (fs' psd) pc') ∨
       (Win pc' = false ∧ Win pc = false ∧ fs' psd = fs psd)) →
      MInv S fs0 px psd (next S i (fs, ps)) := by
    intro fs' pc' hstep hfr' hf' hcase
    refine ⟨?_, ?_, ?_⟩
    · intro q hq; rw [hfs', hstep]; simp only; rw [hfr' q hq]; exact hfr q hq
    · intro j
      by_cases hj : j = i
      · subst hj; rw [hself, hstep]; exact ⟨rfl, rfl, hf'⟩
      · rw [hothers j hj]; exact hpr j
    · rw [hfs', hstep]
      simp only
      rcases hcase with ⟨h1, h2, h3⟩ | ⟨h1, h2, h3⟩ | ⟨h1, h2, h3⟩
      · left
        refine ⟨h1, ?_⟩
        intro j
        by_cases hj : j = i
        · subst hj; rw [hself, hstep]; exact h2
        · rw [hothers j hj]; exact h3 j hj
      · right
        refine ⟨i, ?_, ?_, ?_⟩
        · rw [hself, hstep]; exact h1
        · intro j hj; rw [hothers j hj]; exact h2 j hj
        · rw [hself, hstep]; exact h3
      · -- parser i was and stays outside its window and did not touch the side file: ownership is unchanged
        rcases hown with ⟨ha, hall⟩ | ⟨k, hk, hrest, hof⟩
        · left
          refine ⟨by rw [h3]; exact ha, ?_⟩
          intro j
          by_cases hj : j = i
          · subst hj; rw [hself, hstep]; exact h1
          · rw [hothers j hj]; exact hall j
        · right
          have hki : k ≠ i := by
            intro e; subst e; rw [hp] at hk; simp only at hk; rw [h2] at hk; exact absurd hk (by simp)
          refine ⟨k, ?_, ?_, ?_⟩
          · rw [hothers k hki]; exact hk
          · intro j hj
            by_cases hji : j = i
            · subst hji; rw [hself, hstep]; exact h1
            · rw [hothers j hji]; exact hrest j hj
          · rw [hothers k hki, h3]; exact hof
  cases pc with
  | start =>
    have hno := hsafe rfl
    have hsnone : fs psd = none := by
      rcases hown with ⟨ha, _⟩ | ⟨k, hk, _, _⟩
      · exact ha
      · rw [hno k] at hk; exact absurd hk (by simp)
    refine build fs .preRead ?_ (fun _ _ => rfl) trivial (Or.inr (Or.inr ⟨rfl, rfl, rfl⟩))
    rw [hp]; simp [step, hsnone, Proc.to]
  | preRead =>
    cases hr : readXml S fs px with
    | error e =>
      refine build fs (.done (.err e)) ?_ (fun _ _ => rfl) ?_ (Or.inr (Or.inr ⟨rfl, rfl, rfl⟩))
      · rw [hp]; simp [step, hr, Proc.to]
      · show Res.err e = loneFile S (fs0 px)
        rw [← hxfs]; exact loneFile_of_readXml_error S fs px e hr
    | ok c =>
      refine build fs (.preDecode c) ?_ (fun _ _ => rfl) ?_ (Or.inr (Or.inr ⟨rfl, rfl, rfl⟩))
      · rw [hp]; simp [step, hr, Proc.to]
      · unfold readXml at hr
        rw [hxfs] at hr
        cases hfx : fs0 px with
        | none => rw [hfx] at hr; simp at hr
        | some fl =>
          rw [hfx] at hr
          cases fl with
          | side g ho => simp at hr
          | doc c' =>
            simp only at hr
            split at hr
            · next hwf => simp at hr; subst hr; exact ⟨rfl, hwf⟩
            · simp at hr
  | preDecode c =>
    obtain ⟨hdoc, hwf⟩ := hfacts
    cases hh : S.header c with
    | none =>
      refine build fs (.done (.err .decode)) ?_ (fun _ _ => rfl) ?_ (Or.inr (Or.inr ⟨rfl, rfl, rfl⟩))
      · rw [hp]; simp [step, hh, Proc.to]
      · show Res.err .decode = loneFile S (fs0 px)
        rw [hdoc]; simp [loneFile, lone, hwf, hh]
    | some h =>
      refine build fs (.preCreate h) ?_ (fun _ _ => rfl) ⟨c, hdoc, hwf, hh⟩ (Or.inr (Or.inr ⟨rfl, rfl, rfl⟩))
      rw [hp]; simp [step, hh, Proc.to]
  | preCreate h =>
    have hno := hsafe rfl
    have hsnone : fs psd = none := by
      rcases hown with ⟨ha, _⟩ | ⟨k, hk, _, _⟩
      · exact ha
      · rw [hno k] at hk; exact absurd hk (by simp)
    refine build (upd fs psd (some (.side pid none))) (.preWrite h pid) ?_ (fun q hq => by simp [upd, hq]) hfacts
      (Or.inr (Or.inl ⟨rfl, fun j _ => hno j, by simp [OwnerFact, upd]⟩))
    rw [hp]; simp [step, hsnone, Proc.to]
  | preWrite h g =>
    obtain ⟨hof, hrest⟩ := owner_is rfl
    simp only [OwnerFact] at hof
    obtain ⟨c, hdoc, hwf, hh⟩ := hfacts
    refine build (upd fs psd (some (.side g (some h)))) .rdOpen ?_ (fun q hq => by simp [upd, hq]) ⟨c, h, hdoc, hwf, hh⟩
      (Or.inr (Or.inl ⟨rfl, hrest, ⟨g, c, h, hdoc, hh, by simp [upd]⟩⟩))
    rw [hp]; simp [step, hof, Proc.to]
  | wclean => exact absurd hfacts (by simp [Facts])
  | rdOpen =>
    obtain ⟨hof, hrest⟩ := owner_is rfl
    obtain ⟨g, c, h, hdoc, hh, hsf⟩ := hof
    obtain ⟨c', h', hdoc', hwf', hh'⟩ := hfacts
    have hc : c' = c := by rw [hdoc] at hdoc'; injection hdoc' with e; injection e with e; exact e.symm
    subst hc
    refine build fs (.fin (.ok (.hdr (some h)))) ?_ (fun _ _ => rfl) ⟨c', h, hdoc, hwf', hh, rfl⟩
      (Or.inr (Or.inl ⟨rfl, hrest, trivial⟩))
    rw [hp]; simp [step, hsf, Proc.to]
  | fin r =>
    obtain ⟨_, hrest⟩ := owner_is rfl
    cases r with
    | error e => exact absurd hfacts (by simp [Facts])
    | ok l =>
      refine build (upd fs psd none) (.decode l) ?_ (fun q hq => by simp [upd, hq]) hfacts
        (Or.inl ⟨by simp [upd], rfl, hrest⟩)
      rw [hp]; simp [step, Proc.to]
  | decode l =>
    obtain ⟨c, h, hdoc, hwf, hh, hl⟩ := hfacts
    subst hl
    refine build fs (.body (some h)) ?_ (fun _ _ => rfl) ⟨c, h, hdoc, hwf, hh, rfl⟩ (Or.inr (Or.inr ⟨rfl, rfl, rfl⟩))
    rw [hp]; simp [step, Proc.to]
  | body ho =>
    obtain ⟨c, h, hdoc, hwf, hh, hho⟩ := hfacts
    subst hho
    have hr : readXml S fs px = .ok c := by simp [readXml, hxfs, hdoc, hwf]
    cases hb : S.body c (some h) with
    | none =>
      refine build fs (.done (.err .element)) ?_ (fun _ _ => rfl) ?_ (Or.inr (Or.inr ⟨rfl, rfl, rfl⟩))
      · rw [hp]; simp [step, hr, hb, Proc.to]
      · show Res.err .element = loneFile S (fs0 px)
        rw [hdoc]; simp [loneFile, lone, hwf, hh, hb]
    | some r =>
      refine build fs (.done (.ok r)) ?_ (fun _ _ => rfl) ?_ (Or.inr (Or.inr ⟨rfl, rfl, rfl⟩))
      · rw [hp]; simp [step, hr, hb, Proc.to]
      · show Res.ok r = loneFile S (fs0 px)
        rw [hdoc]; simp [loneFile, lone, hwf, hh, hb]
  | done r =>
    refine build fs (.done r) ?_ (fun _ _ => rfl) hfacts (Or.inr (Or.inr ⟨rfl, rfl, rfl⟩))
    rw [hp]; simp [step]


theorem minv_run (S : Sem) (fs0 : FS P) (x s : P) (hxs : x ≠ s) (sched : List Nat) (st : FS P × (Nat → Proc P))
    (h : MInv S fs0 x s st) (hsafe : Safe S sched st) : MInv S fs0 x s (runN S sched st) := by
  induction sched generalizing st with
  | nil => obtain ⟨fs, ps⟩ := st; exact h
  | cons i r ih =>
    rw [runN_cons]
    exact ih _ (minv_next S fs0 x s hxs st i h hsafe.1) hsafe.2

theorem minv_init (S : Sem) (fs : FS P) (x s : P) (hs : fs s = none) (ps : Nat → Proc P)
    (hps : ∀ i, ps i = start x s i) : MInv S fs x s (fs, ps) :=
  ⟨fun _ _ => rfl, fun i => by show (ps i).xml = x ∧ (ps i).side = s ∧ Facts S (fs x) (ps i).pc; rw [hps i]; exact ⟨rfl, rfl, trivial⟩,
    Or.inl ⟨hs, fun j => by show Win (ps j).pc = false; rw [hps j]; rfl⟩⟩

theorem rank_runN (S : Sem) (sched : List Nat) (st : FS P × (Nat → Proc P)) (i : Nat) :
    C19.rank ((runN S sched st).2 i).pc ≤ C19.rank (st.2 i).pc - sched.count i := by
  induction sched generalizing st with
  | nil => obtain ⟨fs, ps⟩ := st; simp [runN]
  | cons j r ih =>
    rw [runN_cons]
    have h1 := ih (next S j st)
    by_cases hj : j = i
    · subst hj
      have h2 := C19.rank_step S false st.1 (st.2 j)
      have : (next S j st).2 j = (step S false st.1 (st.2 j)).2 := by simp [next]
      rw [this] at h1
      simp only [List.count_cons_self]
      omega
    · have : (next S j st).2 i = st.2 i := by simp [next, Ne.symm hj]
      rw [this] at h1
      have hc : List.count i (j :: r) = List.count i r := by
        rw [List.count_cons]; simp [hj]
      rw [hc]; exact h1

/-- **parses of the very same file under every window-respecting schedule** (the complement of finding
    D-C20a): any number of parsers of one file, started on a directory without the side file, under
    any schedule in which no parser checks for or creates the side file while another one is between
    its own creation and removal of it. Every parser that was given its nine operations has finished
    with exactly the lone result; nobody ever fails for a reason a lone call would not have; no file
    other than the side file is touched; and once nobody is inside its window the side file is gone.
    For every content semantics, every document, every number of parsers. -/
theorem same_file_window_respecting (S : Sem) (x s : P) (hxs : x ≠ s) (fs : FS P) (hs : fs s = none)
    (ps : Nat → Proc P) (hps : ∀ i, ps i = start x s i) (sched : List Nat) (hsafe : Safe S sched (fs, ps)) :
    (∀ i, 9 ≤ sched.count i → ((runN S sched (fs, ps)).2 i).pc = .done (loneFile S (fs x))) ∧
    (∀ i r, ((runN S sched (fs, ps)).2 i).pc = .done r → r = loneFile S (fs x)) ∧
    (∀ q, q ≠ s → (runN S sched (fs, ps)).1 q = fs q) ∧
    ((∀ j, Win ((runN S sched (fs, ps)).2 j).pc = false) → (runN S sched (fs, ps)).1 s = none) := by
  have hm := minv_run S fs x s hxs sched (fs, ps) (minv_init S fs x s hs ps hps) hsafe
  have hdone : ∀ i r, ((runN S sched (fs, ps)).2 i).pc = .done r → r = loneFile S (fs x) := by
    intro i r hr
    have := (hm.procs i).2.2
    rw [hr] at this
    exact this
  refine ⟨?_, hdone, hm.frame, ?_⟩
  · intro i hc
    have hr := rank_runN S sched (fs, ps) i
    have h9 : C19.rank ((fs, ps).2 i).pc = 9 := by simp only; rw [hps i]; rfl
    rw [h9] at hr
    obtain ⟨r, hr'⟩ := C19.done_of_rank (pc := ((runN S sched (fs, ps)).2 i).pc) (by omega)
    rw [hr', hdone i r hr']
  · intro hall
    rcases hm.own with ⟨h, _⟩ | ⟨k, hk, _, _⟩
    · exact h
    · rw [hall k] at hk; exact absurd hk (by simp)


/-! non-vacuity: the overlapping witness schedule is window-respecting (checked for the two scheduled
    parsers by evaluation; the parsers that are never scheduled stay at their first operation) -/
def safeB (S : Sem) : List Nat → FS P × (Nat → Proc P) → Bool
  | [], _ => true
  | i :: r, st => (!Sens (st.2 i).pc || (!Win (st.2 0).pc && !Win (st.2 1).pc)) && safeB S r (next S i st)

theorem safe_of_safeB (S : Sem) (sched : List Nat) (st : FS P × (Nat → Proc P)) (hs : ∀ i ∈ sched, i < 2)
    (hrest : ∀ j, 2 ≤ j → Win (st.2 j).pc = false) (hb : safeB S sched st = true) : Safe S sched st := by
  induction sched generalizing st with
  | nil => trivial
  | cons i r ih =>
    simp only [safeB, Bool.and_eq_true, Bool.or_eq_true, Bool.not_eq_true'] at hb
    have hi : i < 2 := hs i (by simp)
    refine ⟨?_, ih _ (fun k hk => hs k (by simp [hk])) ?_ hb.2⟩
    · intro hsens j
      rcases hb.1 with h | h
      · rw [h] at hsens; exact absurd hsens (by simp)
      · by_cases h0 : j = 0
        · subst h0; exact h.1
        · by_cases h1 : j = 1
          · subst h1; exact h.2
          · exact hrest j (by omega)
    · intro j hj
      have : j ≠ i := by omega
      simp only [next, this, if_false]
      exact hrest j hj

example : Safe C19.S0 [0, 1, 0, 0, 0, 1, 1, 0, 0, 0, 0, 0, 1, 1, 1, 1, 1, 1, 1] (fs1, two) :=
  safe_of_safeB _ _ _ (by decide) (fun _ _ => rfl) (by decide)

/-- … whereas the schedule of finding D-C20a is not: B checks for the side file while A is inside its window -/
example : safeB C19.S0 [0, 0, 0, 0, 0, 1] (fs1, two) = false := by decide


/-! ### the process-wide NodeId cache is transparent -/
def CacheOk {K V : Type} (f : K → V) (cache : List (K × V)) : Prop := ∀ e ∈ cache, e.2 = f e.1

theorem cacheGet_value {K V : Type} [DecidableEq K] (f : K → V) (cache : List (K × V)) (k : K)
    (h : CacheOk f cache) : (cacheGet f cache k).2 = f k ∧ CacheOk f (cacheGet f cache k).1 := by
  unfold cacheGet
  cases hl : cache.lookup k with
  | none =>
    refine ⟨rfl, ?_⟩
    intro e he
    simp only [List.mem_cons] at he
    rcases he with rfl | he
    · rfl
    · exact h e he
  | some v =>
    refine ⟨?_, h⟩
    have : (k, v) ∈ cache := by
      clear h
      induction cache with
      | nil => simp at hl
      | cons e r ih =>
        obtain ⟨a, b⟩ := e
        simp only [List.lookup] at hl
        by_cases hka : k = a
        · subst hka; simp at hl; subst hl; simp
        · have : (k == a) = false := by simp [hka]
          rw [this] at hl
          exact List.mem_cons_of_mem _ (ih hl)
    exact h _ this

/-- **any interleaving of look-ups by any number of callers**: whatever calls came before, from
    whichever thread, every call returns the value of the pure function -/
theorem cache_transparent {K V : Type} [DecidableEq K] (f : K → V) (calls : List K) (cache : List (K × V))
    (h : CacheOk f cache) :
    (calls.foldl (fun (st : List (K × V) × List V) k =>
        let r := cacheGet f st.1 k; (r.1, st.2 ++ [r.2])) (cache, [])).2 = calls.map f := by
  suffices ∀ (acc : List V), (calls.foldl (fun (st : List (K × V) × List V) k =>
        let r := cacheGet f st.1 k; (r.1, st.2 ++ [r.2])) (cache, acc)).2 = acc ++ calls.map f by
    simpa using this []
  induction calls generalizing cache with
  | nil => intro acc; simp
  | cons k r ih =>
    intro acc
    obtain ⟨hv, hc⟩ := cacheGet_value f cache k h
    simp only [List.foldl_cons, List.map_cons]
    rw [ih _ hc, hv]
    simp

end Opcua.C20

import OpcuaModel.Model.Write
import OpcuaModel.Lemmas.Xml
import OpcuaModel.Props.C06
import OpcuaModel.Props.C08
/-! # C07 — written NodeSets are well-formed and self-contained; text never breaks the markup. -/
namespace Opcua.C07
open Opcua Opcua.Xml

/-! ### stage 1: lexical safety of the two escaping functions (every string) -/

/-- text content: no `<` survives, and an XML reader's entity decoding gives the text back -/
theorem text_never_breaks_markup (s : Str) : '<' ∉ escText s ∧ decode (escText s) = some s :=
  ⟨lt_not_mem_escText s, decode_escText s⟩

/-- attribute values: neither `<` nor `"` survives, and decoding gives the value back -/
theorem attr_never_breaks_markup (s : Str) : '<' ∉ escAttr s ∧ '"' ∉ escAttr s ∧ decode (escAttr s) = some s :=
  ⟨(lt_quot_not_mem_escAttr s).1, (lt_quot_not_mem_escAttr s).2, decode_escAttr s⟩

/-- why attribute values need the quote-aware variant: plain `escape` lets `"` through
    (the defect repaired by `fix: escape quotes in attribute values …`) -/
theorem plain_escape_not_attr_safe : '"' ∈ escText ['a', '"', 'b'] := escText_not_attr_safe

/-! ### stage 2/3: every node element is the rendering of a layout tree, hence read back exactly -/

def leaf (tag text : Str) : X := .node tag [] [] false text .nil

def attrLayout (n : WNode) : List PAttr :=
  ⟨[' '], kNodeId, n.nodeIdText⟩ ::
    ((match n.symbolic with | some s => [⟨[' '], kSymbolicName, s⟩] | none => []) ++
      (⟨(match n.symbolic with | some _ => [' ', ' '] | none => [' ']), kBrowseName, n.browseText⟩ ::
        n.others.map fun a => ⟨[' '], a.1, a.2⟩))

def refX (r : WRef) : X :=
  .node tReference (⟨[' '], kReferenceType, r.ty⟩ :: (if r.forward then [] else [⟨[' ', ' '], kIsForward, kFalse⟩])) [] true r.other .nil

def refsXS : List WRef → XS
  | [] => .nil
  | r :: rs => .cons (refX r) (refsXS rs)

def valueXS (n : WNode) : XS :=
  match n.value with
  | some v => .cons (.node tValueEl [] [] false [] (.cons (C08.encodeX v true) .nil)) .nil
  | none => .nil

def nodeLayout (n : WNode) : X :=
  .node n.cls (attrLayout n) [' '] false []
    (.cons (leaf tDisplayName n.display) (.cons (leaf tDescription n.description)
      (.cons (.node tReferences [] [] false [] (refsXS n.refs)) (valueXS n))))

theorem printAttrs_cons (a : PAttr) (l : List PAttr) : printAttrs (a :: l) = printAttr a ++ printAttrs l := by
  simp [printAttrs]

theorem printAttrs_append (l₁ l₂ : List PAttr) : printAttrs (l₁ ++ l₂) = printAttrs l₁ ++ printAttrs l₂ := by
  simp [printAttrs]

theorem printAttr_eq (ws k v : Str) : printAttr ⟨ws, k, v⟩ = ws ++ (k ++ ('=' :: '"' :: (escAttr v ++ ['"']))) := by
  simp [printAttr, List.append_assoc]

theorem others_shift (l : List (Str × Str)) (rest : Str) :
    printAttrs (l.map fun a => (⟨[' '], a.1, a.2⟩ : PAttr)) ++ (' ' :: rest) = ' ' :: (l.flatMap otherPiece ++ rest) := by
  induction l with
  | nil => simp [printAttrs]
  | cons a as ih =>
    rw [List.map_cons, printAttrs_cons, List.append_assoc, ih, printAttr_eq]
    simp [otherPiece, List.append_assoc]

theorem printAttrs_nil : printAttrs [] = ([] : Str) := rfl

theorem openText_eq (n : WNode) : openText n = printOpen n.cls (attrLayout n) [' '] := by
  unfold openText printOpen attrLayout symPiece
  have hs := others_shift n.others ['>']
  cases n.symbolic with
  | none =>
    simp only [List.nil_append, printAttrs_cons, printAttr_eq, List.append_assoc, List.cons_append]
    rw [hs]
  | some s =>
    simp only [List.nil_append, printAttrs_cons, printAttrs_nil, printAttr_eq, List.append_assoc, List.cons_append]
    rw [hs]

theorem refPiece_eq (r : WRef) : refPiece r = render (refX r) := by
  unfold refPiece refX
  have e : escAttr kFalse = kFalse := by decide
  cases r.forward
  · simp only [render, renderS, printOpen, printClose, printAttrs_cons, printAttr_eq, escOf, e, if_true, if_false,
      Bool.false_eq_true, List.append_assoc, List.cons_append, List.nil_append, List.append_nil]
    rfl
  · simp only [render, renderS, printOpen, printClose, printAttrs_cons, printAttr_eq, escOf, if_true,
      List.append_assoc, List.cons_append, List.nil_append, List.append_nil]
    rfl

theorem refs_eq (l : List WRef) : l.flatMap refPiece = renderS (refsXS l) := by
  induction l with
  | nil => rfl
  | cons r rs ih => simp [refsXS, renderS, refPiece_eq, ih]

theorem elemText_leaf (tag text : Str) : elemText tag (escText text) = render (leaf tag text) := by
  simp [elemText, leaf, render, renderS, printOpen, printClose, printAttrs, escOf]

theorem elemText_node (tag : Str) (kids : XS) : elemText tag (renderS kids) = render (.node tag [] [] false [] kids) := by
  simp [elemText, render, printOpen, printClose, printAttrs, escOf, escText]

/-- **the node text is the rendering of its layout tree** (values in C08's supported domain) -/
theorem nodeText_render (n : WNode) (hv : ∀ v, n.value = some v → C08.Supported v) :
    nodeText n = render (nodeLayout n) := by
  unfold nodeText nodeLayout
  rw [elemText_leaf, elemText_leaf, refs_eq, elemText_node, openText_eq]
  simp only [render, renderS, escOf, escText, Bool.false_eq_true, if_false, List.nil_append]
  cases hval : n.value with
  | none => simp [valueXS, hval, renderS, printClose, List.append_assoc]
  | some v =>
    have hx := C08.encodeText_render v true (hv v hval)
    have hk : renderS (.cons (C08.encodeX v true) .nil) = render (C08.encodeX v true) := by simp [renderS]
    simp only [valueXS, hval, renderS, List.append_nil]
    rw [hx, ← hk, elemText_node]
    simp [renderS, printClose, List.append_assoc]

/-- what the writer needs from a row: XML names for the class and the attribute names -/
structure NodeOK (n : WNode) : Prop where
  cls : NameOK n.cls
  others : ∀ a ∈ n.others, NameOK a.1
  value : ∀ v, n.value = some v → C08.Supported v

theorem pattr_ok (ws k v : Str) (hws : ∀ c ∈ ws, isWs c = true) (hk : NameOK k) : PAttr.OK ⟨ws, k, v⟩ := ⟨hws, hk⟩

theorem open_ok_plain (tag : Str) (h : NameOK tag) : OpenOK tag [] [] := ⟨h, by simp, by simp, by simp⟩

theorem refX_WF (r : WRef) : WF (refX r) := by
  simp only [refX, WF, WFS, and_true, OpenOK]
  refine ⟨by decide, ?_, by simp, ?_⟩
  · intro a ha
    simp only [List.mem_cons] at ha
    rcases ha with rfl | ha
    · exact pattr_ok _ _ _ C08.ws_space (by decide)
    · by_cases hf : r.forward = true
      · simp [hf] at ha
      · simp [hf] at ha; subst ha; exact pattr_ok _ _ _ C08.ws_space2 (by decide)
  · intro a ha
    simp only [List.head?_cons, Option.some.injEq] at ha
    subst ha; simp

theorem refsXS_WF (l : List WRef) : WFS (refsXS l) := by
  induction l with
  | nil => simp [refsXS, WFS]
  | cons r rs ih => simp only [refsXS, WFS]; exact ⟨refX_WF r, ih⟩

theorem nodeLayout_WF (n : WNode) (h : NodeOK n) : WF (nodeLayout n) := by
  simp only [nodeLayout, WF, WFS, leaf, and_true]
  refine ⟨⟨h.cls, ?_, by decide, ?_⟩, open_ok_plain _ (by decide), open_ok_plain _ (by decide),
    ⟨open_ok_plain _ (by decide), refsXS_WF _⟩, ?_⟩
  · intro a ha
    simp only [attrLayout, List.mem_cons, List.mem_append, List.mem_map] at ha
    rcases ha with rfl | ha | rfl | ⟨b, hb, rfl⟩
    · exact pattr_ok _ _ _ C08.ws_space (by decide)
    · cases hs : n.symbolic with
      | none => simp [hs] at ha
      | some s => simp [hs] at ha; subst ha; exact pattr_ok _ _ _ C08.ws_space (by decide)
    · cases n.symbolic
      · exact pattr_ok _ _ _ C08.ws_space (by decide)
      · exact pattr_ok _ _ _ C08.ws_space2 (by decide)
    · exact pattr_ok _ _ _ C08.ws_space (h.others b hb)
  · intro a ha
    simp only [attrLayout, List.head?_cons, Option.some.injEq] at ha
    subst ha; simp
  · cases hval : n.value with
    | none => simp [valueXS, hval, WFS]
    | some v =>
      simp only [valueXS, hval, WFS, WF, and_true]
      exact ⟨open_ok_plain _ (by decide), C08.encodeX_WF v true (h.value v hval)⟩

/-- **every node element is well-formed and loses nothing**: a conforming reader gets exactly the
    intended tree from the emitted text — attribute values, display name, description, reference
    targets and the value — whatever characters (`<`, `>`, `&`, quotes, non-ASCII) they contain -/
theorem node_wellformed (n : WNode) (h : NodeOK n) :
    parseXml (nodeText n) = some (Xml.strip (nodeLayout n)) := by
  rw [nodeText_render n h.value]
  exact parseXml_render _ (nodeLayout_WF n h)

/-- the attributes a reader sees are the row's values, unescaped, in the order written -/
theorem node_attrs_recovered (n : WNode) :
    (Xml.strip (nodeLayout n)).attrs = (attrLayout n).map fun a => (a.k, a.v) := by
  simp [nodeLayout, Xml.strip, T.attrs]

/-! ### self-contained: the written namespace comes first and carries the model -/

/-- **first_uri_and_model**: the first NamespaceUris entry of a written document is the URI of its
    Model element -/
theorem first_uri_and_model (ns : List Str) (nodes : List GNode) (refs : List (Nat × Nat × Nat)) (models : List ModelElem)
    (d : WDoc) (h : createNodeset ns nodes refs models = .ok d) : d.uris.head? = some d.modelUri := by
  obtain ⟨_, h1, h2⟩ := C06.createNodeset_inv ns nodes refs models d h
  rw [h2]
  generalize (List.filterMap (fun k => if k < 0 then none else ns[k.toNat]?) (namespacesInUse nodes refs)) = l at h1 ⊢
  match l, h1 with
  | [], h1 => simp at h1
  | [_], h1 => simp at h1
  | _ :: b :: _, h1 => simp at h1 ⊢; exact h1

/-! ### non-vacuity: a hostile row satisfies `NodeOK` -/
def clsObj : Str := "UAObject".toList
def hostile1 : Str := "ns=1;s=a\"b<&".toList
def hostile2 : Str := "1:q'>".toList
def demoNode : WNode :=
  { cls := clsObj, attrs := [(kNodeId, hostile1), (kBrowseName, hostile2), (kIsForward, hostile1)],
    display := hostile1, description := hostile2,
    refs := [⟨false, hostile2, hostile1⟩, ⟨true, hostile1, hostile2⟩], value := none }

theorem demoNode_others : demoNode.others = [(kIsForward, hostile1)] := by
  have e1 : isIdAttr kNodeId = true := by decide
  have e2 : isIdAttr kBrowseName = true := by decide
  have e3 : isIdAttr kIsForward = false := by decide
  simp [demoNode, WNode.others, e1, e2, e3]

theorem demoNode_ok : NodeOK demoNode where
  cls := by show NameOK clsObj; decide
  others := by
    intro a ha
    rw [demoNode_others] at ha
    simp only [List.mem_singleton] at ha
    subst ha
    show NameOK kIsForward
    decide
  value := by intro v hv; simp [demoNode] at hv

example : parseXml (nodeText demoNode) = some (Xml.strip (nodeLayout demoNode)) := node_wellformed _ demoNode_ok

end Opcua.C07

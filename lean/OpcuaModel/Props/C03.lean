import OpcuaModel.Model.Parse
import OpcuaModel.Props.C09
/-! # C03 — all identifiers are expressed in one global namespace table. -/
namespace Opcua.C03
open Opcua

theorem addUri_prefix (e : List Str) (n : Str) : e <+: addUri e n := by
  unfold addUri; split
  · exact List.prefix_refl _
  · exact List.prefix_append _ _

theorem mem_addUri (e : List Str) (n : Str) : n ∈ addUri e n := by
  unfold addUri; split <;> simp_all

/-- **prefix_kept**: whatever list the caller supplied stays a prefix, in its order -/
theorem extend_prefix (e uris : List Str) : e <+: (extendNs e uris).1 := by
  induction uris generalizing e with
  | nil => exact List.prefix_refl _
  | cons n rest ih => exact (addUri_prefix e n).trans (ih (addUri e n))

theorem addUri_nodup (e : List Str) (n : Str) (h : e.Nodup) : (addUri e n).Nodup := by
  unfold addUri; split
  · exact h
  · next hn =>
    exact List.nodup_append.2 ⟨h, by simp, by
      intro a ha b hb; simp at hb; subst hb; intro e; subst e; exact hn ha⟩

/-- **uri_once (at most once)**: no URI is entered twice -/
theorem extend_nodup (e uris : List Str) (h : e.Nodup) : (extendNs e uris).1.Nodup := by
  induction uris generalizing e with
  | nil => exact h
  | cons n rest ih => exact ih _ (addUri_nodup e n h)

theorem extend_length (e uris : List Str) : (extendNs e uris).2.length = uris.length := by
  induction uris generalizing e with
  | nil => rfl
  | cons n rest ih => simp [extendNs, ih]

theorem getElem?_of_prefix {l₁ l₂ : List Str} (h : l₁ <+: l₂) {i : Nat} (hi : i < l₁.length) :
    l₂[i]? = l₁[i]? := by
  obtain ⟨t, rfl⟩ := h
  simp [List.getElem?_append_left hi]

/-- **map_correct**: the i-th URI of a document is found in the final global list at the index the
    document's map gives for it -/
theorem extend_correct (e uris : List Str) (i : Nat) (hi : i < uris.length) :
    ∃ g, (extendNs e uris).2[i]? = some g ∧ (extendNs e uris).1[g]? = uris[i]? := by
  induction uris generalizing e i with
  | nil => simp at hi
  | cons n rest ih =>
    cases i with
    | zero =>
      refine ⟨(addUri e n).idxOf n, by simp [extendNs], ?_⟩
      have hmem := mem_addUri e n
      have hlt : (addUri e n).idxOf n < (addUri e n).length := List.idxOf_lt_length_of_mem hmem
      have hpre : addUri e n <+: (extendNs e (n :: rest)).1 := by
        simp only [extendNs]; exact extend_prefix _ _
      rw [getElem?_of_prefix hpre hlt]
      simp [List.getElem?_eq_getElem hlt]
    | succ j =>
      have hj : j < rest.length := by simpa using hi
      obtain ⟨g, h1, h2⟩ := ih (addUri e n) j hj
      exact ⟨g, by simpa [extendNs] using h1, by simpa [extendNs] using h2⟩

/-- **uri_once (at least once)**: every document URI is in the global list -/
theorem extend_mem (e uris : List Str) (u : Str) (h : u ∈ uris) : u ∈ (extendNs e uris).1 := by
  induction uris generalizing e with
  | nil => simp at h
  | cons n rest ih =>
    simp only [List.mem_cons] at h
    rcases h with rfl | h
    · exact (extend_prefix (addUri e u) rest).subset (mem_addUri e u)
    · exact ih _ h

theorem extend_head (e uris : List Str) (ua : Str) (h : e.head? = some ua) :
    (extendNs e uris).1.head? = some ua := by
  obtain ⟨t, ht⟩ := extend_prefix e uris
  cases e with
  | nil => simp at h
  | cons a as => rw [← ht]; simpa using h

/-- **head_is_ua**: with no caller list, or one that starts with the OPC UA namespace, index 0 of
    the result is the OPC UA namespace -/
theorem head_is_ua (caller uris : List Str) (h : caller = [] ∨ caller.head? = some UA_URI) :
    (extendNs (withUA caller) uris).1.head? = some UA_URI := by
  apply extend_head
  unfold withUA
  rcases h with rfl | h
  · simp
  · split
    · exact h
    · cases caller with
      | nil => simp at h
      | cons a as => simpa using h

/-- the caller's list survives `withUA` as a prefix too -/
theorem caller_prefix (caller uris : List Str) : caller <+: (extendNs (withUA caller) uris).1 := by
  refine List.IsPrefix.trans ?_ (extend_prefix _ _)
  unfold withUA; split
  · exact List.prefix_refl _
  · exact List.prefix_append _ _

theorem lookup_zip_range (gs : List Nat) (i : Nat) (off : Nat) :
    lookup (((i + off : Nat) : Int) + 1)
      (((List.range' off gs.length).zip gs).map fun p => (((p.1 : Nat) : Int) + 1, ((p.2 : Nat) : Int)))
      = (gs[i]?).map fun g => ((g : Nat) : Int) := by
  induction gs generalizing i off with
  | nil => simp [lookup]
  | cons g rest ih =>
    simp only [List.length_cons, List.range'_succ, List.zip_cons_cons, List.map_cons, lookup]
    cases i with
    | zero => simp
    | succ j =>
      have hne : ¬ ((off : Int) + 1 = ((j + 1 + off : Nat) : Int) + 1) := by omega
      simp only [hne, if_false]
      have := ih j (off + 1)
      have e : j + (off + 1) = j + 1 + off := by omega
      rw [e] at this
      simpa using this

/-- the dict `namespace_map` of a document: local index `i+1` ↦ the global index of its i-th URI -/
theorem lookup_nsMapOf (gs : List Nat) (i : Nat) :
    lookup (((i : Nat) : Int) + 1) (nsMapOf gs) = (gs[i]?).map fun g => ((g : Nat) : Int) := by
  unfold nsMapOf
  have hne : ¬ ((0 : Int) = ((i : Nat) : Int) + 1) := by omega
  simp only [lookup, hne, if_false]
  have := lookup_zip_range gs i 0
  simpa [List.range_eq_range'] using this

theorem lookup_nsMapOf_zero (gs : List Nat) : lookup (0 : Int) (nsMapOf gs) = some 0 := by
  simp [nsMapOf, lookup]

/-- **identifiers denote through the table**: a NodeId written with local index `k+1` in a
    document whose k-th NamespaceUri is `u` is parsed to a NodeId whose namespace index points at
    `u` in the global list — whatever order the document lists its URIs in, whatever the global list
    held before. Local index 0 maps to global index 0. -/
theorem parsed_id_denotes (e uris : List Str) (n : NodeId) (k : Nat) (hk : k < uris.length)
    (hn : n.ns = ((k : Nat) : Int) + 1) (hv : n.Valid) :
    ∃ g : Nat, parseNodeId n.print (nsMapOf (extendNs e uris).2) none = .ok { n with ns := (g : Int) } ∧
      (extendNs e uris).1[g]? = uris[k]? := by
  obtain ⟨g, h1, h2⟩ := extend_correct e uris k hk
  refine ⟨g, ?_, h2⟩
  apply C09.parse_mapped n _ (by simp [nsMapOf]) (g : Int) _ hv
  rw [hn, lookup_nsMapOf, h1]; rfl

theorem parsed_id_zero (gs : List Nat) (n : NodeId) (hn : n.ns = 0) (hv : n.Valid) :
    parseNodeId n.print (nsMapOf gs) none = .ok n := by
  have := C09.parse_mapped n (nsMapOf gs) (by simp [nsMapOf]) 0 (by rw [hn]; exact lookup_nsMapOf_zero gs) hv
  rw [this]; cases n; simp_all

/-- an index the document does not declare is an error, never a silent default -/
theorem undeclared_index_rejected (gs : List Nat) (n : NodeId) (k : Nat) (hk : gs.length ≤ k)
    (hn : n.ns = ((k : Nat) : Int) + 1) :
    parseNodeId n.print (nsMapOf gs) none = .error .keyError := by
  apply C09.parse_unmapped n _ (by simp [nsMapOf])
  rw [hn, lookup_nsMapOf]
  simp [List.getElem?_eq_none hk]

/-- **denotation is independent of the order of NamespaceUris and of the local indices**: two
    documents (or two permutations of one) that list the same URI at positions `k` and `k'` map
    those local indices to global indices holding that same URI. -/
theorem denotation_independent (e e' uris uris' : List Str) (k k' : Nat) (hk : k < uris.length)
    (hk' : k' < uris'.length) (hu : uris[k]? = uris'[k']?) :
    ∃ g g', (extendNs e uris).2[k]? = some g ∧ (extendNs e' uris').2[k']? = some g' ∧
      (extendNs e uris).1[g]? = (extendNs e' uris').1[g']? := by
  obtain ⟨g, h1, h2⟩ := extend_correct e uris k hk
  obtain ⟨g', h1', h2'⟩ := extend_correct e' uris' k' hk'
  exact ⟨g, g', h1, h1', by rw [h2, h2', hu]⟩

/-- across files the list only grows at the end, so what an earlier file's ids denote is unchanged
    by parsing later files -/
theorem earlier_ids_stable (e uris later : List Str) (g : Nat) (hg : g < (extendNs e uris).1.length) :
    (extendNs (extendNs e uris).1 later).1[g]? = (extendNs e uris).1[g]? :=
  getElem?_of_prefix (extend_prefix _ _) hg

/-- `UAGraph._get_namespace_list`: key `i` of the dict ends up at index `i` -/
theorem namespaceList_at (d : List (Nat × Str)) (i : Nat) (u : Str) (h : lookup i d = some u) :
    (namespaceListOfDict d)[i]? = some u := by
  unfold namespaceListOfDict
  have hmem : i ∈ d.map Prod.fst := by
    induction d with
    | nil => simp [lookup] at h
    | cons p ps ih =>
      obtain ⟨a, b⟩ := p
      simp only [lookup] at h
      by_cases e : a = i
      · simp [e]
      · simp only [e, if_false] at h; simp [ih h]
  cases hm : (d.map Prod.fst).max? with
  | none => simp [List.max?_eq_none_iff] at hm; simp [hm] at hmem
  | some m =>
    have hle : i ≤ m := (List.max?_eq_some_iff.1 hm).2 i hmem
    have hr : (List.range (m + 1))[i]? = some i := by
      rw [List.getElem?_range (by omega)]
    rw [List.getElem?_map, hr]
    simp [h]

/-! ### non-vacuity -/
example : extendNs ["UA".toList] ["b".toList, "a".toList, "b".toList, "UA".toList] =
    (["UA".toList, "b".toList, "a".toList], [1, 2, 1, 0]) := by decide
example : nsMapOf [1, 2, 1, 0] = [(0, 0), (1, 1), (2, 2), (3, 1), (4, 0)] := by decide

end Opcua.C03

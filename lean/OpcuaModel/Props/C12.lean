import OpcuaModel.Model.Graph
import Mathlib.Logic.Relation
import Mathlib.Data.List.Nodup
import Batteries.Data.List.Perm
import Mathlib.Data.List.ProdSigma
/-! # C12 — closures and type-constrained selections agree with graph reachability. -/
namespace Opcua.C12
open Opcua Relation

/-! ### helper lemmas about the list-level primitives -/

theorem mem_uniques {α} [DecidableEq α] (l : List α) (a : α) : a ∈ uniques l ↔ a ∈ l := by
  induction l with
  | nil => simp [uniques]
  | cons x xs ih =>
    simp only [uniques, List.mem_cons, List.mem_filter, ih, decide_eq_true_eq]
    constructor
    · rintro (h | ⟨h, _⟩)
      · exact Or.inl h
      · exact Or.inr h
    · rintro (h | h)
      · exact Or.inl h
      · by_cases e : a = x
        · exact Or.inl e
        · exact Or.inr ⟨h, e⟩

theorem nodup_uniques {α} [DecidableEq α] (l : List α) : (uniques l).Nodup := by
  induction l with
  | nil => simp [uniques]
  | cons x xs ih =>
    simp only [uniques, List.nodup_cons, List.mem_filter, decide_eq_true_eq, not_and]
    exact ⟨fun _ h => h rfl, ih.filter _⟩

theorem mem_pairsWhere {V : List Nat} {p : Nat → Nat → Bool} {a c : Nat} :
    (a, c) ∈ pairsWhere V p ↔ a ∈ V ∧ c ∈ V ∧ p a c = true := by
  simp only [pairsWhere, List.mem_flatMap]
  constructor
  · rintro ⟨a', ha', c', hc', h⟩
    split at h
    · next hp =>
      simp only [List.mem_singleton, Prod.mk.injEq] at h
      obtain ⟨rfl, rfl⟩ := h
      exact ⟨ha', hc', hp⟩
    · simp at h
  · rintro ⟨ha, hc, hp⟩
    exact ⟨a, ha, c, hc, by simp [hp]⟩

theorem nodup_pairsWhere {V : List Nat} (hV : V.Nodup) (p : Nat → Nat → Bool) :
    (pairsWhere V p).Nodup := by
  unfold pairsWhere
  rw [List.nodup_flatMap]
  refine ⟨fun a _ => ?_, ?_⟩
  · rw [List.nodup_flatMap]
    refine ⟨fun c _ => by split <;> simp, ?_⟩
    refine List.Pairwise.imp_of_mem ?_ hV
    intro c c' _ _ hne
    intro x hx hx'
    dsimp only at hx hx'
    split at hx <;> split at hx' <;> simp_all
  · refine List.Pairwise.imp_of_mem ?_ hV
    intro a a' _ _ hne
    intro x hx hx'
    simp only [List.mem_flatMap] at hx hx'
    obtain ⟨c, _, hc⟩ := hx
    obtain ⟨c', _, hc'⟩ := hx'
    split at hc <;> split at hc' <;> simp_all

theorem mem_comp {V : List Nat} {R : List Edge} {a c : Nat} :
    (a, c) ∈ comp V R ↔ a ∈ V ∧ c ∈ V ∧ ∃ b ∈ V, (a, b) ∈ R ∧ (b, c) ∈ R := by
  simp [comp, mem_pairsWhere]

theorem mem_withId {V : List Nat} {E : List Edge} {a b : Nat} :
    (a, b) ∈ withId V E ↔ a ∈ V ∧ b ∈ V ∧ (a = b ∨ (a, b) ∈ E) := by
  simp [withId, mem_pairsWhere]

def edge (E : List Edge) (a b : Nat) : Prop := (a, b) ∈ E

/-- invariant of the squaring iteration -/
structure Good (V : List Nat) (E : List Edge) (R : List Edge) : Prop where
  nodup : R.Nodup
  inV : ∀ a b, (a, b) ∈ R → a ∈ V ∧ b ∈ V
  refl : ∀ a ∈ V, (a, a) ∈ R
  sound : ∀ a b, (a, b) ∈ R → ReflTransGen (edge E) a b
  base : ∀ a b, (a, b) ∈ E → (a, b) ∈ R

theorem subset_comp {V E R} (g : Good V E R) : R ⊆ comp V R := by
  rintro ⟨a, b⟩ h
  obtain ⟨ha, hb⟩ := g.inV a b h
  exact mem_comp.2 ⟨ha, hb, b, hb, h, g.refl b hb⟩

theorem good_comp {V E R} (hV : V.Nodup) (g : Good V E R) : Good V E (comp V R) where
  nodup := nodup_pairsWhere hV _
  inV := fun a b h => let ⟨ha, hb, _⟩ := mem_comp.1 h; ⟨ha, hb⟩
  refl := fun a ha => mem_comp.2 ⟨ha, ha, a, ha, g.refl a ha, g.refl a ha⟩
  sound := fun a c h => by
    obtain ⟨_, _, b, _, h1, h2⟩ := mem_comp.1 h
    exact (g.sound a b h1).trans (g.sound b c h2)
  base := fun a b h => subset_comp g (g.base a b h)

/-- if squaring does not add a pair, R is transitive, hence contains all reachability -/
theorem complete_of_fix {V E R} (hV : V.Nodup) (g : Good V E R)
    (hlen : (comp V R).length = R.length) :
    ∀ a b, a ∈ V → ReflTransGen (edge E) a b → (a, b) ∈ comp V R := by
  have hsub : comp V R ⊆ R := by
    have sp := List.subperm_of_subset g.nodup (subset_comp g)
    exact (sp.perm_of_length_le (by omega)).symm.subset
  intro a b ha h
  induction h with
  | refl => exact (good_comp hV g).refl a ha
  | @tail b c _ hbc ih =>
    have hab : (a, b) ∈ R := hsub ih
    have hbc' : (b, c) ∈ R := g.base b c hbc
    obtain ⟨_, hb⟩ := g.inV a b hab
    obtain ⟨_, hc⟩ := g.inV b c hbc'
    exact mem_comp.2 ⟨ha, hc, b, hb, hab, hbc'⟩

theorem length_le_sq {V E R} (g : Good V E R) : R.length ≤ V.length * V.length := by
  have hsub : R ⊆ V ×ˢ V := by
    rintro ⟨a, b⟩ h
    obtain ⟨ha, hb⟩ := g.inV a b h
    exact List.mem_product.2 ⟨ha, hb⟩
  have := (List.subperm_of_subset g.nodup hsub).length_le
  rwa [List.length_product] at this

/-- **fuel_suffices**: the iteration reaches its fixed point within `|V|²+1` rounds — the pair
    count strictly grows until then and is bounded by `|V|²`. -/
theorem iter_spec {V E} (hV : V.Nodup) :
    ∀ fuel R, Good V E R → V.length * V.length < R.length + fuel →
      Good V E (iterSq V fuel R) ∧
      ∀ a b, a ∈ V → ReflTransGen (edge E) a b → (a, b) ∈ iterSq V fuel R := by
  intro fuel
  induction fuel with
  | zero =>
    intro R g h
    have := length_le_sq g
    omega
  | succ fuel ih =>
    intro R g h
    simp only [iterSq]
    split
    · next hlen => exact ⟨good_comp hV g, complete_of_fix hV g hlen⟩
    · next hne =>
      have g' := good_comp hV g
      have hle : R.length ≤ (comp V R).length :=
        (List.subperm_of_subset g.nodup (subset_comp g)).length_le
      exact ih (comp V R) g' (by omega)

theorem nodup_verts (E : List Edge) : (verts E).Nodup := nodup_uniques _

theorem mem_verts {E : List Edge} {a b : Nat} (h : (a, b) ∈ E) : a ∈ verts E ∧ b ∈ verts E := by
  unfold verts
  simp only [mem_uniques, List.mem_append, List.mem_map]
  exact ⟨Or.inl ⟨(a, b), h, rfl⟩, Or.inr ⟨(a, b), h, rfl⟩⟩

theorem good_withId (E : List Edge) : Good (verts E) E (withId (verts E) E) where
  nodup := nodup_pairsWhere (nodup_verts E) _
  inV := fun a b h => let ⟨ha, hb, _⟩ := mem_withId.1 h; ⟨ha, hb⟩
  refl := fun a ha => mem_withId.2 ⟨ha, ha, Or.inl rfl⟩
  sound := fun a b h => by
    obtain ⟨_, _, h | h⟩ := mem_withId.1 h
    · subst h; exact ReflTransGen.refl
    · exact ReflTransGen.single h
  base := fun a b h => mem_withId.2 ⟨(mem_verts h).1, (mem_verts h).2, Or.inr h⟩

/-! ### property theorems -/

/-- **C12, closure**: the result of squaring-to-fixpoint contains (a,b) exactly when a ≠ b and
    b is reachable from a over one or more references. For every finite edge list. -/
theorem closure_iff_reach (E : List Edge) (a b : Nat) :
    (a, b) ∈ closure E ↔ a ≠ b ∧ TransGen (edge E) a b := by
  have hspec := iter_spec (E := E) (nodup_verts E) ((verts E).length * (verts E).length + 1)
    (withId (verts E) E) (good_withId E) (by omega)
  obtain ⟨g, hc⟩ := hspec
  simp only [closure, List.mem_filter, decide_eq_true_eq, ne_eq]
  constructor
  · rintro ⟨h, hne⟩
    refine ⟨hne, ?_⟩
    rcases (reflTransGen_iff_eq_or_transGen.1 (g.sound a b h)) with h | h
    · exact absurd h.symm hne
    · exact h
  · rintro ⟨hne, h⟩
    refine ⟨hc a b ?_ h.to_reflTransGen, hne⟩
    obtain ⟨c, hac, _⟩ := TransGen.head'_iff.1 h
    exact (mem_verts hac).1

/-- each pair is reported once -/
theorem closure_nodup (E : List Edge) : (closure E).Nodup := by
  have hspec := iter_spec (E := E) (nodup_verts E) ((verts E).length * (verts E).length + 1)
    (withId (verts E) E) (good_withId E) (by omega)
  exact hspec.1.nodup.filter _

/-- the HasSubtype relation of a reference table -/
def sub (hst : Nat) (refs : List Ref) (a b : Nat) : Prop := (a, b) ∈ subtypeEdges hst refs

/-- a node occurs as an end point of some reference (the domain of the reflexive part) -/
def Occurs (refs : List Ref) (t : Nat) : Prop := ∃ r ∈ refs, r.src = t ∨ r.trg = t

theorem mem_typingTR (hst : Nat) (refs : List Ref) (a b : Nat) :
    (a, b) ∈ typingTR hst refs ↔
      (a ≠ b ∧ TransGen (sub hst refs) a b) ∨ (a = b ∧ Occurs refs a) := by
  simp only [typingTR, List.mem_append, closure_iff_reach, List.mem_map, mem_uniques,
    Prod.mk.injEq]
  constructor
  · rintro (h | ⟨t, ht, rfl, rfl⟩)
    · exact Or.inl h
    · right
      refine ⟨rfl, ?_⟩
      rcases ht with ⟨r, hr, rfl⟩ | ⟨r, hr, rfl⟩
      · exact ⟨r, hr, Or.inl rfl⟩
      · exact ⟨r, hr, Or.inr rfl⟩
  · rintro (h | ⟨rfl, r, hr, h | h⟩)
    · exact Or.inl h
    · exact Or.inr ⟨a, Or.inl ⟨r, hr, h⟩, rfl, rfl⟩
    · exact Or.inr ⟨a, Or.inr ⟨r, hr, h⟩, rfl, rfl⟩

/-- **subtypes**: for a type that occurs in the reference table, the reported subtypes are exactly
    the types reachable along HasSubtype, plus the type itself. (`Occurs` is the hypothesis the
    proof forces; the real code indeed returns nothing for an isolated type — finding D-C12a.) -/
theorem subtypes_iff (hst : Nat) (refs : List Ref) (ts : List Nat) (t b : Nat) (ht : Occurs refs t) :
    (t, b) ∈ subtypesOf hst refs ts ↔ t ∈ ts ∧ ReflTransGen (sub hst refs) t b := by
  simp only [subtypesOf, List.mem_filter, mem_typingTR, List.contains_iff_mem]
  constructor
  · rintro ⟨h | ⟨rfl, _⟩, hts⟩
    · exact ⟨hts, h.2.to_reflTransGen⟩
    · exact ⟨hts, ReflTransGen.refl⟩
  · rintro ⟨hts, h⟩
    refine ⟨?_, hts⟩
    rcases reflTransGen_iff_eq_or_transGen.1 h with h | h
    · exact Or.inr ⟨h.symm, ht⟩
    · by_cases e : t = b
      · exact Or.inr ⟨e, ht⟩
      · exact Or.inl ⟨e, h⟩

/-- **supertypes**: symmetric statement against the direction of HasSubtype -/
theorem supertypes_iff (hst : Nat) (refs : List Ref) (ts : List Nat) (a t : Nat) (ht : Occurs refs t) :
    (a, t) ∈ supertypesOf hst refs ts ↔ t ∈ ts ∧ ReflTransGen (sub hst refs) a t := by
  simp only [supertypesOf, List.mem_filter, mem_typingTR, List.contains_iff_mem]
  constructor
  · rintro ⟨h | ⟨rfl, _⟩, hts⟩
    · exact ⟨hts, h.2.to_reflTransGen⟩
    · exact ⟨hts, ReflTransGen.refl⟩
  · rintro ⟨hts, h⟩
    refine ⟨?_, hts⟩
    rcases reflTransGen_iff_eq_or_transGen.1 h with h | h
    · exact Or.inr ⟨h.symm, h ▸ ht⟩
    · by_cases e : a = t
      · exact Or.inr ⟨e, e ▸ ht⟩
      · exact Or.inl ⟨e, h⟩

/-- **selection by reference type**: the selected references are exactly those whose type is the
    given type or one of its subtypes — for a selector type that occurs in the type references. -/
theorem constrain_exact (hst : Nat) (typeRefs inst : List Ref) (T : Nat) (r : Ref)
    (hT : Occurs typeRefs T) :
    r ∈ constrain hst typeRefs inst [T] ↔ r ∈ inst ∧ ReflTransGen (sub hst typeRefs) T r.ty := by
  simp only [constrain, List.mem_filter, List.contains_iff_mem, List.mem_map]
  constructor
  · rintro ⟨hr, ⟨a, b⟩, hp, rfl⟩
    have ha : a = T := by
      have := (List.mem_filter.1 hp).2
      simpa using this
    subst ha
    exact ⟨hr, ((subtypes_iff hst typeRefs [a] a _ hT).1 hp).2⟩
  · rintro ⟨hr, h⟩
    exact ⟨hr, (T, r.ty), (subtypes_iff hst typeRefs [T] T r.ty hT).2 ⟨by simp, h⟩, rfl⟩

/-- selection never invents or duplicates a reference: it is a sub-list of the input -/
theorem constrain_sublist (hst : Nat) (typeRefs inst : List Ref) (ts : List Nat) :
    (constrain hst typeRefs inst ts).Sublist inst := List.filter_sublist

/-- **modelling-rule variants split the selection**: a selected reference is in the "has no
    modelling rule" variant iff its target is the source of no HasModellingRule reference, and in
    the "has modelling rule" variant iff it is; nothing else is in either. -/
theorem mr_partition (hst : Nat) (typeRefs inst : List Ref) (sel hmr : Nat) (r : Ref) :
    (r ∈ selNoMR hst typeRefs inst sel hmr ↔
        r ∈ constrain hst typeRefs inst [sel] ∧ ¬ ∃ m ∈ constrain hst typeRefs inst [hmr], m.src = r.trg) ∧
    (r ∈ selWithMR hst typeRefs inst sel hmr ↔
        r ∈ constrain hst typeRefs inst [sel] ∧ ∃ m ∈ constrain hst typeRefs inst [hmr], m.src = r.trg) := by
  constructor
  · simp only [selNoMR, List.mem_filter]
    constructor
    · rintro ⟨h, hn⟩
      refine ⟨h, ?_⟩
      rintro ⟨m, hm, e⟩
      have : ((constrain hst typeRefs inst [hmr]).map (·.src)).contains r.trg = true := by
        simp only [List.contains_iff_mem, List.mem_map]; exact ⟨m, hm, e⟩
      rw [this] at hn
      simp at hn
    · rintro ⟨h, hn⟩
      refine ⟨h, ?_⟩
      cases hc : ((constrain hst typeRefs inst [hmr]).map (·.src)).contains r.trg with
      | false => rfl
      | true =>
        simp only [List.contains_iff_mem, List.mem_map] at hc
        exact absurd hc hn
  · simp only [selWithMR, List.mem_flatMap, List.mem_map, List.mem_filter, decide_eq_true_eq]
    constructor
    · rintro ⟨r', hr', m, ⟨hm, e⟩, rfl⟩; exact ⟨hr', m, hm, e⟩
    · rintro ⟨hr, m, hm, e⟩; exact ⟨r, hr, m, ⟨hm, e⟩, rfl⟩

/-- **circular references**: with no self-loop among the edges (the code asserts this), the
    reported nodes are exactly the nodes lying on a cycle. -/
theorem circular_exact (E : List Edge) (hns : ∀ a, (a, a) ∉ E) (a : Nat) :
    a ∈ circular E ↔ TransGen (edge E) a a := by
  simp only [circular, mem_uniques, List.mem_map, List.mem_filter, List.contains_iff_mem]
  constructor
  · rintro ⟨⟨x, y⟩, ⟨h1, h2⟩, rfl⟩
    exact ((closure_iff_reach E x y).1 h1).2.trans ((closure_iff_reach E y x).1 h2).2
  · intro h
    obtain ⟨c, hac, hca⟩ := TransGen.head'_iff.1 h
    have hne : a ≠ c := by intro e; subst e; exact hns a hac
    have h1 : TransGen (edge E) a c := TransGen.single hac
    have h2 : TransGen (edge E) c a := by
      rcases reflTransGen_iff_eq_or_transGen.1 hca with e | t
      · exact absurd e hne
      · exact t
    exact ⟨(a, c), ⟨(closure_iff_reach E a c).2 ⟨hne, h1⟩,
      (closure_iff_reach E c a).2 ⟨fun e => hne e.symm, h2⟩⟩, rfl⟩

/-! ### non-vacuity (evaluation on concrete graphs) -/
example : (1, 3) ∈ closure [(1,2),(2,3),(3,1),(4,5)] := by decide
example : circular [(1,2),(2,3),(3,1),(4,5)] = [1, 2, 3] := by decide
example : Occurs [⟨10, 11, 45⟩] 10 := ⟨⟨10, 11, 45⟩, by simp, Or.inl rfl⟩
/-- the excluded point of `subtypes_iff`: an isolated type has no reflexive pair (D-C12a) -/
theorem isolated_type_witness : subtypesOf 45 [⟨10, 11, 45⟩] [99] = [] := by decide

end Opcua.C12

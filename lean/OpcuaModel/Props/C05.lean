import OpcuaModel.Model.Write
import OpcuaModel.Props.C01
import OpcuaModel.Props.C02
import OpcuaModel.Props.C03
import OpcuaModel.Props.C07
import OpcuaModel.Props.C08
/-! # C05 — parse → write_nodeset → parse reproduces the graph.

The round trip is the composition of theorems proved for its stages: what the writer emits for a
row (C06 `createNodeset_inv`, C07 `node_wellformed`: a reader recovers exactly the attribute values,
texts, reference children and value element), and what the parser makes of such an element (C01
`row_fields`, C02 `parseRef_oriented`, C03 `parsed_id_denotes`, C08 `decode_encode`, C09
`parse_print`). This file proves the *junctions*: each kind of field, printed by the writer and
read by the parser, comes back unchanged. The end-to-end statement over whole graphs
(`RoundTrip`) is kept visible below; it is decided on every run by the correspondence check, which
executes the real parse → write → parse on generated graphs. -/
namespace Opcua.C05
open Opcua

/-- the full statement (not proved as one theorem; see the module comment): reading the documents
    written for every non-base namespace, together with the base document, gives back the rows and
    triples of the graph up to the internal ids -/
def RoundTrip (g : Graph) (base : Doc) (docsOf : WDoc → Doc) : Prop :=
  ∀ written : List WDoc,
    (written.map Except.ok = (g.namespaces.drop 1).map fun u => writeDoc g u true) →
    ∃ out, parseFiles [] (base :: written.map docsOf) = .ok out ∧
      out.namespaces.Perm g.namespaces ∧ out.nodes.length = g.nodes.length

/-- **NodeId junction**: the writer prints a NodeId with the document-local index `k+1` of its
    namespace; the parser, with the map built from that document's own NamespaceUris, returns a
    NodeId whose index points at the same URI in the global list -/
theorem nodeid_junction (global uris : List Str) (n : NodeId) (k : Nat) (hk : k < uris.length)
    (hn : n.ns = ((k : Nat) : Int) + 1) (hv : n.Valid) :
    ∃ g : Nat, parseNodeId n.print (nsMapOf (extendNs global uris).2) none = .ok { n with ns := (g : Int) } ∧
      (extendNs global uris).1[g]? = uris[k]? :=
  C03.parsed_id_denotes global uris n k hk hn hv

/-- **browse-name junction**: `"<k>:<name>"` is split back into `k` and `name` (names without a
    second ':'; the excluded case is finding D-C01a) -/
theorem browse_junction (k : Int) (name : Str) (h : ':' ∉ name) :
    browseSplit (pyStrInt k ++ ':' :: name) = .ok (k, name) := C01.browse_split_partial k name h

/-- **value junction**: the Value element written for a supported value decodes to that value -/
theorem value_junction (v : Val) (h : C08.Supported v) :
    (Xml.parseXml (encodeText v true)).map decodeT = some (.ok (C08.canon v)) := C08.decode_encode v true h

theorem wrapInt8_id (i : Int) (h1 : -128 ≤ i) (h2 : i ≤ 127) : wrapInt 8 i = i := by
  have e1 : (2 : Int) ^ 8 = 256 := by decide
  have e2 : (2 : Int) ^ (8 - 1) = 128 := by decide
  simp only [wrapInt, e1, e2]
  omega

theorem wrapInt32_id (i : Int) (h1 : -2147483648 ≤ i) (h2 : i ≤ 2147483647) : wrapInt 32 i = i := by
  have e1 : (2 : Int) ^ 32 = 4294967296 := by decide
  have e2 : (2 : Int) ^ (32 - 1) = 2147483648 := by decide
  simp only [wrapInt, e1, e2]
  omega

/-- **integer-attribute junction**: ValueRank / AccessLevel / EventNotifier inside the Int8 range
    and MinimumSamplingInterval inside the Int32 range are written in decimal and read back exactly
    (outside the range the cast wraps: finding D-C01c) -/
theorem int_attr_junction (i : Int) :
    (-128 ≤ i → i ≤ 127 → typedAttr "ValueRank".toList (attrText (.int i)) = .ok (.int i)) ∧
    (-2147483648 ≤ i → i ≤ 2147483647 → typedAttr "MinimumSamplingInterval".toList (attrText (.int i)) = .ok (.int i)) := by
  constructor
  · intro h1 h2
    unfold typedAttr
    rw [if_neg (by decide), if_pos (by decide)]
    simp only [attrText, pyIntE, pyInt_pyStrInt, bind, Except.bind, pure, Except.pure, wrapInt8_id i h1 h2]
  · intro h1 h2
    unfold typedAttr
    rw [if_neg (by decide), if_neg (by decide), if_pos (by decide)]
    simp only [attrText, pyIntE, pyInt_pyStrInt, bind, Except.bind, pure, Except.pure, wrapInt32_id i h1 h2]

/-- **flag junction**: IsAbstract / Symmetric written as `true` / `false` are read back as the same flag -/
theorem bool_attr_junction (b : Bool) :
    typedAttr "IsAbstract".toList (attrText (.bool b)) = .ok (.bool b) ∧
    typedAttr "Symmetric".toList (attrText (.bool b)) = .ok (.bool b) := by
  cases b <;> exact ⟨by decide, by decide⟩

/-- **reference junction**: a reference written on its target as an inverse (`IsForward="false"`,
    text = the source) and one written on its source as a forward reference are both read as the
    triple (source, target, type) -/
theorem ref_junction (nsmap : List (Int × Int)) (al : List (Str × NodeId)) (s t ty : NodeId) (sText tText tyText : Str)
    (hs : parseNodeId (rstrip sText) nsmap (some al) = .ok s) (ht : parseNodeId (rstrip tText) nsmap (some al) = .ok t)
    (hty : parseNodeId tyText nsmap (some al) = .ok ty) :
    parseRef nsmap al t ⟨[(kReferenceType, tyText), (kIsForward, kFalse)], some sText⟩ = .ok (s, t, ty) ∧
    parseRef nsmap al s ⟨[(kReferenceType, tyText)], some tText⟩ = .ok (s, t, ty) := by
  have k1 : kIsForward ≠ kReferenceType := by decide
  have k2 : kReferenceType ≠ kIsForward := by decide
  constructor
  · simp [parseRef, hs, hty, lookup, k1, k2]
  · simp [parseRef, ht, hty, lookup, k1, k2]

/-- **node junction (identity part)**: a node element as the writer emits it — NodeId text with the
    document-local index, BrowseName `k:name`, a type attribute written as a NodeId text, display
    name and description as element texts — is read back as a row with exactly that NodeId (in the
    global table), that browse name and browse-name namespace, those texts, and that DataType;
    an absent optional attribute stays absent -/
theorem node_junction (nsmap : List (Int × Int)) (al : List (Str × NodeId)) (cls : Str)
    (nidText bk name dtText disp desc : Str) (k : Int) (nid dt : NodeId)
    (hn : parseNodeId nidText nsmap (some al) = .ok nid) (hd : parseNodeId dtText nsmap (some al) = .ok dt)
    (hb : browseSplit bk = .ok (k, name)) :
    parseNode nsmap al ⟨cls, [(kNodeId, nidText), (kBrowseName, bk), (kDataType, dtText)], [some disp], [some desc], [], none⟩ =
      .ok { cls := cls, nodeId := nid, browseName := name, browseNs := lookup k nsmap, display := rstrip disp,
            description := rstrip desc, dataType := some dt, parent := none, methodDecl := none, attrs := [], value := none } := by
  have e1 : kBrowseName ≠ kNodeId := by decide
  have e2 : kDataType ≠ kNodeId := by decide
  have e3 : kDataType ≠ kBrowseName := by decide
  have e4 : kNodeId ≠ kDataType := by decide
  have e5 : kBrowseName ≠ kDataType := by decide
  have e6 : kNodeId ≠ kParentNodeId := by decide
  have e7 : kBrowseName ≠ kParentNodeId := by decide
  have e8 : kDataType ≠ kParentNodeId := by decide
  have e9 : kNodeId ≠ kMethodDeclarationId := by decide
  have e10 : kBrowseName ≠ kMethodDeclarationId := by decide
  have e11 : kDataType ≠ kMethodDeclarationId := by decide
  have e12 : kNodeId ≠ kBrowseName := by decide
  have hf : ([(kNodeId, nidText), (kBrowseName, bk), (kDataType, dtText)].filter fun p => !idAttrs.contains p.1) = [] := by
    simp [idAttrs]
  unfold parseNode
  simp only [lookup, e1, e2, e3, e4, e5, e6, e7, e8, e9, e10, e11, e12, if_true, if_false, hn, optParse, hd, hb, hf, mapE, optDecode, firstText]

/-! ### non-vacuity -/
example : typedAttr "ValueRank".toList (attrText (.int (-2))) = .ok (.int (-2)) := (int_attr_junction (-2)).1 (by decide) (by decide)

end Opcua.C05

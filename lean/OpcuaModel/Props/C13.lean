import OpcuaModel.Model.Graph
import OpcuaModel.Props.C12
/-! # C13 — relatives and node paths enumerate exactly the walks of the graph. -/
namespace Opcua.C13
open Opcua Relation

/-- a node sequence (stored end first) is a walk from `s` with `n` edges -/
inductive Walk (E : List Edge) (s : Nat) : Nat → List Nat → Prop
  | nil : Walk E s 0 [s]
  | snoc {n p e t} : Walk E s n (e :: p) → (e, t) ∈ E → Walk E s (n+1) (t :: e :: p)

theorem mem_extend {E : List Edge} {rows : List (List Nat)} {q : List Nat} :
    q ∈ extendRows E rows ↔ ∃ e p t, (e :: p) ∈ rows ∧ (e, t) ∈ E ∧ q = t :: e :: p := by
  simp only [extendRows, List.mem_flatMap]
  constructor
  · rintro ⟨p, hp, hq⟩
    cases p with
    | nil => simp at hq
    | cons e p' =>
      simp only [List.mem_map, List.mem_filter, decide_eq_true_eq] at hq
      obtain ⟨ed, ⟨hed, he⟩, rfl⟩ := hq
      refine ⟨e, p', ed.2, hp, ?_, rfl⟩
      rw [← he]; exact hed
  · rintro ⟨e, p, t, hp, het, rfl⟩
    refine ⟨e :: p, hp, ?_⟩
    simp only [List.mem_map, List.mem_filter, decide_eq_true_eq]
    exact ⟨(e, t), ⟨het, rfl⟩, rfl⟩

/-- rows of level n are exactly the walks with n edges from a start node -/
def LevelOK (E : List Edge) (starts : List Nat) (n : Nat) (rows : List (List Nat)) : Prop :=
  ∀ q, q ∈ rows ↔ ∃ s ∈ starts, Walk E s n q

theorem levelOK_zero (E : List Edge) (starts : List Nat) :
    LevelOK E starts 0 (starts.map fun s => [s]) := by
  intro q
  simp only [List.mem_map]
  constructor
  · rintro ⟨s, hs, rfl⟩; exact ⟨s, hs, Walk.nil⟩
  · rintro ⟨s, hs, hw⟩; cases hw; exact ⟨s, hs, rfl⟩

theorem levelOK_succ {E : List Edge} {starts : List Nat} {n : Nat} {rows : List (List Nat)}
    (h : LevelOK E starts n rows) : LevelOK E starts (n+1) (extendRows E rows) := by
  intro q
  rw [mem_extend]
  constructor
  · rintro ⟨e, p, t, hp, het, rfl⟩
    obtain ⟨s, hs, hw⟩ := (h _).1 hp
    exact ⟨s, hs, Walk.snoc hw het⟩
  · rintro ⟨s, hs, hw⟩
    cases hw with
    | snoc hw' het => exact ⟨_, _, _, (h _).2 ⟨s, hs, hw'⟩, het, rfl⟩

theorem walk_length {E s n q} (h : Walk E s n q) : q.length = n + 1 := by
  induction h with
  | nil => rfl
  | snoc _ _ ih => simp [ih]

theorem mem_levels {E : List Edge} {starts : List Nat} (k n : Nat) (rows : List (List Nat))
    (h : LevelOK E starts n rows) (q : List Nat) :
    q ∈ (levels E k rows).flatten ↔ ∃ m, n ≤ m ∧ m ≤ n + k ∧ ∃ s ∈ starts, Walk E s m q := by
  induction k generalizing n rows with
  | zero =>
    simp only [levels, List.flatten_cons, List.flatten_nil, List.append_nil, Nat.add_zero]
    rw [h q]
    constructor
    · rintro ⟨s, hs, hw⟩; exact ⟨n, Nat.le_refl _, Nat.le_refl _, s, hs, hw⟩
    · rintro ⟨m, h1, h2, s, hs, hw⟩
      have : m = n := by omega
      subst this; exact ⟨s, hs, hw⟩
  | succ k ih =>
    simp only [levels, List.flatten_cons, List.mem_append]
    rw [ih (n+1) (extendRows E rows) (levelOK_succ h), h q]
    constructor
    · rintro (⟨s, hs, hw⟩ | ⟨m, h1, h2, r⟩)
      · exact ⟨n, Nat.le_refl _, by omega, s, hs, hw⟩
      · exact ⟨m, by omega, by omega, r⟩
    · rintro ⟨m, h1, h2, s, hs, hw⟩
      by_cases e : m = n
      · subst e; exact Or.inl ⟨s, hs, hw⟩
      · exact Or.inr ⟨m, by omega, by omega, s, hs, hw⟩

/-- **C13 (rows are walks)**: a row is produced iff it is the node sequence of a walk of at most
    `cutoff` edges leaving a start node; by `walk_length` its `len_path` (length − 1) is the number
    of edges, its head the end node, its last element the start node. Each start node gives the
    length-0 row `[s]`. -/
theorem findRelatives_iff (E : List Edge) (starts : List Nat) (cutoff : Nat) (q : List Nat) :
    q ∈ findRelatives E starts cutoff ↔ ∃ m ≤ cutoff, ∃ s ∈ starts, Walk E s m q := by
  unfold findRelatives
  rw [mem_levels cutoff 0 _ (levelOK_zero E starts)]
  constructor
  · rintro ⟨m, _, h2, r⟩; exact ⟨m, by omega, r⟩
  · rintro ⟨m, h, r⟩; exact ⟨m, Nat.zero_le _, by omega, r⟩

theorem walk_last {E s n q} (h : Walk E s n q) : q.getLast? = some s := by
  induction h with
  | nil => rfl
  | snoc _ _ ih => simpa using ih

/-- ancestors are descendants in the flipped graph (the code only swaps the join columns) -/
theorem flip_mem (E : List Edge) (a b : Nat) : (a, b) ∈ flipEdges E ↔ (b, a) ∈ E := by
  simp only [flipEdges, List.mem_map, Prod.mk.injEq]
  constructor
  · rintro ⟨⟨x, y⟩, h, rfl, rfl⟩; exact h
  · intro h; exact ⟨(b, a), h, rfl, rfl⟩

/-! ### multiplicity (count form): parallel edges give parallel rows -/

/-- number of edge sequences realising a node sequence (stored end first) -/
def mult (E : List Edge) : List Nat → Nat
  | t :: e :: p => E.count (e, t) * mult E (e :: p)
  | _ => 1

theorem count_snd_filter (E : List Edge) (e t : Nat) :
    ((E.filter fun ed => ed.1 = e).map Prod.snd).count t = E.count (e, t) := by
  induction E with
  | nil => simp
  | cons x xs ih =>
    obtain ⟨a, b⟩ := x
    by_cases h1 : a = e
    · subst h1
      by_cases h2 : b = t
      · subst h2; simp [List.filter_cons, ih]
      · have : ¬ (a, b) = (a, t) := by simp [h2]
        simp [List.filter_cons, ih, h2, List.count_cons, this]
    · have : ¬ (a, b) = (e, t) := by simp [h1]
      simp [List.filter_cons, h1, ih, List.count_cons, this]

theorem count_map_cons (l : List Nat) (t : Nat) (r r' : List Nat) :
    (l.map fun x => x :: r).count (t :: r') = if r = r' then l.count t else 0 := by
  induction l with
  | nil => simp
  | cons x xs ih =>
    simp only [List.map_cons, List.count_cons, ih]
    by_cases h : r = r'
    · subst h; simp
    · simp [h]

theorem count_extend (E : List Edge) (rows : List (List Nat)) (t e : Nat) (p : List Nat) :
    (extendRows E rows).count (t :: e :: p) = rows.count (e :: p) * E.count (e, t) := by
  induction rows with
  | nil => simp [extendRows]
  | cons r rows ih =>
    have hsplit : extendRows E (r :: rows) = extendRows E [r] ++ extendRows E rows := by
      simp [extendRows]
    rw [hsplit, List.count_append, ih]
    cases r with
    | nil => simp [extendRows, List.count_cons]
    | cons e' p' =>
      have hm : extendRows E [e' :: p']
          = ((E.filter fun ed => ed.1 = e').map Prod.snd).map fun x => x :: e' :: p' := by
        simp [extendRows, List.map_map]
      rw [hm, count_map_cons, List.count_cons]
      by_cases h : e' :: p' = e :: p
      · have he : e' = e := by injection h
        subst he
        have hb : (e' :: p' == e' :: p) = true := by simp [h]
        rw [if_pos h, count_snd_filter, if_pos hb, Nat.add_mul]
        omega
      · have hb : ¬ (e' :: p' == e :: p) = true := by simpa using h
        rw [if_neg h, if_neg hb, Nat.add_zero, Nat.zero_add]

theorem count_short_extend (E : List Edge) (rows : List (List Nat)) (q : List Nat) (h : q.length < 2) :
    (extendRows E rows).count q = 0 := by
  rw [List.count_eq_zero]
  intro hm
  obtain ⟨e, p, t, _, _, rfl⟩ := mem_extend.1 hm
  simp only [List.length_cons] at h
  omega

/-- level n holds every n-edge node sequence with multiplicity (#its start in `starts`) × (#edge
    sequences realising it) -/
def LevelCount (E : List Edge) (starts : List Nat) (n : Nat) (rows : List (List Nat)) : Prop :=
  ∀ q, rows.count q = if q.length = n + 1 then starts.count (q.getLast?.getD 0) * mult E q else 0

theorem levelCount_zero (E : List Edge) (starts : List Nat) :
    LevelCount E starts 0 (starts.map fun s => [s]) := by
  intro q
  induction starts with
  | nil => simp
  | cons s ss ih =>
    simp only [List.map_cons, List.count_cons, ih]
    match q with
    | [] => simp
    | [x] =>
      by_cases h : s = x
      · subst h; simp [mult]
      · have : ¬ x = s := fun e => h e.symm
        simp [mult, h, this]
    | _ :: _ :: _ => simp

theorem levelCount_succ {E : List Edge} {starts : List Nat} {n : Nat} {rows : List (List Nat)}
    (h : LevelCount E starts n rows) : LevelCount E starts (n+1) (extendRows E rows) := by
  intro q
  match q with
  | [] => simp [count_short_extend]
  | [x] => simp [count_short_extend]
  | t :: e :: p =>
    rw [count_extend, h (e :: p)]
    by_cases hl : (e :: p).length = n + 1
    · have : (t :: e :: p).length = n + 1 + 1 := by simp at hl ⊢; omega
      simp only [hl, this, if_true, mult]
      have : (t :: e :: p).getLast? = (e :: p).getLast? := by simp [List.getLast?_cons_cons]
      rw [this, Nat.mul_assoc, Nat.mul_comm (mult E (e :: p))]
    · have hl' : ¬ p.length = n := by simpa using hl
      simp [hl']

theorem count_levels {E : List Edge} {starts : List Nat} (k n : Nat) (rows : List (List Nat))
    (h : LevelCount E starts n rows) (q : List Nat) :
    (levels E k rows).flatten.count q =
      if n + 1 ≤ q.length ∧ q.length ≤ n + k + 1 then starts.count (q.getLast?.getD 0) * mult E q else 0 := by
  induction k generalizing n rows with
  | zero =>
    simp only [levels, List.flatten_cons, List.flatten_nil, List.append_nil, Nat.add_zero, h q]
    by_cases e : q.length = n + 1
    · have b : n + 1 ≤ q.length ∧ q.length ≤ n + 1 := by omega
      rw [if_pos e, if_pos b]
    · have b : ¬ (n + 1 ≤ q.length ∧ q.length ≤ n + 1) := by omega
      rw [if_neg e, if_neg b]
  | succ k ih =>
    simp only [levels, List.flatten_cons, List.count_append]
    rw [ih (n+1) (extendRows E rows) (levelCount_succ h), h q]
    by_cases e : q.length = n + 1
    · have a : ¬ (n + 1 + 1 ≤ q.length ∧ q.length ≤ n + 1 + k + 1) := by omega
      have b : n + 1 ≤ q.length ∧ q.length ≤ n + (k + 1) + 1 := by omega
      rw [if_pos e, if_neg a, if_pos b]; omega
    · by_cases f : n + 1 + 1 ≤ q.length ∧ q.length ≤ n + 1 + k + 1
      · have b : n + 1 ≤ q.length ∧ q.length ≤ n + (k + 1) + 1 := by omega
        rw [if_neg e, if_pos f, if_pos b]; omega
      · have b : ¬ (n + 1 ≤ q.length ∧ q.length ≤ n + (k + 1) + 1) := by omega
        rw [if_neg e, if_neg f, if_neg b]

/-- **C13 (count form)**: "one row per walk" — a node sequence of k ≤ cutoff edges appears as many
    times as there are (start occurrence, edge sequence) pairs realising it; parallel edges are
    distinct walks. Anything longer than the cut-off does not appear. -/
theorem findRelatives_count (E : List Edge) (starts : List Nat) (cutoff : Nat) (q : List Nat) :
    (findRelatives E starts cutoff).count q =
      if 1 ≤ q.length ∧ q.length ≤ cutoff + 1 then starts.count (q.getLast?.getD 0) * mult E q else 0 := by
  unfold findRelatives
  rw [count_levels cutoff 0 _ (levelCount_zero E starts)]
  simp

/-! ### acyclic input: the walk length is bounded, so "no cut-off" is a finite enumeration -/

def Acyclic (E : List Edge) : Prop := ∀ a, ¬ TransGen (C12.edge E) a a

theorem walk_reaches_end {E s n q} (h : Walk E s n q) :
    ∀ e p, q = e :: p → ∀ x ∈ q, ReflTransGen (C12.edge E) x e := by
  induction h with
  | nil => intro e p hq x hx; simp at hq hx; subst hx; rw [hq.1]
  | @snoc n p e t hw het ih =>
    intro e' p' hq x hx
    simp only [List.cons.injEq] at hq
    obtain ⟨rfl, _⟩ := hq
    simp only [List.mem_cons] at hx
    rcases hx with rfl | hx
    · exact ReflTransGen.refl
    · exact (ih e p rfl x (by simpa using hx)).tail het

theorem walk_nodup {E s n q} (hac : Acyclic E) (h : Walk E s n q) : q.Nodup := by
  induction h with
  | nil => simp
  | @snoc n p e t hw het ih =>
    refine List.nodup_cons.2 ⟨?_, ih⟩
    intro hmem
    have := walk_reaches_end hw e p rfl t hmem
    exact hac t (TransGen.tail' this het)

theorem walk_subset_verts {E s n q} (h : Walk E s (n+1) q) : ∀ x ∈ q, x ∈ verts E := by
  generalize hm : n + 1 = m at h
  induction h generalizing n with
  | nil => omega
  | @snoc n' p e t hw het ih =>
    intro x hx
    simp only [List.mem_cons] at hx
    rcases hx with rfl | hx
    · exact (C12.mem_verts het).2
    · cases n' with
      | zero =>
        cases hw
        simp at hx; subst hx; exact (C12.mem_verts het).1
      | succ k => exact ih rfl x (by simpa using hx)

/-- **dag_terminates**: on acyclic edges no walk has more than `|V| − 1` edges, so the level loop
    of `find_relatives` stops by itself and `cutoff = None` enumerates *all* walks. -/
theorem dag_walk_bound {E s n q} (hac : Acyclic E) (h : Walk E s (n+1) q) : n + 2 ≤ (verts E).length := by
  have hl := walk_length h
  have hn := walk_nodup hac h
  have hs := walk_subset_verts h
  have := (List.subperm_of_subset hn hs).length_le
  omega

theorem findRelativesNoCutoff_iff (E : List Edge) (hac : Acyclic E) (starts : List Nat) (q : List Nat) :
    q ∈ findRelativesNoCutoff E starts ↔ ∃ m, ∃ s ∈ starts, Walk E s m q := by
  unfold findRelativesNoCutoff
  rw [findRelatives_iff]
  constructor
  · rintro ⟨m, _, r⟩; exact ⟨m, r⟩
  · rintro ⟨m, s, hs, hw⟩
    refine ⟨m, ?_, s, hs, hw⟩
    cases m with
    | zero => omega
    | succ k => have := dag_walk_bound hac hw; omega

/-- **node paths**: every row is either the root with `name/`, or the end node of a walk of ≥ 1
    edges from the root together with the browse names along that walk (root included) joined by
    `/`; and every such walk gives a row. When the edges form a tree below the root there is one
    walk, hence one row, per node. -/
theorem nodePaths_iff (E : List Edge) (hac : Acyclic E) (root : Nat) (name : Nat → Str) (x : Nat) (s : Str) :
    (x, s) ∈ nodePaths E root name ↔
      (x = root ∧ s = name root ++ ['/']) ∨
      ∃ m q, Walk E root (m+1) q ∧ q.head? = some x ∧ s = joinSlash (q.reverse.map name) := by
  simp only [nodePaths, List.mem_append, List.mem_filterMap, List.mem_singleton, Prod.mk.injEq]
  constructor
  · rintro (⟨q, hq, hm⟩ | ⟨rfl, rfl⟩)
    · right
      obtain ⟨m, s0, hs0, hw⟩ := (findRelativesNoCutoff_iff E hac [root] q).1 hq
      simp only [List.mem_singleton] at hs0; subst hs0
      match q, hm, hw with
      | t :: e :: p, hm, hw =>
        simp only [Option.some.injEq, Prod.mk.injEq] at hm
        obtain ⟨rfl, rfl⟩ := hm
        cases m with
        | zero => cases hw
        | succ k => exact ⟨k, _, hw, rfl, rfl⟩
      | [], hm, _ => simp at hm
      | [_], hm, _ => simp at hm
    · exact Or.inl ⟨rfl, rfl⟩
  · rintro (⟨rfl, rfl⟩ | ⟨m, q, hw, hh, rfl⟩)
    · exact Or.inr ⟨rfl, rfl⟩
    · left
      refine ⟨q, (findRelativesNoCutoff_iff E hac [root] q).2 ⟨m+1, root, by simp, hw⟩, ?_⟩
      cases hw with
      | snoc hw' het => simp at hh; subst hh; rfl

/-! ### non-vacuity -/
example : findRelatives [(1,2),(1,3),(2,4),(3,4),(2,4)] [1] 2 =
    [[1], [2, 1], [3, 1], [4, 2, 1], [4, 2, 1], [4, 3, 1]] := by decide
example : Walk [(1,2),(2,4)] 1 2 [4, 2, 1] := Walk.snoc (Walk.snoc Walk.nil (by simp)) (by simp)
example : (findRelatives [(1,2),(2,4),(2,4)] [1] 5).count [4, 2, 1] = 2 := by decide

end Opcua.C13

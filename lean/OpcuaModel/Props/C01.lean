import OpcuaModel.Model.Parse
import OpcuaModel.Lemmas.MapE
import OpcuaModel.Lemmas.Str
import OpcuaModel.Props.C03
/-! # C01 — every declared node becomes exactly one faithful row of the nodes table. -/
namespace Opcua.C01
open Opcua

/-! ### helpers: batching -/

theorem batches_flatten {α} (k : Nat) (l : List α) : (batches k l).flatten = l := by
  fun_induction batches k l <;> simp_all

theorem mapE_flatten {α β ε} (f : α → Except ε β) (ls : List (List α)) :
    mapE f ls.flatten =
      match mapE (mapE f) ls with
      | .error e => .error e
      | .ok yss => .ok yss.flatten := by
  induction ls with
  | nil => simp [mapE]
  | cons l rest ih =>
    simp only [List.flatten_cons, mapE_append, mapE, ih]
    cases mapE f l with
    | error e => rfl
    | ok xs =>
      cases mapE (mapE f) rest with
      | error e => rfl
      | ok yss => rfl

/-- inversion of a successful `parseDoc` -/
theorem parseDoc_inv (g : List Str) (d : Doc) (k : Nat) (g1 : List Str) (p : ParsedDoc)
    (h : parseDoc g d k = .ok (g1, p)) :
    ∃ al rows trips,
      aliasTable (nsMapOf (extendNs (withUA g) d.uris).2) d.aliases = .ok al ∧ d.nodes ≠ [] ∧
      mapE (parseNode (nsMapOf (extendNs (withUA g) d.uris).2) al) d.nodes = .ok rows ∧
      mapE (fun q => mapE (parseRef (nsMapOf (extendNs (withUA g) d.uris).2) al q.2.nodeId) q.1.refs)
        (d.nodes.zip rows) = .ok trips ∧
      g1 = (extendNs (withUA g) d.uris).1 ∧ p = ⟨rows, dedup trips.flatten, d.models⟩ := by
  unfold parseDoc at h
  simp only at h
  split at h
  · simp at h
  · next al hal =>
    split at h
    · simp at h
    · next hne =>
      split at h
      · simp at h
      · next rowsB hrows =>
        split at h
        · simp at h
        · next trips htr =>
          simp only [Except.ok.injEq, Prod.mk.injEq] at h
          refine ⟨al, rowsB.flatten, trips, hal, hne, ?_, htr, h.1.symm, h.2.symm⟩
          have := mapE_flatten (parseNode (nsMapOf (extendNs (withUA g) d.uris).2) al) (batches k d.nodes)
          rw [batches_flatten, hrows] at this
          exact this

/-! ### property theorems -/

/-- **rows_length / one row per element**: a successful parse yields exactly one row per node
    element, in document order, and row i is computed from element i alone -/
theorem rows_pointwise (g : List Str) (d : Doc) (k : Nat) (g1 : List Str) (p : ParsedDoc)
    (h : parseDoc g d k = .ok (g1, p)) :
    p.nodes.length = d.nodes.length ∧
    ∃ al, aliasTable (nsMapOf (extendNs (withUA g) d.uris).2) d.aliases = .ok al ∧
      List.Forall₂ (fun e r => parseNode (nsMapOf (extendNs (withUA g) d.uris).2) al e = .ok r) d.nodes p.nodes := by
  obtain ⟨al, rows, trips, hal, _, hrows, _, _, hp⟩ := parseDoc_inv g d k g1 p h
  subst hp
  exact ⟨mapE_ok_length _ _ _ hrows, al, hal, mapE_ok_forall _ _ _ hrows⟩

/-- **batch_invariant**: the result does not depend on the parser's internal batch size —
    documents larger than a batch are parsed exactly like small ones -/
theorem batch_invariant (g : List Str) (d : Doc) (k k' : Nat) : parseDoc g d k = parseDoc g d k' := by
  unfold parseDoc
  simp only
  cases aliasTable (nsMapOf (extendNs (withUA g) d.uris).2) d.aliases with
  | error e => rfl
  | ok al =>
    simp only
    split
    · rfl
    · have h1 := mapE_flatten (parseNode (nsMapOf (extendNs (withUA g) d.uris).2) al) (batches k d.nodes)
      have h2 := mapE_flatten (parseNode (nsMapOf (extendNs (withUA g) d.uris).2) al) (batches k' d.nodes)
      rw [batches_flatten] at h1 h2
      cases hb : mapE (mapE (parseNode (nsMapOf (extendNs (withUA g) d.uris).2) al)) (batches k d.nodes) with
      | error e =>
        rw [hb] at h1
        cases hb' : mapE (mapE (parseNode (nsMapOf (extendNs (withUA g) d.uris).2) al)) (batches k' d.nodes) with
        | error e' => rw [hb'] at h2; simp only at h1 h2; rw [h1] at h2; injection h2 with e0; rw [e0]
        | ok r' => rw [hb'] at h2; simp only at h1 h2; rw [h1] at h2; simp at h2
      | ok r =>
        rw [hb] at h1
        cases hb' : mapE (mapE (parseNode (nsMapOf (extendNs (withUA g) d.uris).2) al)) (batches k' d.nodes) with
        | error e' => rw [hb'] at h2; simp only at h1 h2; rw [h1] at h2; simp at h2
        | ok r' =>
          rw [hb'] at h2; simp only at h1 h2; rw [h1] at h2
          injection h2 with e0
          simp only [e0]

/-- inversion of a successful `parseNode`: which element data each field of the row comes from -/
theorem row_fields (nsmap : List (Int × Int)) (al : List (Str × NodeId)) (e : NodeElem) (r : NodeRow)
    (h : parseNode nsmap al e = .ok r) :
    r.cls = e.cls ∧ r.display = firstText e.displayNames ∧ r.description = firstText e.descriptions ∧
    (∃ t, lookup kNodeId e.attrs = some t ∧ parseNodeId t nsmap (some al) = .ok r.nodeId) ∧
    optParse e.attrs kDataType nsmap al = .ok r.dataType ∧
    optParse e.attrs kParentNodeId nsmap al = .ok r.parent ∧
    optParse e.attrs kMethodDeclarationId nsmap al = .ok r.methodDecl ∧
    (∃ t k, lookup kBrowseName e.attrs = some t ∧ browseSplit t = .ok (k, r.browseName) ∧
        r.browseNs = lookup k nsmap) ∧
    mapE typedPair (e.attrs.filter fun p => !idAttrs.contains p.1) = .ok r.attrs ∧
    optDecode e.value = .ok r.value := by
  unfold parseNode at h
  split at h
  · simp at h
  · next t hn =>
    split at h
    · simp at h
    · next nid hp =>
      split at h
      · simp at h
      · next dt hdt =>
        split at h
        · simp at h
        · next pa hpa =>
          split at h
          · simp at h
          · next md hmd =>
            split at h
            · simp at h
            · next bt hb =>
              split at h
              · simp at h
              · next bk bn hbs =>
                split at h
                · simp at h
                · next others ho =>
                  split at h
                  · simp at h
                  · next val hv =>
                    simp only [Except.ok.injEq] at h
                    subst h
                    exact ⟨rfl, rfl, rfl, ⟨t, hn, hp⟩, hdt, hpa, hmd, ⟨bt, bk, hb, hbs, rfl⟩, ho, hv⟩

theorem mapE_typedPair_fst (l : List (Str × Str)) (ys : List (Str × AttrVal))
    (h : mapE typedPair l = .ok ys) : ys.map Prod.fst = l.map Prod.fst := by
  induction l generalizing ys with
  | nil => simp [mapE] at h; subst h; rfl
  | cons a as ih =>
    simp only [mapE] at h
    split at h
    · simp at h
    · next b hb =>
      split at h
      · simp at h
      · next bs hbs =>
        simp only [Except.ok.injEq] at h
        subst h
        unfold typedPair at hb
        split at hb
        · simp at hb
        · simp only [Except.ok.injEq] at hb
          simp [← hb, ih bs hbs]

/-- **attributes the element has / does not have**: the row lists exactly the element's other
    attributes, in document order, none added and none dropped -/
theorem attrs_exact (nsmap : List (Int × Int)) (al : List (Str × NodeId)) (e : NodeElem) (r : NodeRow)
    (h : parseNode nsmap al e = .ok r) :
    r.attrs.map Prod.fst = (e.attrs.filter fun p => !idAttrs.contains p.1).map Prod.fst :=
  mapE_typedPair_fst _ _ (row_fields nsmap al e r h).2.2.2.2.2.2.2.2.1

theorem colon_not_digit : ¬ IsDigit ':' := by decide

theorem takeWhile_all {α} (p : α → Bool) (l : List α) : ∀ c ∈ l.takeWhile p, p c = true := by
  induction l with
  | nil => simp
  | cons a as ih =>
    intro c hc
    simp only [List.takeWhile_cons] at hc
    split at hc
    · next hp =>
      simp only [List.mem_cons] at hc
      rcases hc with rfl | hc
      · exact hp
      · exact ih c hc
    · simp at hc

/-- **browse name, well-formed prefix**: `k:name` splits into namespace `k` and `name` … -/
theorem browse_split_partial (k : Int) (name : Str) (h : ':' ∉ name) :
    browseSplit (pyStrInt k ++ ':' :: name) = .ok (k, name) := by
  have hno : ':' ∉ pyStrInt k := by
    cases k with
    | ofNat n => simp only [pyStrInt]; exact fun hm => colon_not_digit (showNat_digits n _ hm)
    | negSucc n =>
      simp only [pyStrInt, List.mem_cons, not_or]
      exact ⟨by decide, fun hm => colon_not_digit (showNat_digits _ _ hm)⟩
  have hmem : ':' ∈ pyStrInt k ++ ':' :: name := by simp
  have hsp : ∀ (a b cur : Str), ':' ∉ a → splitAllAux ':' cur (a ++ ':' :: b) = (cur.reverse ++ a) :: splitAllAux ':' [] b := by
    intro a b cur ha
    induction a generalizing cur with
    | nil => simp [splitAllAux]
    | cons c cs ih =>
      have hc : c ≠ ':' := by intro e; apply ha; simp [e]
      have hcs : ':' ∉ cs := by intro e; apply ha; simp [e]
      simp only [List.cons_append, splitAllAux, hc, if_false]
      rw [ih (c :: cur) hcs]; simp
  have hend : ∀ (a cur : Str), ':' ∉ a → splitAllAux ':' cur a = [cur.reverse ++ a] := by
    intro a cur ha
    induction a generalizing cur with
    | nil => simp [splitAllAux]
    | cons c cs ih =>
      have hc : c ≠ ':' := by intro e; apply ha; simp [e]
      have hcs : ':' ∉ cs := by intro e; apply ha; simp [e]
      simp only [splitAllAux, hc, if_false]
      rw [ih (c :: cur) hcs]; simp
  unfold browseSplit
  rw [if_pos hmem]
  unfold splitAll
  rw [hsp (pyStrInt k) name [] hno, hend name [] h]
  simp [pyIntE, pyInt_pyStrInt, bind, Except.bind, pure, Except.pure]

/-- … and a name without prefix is namespace 0 -/
theorem browse_split_noprefix (name : Str) (h : ':' ∉ name) : browseSplit name = .ok (0, name) := by
  simp [browseSplit, h]

/-- the full statement ("everything after the first ':'") is false for the code as it is: a second
    ':' truncates the name (finding D-C01a) -/
theorem browse_split_fails_witness : browseSplit "1:a:b".toList = .ok (1, "a".toList) := by decide

/-- **trailing whitespace removed, nothing else**: `rstrip` only cuts a suffix of white space -/
theorem rstrip_spec (t : Str) : ∃ w, t = rstrip t ++ w ∧ ∀ c ∈ w, isSpace c = true := by
  unfold rstrip
  refine ⟨(t.reverse.takeWhile isSpace).reverse, ?_, ?_⟩
  · have := List.takeWhile_append_dropWhile (p := isSpace) (l := t.reverse)
    have h2 := congrArg List.reverse this
    simp only [List.reverse_append, List.reverse_reverse] at h2
    exact h2.symm
  · intro c hc
    simp only [List.mem_reverse] at hc
    exact takeWhile_all _ _ c hc

/-- the first DisplayName / Description is the one reported; absent or empty gives `""` -/
theorem firstText_spec (l : List (Option Str)) :
    firstText l = match l.head? with | some (some t) => rstrip t | _ => [] := by
  cases l with
  | nil => rfl
  | cons a as => cases a <;> rfl

/-- **node-reference attributes denote the node the document named** (literal form): a DataType /
    ParentNodeId / MethodDeclarationId written as a NodeId with local index `k+1` resolves, through
    the global list, to the document's own k-th namespace URI. (The alias form is `C09.alias_first`
    composed with the same statement for the alias definition.) -/
theorem node_ref_attr_denotes (e uris : List Str) (al : List (Str × NodeId)) (attrs : List (Str × Str)) (key : Str)
    (n : NodeId) (k : Nat) (hk : k < uris.length) (hn : n.ns = ((k : Nat) : Int) + 1) (hv : n.Valid)
    (hattr : lookup key attrs = some n.print) (hal : lookup n.print al = none) :
    ∃ g : Nat, optParse attrs key (nsMapOf (extendNs e uris).2) al = .ok (some { n with ns := (g : Int) }) ∧
      (extendNs e uris).1[g]? = uris[k]? := by
  obtain ⟨g, h1, h2⟩ := C03.parsed_id_denotes e uris n k hk hn hv
  refine ⟨g, ?_, h2⟩
  unfold optParse
  have : parseNodeId n.print (nsMapOf (extendNs e uris).2) (some al) =
      parseNodeId n.print (nsMapOf (extendNs e uris).2) none := by
    simp [parseNodeId, hal]
  simp only [hattr, this, h1]

/-- an attribute the element does not have is reported as missing -/
theorem absent_attr_missing (attrs : List (Str × Str)) (key : Str) (nsmap : List (Int × Int))
    (al : List (Str × NodeId)) (h : lookup key attrs = none) : optParse attrs key nsmap al = .ok none := by
  simp [optParse, h]

/-! ### non-vacuity: a concrete element satisfies the hypotheses -/
def demoElem : NodeElem :=
  { cls := "UAVariable".toList,
    attrs := [(kNodeId, "ns=1;s=a;b=c".toList), (kBrowseName, "1:Speed".toList),
              (kDataType, "Int32".toList), ("AccessLevel".toList, "3".toList)],
    displayNames := [some "Speed  ".toList, some "zweiter".toList], descriptions := [], refs := [] }

example : (parseNode (nsMapOf [4]) [("Int32".toList, ⟨0, .i, "6".toList⟩)] demoElem).map
      (fun r => (r.nodeId, r.browseName, r.browseNs, r.display)) =
    .ok (⟨4, .s, "a;b=c".toList⟩, "Speed".toList, some 4, "Speed".toList) := by decide +kernel
example : (parseNode (nsMapOf [4]) [("Int32".toList, ⟨0, .i, "6".toList⟩)] demoElem).map
      (fun r => (r.dataType, r.parent, r.attrs)) =
    .ok (some ⟨0, .i, "6".toList⟩, none, [("AccessLevel".toList, .int 3)]) := by decide +kernel

/-- **typed Value**: the row's Value is what `parse_value` makes of the element's Value child — for a
    value written by the library's own encoder that is the value itself (C08 `tree_roundtrip`) -/
theorem value_is_decoded (nsmap : List (Int × Int)) (al : List (Str × NodeId)) (e : NodeElem) (r : NodeRow)
    (h : parseNode nsmap al e = .ok r) : optDecode e.value = .ok r.value :=
  (row_fields nsmap al e r h).2.2.2.2.2.2.2.2.2

end Opcua.C01

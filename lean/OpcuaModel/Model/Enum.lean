import OpcuaModel.Model.Value
import OpcuaModel.Model.Parse
/-! # Enumeration values: `nodes_manipulation.transform_ints_to_enums`, `create_enum_definition_table`,
`create_enum_dict_from_enum_tuples`, `instantiate_enum_class`. -/
namespace Opcua
open Opcua.Xml (T TS)

structure ENode where
  id : Nat
  cls : Str
  browse : Str
  dataType : Option Nat
  value : Option Val

def kEnumeration : Str := "Enumeration".toList
def kEnumStrings : Str := "EnumStrings".toList
def kEnumValues : Str := "EnumValues".toList
def kUADataType : Str := "UADataType".toList
def kUAVar : Str := "UAVariable".toList
def kUnknown : Str := "Unknown".toList

def valsToList : ValS → List Val
  | .nil => []
  | .cons v vs => v :: valsToList vs

/-- text of the first descendant element whose tag contains `name` (how the code digs through the
    xmltodict of an EnumValueType body) -/
def kidContaining (name : Str) : TS → Option T
  | .nil => none
  | .cons t rest => if isInfix name t.tag then some t else kidContaining name rest

/-- one item of an enumeration definition → (value, text); `idx` is the position in the list -/
def enumItem (idx : Nat) (v : Val) : Except PyErr (Int × Option Str) :=
  match v with
  | .locText text _ => .ok ((idx : Int), text)
  | .extObj _ body =>
    -- `<EnumValueType><Value>n</Value><DisplayName><Text>t</Text></DisplayName>…`
    if isInfix "EnumValueType".toList body.tag then
      match kidContaining "Value".toList body.kids, kidContaining "DisplayName".toList body.kids with
      | some vt, some dn =>
        match kidContaining "Text".toList dn.kids with
        | some tx =>
          -- xmltodict strips white space around text content
          match (if isDigitStr (strip vt.text) then pyInt (strip vt.text) else none) with
          | some i => .ok (i, optOfText (strip tx.text))
          | none => .error .other                      -- a non-numeric value stays a string key: never matches an int
        | none => .error .indexError
      | _, _ => .error .indexError
    else .error .indexError
  | _ => .error .valueError

def enumItems : Nat → List Val → Except PyErr (List (Int × Option Str))
  | _, [] => .ok []
  | i, v :: vs =>
    match enumItem i v with
    | .error e => .error e
    | .ok p =>
      match enumItems (i + 1) vs with
      | .error e => .error e
      | .ok rest => .ok (p :: rest)

/-- `create_enum_dict_from_enum_tuples`: later items overwrite earlier ones with the same key -/
def enumDict (v : Val) : Except PyErr (List (Int × Option Str)) :=
  match v with
  | .list _ items =>
    match enumItems 0 (valsToList items) with
    | .error e => .error e
    | .ok [] => .error .valueError                     -- "The enum dict was not correctly iterated over"
    | .ok l => .ok l.reverse                           -- `lookup` finds the last assignment first
  | _ => .error .typeError

/-- the integer `instantiate_enum_class` takes from a value; `none` = "has not been handled" (ValueError) -/
def enumInt : Val → Option (Option Int)
  | .int .int32 v => some v
  | .enumeration v _ _ => some v
  | .list _ (.cons (.int .int32 v) _) => some v        -- a list value: only its first element is used
  | .list _ (.cons (.enumeration v _ _) _) => some v
  | _ => none

/-- `instantiate_enum_class` for one enum-typed variable; `defn` = (EnumName, EnumDict) of its DataType -/
def toEnumValue (defn : Option (Str × List (Int × Option Str))) (v : Val) : Except PyErr Val :=
  match enumInt v with
  | none => .error .valueError
  | some oi =>
    match defn with
    | none => .ok (.enumeration oi kUnknown kUnknown)
    | some (name, dict) =>
      match oi with
      | none => .error .keyError
      | some i =>
        match lookup i dict with
        | none => .error .keyError                      -- the integer has no defined string
        | some none => .error .typeError                -- a definition without text: "String must be a string"
        | some (some s) => .ok (.enumeration (some i) s name)

def transformNode (isEnumType : Nat → Bool) (defs : Nat → Option (Str × List (Int × Option Str))) (n : ENode) :
    Except PyErr ENode :=
  match n.dataType with
  | none => .ok n
  | some dt =>
    if n.cls = kUAVar ∧ isEnumType dt = true then
      match n.value with
      | none => .ok n
      | some v =>
        match toEnumValue (defs dt) v with
        | .error e => .error e
        | .ok v' => .ok { n with value := some v' }
    else .ok n

/-- the DataTypes that count as enumerations: targets of the references leaving the (unique)
    `Enumeration` data type whose type, source and target are nodes of the graph -/
def enumTypeIds (nodes : List ENode) (refs : List (Nat × Nat × Nat)) : Except PyErr (Option (List Nat)) :=
  if !(nodes.any fun n => n.browse = kEnumeration) then .ok none
  else
    match nodes.filter fun n => n.cls = kUADataType ∧ n.browse = kEnumeration with
    | [e] =>
      let ids := nodes.map (·.id)
      .ok (some ((refs.filter fun r => r.1 = e.id ∧ ids.contains r.2.1 ∧ ids.contains r.2.2).map (·.2.1)))
    | _ => .error .valueError

/-- `create_enum_definition_table`: for a data type, the first HasProperty target named EnumStrings or
    EnumValues that holds a value (any other property of the data type is not its definition) -/
def enumDef (nodes : List ENode) (refs : List (Nat × Nat × Nat)) (hasProperty : Nat) (dt : Nat) :
    Except PyErr (Option (Str × List (Int × Option Str))) :=
  match nodes.find? fun n => n.id = dt with
  | none => .ok none
  | some dtn =>
    let props := (refs.filter fun r => r.1 = dt ∧ r.2.2 = hasProperty).map (·.2.1)
    let withVal := props.filterMap fun p => (nodes.find? fun n => n.id = p).bind
      (fun n => if n.browse = kEnumStrings ∨ n.browse = kEnumValues then n.value else none)
    match withVal with
    | [] => .ok none
    | v :: _ =>
      match enumDict v with
      | .error e => .error e
      | .ok d => .ok (some (dtn.browse, d))

/-- `transform_ints_to_enums` -/
def transformEnums (nodes : List ENode) (refs : List (Nat × Nat × Nat)) (hasProperty : Option Nat) : Except PyErr (List ENode) :=
  match enumTypeIds nodes refs with
  | .error e => .error e
  | .ok none => .ok nodes
  | .ok (some tids) =>
    let vars := nodes.filter fun n => decide (n.cls = kUAVar) && (match n.dataType with | some d => tids.contains d | none => false)
    if vars = [] then .ok nodes
    else
      match hasProperty with
      | none => .error .valueError
      | some hp =>
        let dts := uniques (vars.filterMap (·.dataType))
        match mapE (fun d => match enumDef nodes refs hp d with | .ok x => Except.ok (d, x) | .error e => .error e) dts with
        | .error e => .error e
        | .ok table =>
          mapE (transformNode (fun d => tids.contains d) (fun d => (lookup d table).bind id)) nodes

end Opcua

import OpcuaModel.Model.Prelude
/-! # XmlLite: escaping (`saxutils.escape`), entity decoding, a character-level XML lexer (state machine,
structural, no fuel), a token-to-tree builder, and the writer's layout trees.  This is the model of
"a conforming XML reader" for the dialect the generator emits (elements, double-quoted attributes,
text, the five named entities).  Mathlib-free. -/
namespace Opcua.Xml
open Opcua







/-- `xml.sax.saxutils.escape` -/
def escText : Str → Str
  | [] => []
  | c :: cs =>
    if c = '&' then '&' :: 'a' :: 'm' :: 'p' :: ';' :: escText cs
    else if c = '<' then '&' :: 'l' :: 't' :: ';' :: escText cs
    else if c = '>' then '&' :: 'g' :: 't' :: ';' :: escText cs
    else c :: escText cs


/-- `escape(s, {'"': "&quot;"})` — the repaired attribute escaping -/
def escAttr : Str → Str
  | [] => []
  | c :: cs =>
    if c = '&' then '&' :: 'a' :: 'm' :: 'p' :: ';' :: escAttr cs
    else if c = '<' then '&' :: 'l' :: 't' :: ';' :: escAttr cs
    else if c = '>' then '&' :: 'g' :: 't' :: ';' :: escAttr cs
    else if c = '"' then '&' :: 'q' :: 'u' :: 'o' :: 't' :: ';' :: escAttr cs
    else c :: escAttr cs


/-- entity decoding as an XML reader does it (named entities only) -/
def decode : Str → Option Str
  | [] => some []
  | c :: cs =>
    if c = '&' then
      match cs with
      | 'a' :: 'm' :: 'p' :: ';' :: r => (decode r).map ('&' :: ·)
      | 'l' :: 't' :: ';' :: r => (decode r).map ('<' :: ·)
      | 'g' :: 't' :: ';' :: r => (decode r).map ('>' :: ·)
      | 'q' :: 'u' :: 'o' :: 't' :: ';' :: r => (decode r).map ('"' :: ·)
      | 'a' :: 'p' :: 'o' :: 's' :: ';' :: r => (decode r).map ('\'' :: ·)
      | _ => none
    else (decode cs).map (c :: ·)
termination_by s => s.length
decreasing_by all_goals simp_wf <;> omega


/-- text content is escaped either with `escape` or with the quote-aware variant (both decode to the text) -/
def escOf (qesc : Bool) (s : Str) : Str := if qesc then escAttr s else escText s

def isNameChar (c : Char) : Bool :=
  c.isAlphanum || c == ':' || c == '_' || c == '-' || c == '.'

def isWs (c : Char) : Bool := c == ' ' || c == '\n' || c == '\t'


inductive Tok
  | open (tag : Str) (attrs : List (Str × Str))
  | close (tag : Str)
  | text (s : Str)
deriving DecidableEq, Repr


inductive St
  | text (acc : Str)
  | lt
  | oname (n : Str)
  | inTag (n : Str) (as : List (Str × Str))
  | aname (n : Str) (as : List (Str × Str)) (k : Str)
  | aeq (n : Str) (as : List (Str × Str)) (k : Str)
  | aval (n : Str) (as : List (Str × Str)) (k : Str) (v : Str)
  | sc (n : Str) (as : List (Str × Str))
  | cname (n : Str)
  | err
deriving DecidableEq, Repr


/-- flush pending raw text as a decoded text token -/
def flush (toks : List Tok) (acc : Str) : Option (List Tok) :=
  if acc = [] then some toks else (decode acc).map fun s => toks ++ [Tok.text s]


def step : List Tok × St → Char → List Tok × St
  | (ts, .text acc), c =>
    if c = '<' then
      match flush ts acc with
      | some ts' => (ts', .lt)
      | none => (ts, .err)
    else (ts, .text (acc ++ [c]))
  | (ts, .lt), c =>
    if c = '/' then (ts, .cname [])
    else if isNameChar c then (ts, .oname [c]) else (ts, .err)
  | (ts, .oname n), c =>
    if isNameChar c then (ts, .oname (n ++ [c]))
    else if isWs c then (ts, .inTag n [])
    else if c = '>' then (ts ++ [.open n []], .text [])
    else if c = '/' then (ts, .sc n [])
    else (ts, .err)
  | (ts, .inTag n as), c =>
    if isWs c then (ts, .inTag n as)
    else if c = '>' then (ts ++ [.open n as], .text [])
    else if c = '/' then (ts, .sc n as)
    else if isNameChar c then (ts, .aname n as [c])
    else (ts, .err)
  | (ts, .aname n as k), c =>
    if isNameChar c then (ts, .aname n as (k ++ [c]))
    else if c = '=' then (ts, .aeq n as k)
    else (ts, .err)
  | (ts, .aeq n as k), c =>
    if c = '"' then (ts, .aval n as k []) else (ts, .err)
  | (ts, .aval n as k v), c =>
    if c = '"' then
      match decode v with
      | some d => (ts, .inTag n (as ++ [(k, d)]))
      | none => (ts, .err)
    else if c = '<' then (ts, .err)
    else (ts, .aval n as k (v ++ [c]))
  | (ts, .sc n as), c =>
    if c = '>' then (ts ++ [.open n as, .close n], .text []) else (ts, .err)
  | (ts, .cname n), c =>
    if isNameChar c then (ts, .cname (n ++ [c]))
    else if c = '>' then (ts ++ [.close n], .text [])
    else (ts, .err)
  | (ts, .err), _ => (ts, .err)


def run (st : List Tok × St) (s : Str) : List Tok × St := s.foldl step st


/-- finish: pending text is flushed -/
def lex (s : Str) : Option (List Tok) :=
  match run ([], .text []) s with
  | (ts, .text acc) => flush ts acc
  | _ => none


def NameOK (n : Str) : Prop := n ≠ [] ∧ ∀ c ∈ n, isNameChar c = true
instance (n : Str) : Decidable (NameOK n) := by unfold NameOK; infer_instance


/-! ### segment lemmas -/


structure PAttr where
  ws : Str
  k : Str
  v : Str


def PAttr.OK (a : PAttr) : Prop := (∀ c ∈ a.ws, isWs c = true) ∧ NameOK a.k


def printAttr (a : PAttr) : Str := a.ws ++ a.k ++ ['=', '"'] ++ escAttr a.v ++ ['"']


def printAttrs (as : List PAttr) : Str := as.flatMap printAttr


/-- `<tag attr… trail>`; the code's layout puts its own blanks in `ws`/`trail` -/
def printOpen (tag : Str) (ps : List PAttr) (trail : Str) : Str :=
  '<' :: (tag ++ (printAttrs ps ++ (trail ++ ['>'])))


def printClose (tag : Str) : Str := '<' :: '/' :: (tag ++ ['>'])


/-- an open tag is well laid out if the first thing after the name is blank or `>` -/
def OpenOK (tag : Str) (ps : List PAttr) (trail : Str) : Prop :=
  NameOK tag ∧ (∀ a ∈ ps, a.OK) ∧ (∀ c ∈ trail, isWs c = true) ∧
  (∀ a, ps.head? = some a → a.ws ≠ [])


/-! ### trees: layout-carrying `X` (what the writer emits) and data tree `T` (what a reader sees) -/

mutual
inductive X
  | node (tag : Str) (attrs : List PAttr) (trail : Str) (qesc : Bool) (text : Str) (kids : XS)
inductive XS
  | nil
  | cons (x : X) (xs : XS)
end


mutual
inductive T
  | node (tag : Str) (attrs : List (Str × Str)) (text : Str) (kids : TS)
inductive TS
  | nil
  | cons (t : T) (ts : TS)
end


mutual
def render : X → Str
  | .node tag attrs trail qesc text kids =>
    printOpen tag attrs trail ++ (escOf qesc text ++ (renderS kids ++ printClose tag))
def renderS : XS → Str
  | .nil => []
  | .cons x xs => render x ++ renderS xs
end


mutual
def strip : X → T
  | .node tag attrs _ _ text kids => .node tag (attrs.map fun a => (a.k, a.v)) text (stripS kids)
def stripS : XS → TS
  | .nil => .nil
  | .cons x xs => .cons (strip x) (stripS xs)
end


def textTok (s : Str) : List Tok := if s = [] then [] else [Tok.text s]


mutual
def tokens : T → List Tok
  | .node tag attrs text kids =>
    Tok.open tag attrs :: (textTok text ++ (tokensS kids ++ [Tok.close tag]))
def tokensS : TS → List Tok
  | .nil => []
  | .cons t ts => tokens t ++ tokensS ts
end


mutual
def WF : X → Prop
  | .node tag attrs trail _ _ kids => OpenOK tag attrs trail ∧ WFS kids
def WFS : XS → Prop
  | .nil => True
  | .cons x xs => WF x ∧ WFS xs
end


def takeText : List Tok → Str × List Tok
  | .text s :: r => (s, r)
  | l => ([], l)


mutual
def buildNode : Nat → List Tok → Option (T × List Tok)
  | 0, _ => none
  | f+1, toks =>
    match toks with
    | .open tag as :: r =>
      let tr := takeText r
      match buildKids f tr.2 with
      | some (kids, .close tag' :: r2) =>
        if tag' = tag then some (.node tag as tr.1 kids, r2) else none
      | _ => none
    | _ => none
def buildKids : Nat → List Tok → Option (TS × List Tok)
  | 0, _ => none
  | f+1, toks =>
    match toks with
    | .open tag as :: r =>
      match buildNode f (.open tag as :: r) with
      | some (k, r1) =>
        match buildKids f r1 with
        | some (ks, r2) => some (.cons k ks, r2)
        | none => none
      | none => none
    | _ => some (.nil, toks)
end


mutual
def sizeT : T → Nat
  | .node _ _ _ kids => 2 + sizeTS kids
def sizeTS : TS → Nat
  | .nil => 1
  | .cons t ts => 1 + sizeT t + sizeTS ts
end


/-- the reader: characters → tree -/
def parseXml (s : Str) : Option T :=
  match lex s with
  | some toks =>
    match buildNode (2 * toks.length) toks with
    | some (t, []) => some t
    | _ => none
  | none => none


def T.tag : T → Str | .node t _ _ _ => t
def T.attrs : T → List (Str × Str) | .node _ a _ _ => a
def T.text : T → Str | .node _ _ t _ => t
def T.kids : T → TS | .node _ _ _ k => k

end Opcua.Xml

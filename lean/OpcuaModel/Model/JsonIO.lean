import Lean.Data.Json
import OpcuaModel.Model.NodeId
/-! JSON plumbing for the line-protocol driver (not part of the verified model). -/
namespace Opcua.IO
open Lean

def strOf (s : String) : Str := s.toList
def ofStr (s : Str) : String := String.ofList s

def getStr (j : Json) (k : String) : Except String Str := do
  let v ← j.getObjVal? k
  let s ← v.getStr?
  return strOf s

def getStrOpt (j : Json) (k : String) : Option Str :=
  match j.getObjVal? k with
  | .ok (.str s) => some (strOf s)
  | _ => none

def getInt (j : Json) (k : String) : Except String Int := do
  let v ← j.getObjVal? k
  v.getInt?

def getNat (j : Json) (k : String) : Except String Nat := do
  let v ← j.getObjVal? k
  v.getNat?

def getBool (j : Json) (k : String) : Except String Bool := do
  let v ← j.getObjVal? k
  v.getBool?

def getArr (j : Json) (k : String) : Except String (Array Json) := do
  let v ← j.getObjVal? k
  v.getArr?

def has (j : Json) (k : String) : Bool :=
  match j.getObjVal? k with
  | .ok .null => false
  | .ok _ => true
  | _ => false

def idTypeOfJson (j : Json) : Except String IdType := do
  let s ← j.getStr?
  match IdType.ofStr (strOf s) with
  | some t => return t
  | none => throw s!"bad id type {s}"

/-- NodeId as `[ns, "s", "ident"]` -/
def nodeIdOfJson (j : Json) : Except String NodeId := do
  let a ← j.getArr?
  if a.size != 3 then throw "nodeid: expected 3 items"
  let ns ← a[0]!.getInt?
  let ty ← idTypeOfJson a[1]!
  let v ← a[2]!.getStr?
  return ⟨ns, ty, strOf v⟩

def nodeIdToJson (n : NodeId) : Json :=
  Json.arr #[Json.num (JsonNumber.fromInt n.ns), Json.str (String.singleton n.ty.char), Json.str (ofStr n.ident)]

def errJson (e : PyErr) : Json := Json.mkObj [("err", Json.str e.name)]

end Opcua.IO

import OpcuaModel.Model.Prelude
/-! # Ordering of UA values (`ua_data_types.lt/le/gt/ge`) and canonical sorting of tables
(`UAGraph.get_normalized_nodes_df / get_normalized_references_df`). -/
namespace Opcua

/-- what the comparison functions look at: the class name and `str(astuple(value))` -/
structure Key where
  cls : Str
  rep : Str
deriving DecidableEq, Repr, Inhabited

def sle (a b : Str) : Bool := slt a b || a == b

/-- `lt(u1, u2)` -/
def Key.lt (a b : Key) : Bool := if a.cls ≠ b.cls then slt a.cls b.cls else slt a.rep b.rep
/-- `le(u1, u2)` -/
def Key.le (a b : Key) : Bool := if a.cls ≠ b.cls then sle a.cls b.cls else sle a.rep b.rep
/-- `gt(u1, u2) = lt(u2, u1)` -/
def Key.gt (a b : Key) : Bool := Key.lt b a
/-- `ge(u1, u2) = le(u2, u1)` -/
def Key.ge (a b : Key) : Bool := Key.le b a

/-- a cell of a table: missing values sort last (`na_position="last"`) -/
def optLt {α} (lt : α → α → Bool) : Option α → Option α → Bool
  | some a, some b => lt a b
  | some _, none => true
  | none, _ => false

abbrev Cell := Option Key
abbrev Row := List Cell

def rowLt : Row → Row → Bool := lexLt (optLt Key.lt)
def rowLe (a b : Row) : Bool := !rowLt b a

/-- `sort_values(by=all columns, ignore_index=True)` -/
def sortRows (rows : List Row) : List Row := rows.mergeSort rowLe

/-- a node row of a graph: internal id, the NodeId (as a key), three id-valued columns, other cells -/
structure NRow where
  id : Nat
  nid : Key
  parent : Option Nat
  dtype : Option Nat
  mdecl : Option Nat
  rest : Row
deriving DecidableEq, Repr

/-- `create_lookup_df` + join: id → NodeId of the first row with that id -/
def lookupId (nodes : List NRow) (i : Nat) : Cell := (nodes.find? fun r => r.id = i).map (·.nid)

/-- `denormalize_nodes_nodeids` + `drop(columns=["id"])` -/
def denormNode (nodes : List NRow) (r : NRow) : Row :=
  some r.nid :: r.parent.bind (lookupId nodes) :: r.dtype.bind (lookupId nodes) ::
    r.mdecl.bind (lookupId nodes) :: r.rest

/-- `get_normalized_nodes_df()` -/
def normalizedNodes (nodes : List NRow) : List Row := sortRows (nodes.map (denormNode nodes))

/-- `denormalize_references_nodeids` + sort -/
def normalizedRefs (nodes : List NRow) (refs : List (Nat × Nat × Nat)) : List Row :=
  sortRows (refs.map fun r => [lookupId nodes r.1, lookupId nodes r.2.1, lookupId nodes r.2.2])

def renumberNode (π : Nat → Nat) (r : NRow) : NRow :=
  { r with id := π r.id, parent := r.parent.map π, dtype := r.dtype.map π, mdecl := r.mdecl.map π }

end Opcua

namespace Opcua
/-- a dataclass field as `==` sees it: the `pd.NA` singleton, `None`, or an ordinary value -/
inductive Fld
  | na | pyNone | atom (s : Str)
deriving DecidableEq, Repr

/-- `PyObject_RichCompareBool(x, y, Py_EQ)`: identity first, then `bool(x == y)`;
    `pd.NA == anything` is `pd.NA`, whose truth value raises `TypeError` -/
def fldEq : Fld → Fld → Except PyErr Bool
  | .na, .na => .ok true
  | .na, _ => .error .typeError
  | _, .na => .error .typeError
  | a, b => .ok (a == b)

/-- tuple `==`: scan to the first unequal pair, then compare lengths -/
def tupleEq : List Fld → List Fld → Except PyErr Bool
  | [], [] => .ok true
  | [], _ :: _ => .ok false
  | _ :: _, [] => .ok false
  | a :: as, b :: bs =>
    match fldEq a b with
    | .error e => .error e
    | .ok false => .ok false
    | .ok true => tupleEq as bs

/-- dataclass `__eq__` (`eq=True`): same class, then the field tuples -/
def valEq (c₁ : Str) (f₁ : List Fld) (c₂ : Str) (f₂ : List Fld) : Except PyErr Bool :=
  if c₁ ≠ c₂ then .ok false else tupleEq f₁ f₂
end Opcua

import OpcuaModel.Model.Prelude
/-! # The side-file protocol of `nodeset_parser.iterparse_xml` / `json_parser.parse.pre_process_xml_to_json`

One parse of one input file is a small-step program over a file-system map. Every step is one
file-system, XML or JSON operation of the real code (the operations the harness intercepts):

```
start      os.path.isfile(side)        (a failing `stat` is swallowed by isfile: the answer is then False)
preRead    ET.parse(xml)                                  (pre_process_xml_to_json)
preDecode  build the header lines in memory (json.dumps, parse_nodeid of the aliases)
preCreate  open(side, "w")
preWrite   write(content); close
wclean     except-handler of the write: quiet os.remove(side); re-raise
rdOpen     open(side); readlines
fin        finally-block: quiet os.remove(side)
decode     json.loads per line, extend_namespace_map
body       ET.iterparse(xml) and the element loop
```

File contents are abstract: `doc c` is an input document with content id `c`, `side g ho` a side file
holding header `ho` (`none`: created, nothing written yet); `g` identifies the file object (inode):
it is the id of the parser that created it. A write goes through the handle obtained at creation, so
it is visible only while the path still names that same file object; `open(…, "w")` on an existing
side file truncates it and keeps the file object. What the content functions do is a
parameter `Sem` (they are modelled in Model/Parse.lean); the protocol theorems hold for every `Sem`.
A fault flag makes an operation raise instead of being performed; a schedule interleaves several
parsers over one shared file system. -/
namespace Opcua.Proto

inductive File
  | doc (c : Nat)
  | side (g : Nat) (ho : Option Nat)
deriving DecidableEq, Repr

inductive Err
  | io          -- file missing: FileNotFoundError / OSError
  | syntax      -- not an XML document: XMLSyntaxError
  | decode      -- header cannot be decoded: bad alias, bad JSON line
  | element     -- a malformed element met while iterating
  | fault       -- injected failure
deriving DecidableEq, Repr

inductive Res
  | ok (r : Nat)
  | err (e : Err)
deriving DecidableEq, Repr

/-- what was read from the side file -/
inductive Lines
  | hdr (ho : Option Nat)
  | junk
deriving DecidableEq, Repr

/-- the content-level functions: is the document well formed, its header (if it can be decoded),
    and the result of the element loop given the document and the header that was read -/
structure Sem where
  wf : Nat → Bool
  header : Nat → Option Nat
  body : Nat → Option Nat → Option Nat

inductive PC
  | start
  | preRead
  | preDecode (c : Nat)
  | preCreate (h : Nat)
  | preWrite (h : Nat) (g : Nat)
  | wclean
  | rdOpen
  | fin (x : Except Err Lines)
  | decode (l : Lines)
  | body (ho : Option Nat)
  | done (r : Res)
deriving Repr

abbrev FS (P : Type) := P → Option File

def upd {P : Type} [DecidableEq P] (fs : FS P) (k : P) (v : Option File) : FS P :=
  fun j => if j = k then v else fs j

structure Proc (P : Type) where
  pid : Nat
  xml : P
  side : P
  pc : PC

variable {P : Type} [DecidableEq P]

def Proc.to (p : Proc P) (pc : PC) : Proc P := { p with pc := pc }

/-- reading the input as an XML document -/
def readXml (S : Sem) (fs : FS P) (x : P) : Except Err Nat :=
  match fs x with
  | none => .error .io
  | some (.side _ _) => .error .syntax
  | some (.doc c) => if S.wf c then .ok c else .error .syntax

/-- one operation of one parser; `f = true`: the operation raises instead of being performed.
    The two clean-up operations and `done` cannot be made to raise. -/
def step (S : Sem) (f : Bool) (fs : FS P) (p : Proc P) : FS P × Proc P :=
  match p.pc with
  | .start =>
    -- `os.path.isfile` swallows an I/O error of the underlying `stat` and answers False
    if f then (fs, p.to .preRead)
    else if (fs p.side).isSome then (fs, p.to .rdOpen) else (fs, p.to .preRead)
  | .preRead =>
    if f then (fs, p.to (.done (.err .fault)))
    else match readXml S fs p.xml with
      | .error e => (fs, p.to (.done (.err e)))
      | .ok c => (fs, p.to (.preDecode c))
  | .preDecode c =>
    if f then (fs, p.to (.done (.err .fault)))
    else match S.header c with
      | none => (fs, p.to (.done (.err .decode)))
      | some h => (fs, p.to (.preCreate h))
  | .preCreate h =>
    if f then (fs, p.to .wclean)
    else match fs p.side with
      | some (.side g _) => (upd fs p.side (some (.side g none)), p.to (.preWrite h g))
      | _ => (upd fs p.side (some (.side p.pid none)), p.to (.preWrite h p.pid))
  | .preWrite h g =>
    if f then (fs, p.to .wclean)
    else match fs p.side with
      | some (.side g' _) =>
        if g' = g then (upd fs p.side (some (.side g (some h))), p.to .rdOpen) else (fs, p.to .rdOpen)
      | _ => (fs, p.to .rdOpen)
  | .wclean => (upd fs p.side none, p.to (.done (.err .fault)))
  | .rdOpen =>
    if f then (fs, p.to (.fin (.error .fault)))
    else match fs p.side with
      | none => (fs, p.to (.fin (.error .io)))
      | some (.side _ ho) => (fs, p.to (.fin (.ok (.hdr ho))))
      | some (.doc _) => (fs, p.to (.fin (.ok .junk)))
  | .fin x =>
    (upd fs p.side none,
      match x with
      | .error e => p.to (.done (.err e))
      | .ok l => p.to (.decode l))
  | .decode l =>
    if f then (fs, p.to (.done (.err .fault)))
    else match l with
      | .junk => (fs, p.to (.done (.err .decode)))
      | .hdr ho => (fs, p.to (.body ho))
  | .body ho =>
    if f then (fs, p.to (.done (.err .fault)))
    else match readXml S fs p.xml with
      | .error e => (fs, p.to (.done (.err e)))
      | .ok c =>
        match S.body c ho with
        | none => (fs, p.to (.done (.err .element)))
        | some r => (fs, p.to (.done (.ok r)))
  | .done _ => (fs, p)

/-- `n` operations of one parser; `flt i` says whether the operation with index `i` raises
    (any set of failing operations, not only a single one) -/
def runF (S : Sem) (flt : Nat → Bool) : Nat → Nat → FS P × Proc P → FS P × Proc P
  | 0, _, s => s
  | n+1, i, s => runF S flt n (i+1) (step S (flt i) s.1 s.2)

/-- a single fault position (`none`: no fault) -/
def oneFault (k : Option Nat) : Nat → Bool := fun i => k == some i

def soloF (S : Sem) (k : Option Nat) (n i : Nat) (s : FS P × Proc P) : FS P × Proc P :=
  runF S (oneFault k) n i s

/-- fault-free run -/
def solo (S : Sem) (n : Nat) (s : FS P × Proc P) : FS P × Proc P := soloF S none n 0 s

/-- the longest path through the protocol has 9 operations -/
def fuel : Nat := 10

/-- what a lone, fault-free parse of a document with content `c` returns -/
def lone (S : Sem) (c : Nat) : Res :=
  if S.wf c then
    match S.header c with
    | none => .err .decode
    | some h =>
      match S.body c (some h) with
      | none => .err .element
      | some r => .ok r
  else .err .syntax

/-- … and of whatever is found at the input path -/
def loneFile (S : Sem) : Option File → Res
  | none => .err .io
  | some (.side _ _) => .err .syntax
  | some (.doc c) => lone S c

/-- several parsers under a schedule: entry `i` lets parser `i` perform its next operation -/
def runN (S : Sem) : List Nat → FS P × (Nat → Proc P) → FS P × (Nat → Proc P)
  | [], s => s
  | i :: r, (fs, ps) =>
    let q := step S false fs (ps i)
    runN S r (q.1, fun j => if j = i then q.2 else ps j)

/-- a history of one directory entry: the input is rewritten, or parsed with a fault position -/
inductive HOp
  | edit (c : Nat)
  | remove
  | parse (k : Option Nat)
deriving Repr

def start (x s : P) (pid : Nat := 0) : Proc P := ⟨pid, x, s, .start⟩

/-- run a history on input `x` with side-file name `s`; collects the outcome of every parse -/
def history (S : Sem) (x s : P) : List HOp → FS P → FS P × List PC
  | [], fs => (fs, [])
  | .edit c :: r, fs => history S x s r (upd fs x (some (.doc c)))
  | .remove :: r, fs => history S x s r (upd fs x none)
  | .parse k :: r, fs =>
    let q := soloF S k fuel 0 (fs, start x s)
    let rest := history S x s r q.1
    (rest.1, q.2.pc :: rest.2)

/-- `parse_xml_files`: the files one after the other, stopping at the first failure -/
def parseMany (S : Sem) (side : P → P) : List P → FS P → FS P × List PC
  | [], fs => (fs, [])
  | x :: r, fs =>
    let q := solo S fuel (fs, start x (side x))
    match q.2.pc with
    | .done (.ok _) =>
      let rest := parseMany S side r q.1
      (rest.1, q.2.pc :: rest.2)
    | pc => (q.1, [pc])

/-! ### the process-wide NodeId cache (`functools.cache` around a pure function) -/
def cacheGet {K V : Type} [DecidableEq K] (f : K → V) (cache : List (K × V)) (k : K) : List (K × V) × V :=
  match cache.lookup k with
  | some v => (cache, v)
  | none => ((k, f k) :: cache, f k)

/-! ### observation of the operations performed (the trace the harness compares with the real calls) -/
def PC.label : PC → String
  | .start => "isfile" | .preRead => "xmlparse" | .preDecode _ => "encode" | .preCreate _ => "create"
  | .preWrite _ _ => "write" | .wclean => "wclean" | .rdOpen => "read" | .fin _ => "remove"
  | .decode _ => "decode" | .body _ => "iterate" | .done _ => "done"

def PC.isDone : PC → Bool
  | .done _ => true
  | _ => false

/-- the operations `runF` performs, in order -/
def traceF (S : Sem) (flt : Nat → Bool) : Nat → Nat → FS P × Proc P → List String
  | 0, _, _ => []
  | n+1, i, s =>
    if s.2.pc.isDone then [] else s.2.pc.label :: traceF S flt n (i+1) (step S (flt i) s.1 s.2)

/-- the operations `runN` performs, in order, with the parser that performs each -/
def traceN (S : Sem) : List Nat → FS P × (Nat → Proc P) → List (Nat × String)
  | [], _ => []
  | i :: r, (fs, ps) =>
    let q := step S false fs (ps i)
    (i, (ps i).pc.label) :: traceN S r (q.1, fun j => if j = i then q.2 else ps j)

end Opcua.Proto

import OpcuaModel.Model.Prelude
/-! # Graph construction checks and write-time validation:
`UAGraph.__validate_referenced_nodes_exists`, `validator.missing_nodes`, the `*_by_browsename`
look-ups (`__ua_nodeclass_by_browsename`, `resolve_ids_from_browsenames`), and
`validator.value_validator.validate_values_in_df` with `constants.DATA_TYPES_MAPPING`. -/
namespace Opcua

abbrev RefRow := Nat × Nat × Nat          -- (Src, Trg, ReferenceType) as ids

/-- which end is missing, and the references concerned -/
inductive ClosedErr
  | missingSource (rows : List RefRow)     -- listed by their target (the present end)
  | missingTarget (rows : List RefRow)     -- listed by their source
deriving DecidableEq, Repr

/-- references whose source (target) is not a defined node -/
def missingSrc (ids : List Nat) (refs : List RefRow) : List RefRow := refs.filter fun r => decide (r.1 ∉ ids)
def missingTrg (ids : List Nat) (refs : List RefRow) : List RefRow := refs.filter fun r => decide (r.2.1 ∉ ids)

/-- `__validate_referenced_nodes_exists`: sources are checked first; only if every source exists
    are the targets checked -/
def validateClosed (ids : List Nat) (refs : List RefRow) : Except ClosedErr Unit :=
  if missingSrc ids refs ≠ [] then .error (.missingSource (missingSrc ids refs))
  else if missingTrg ids refs ≠ [] then .error (.missingTarget (missingTrg ids refs))
  else .ok ()

structure NameRow where
  id : Nat
  cls : Str            -- e.g. "UAObject"
  browse : Str
deriving DecidableEq, Repr

/-- the rows `resolve_ids_from_browsenames` finds: nodes of the class (any class when none is given)
    whose browse name is `name` -/
def candidates (nodes : List NameRow) (name : Str) (cls : Option Str) : List NameRow :=
  nodes.filter fun (n : NameRow) =>
    (match cls with | some c => decide (n.cls = 'U' :: 'A' :: c) | none => true) && decide (n.browse = name)

/-- `__ua_nodeclass_by_browsename(browsename, nodeclass)`: `ValueError` unless exactly one candidate -/
def lookupBrowse (nodes : List NameRow) (name : Str) (cls : Option Str) : Except PyErr Nat :=
  if name = [] then .error .valueError
  else match candidates nodes name cls with
    | [n] => .ok n.id
    | _ => .error .valueError

/-! ### value / DataType validation -/

def builtinNames : List Str := ["Boolean", "SByte", "Byte", "Int16", "UInt16", "Int32", "UInt32", "Int64", "UInt64", "Float",
  "Double", "String", "DateTime", "Guid", "ByteString", "XmlElement", "NodeId", "ExpandedNodeId", "StatusCode",
  "QualifiedName", "LocalizedText", "ExtensionObject", "DataValue", "Variant", "DiagnosticInfo"].map String.toList

/-- `DATA_TYPES_MAPPING`: class name ↦ built-in type name; other class names are left as they are -/
def mapClass (c : Str) : Str :=
  if c = "UAXMLElement".toList then "XmlElement".toList
  else match c with
    | 'U' :: 'A' :: rest => if builtinNames.contains rest then rest else c
    | _ => c

structure VRow where
  cls : Str                     -- NodeClass
  display : Str
  valueClass : Option Str       -- class name of the Value, `none` when the cell is empty
  dataType : Option Nat
deriving DecidableEq, Repr

inductive ValErr
  | noDataType                  -- "UAVariables has no DataType!"
  | invalid (names : List Str)  -- "Invalid Value for rows with the following display names: …"
deriving DecidableEq, Repr

def kUAVariable : Str := "UAVariable".toList
def kUAListOf : Str := "UAListOf".toList
def kUAEnumeration : Str := "UAEnumeration".toList

def isChecked (r : VRow) : Bool := decide (r.cls = kUAVariable) && r.valueClass.isSome
/-- the rows the validator looks at: variables being written that hold a value -/
def checkedRows (rows : List VRow) : List VRow := rows.filter isChecked

/-- `StringifiedDatatypeClass`: the value's class name through `DATA_TYPES_MAPPING` -/
def classOf (r : VRow) : Str := mapClass (r.valueClass.getD [])
/-- `ExpectedDataType`: display name of the DataType node (a name that is not built-in — or none — is never checked) -/
def expectedOf (dtName : Nat → Option Str) (r : VRow) : Str := (r.dataType.bind dtName).getD []

/-- not skipped: not a list value, and the declared type is one of the 25 built-in types -/
def potentially (dtName : Nat → Option Str) (r : VRow) : Bool :=
  !decide (classOf r = kUAListOf) && builtinNames.contains (expectedOf dtName r)

/-- an offending row: checked, not skipped, not an enumeration value, and of another built-in type -/
def offending (dtName : Nat → Option Str) (r : VRow) : Bool :=
  potentially dtName r && !decide (classOf r = expectedOf dtName r) && !decide (classOf r = kUAEnumeration)

/-- `validate_values_in_df(rows, data_type_nodes)`; `dtName id` = display name of the DataType node -/
def validateValues (rows : List VRow) (dtName : Nat → Option Str) : Except ValErr Unit :=
  let cs := checkedRows rows
  if cs = [] then .ok ()
  else if cs.any (fun r => r.dataType.isNone) then .error .noDataType
  else
    let pot := cs.filter (potentially dtName)
    if pot.all (fun r => decide (classOf r = expectedOf dtName r)) then .ok ()
    else
      -- `(~IsValidValue & ~enumeration).any()`
      let bad := pot.filter fun r => !decide (classOf r = expectedOf dtName r) && !decide (classOf r = kUAEnumeration)
      if bad = [] then .ok () else .error (.invalid (bad.map (·.display)))

end Opcua

import OpcuaModel.Model.Prelude
/-! # Graph queries: `navigation.fast_transitive_closure`, `typing_transitive_reflexive`,
`subtypes_of_nodes`, `supertypes_of_nodes`, `constrain_to_reference_type`, the modelling-rule
selectors, `find_relatives`, `UAGraph.find_circular_reference_nodes`,
`UAGraph.create_node_paths_by_reference_types`. Hand transliteration onto lists; Mathlib-free. -/
namespace Opcua

abbrev Edge := Nat × Nat

/-- `pd.factorize` / `unique()`: first-occurrence order, no duplicates -/
def uniques {α} [DecidableEq α] : List α → List α
  | [] => []
  | x :: xs => x :: (uniques xs).filter (· ≠ x)

/-- all pairs (a,c) over V satisfying a Boolean test, each at most once (a Boolean matrix) -/
def pairsWhere (V : List Nat) (p : Nat → Nat → Bool) : List Edge :=
  V.flatMap fun a => V.flatMap fun c => if p a c then [(a, c)] else []

/-- relational composition (Boolean matrix product `> 0`) on the vertex list `V` -/
def comp (V : List Nat) (R : List Edge) : List Edge :=
  pairsWhere V fun a c => V.any fun b => R.contains (a, b) && R.contains (b, c)

/-- vertices = `factorize(concat(Src, Trg))` -/
def verts (E : List Edge) : List Nat := uniques (E.map Prod.fst ++ E.map Prod.snd)

/-- E plus the identity on V (`sparmat + eye`) -/
def withId (V : List Nat) (E : List Edge) : List Edge :=
  pairsWhere V fun a b => decide (a = b) || E.contains (a, b)

/-- square until the number of pairs stops growing (the code compares `sum()` before/after) -/
def iterSq (V : List Nat) : Nat → List Edge → List Edge
  | 0, R => R
  | fuel+1, R =>
    let R' := comp V R
    if R'.length = R.length then R' else iterSq V fuel R'

/-- `fast_transitive_closure` (fuel `|V|²+1` is proved sufficient in `Props/C12`) -/
def closure (E : List Edge) : List Edge :=
  let V := verts E
  (iterSq V (V.length * V.length + 1) (withId V E)).filter fun p => p.1 ≠ p.2

/-- a reference row -/
structure Ref where
  src : Nat
  trg : Nat
  ty : Nat
deriving DecidableEq, Repr, Inhabited

/-- `has_subtype_references(...)[["Src","Trg"]]` -/
def subtypeEdges (hst : Nat) (refs : List Ref) : List Edge :=
  (refs.filter fun r => r.ty = hst).map fun r => (r.src, r.trg)

/-- `typing_transitive_reflexive`: closure of HasSubtype plus the identity on every node that
    occurs as an end point of *some* reference of `type_references` -/
def typingTR (hst : Nat) (typeRefs : List Ref) : List Edge :=
  closure (subtypeEdges hst typeRefs) ++
    (uniques (typeRefs.map (·.src) ++ typeRefs.map (·.trg))).map fun t => (t, t)

/-- `subtypes_of_nodes`: rows (type, subtype) -/
def subtypesOf (hst : Nat) (typeRefs : List Ref) (ts : List Nat) : List Edge :=
  (typingTR hst typeRefs).filter fun p => ts.contains p.1

/-- `supertypes_of_nodes`: rows (supertype, type) -/
def supertypesOf (hst : Nat) (typeRefs : List Ref) (ts : List Nat) : List Edge :=
  (typingTR hst typeRefs).filter fun p => ts.contains p.2

/-- `constrain_to_reference_type` -/
def constrain (hst : Nat) (typeRefs inst : List Ref) (ts : List Nat) : List Ref :=
  inst.filter fun r => ((subtypesOf hst typeRefs ts).map Prod.snd).contains r.ty

/-- `hierarchical_references_trg_has_modelling_rule` (inner join on the sources of the
    HasModellingRule references: one output row per matching pair) -/
def selWithMR (hst : Nat) (typeRefs inst : List Ref) (sel hmr : Nat) : List Ref :=
  (constrain hst typeRefs inst [sel]).flatMap fun r =>
    ((constrain hst typeRefs inst [hmr]).filter fun m => m.src = r.trg).map fun _ => r

/-- `…_trg_has_no_modelling_rule` -/
def selNoMR (hst : Nat) (typeRefs inst : List Ref) (sel hmr : Nat) : List Ref :=
  (constrain hst typeRefs inst [sel]).filter fun r =>
    !((constrain hst typeRefs inst [hmr]).map (·.src)).contains r.trg

/-- `find_circular_reference_nodes` on the (already selected) hierarchical edges -/
def circular (E : List Edge) : List Nat :=
  let C := closure E
  uniques ((C.filter fun p => C.contains (p.2, p.1)).map Prod.fst)

/-! ### find_relatives -/

/-- one level of the iterative join: every row (path, end first) is extended by every edge
    leaving its end. Parallel edges give parallel rows, as the pandas inner join does. -/
def extendRows (E : List Edge) (rows : List (List Nat)) : List (List Nat) :=
  rows.flatMap fun p =>
    match p with
    | [] => []
    | e :: _ => (E.filter fun ed => ed.1 = e).map fun ed => ed.2 :: p

/-- levels 0..k -/
def levels (E : List Edge) : Nat → List (List Nat) → List (List (List Nat))
  | 0, rows => [rows]
  | k+1, rows => rows :: levels E k (extendRows E rows)

/-- `find_relatives(..., cutoff=k, keep_paths=True)`; paths are stored end first:
    `end` = head, `len_path` = length − 1, start = last -/
def findRelatives (E : List Edge) (starts : List Nat) (cutoff : Nat) : List (List Nat) :=
  (levels E cutoff (starts.map fun s => [s])).flatten

def flipEdges (E : List Edge) : List Edge := E.map fun e => (e.2, e.1)

/-- without a cut-off the loop runs until a level is empty; for the model the number of
    vertices bounds the depth on acyclic input (proved in `Props/C13`), `fuel` caps it otherwise -/
def findRelativesNoCutoff (E : List Edge) (starts : List Nat) : List (List Nat) :=
  findRelatives E starts ((verts E).length + 1)

end Opcua

namespace Opcua
/-- `"/".join(names)` -/
def joinSlash : List Str → Str
  | [] => []
  | [a] => a
  | a :: b :: r => a ++ '/' :: joinSlash (b :: r)

/-- `create_node_paths_by_reference_types` on the selected edges (a tree below `root`):
    one row per walk of ≥ 1 edges from the root — (end node, names along the walk joined by `/`) —
    plus the root itself with its name followed by `/`. -/
def nodePaths (E : List Edge) (root : Nat) (name : Nat → Str) : List (Nat × Str) :=
  ((findRelativesNoCutoff E [root]).filterMap fun q =>
    match q with
    | t :: _ :: _ => some (t, joinSlash (q.reverse.map name))
    | _ => none) ++ [(root, name root ++ ['/'])]
end Opcua

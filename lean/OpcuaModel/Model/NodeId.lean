import OpcuaModel.Model.Prelude
/-! # NodeId text: `value_parser.cached_parse_nodeid`, `parse_nodeid`,
`UANodeId.__str__`, `UANodeId.__post_init__` (hand transliteration, tied by correspondence). -/
namespace Opcua

inductive IdType | i | s | g | b
deriving DecidableEq, Repr, Inhabited

def IdType.char : IdType → Char
  | .i => 'i' | .s => 's' | .g => 'g' | .b => 'b'

/-- `NodeIdType(text)` — the enum constructor; `none` = `ValueError` -/
def IdType.ofStr : Str → Option IdType
  | ['i'] => some .i | ['s'] => some .s | ['g'] => some .g | ['b'] => some .b | _ => none

structure NodeId where
  ns : Int
  ty : IdType
  ident : Str
deriving DecidableEq, Repr, Inhabited

/-- `UANodeId.__str__` -/
def NodeId.print (n : NodeId) : Str :=
  if n.ns = 0 then n.ty.char :: '=' :: n.ident
  else 'n' :: 's' :: '=' :: (pyStrInt n.ns ++ ';' :: n.ty.char :: '=' :: n.ident)

/-- the constructor's rule for numeric identifiers given as text
    (`isdigit`, no leading `0` unless the text is `"0"`); violated ⇒ `TypeError` -/
def numericOk (v : Str) : Bool :=
  isDigitStr v && !(startsWith v ['0'] && v.length > 1)

def NodeId.Valid (n : NodeId) : Prop := n.ty = .i → numericOk n.ident = true

instance (n : NodeId) : Decidable n.Valid := by unfold NodeId.Valid; infer_instance

/-- `UANodeId(ns, type, value)` with `__post_init__` -/
def mkNodeId (ns : Int) (ty : IdType) (v : Str) : Except PyErr NodeId :=
  if ty = .i ∧ numericOk v = false then .error .typeError else .ok ⟨ns, ty, v⟩

/-- the guard of `cached_parse_nodeid`: `nodeidstr.lstrip().startswith("ns=")` -/
def nsPrefixed (s : Str) : Bool := startsWith (lstrip s) ['n', 's', '=']

/-- `cached_parse_nodeid` -/
def cachedParse (s : Str) : Except PyErr (Int × IdType × Str) :=
  if nsPrefixed s then
    match split1 ';' s with
    | (h, rest?) =>
      match split1 '=' h with
      | (_, none) => .error .indexError               -- `….split("=", 1)[1]`
      | (_, some k) =>
        match pyInt k with
        | none => .error .valueError                  -- `int(…)`
        | some ns =>
          match rest? with
          | none => .error .indexError                -- `nodeidstr_split[1]`
          | some rest =>
            match split1 '=' rest with
            | (_, none) => .error .valueError         -- tuple unpacking of a 1-list
            | (t, some v) =>
              match IdType.ofStr t with
              | none => .error .valueError            -- `NodeIdType(…)`
              | some ty => .ok (ns, ty, v)
  else
    match split1 '=' s with
    | (t, some v) =>
      match IdType.ofStr t with
      | none => .error .valueError
      | some ty => .ok (0, ty, v)
    | (_, none) => .error .valueError

/-- `parse_nodeid(text, namespace_map, alias_map)`; an empty or absent map means "no mapping"
    (`if namespace_map:`), an alias table is consulted first. -/
def parseNodeId (s : Str) (nsmap : List (Int × Int)) (aliases : Option (List (Str × NodeId))) :
    Except PyErr NodeId :=
  match aliases.bind (lookup s) with
  | some n => .ok n
  | none =>
    match cachedParse s with
    | .error e => .error e
    | .ok (ns, ty, v) =>
      if nsmap.isEmpty then mkNodeId ns ty v
      else match lookup ns nsmap with
        | none => .error .keyError
        | some g => mkNodeId g ty v

end Opcua

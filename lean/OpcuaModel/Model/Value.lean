import OpcuaModel.Model.Xml
import OpcuaModel.Model.NodeId
/-! # UA values: every `xml_encode` of `ua_data_types.py` (text level, as the code concatenates it)
and `value_parser.parse_value` / `parse_singular_value` / `parse_list_value` /
`parse_localized_text` / `parse_engineering_units` / `parse_eu_range` (tree level).

Floats and byte strings are carried as *tokens* (the text CPython's `str(float)` / `b64encode`
produced): `float(str(x)) == x` and `b64decode(b64encode(b)) == b` are the standard library's
laws, not the repository's code (trusted base, sampled by the harness). -/
namespace Opcua
open Opcua.Xml (T TS X XS PAttr)

inductive IntKind | sbyte | byte | int16 | uint16 | int32 | uint32 | int64 | uint64
deriving DecidableEq, Repr

def IntKind.tag : IntKind → Str
  | .sbyte => "SByte".toList | .byte => "Byte".toList | .int16 => "Int16".toList | .uint16 => "UInt16".toList
  | .int32 => "Int32".toList | .uint32 => "UInt32".toList | .int64 => "Int64".toList | .uint64 => "UInt64".toList

def IntKind.unsigned : IntKind → Bool
  | .byte | .uint16 | .uint32 | .uint64 => true
  | _ => false

def IntKind.all : List IntKind := [.sbyte, .byte, .int16, .uint16, .int32, .uint32, .int64, .uint64]

def IntKind.ofTag (s : Str) : Option IntKind := IntKind.all.find? fun k => k.tag = s

/-- wall-clock fields of a DateTime value -/
structure DT where
  year : Nat
  month : Nat
  day : Nat
  hour : Nat
  minute : Nat
  second : Nat
  micro : Nat
deriving DecidableEq, Repr

mutual
inductive Val
  | int (k : IntKind) (v : Option Int)
  | flt (dbl : Bool) (v : Option Str)
  | str (v : Option Str)
  | guid (v : Option Str)
  | bool (v : Option Bool)
  | dateTime (v : DT)
  | byteString (v : Option Str)
  | nodeId (n : NodeId)
  | locText (text : Option Str) (locale : Option Str)
  | engUnits (uri : Str) (unitId : Int) (dText dLoc eText eLoc : Option Str)
  | euRange (low high : Str)
  | extObj (typeId : NodeId) (body : T)
  | xmlElem (t : T)
  | list (typename : Str) (items : ValS)
  | enumeration (v : Option Int) (string name : Str)
  | variant (inner : Val)
  | qname (ns : Nat) (name : Str)
  | pyNone                                     -- the parser returned Python `None`
inductive ValS
  | nil
  | cons (v : Val) (vs : ValS)
end

def TYPES_NS : Str := "http://opcfoundation.org/UA/2008/02/Types.xsd".toList
/-- `" " + UAXMLNS_ATTRIB` when `include_xmlns` -/
def xmlnsAttr (b : Bool) : Str := if b then ' ' :: 'x' :: 'm' :: 'l' :: 'n' :: 's' :: '=' :: '"' :: (TYPES_NS ++ ['"']) else []

/-- `"<" + tag + xmlns + ">" + body + "</" + tag + ">"` — the shape of every scalar encoder -/
def wrap (tag : Str) (b : Bool) (body : Str) : Str :=
  '<' :: (tag ++ (xmlnsAttr b ++ ('>' :: (body ++ ('<' :: '/' :: (tag ++ ['>']))))))

def padNat (width n : Nat) : Str :=
  let s := showNat n
  List.replicate (width - s.length) '0' ++ s

/-- `strftime("%Y-%m-%dT%H:%M:%S.%fZ")` on glibc: `%Y` is *not* zero-padded -/
def DT.print (d : DT) : Str :=
  showNat d.year ++ ('-' :: (padNat 2 d.month ++ ('-' :: (padNat 2 d.day ++ ('T' :: (padNat 2 d.hour ++ (':' :: (padNat 2 d.minute ++ (':' :: (padNat 2 d.second ++ ('.' :: (padNat 6 d.micro ++ ['Z']))))))))))))

def optS (o : Option Str) : Str := o.getD []
def boolText : Option Bool → Str
  | none => [] | some true => "true".toList | some false => "false".toList
def intText : Option Int → Str
  | none => [] | some i => pyStrInt i

def tFloat : Str := "Float".toList
def tDouble : Str := "Double".toList
def tString : Str := "String".toList
def tGuid : Str := "Guid".toList
def tByteString : Str := "ByteString".toList
def tDateTime : Str := "DateTime".toList
def tBoolean : Str := "Boolean".toList
def tNodeId : Str := "NodeId".toList
def tTrue : Str := "true".toList
def tTrue' : Str := "True".toList

def tNsUri : Str := "NamespaceUri".toList
def tUnitId : Str := "UnitId".toList
def tDispName : Str := "DisplayName".toList
def tDescr : Str := "Description".toList
def tLow : Str := "Low".toList
def tHigh : Str := "High".toList
def tId : Str := "Identifier".toList
def tTypeId : Str := "TypeId".toList
def tBody : Str := "Body".toList
def tExt : Str := "ExtensionObject".toList
def tLoc : Str := "Locale".toList
def tText : Str := "Text".toList
def tLT : Str := "LocalizedText".toList
def tEU : Str := "EUInformation".toList
def tRange : Str := "Range".toList
def tListOf : Str := "ListOf".toList

-- canonical layout of a data tree (one blank before each attribute)
mutual
def layoutT : T → X
  | .node tag attrs text kids => .node tag (attrs.map fun a => ⟨[' '], a.1, a.2⟩) [] false text (layoutTS kids)
def layoutTS : TS → XS
  | .nil => .nil
  | .cons t ts => .cons (layoutT t) (layoutTS ts)
end

/-- a LocalizedText inside EUInformation: missing locale is written as `en`, text escaped -/
def euLT (tag : Str) (text loc : Option Str) : Str :=
  wrap tag false (wrap tLoc false (loc.getD "en".toList) ++ wrap tText false (Xml.escText (optS text)))

def extWrap (b : Bool) (typeIdText : Str) (body : Str) : Str :=
  wrap tExt b (wrap tTypeId false (wrap tId false typeIdText) ++ wrap tBody false body)

mutual
def encodeText : Val → Bool → Str
  | .int k v, b => wrap k.tag b (intText v)
  | .enumeration v _ _, b => wrap IntKind.int32.tag b (intText v)
  | .flt dbl v, b => wrap (if dbl then tDouble else tFloat) b (optS v)
  | .str v, b => wrap tString b (Xml.escText (optS v))
  | .guid v, b => wrap tString b (Xml.escText (optS v))            -- UAGuid inherits UAString.xml_encode
  | .bool v, b => wrap tBoolean b (boolText v)
  | .dateTime d, b => wrap tDateTime b d.print
  | .byteString v, b => wrap tByteString b (optS v)
  | .nodeId n, b => wrap tId b n.print                                     -- bare, unescaped <Identifier>
  | .locText text loc, b => wrap tLT b (wrap tLoc false (optS loc) ++ wrap tText false (Xml.escText (optS text)))
  | .engUnits uri unit dT dL eT eL, b =>
    extWrap b "i=888".toList (wrap tEU false (wrap tNsUri false (Xml.escText uri) ++
      wrap tUnitId false (pyStrInt unit) ++ euLT tDispName dT dL ++ euLT tDescr eT eL))
  | .euRange lo hi, b =>
    extWrap b "i=885".toList (wrap tRange false (wrap tLow false lo ++ wrap tHigh false hi))
  | .extObj tid body, b => extWrap b tid.print (Xml.render (layoutT body))
  | .xmlElem t, _ => Xml.render (layoutT t)
  | .list tn items, b =>
    '<' :: (tListOf ++ (tn ++ (' ' :: (xmlnsAttr b ++ ('>' :: (encodeTexts items ++
      ('<' :: '/' :: (tListOf ++ (tn ++ ['>'])))))))))
  | .variant inner, b => wrap "Variant".toList b (wrap "Value".toList false (encodeText inner b))
  | .qname ns name, b => wrap "QualifiedName".toList b (wrap "NamespaceIndex".toList false (showNat ns) ++ wrap "Name".toList false name)
  | .pyNone, _ => []
def encodeTexts : ValS → Str
  | .nil => []
  | .cons v vs => encodeText v false ++ encodeTexts vs
end

/-! ### decoding (tree level) -/


/-- `el.find(uaxsd + name)`: first child with that tag -/
def findKid (name : Str) : TS → Option T
  | .nil => none
  | .cons t rest => if t.tag = name then some t else findKid name rest

def firstKid : TS → Option T
  | .nil => none
  | .cons t _ => some t

def optOfText (s : Str) : Option Str := if s = [] then none else some s

/-- `parse_localized_text` → (text, locale) -/
def parseLT (el : T) : Option Str × Option Str :=
  let text := match findKid tText el.kids with
    | none => none
    | some t => optOfText t.text
  let loc := match findKid tLoc el.kids with
    | none => none
    | some l => if strip l.text = [] then none else some l.text
  (text, loc)

def readDigits (n : Nat) (s : Str) : Option (Nat × Str) :=
  let d := s.take n
  if d.length = n ∧ d.all (fun c => '0' ≤ c && c ≤ '9') then (readNat d).map fun v => (v, s.drop n) else none

def expectChar (c : Char) : Str → Option Str
  | x :: r => if x = c then some r else none
  | [] => none

/-- `dateutil.parser.parse` restricted to the image of `DT.print` with a four-digit year -/
def parseDT (s : Str) : Option DT := do
  let (y, s) ← readDigits 4 s
  let s ← expectChar '-' s
  let (mo, s) ← readDigits 2 s
  let s ← expectChar '-' s
  let (d, s) ← readDigits 2 s
  let s ← expectChar 'T' s
  let (h, s) ← readDigits 2 s
  let s ← expectChar ':' s
  let (mi, s) ← readDigits 2 s
  let s ← expectChar ':' s
  let (se, s) ← readDigits 2 s
  let s ← expectChar '.' s
  let (us, s) ← readDigits 6 s
  let s ← expectChar 'Z' s
  if s = [] then some ⟨y, mo, d, h, mi, se, us⟩ else none

def simpleTags : List Str := ["Boolean", "SByte", "Byte", "Int16", "UInt16", "Int32", "UInt32", "Int64", "UInt64",
  "Float", "Double", "String", "DateTime", "Guid", "ByteString", "NodeId"].map String.toList

def isNumeric888 (n : NodeId) (v : Str) : Bool := n.ns = 0 && n.ty = .i && n.ident = v

def parseEU (body : Option T) : Except PyErr Val :=
  match body with
  | none => .ok .pyNone
  | some b =>
    match findKid tEU b.kids with
    | none => .ok .pyNone
    | some eu =>
      match findKid tNsUri eu.kids with
      | none => .error .attributeError
      | some u =>
        if u.text = [] then .ok .pyNone
        else match findKid tUnitId eu.kids with
          | none => .error .attributeError
          | some un =>
            match pyInt (strip un.text) with
            | none => .error .valueError
            | some unit =>
              match findKid tDispName eu.kids, findKid tDescr eu.kids with
              | some dn, some de =>
                let d := parseLT dn
                let e := parseLT de
                .ok (.engUnits (rstrip u.text) unit d.1 d.2 e.1 e.2)
              | _, _ => .error .attributeError

def parseRange (body : Option T) : Except PyErr Val :=
  match body with
  | none => .ok .pyNone
  | some b =>
    match findKid tRange b.kids with
    | none => .ok .pyNone
    | some r =>
      match findKid tLow r.kids, findKid tHigh r.kids with
      | some lo, some hi =>
        if strip lo.text = [] ∨ strip hi.text = [] then .error .valueError
        else .ok (.euRange (strip lo.text) (strip hi.text))
      | _, _ => .error .attributeError

/-- text of `<TypeId><Identifier>…` / `<NodeId>` children → NodeId -/
def parseIdText (t : Str) : Except PyErr Val :=
  if t = [] then .error .typeError
  else match parseNodeId t [] none with
    | .ok n => .ok (.nodeId n)
    | .error e => .error e

def typeIdOf (kids : TS) : Except PyErr (Option NodeId) :=
  match findKid tTypeId kids with
  | none => .ok none
  | some ti =>
    match findKid tId ti.kids with
    | none => .error .attributeError
    | some i =>
      if i.text = [] then .error .typeError
      else match parseNodeId i.text [] none with
        | .ok n => .ok (some n)
        | .error e => .error e

/-- `parse_singular_value` (everything except `ListOf…`, which recurses) -/
def decodeScalar (tag : Str) (attrs : List (Str × Str)) (text : Str) (kids : TS) : Except PyErr Val :=
  let stripped := strip text
  match IntKind.ofTag tag with
  | some k =>
    if stripped = [] then .ok (.int k none)
    else match pyInt stripped with
      | none => .error .valueError
      | some i => if k.unsigned ∧ i < 0 then .error .valueError else .ok (.int k (some i))
  | none =>
    if tag = tFloat then .ok (.flt false (optOfText stripped))
    else if tag = tDouble then .ok (.flt true (optOfText stripped))
    else if tag = tString then .ok (.str (optOfText stripped))
    else if tag = tGuid then .ok (.guid (optOfText stripped))
    else if tag = tByteString then .ok (.byteString (optOfText stripped))
    else if tag = tDateTime then
      match parseDT stripped with
      | some d => .ok (.dateTime d)
      | none => .error .other
    else if tag = tBoolean then
      if text = [] then .ok .pyNone                         -- `parse_boolean(None)` returns None
      else if stripped = [] then .ok (.bool none)
      else .ok (.bool (some (stripped = tTrue ∨ stripped = tTrue')))
    else if tag = tNodeId then
      if text = [] then .ok .pyNone
      else if stripped ≠ [] then parseIdText text
      else match firstKid kids with
        | none => .error .stopIteration
        | some k => parseIdText k.text
    else if tag = tTypeId then
      match findKid tId kids with
      | none => .error .attributeError
      | some i => parseIdText i.text
    else if tag = tLT then
      let p := parseLT (.node tag attrs text kids)
      .ok (.locText p.1 p.2)
    else if tag = tExt then
      match typeIdOf kids with
      | .error e => .error e
      | .ok none => .ok .pyNone
      | .ok (some n) =>
        let body := findKid tBody kids
        if isNumeric888 n "888".toList then parseEU body
        else if isNumeric888 n "885".toList then parseRange body
        else match body.bind (fun b => firstKid b.kids) with
          | none => .ok .pyNone
          | some nb =>
            -- the body must decode to a raw XML element (or a byte string) for the constructor to accept it
            if simpleTags.contains nb.tag ∨ startsWith nb.tag tListOf ∨ nb.tag = tLT ∨ nb.tag = tExt ∨ nb.tag = tTypeId then
              if nb.tag = tByteString then .error .other else .error .typeError
            else .ok (.extObj n nb)
    else .ok (.xmlElem (.node tag attrs text kids))

mutual
def decodeT : T → Except PyErr Val
  | .node tag attrs text kids =>
    if startsWith tag tListOf then
      match decodeTS kids with
      | .error e => .error e
      | .ok vs => .ok (.list (tag.drop 6) vs)
    else decodeScalar tag attrs text kids
def decodeTS : TS → Except PyErr ValS
  | .nil => .ok .nil
  | .cons t ts =>
    match decodeT t with
    | .error e => .error e
    | .ok v =>
      match decodeTS ts with
      | .error e => .error e
      | .ok vs => .ok (.cons v vs)
end

/-- `parse_value(val)`: the first child of the `<Value>` element -/
def decodeValue (t : T) : Except PyErr Val := decodeT t

end Opcua

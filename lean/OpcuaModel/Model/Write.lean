import OpcuaModel.Model.Parse
/-! # Writing a NodeSet: `UAGraph.write_nodeset`, `remove_instance_level_outgoing_references`,
`nodeset_generator.create_nodeset2_file`, `find_namespaces_in_use`, `reindex_nodeids_browsenames`,
`create_lookup_df`, `denormalize_*`, `generate_references_xml`, `generate_nodes_xml`, `encode_values`,
`create_header_xml`, `create_required_models`.  `writeDoc` yields the document's content (`WDoc`);
`renderDoc` is the text exactly as the code concatenates it. -/
namespace Opcua
open Opcua.Xml (escText escAttr)

/-- a row of `UAGraph.nodes` -/
structure GNode where
  id : Nat
  cls : Str
  nodeId : NodeId
  browseName : Str
  browseNs : Int
  display : Str
  description : Str
  dataType : Option Nat
  parent : Option Nat
  methodDecl : Option Nat
  attrs : List (Str × AttrVal)
  value : Option Val

structure Graph where
  namespaces : List Str
  nodes : List GNode
  refs : List (Nat × Nat × Nat)
  models : List ModelElem

/-- a Reference child as written: forward flag, type text, other end text -/
structure WRef where
  forward : Bool
  ty : Str
  other : Str
deriving DecidableEq, Repr

structure WNode where
  cls : Str
  attrs : List (Str × Str)            -- in the order written, values unescaped
  display : Str
  description : Str
  refs : List WRef
  value : Option Val

structure WDoc where
  uris : List Str                     -- NamespaceUris (indices 1..)
  modelUri : Str
  version : Str
  required : List ReqModel            -- as written: Version / PublicationDate only when the model has them
  nodes : List WNode

def setNs (n : NodeId) (k : Int) : NodeId := { n with ns := k }

/-- `new_namespaces_list` of `write_nodeset`: UA, the written namespace, then the others in order -/
def remapList (ns : List Str) (idx : Nat) : List Str :=
  (ns.take 1) ++ (ns.drop idx).take 1 ++ ((List.range ns.length).filter (fun i => i ≠ 0 ∧ i ≠ idx)).filterMap (fun i => ns[i]?)

/-- `remapper`: old index ↦ `new_namespaces_list.index(namespace)` -/
def remapIdx (ns : List Str) (idx : Nat) (i : Int) : Option Int :=
  if i < 0 then none else
  match ns[i.toNat]? with
  | none => none
  | some u => if u ∈ remapList ns idx then some ((remapList ns idx).idxOf u : Nat) else none

def typeIdByName (nodes : List GNode) (name : Str) : Option Nat :=
  (nodes.find? fun n => n.cls = "UAReferenceType".toList ∧ n.browseName = name).map (·.id)

def kHMR : Str := "HasModellingRule".toList
def kHTD : Str := "HasTypeDefinition".toList

/-- `remove_instance_level_outgoing_references`: keep references whose target is in the namespace,
    and all HasModellingRule / HasTypeDefinition references -/
def dropOutgoing (g : Graph) (idx : Nat) : Except PyErr (List (Nat × Nat × Nat)) :=
  match typeIdByName g.nodes kHMR, typeIdByName g.nodes kHTD with
  | some hmr, some htd =>
    let inNs := (g.nodes.filter fun n => n.nodeId.ns = (idx : Int)).map (·.id)
    .ok (g.refs.filter fun r => inNs.contains r.2.1 || r.2.2 = hmr || r.2.2 = htd)
  | _, _ => .error .valueError

/-- insertion sort (the `list.sort()` of namespace indices) -/
def insertSorted (x : Int) : List Int → List Int
  | [] => [x]
  | y :: ys => if x ≤ y then x :: y :: ys else y :: insertSorted x ys
def sortInts (l : List Int) : List Int := l.foldr insertSorted []

/-- `find_namespaces_in_use(nodes, references, 1)` on the remapped nodes, sorted -/
def namespacesInUse (nodes : List GNode) (refs : List (Nat × Nat × Nat)) : List Int :=
  let inNs := nodes.filter fun n => n.nodeId.ns = 1
  let ids := inNs.map (·.id)
  let fromSrc := (refs.filter fun r => ids.contains r.1).flatMap fun r => [r.2.1, r.2.2]
  let fromTrg := (refs.filter fun r => ids.contains r.2.1).flatMap fun r => [r.1, r.2.2]
  let attrIds := inNs.flatMap fun n => n.dataType.toList ++ n.parent.toList ++ n.methodDecl.toList
  let all := ids ++ fromSrc ++ fromTrg ++ attrIds
  let nsOfNodes := (nodes.filter fun n => all.contains n.id).map (·.nodeId.ns)
  sortInts (uniques (nsOfNodes ++ inNs.map (·.browseNs)))

def attrText : AttrVal → Str
  | .str s => s
  | .int i => pyStrInt i
  | .bool b => if b then "true".toList else "false".toList

def asciiLower (s : Str) : Str := s.map fun c => if 'A' ≤ c ∧ c ≤ 'Z' then Char.ofNat (c.toNat + 32) else c

def endsWith (s suf : Str) : Bool := startsWith s.reverse suf.reverse

/-- the attribute loop of `generate_nodes_xml`, in its fixed order -/
def writtenAttrNames : List Str := ["DataType", "ValueRank", "AccessLevel", "UserAccessLevel", "IsAbstract", "Symmetric",
  "ParentNodeId", "ArrayDimensions", "MinimumSamplingInterval", "MethodDeclarationId", "EventNotifier", "Historizing",
  "WriteMask"].map String.toList

def lookupNid (tbl : List (Nat × NodeId)) (i : Nat) : Option NodeId := lookup i tbl

def nodeAttrs (tbl : List (Nat × NodeId)) (n : GNode) (nid : NodeId) (bns : Int) : List (Str × Str) :=
  let idAttr (o : Option Nat) : Option Str := (o.bind (lookupNid tbl)).map NodeId.print
  let one (a : Str) : Option Str :=
    if a = "DataType".toList then idAttr n.dataType
    else if a = "ParentNodeId".toList then idAttr n.parent
    else if a = "MethodDeclarationId".toList then idAttr n.methodDecl
    else if a = "IsAbstract".toList ∧ !(endsWith n.cls "Type".toList) then none
    else if a = "Symmetric".toList ∧ n.cls ≠ "UAReferenceType".toList then none
    else match lookup a n.attrs with
      | none => none
      | some v =>
        let t := attrText v
        let t := if a = "Historizing".toList then asciiLower t else t
        if t = [] then none else some t
  [(kNodeId, nid.print)] ++
    (match lookup "SymbolicName".toList n.attrs with | some v => [("SymbolicName".toList, attrText v)] | none => []) ++
    [(kBrowseName, pyStrInt bns ++ ':' :: n.browseName)] ++
    writtenAttrNames.filterMap fun a => (one a).map fun t => (a, t)

/-- position of a (remapped) namespace index in the sorted in-use list = its index in the written document -/
def posOf (inUse : List Int) (k : Int) : Option Int := if k ∈ inUse then some ((inUse.idxOf k : Nat) : Int) else none

/-- `create_lookup_df` after `reindex_nodeids_browsenames`: id ↦ re-indexed NodeId, for nodes of namespaces in use -/
def lookupTable (inUse : List Int) (nodes : List GNode) : List (Nat × NodeId) :=
  nodes.filterMap fun n => (posOf inUse n.nodeId.ns).map fun p => (n.id, setNs n.nodeId p)

/-- the rows that are written: those whose namespace sits at position 1 of the in-use list -/
def writtenNodes (inUse : List Int) (nodes : List GNode) : List GNode :=
  nodes.filter fun n => posOf inUse n.nodeId.ns = some 1

def refText (tbl : List (Nat × NodeId)) (i : Nat) : Str :=
  match lookupNid tbl i with | some n => n.print | none => "nan".toList

/-- `generate_references_xml`: a reference is written on its target as an inverse when the target is
    written, otherwise on its source as a forward reference; returns (owner NodeId text, Reference) -/
def placeRef (wids : List Str) (tbl : List (Nat × NodeId)) (r : Nat × Nat × Nat) : Str × WRef :=
  if wids.contains (refText tbl r.2.1) then (refText tbl r.2.1, ⟨false, refText tbl r.2.2, refText tbl r.1⟩)
  else (refText tbl r.1, ⟨true, refText tbl r.2.2, refText tbl r.2.1⟩)

def wnodeOf (inUse : List Int) (tbl : List (Nat × NodeId)) (placed : List (Str × WRef)) (n : GNode) : WNode :=
  let nid := (lookupNid tbl n.id).getD n.nodeId
  { cls := n.cls, attrs := nodeAttrs tbl n nid ((posOf inUse n.browseNs).getD 0), display := n.display,
    description := n.description, refs := (placed.filter fun p => p.1 = nid.print).map (·.2),
    value := if n.cls = "UAVariable".toList then n.value else none }

/-- `create_nodeset2_file` + `generate_nodes_xml` for the (already remapped) tables -/
def createNodeset (namespaces : List Str) (nodes : List GNode) (refs : List (Nat × Nat × Nat))
    (models : List ModelElem) : Except PyErr WDoc :=
  let inUse := namespacesInUse nodes refs
  let uris2 := inUse.filterMap fun k => if k < 0 then none else namespaces[k.toNat]?
  let tbl := lookupTable inUse nodes
  match uris2[1]? with
  | none => .error .indexError                                  -- `namespaces[serialize_namespace]`
  | some modelUri =>
    let model := models.find? fun m => m.uri = some modelUri
    let written := writtenNodes inUse nodes
    let wids := written.filterMap fun n => (lookupNid tbl n.id).map NodeId.print
    let placed := refs.map (placeRef wids tbl)
    .ok { uris := uris2.drop 1, modelUri := modelUri,
          version := (model.bind (·.version)).getD "1.0.0".toList,
          required := (model.map (·.required)).getD [],
          nodes := written.map (wnodeOf inUse tbl placed) }

/-- `UAGraph.write_nodeset(…, namespace_uri, include_outgoing_instance_level_references)` -/
def writeDoc (g : Graph) (uri : Str) (inclOutgoing : Bool) : Except PyErr WDoc :=
  if uri ∉ g.namespaces then .error .valueError else
  let idx := g.namespaces.idxOf uri
  match (if inclOutgoing then .ok g.refs else dropOutgoing g idx) with
  | .error e => .error e
  | .ok refs =>
    let nodes' := g.nodes.filterMap fun n =>
      match remapIdx g.namespaces idx n.nodeId.ns with
      | none => none
      | some k => some { n with nodeId := setNs n.nodeId k, browseNs := (remapIdx g.namespaces idx n.browseNs).getD n.browseNs }
    if nodes'.length ≠ g.nodes.length then .error .keyError
    else createNodeset (remapList g.namespaces idx) nodes' refs g.models

/-! ### the text, as the code concatenates it -/

def isIdAttr (k : Str) : Bool := k = kNodeId || k = "SymbolicName".toList || k = kBrowseName

def WNode.nodeIdText (n : WNode) : Str := (lookup kNodeId n.attrs).getD []
def WNode.symbolic (n : WNode) : Option Str := lookup "SymbolicName".toList n.attrs
def WNode.browseText (n : WNode) : Str := (lookup kBrowseName n.attrs).getD []
def WNode.others (n : WNode) : List (Str × Str) := n.attrs.filter fun a => !isIdAttr a.1

def kSymbolicName : Str := "SymbolicName".toList
def tDisplayName : Str := "DisplayName".toList
def tDescription : Str := "Description".toList
def tReferences : Str := "References".toList
def tReference : Str := "Reference".toList
def tValueEl : Str := "Value".toList

/-- `K="v" ` -/
def otherPiece (a : Str × Str) : Str := a.1 ++ ('=' :: '"' :: (escAttr a.2 ++ ['"', ' ']))

def symPiece (n : WNode) : Str :=
  match n.symbolic with
  | some s => ' ' :: (kSymbolicName ++ ('=' :: '"' :: (escAttr s ++ ['"', ' '])))
  | none => []

/-- `<Cls NodeId="…"[ SymbolicName="…" ] BrowseName="…" K="v" … >` exactly as `generate_nodes_xml` builds it -/
def openText (n : WNode) : Str :=
  '<' :: (n.cls ++ (' ' :: (kNodeId ++ ('=' :: '"' :: (escAttr n.nodeIdText ++ ('"' :: (symPiece n ++ (' ' :: (kBrowseName ++ ('=' :: '"' :: (escAttr n.browseText ++ ('"' :: ' ' :: (n.others.flatMap otherPiece ++ (['>']))))))))))))))

/-- `<tag>text</tag>` -/
def elemText (tag body : Str) : Str := '<' :: (tag ++ ('>' :: (body ++ ('<' :: '/' :: (tag ++ ['>'])))))

def refPiece (r : WRef) : Str :=
  '<' :: (tReference ++ (' ' :: (kReferenceType ++ ('=' :: '"' :: (escAttr r.ty ++ ('"' :: ((if r.forward then [] else ' ' :: ' ' :: (kIsForward ++ ('=' :: '"' :: (kFalse ++ ['"'])))) ++ ('>' :: (escAttr r.other ++ ('<' :: '/' :: (tReference ++ (['>']))))))))))))

def nodeText (n : WNode) : Str :=
  openText n ++ (elemText tDisplayName (escText n.display) ++ (elemText tDescription (escText n.description) ++
    (elemText tReferences (n.refs.flatMap refPiece) ++
    ((match n.value with | some v => elemText tValueEl (encodeText v true) | none => []) ++
    ('<' :: '/' :: (n.cls ++ ['>']))))))

def joinLines : List Str → Str
  | [] => []
  | [a] => a
  | a :: b :: r => a ++ '\n' :: joinLines (b :: r)

/-- `create_required_models`: Version and PublicationDate are written only when present -/
def requiredText (rs : List ReqModel) : Str :=
  rs.flatMap (fun r => "\n        <RequiredModel ModelUri=\"".toList ++ escAttr (r.uri.getD "None".toList) ++ ['"'] ++
    (match r.version with | some v => " Version=\"".toList ++ v ++ ['"'] | none => []) ++
    (match r.publicationDate with | some d => " PublicationDate=\"".toList ++ d ++ ['"'] | none => []) ++ " />".toList) ++
  (if rs = [] then [] else "\n    ".toList)

/-- `create_header_xml` + body + closing tag; `lastModified` / `publicationDate` are the `isoformat()` texts -/
def renderDoc (d : WDoc) (lastModified publicationDate : Str) : Str :=
  "<?xml version=\"1.0\" encoding=\"utf-8\"?>\n<UANodeSet LastModified=\"".toList ++ lastModified ++
  "\"  xmlns:xsd=\"http://www.w3.org/2001/XMLSchema\" xmlns:xsi=\"http://www.w3.org/2001/XMLSchema-instance\" xmlns=\"http://opcfoundation.org/UA/2011/03/UANodeSet.xsd\">\n".toList ++
  (if d.uris = [] then [] else "<NamespaceUris>\n".toList ++ d.uris.flatMap (fun u => "<Uri>".toList ++ escText u ++ "</Uri>\n".toList) ++
    "</NamespaceUris>\n".toList) ++
  "\n<Models>\n    <Model ModelUri=\"".toList ++ escAttr d.modelUri ++ "\" PublicationDate=\"".toList ++ publicationDate ++
  "\" Version=\"".toList ++ d.version ++ "\">".toList ++ requiredText d.required ++ "</Model>\n</Models>\n<Aliases></Aliases>\n".toList ++
  joinLines (d.nodes.map nodeText) ++ "\n</UANodeSet>".toList

end Opcua

import OpcuaModel.Model.Value
/-! # JSON: `json.dumps(s, ensure_ascii=False)`, every `json_encode` of `ua_data_types.py`, and JsonLite —
a strict RFC 8259 reader (objects, arrays, strings with escapes, numbers, literals). -/
namespace Opcua

def hexDigit (n : Nat) : Char :=
  if n < 10 then Char.ofNat (48 + n) else Char.ofNat (87 + n)      -- 0-9, a-f

def hexVal (c : Char) : Option Nat :=
  if '0' ≤ c ∧ c ≤ '9' then some (c.toNat - 48)
  else if 'a' ≤ c ∧ c ≤ 'f' then some (c.toNat - 87)
  else if 'A' ≤ c ∧ c ≤ 'F' then some (c.toNat - 55)
  else none

/-- escape of one character, as CPython's `ESCAPE` table does with ensure_ascii=False -/
def escChar (c : Char) : Str :=
  if c = '"' then ['\\', '"']
  else if c = '\\' then ['\\', '\\']
  else if c = '\n' then ['\\', 'n']
  else if c = '\r' then ['\\', 'r']
  else if c = '\t' then ['\\', 't']
  else if c = Char.ofNat 8 then ['\\', 'b']
  else if c = Char.ofNat 12 then ['\\', 'f']
  else if c.toNat < 32 then ['\\', 'u', '0', '0', hexDigit (c.toNat / 16), hexDigit (c.toNat % 16)]
  else [c]

def escBody : Str → Str
  | [] => []
  | c :: cs => escChar c ++ escBody cs

/-- `json.dumps(s, ensure_ascii=False)` -/
def pyJsonQuote (s : Str) : Str := '"' :: (escBody s ++ ['"'])

/-- strict JSON string body reader: stops at the closing quote, rejects raw control characters -/
def readBody : Str → Option (Str × Str)
  | [] => none
  | c :: cs =>
    if c = '"' then some ([], cs)
    else if c = '\\' then
      match cs with
      | '"' :: r => (readBody r).map fun p => ('"' :: p.1, p.2)
      | '\\' :: r => (readBody r).map fun p => ('\\' :: p.1, p.2)
      | '/' :: r => (readBody r).map fun p => ('/' :: p.1, p.2)
      | 'n' :: r => (readBody r).map fun p => ('\n' :: p.1, p.2)
      | 'r' :: r => (readBody r).map fun p => ('\r' :: p.1, p.2)
      | 't' :: r => (readBody r).map fun p => ('\t' :: p.1, p.2)
      | 'b' :: r => (readBody r).map fun p => (Char.ofNat 8 :: p.1, p.2)
      | 'f' :: r => (readBody r).map fun p => (Char.ofNat 12 :: p.1, p.2)
      | 'u' :: a :: b :: c1 :: d :: r =>
        match hexVal a, hexVal b, hexVal c1, hexVal d with
        | some x, some y, some z, some w =>
          (readBody r).map fun p => (Char.ofNat (((x * 16 + y) * 16 + z) * 16 + w) :: p.1, p.2)
        | _, _, _, _ => none
      | _ => none
    else if c.toNat < 32 then none
    else (readBody cs).map fun p => (c :: p.1, p.2)
termination_by s => s.length
decreasing_by all_goals simp_wf <;> omega

def readString (s : Str) : Option (Str × Str) :=
  match s with
  | '"' :: r => readBody r
  | _ => none

/-! ### JsonLite values and reader -/

inductive JsonV
  | null | bool (b : Bool) | num (tok : Str) | str (s : Str)
  | arr (items : List JsonV) | obj (members : List (Str × JsonV))
deriving Repr, Inhabited

def isJsWs (c : Char) : Bool := c == ' ' || c == '\n' || c == '\t' || c == '\r'
def skipWs (s : Str) : Str := s.dropWhile isJsWs

def takeDigits (s : Str) : Str × Str := (s.takeWhile (fun c => '0' ≤ c && c ≤ '9'), s.dropWhile (fun c => '0' ≤ c && c ≤ '9'))

def readSign : Str → Str × Str
  | '-' :: r => (['-'], r)
  | s => ([], s)

def readFrac : Str → Option (Str × Str)
  | '.' :: r => let d := takeDigits r; if d.1 = [] then none else some ('.' :: d.1, d.2)
  | s => some ([], s)

def readExpSign : Str → Str × Str
  | '+' :: q => (['+'], q)
  | '-' :: q => (['-'], q)
  | s => ([], s)

def readExp : Str → Option (Str × Str)
  | [] => some ([], [])
  | e :: r =>
    if e = 'e' ∨ e = 'E' then
      let sg := readExpSign r
      let d := takeDigits sg.2
      if d.1 = [] then none else some (e :: (sg.1 ++ d.1), d.2)
    else some ([], e :: r)

/-- JSON number token: `-?(0|[1-9]\d*)(\.\d+)?([eE][+-]?\d+)?` -/
def readNumber (s : Str) : Option (Str × Str) :=
  let sg := readSign s
  let d := takeDigits sg.2
  if d.1 = [] ∨ (d.1.length > 1 ∧ d.1.head? = some '0') then none
  else match readFrac d.2 with
    | none => none
    | some fr =>
      match readExp fr.2 with
      | none => none
      | some ex => some (sg.1 ++ d.1 ++ fr.1 ++ ex.1, ex.2)

def isDigitC (c : Char) : Bool := '0' ≤ c && c ≤ '9'

mutual
/-- a JSON value followed by the rest of the input; `fuel` bounds the nesting/element count -/
def readValue : Nat → Str → Option (JsonV × Str)
  | 0, _ => none
  | f+1, s =>
    match skipWs s with
    | [] => none
    | c :: r =>
      if c = '"' then (readBody r).map fun p => (.str p.1, p.2)
      else if c = '[' then
        match skipWs r with
        | ']' :: r' => some (.arr [], r')
        | _ => (readItems f r).map fun p => (.arr p.1, p.2)
      else if c = '{' then
        match skipWs r with
        | '}' :: r' => some (.obj [], r')
        | _ => (readMembers f r).map fun p => (.obj p.1, p.2)
      else if c = '-' ∨ isDigitC c then (readNumber (c :: r)).map fun p => (.num p.1, p.2)
      else if startsWith (c :: r) ['n', 'u', 'l', 'l'] then some (.null, r.drop 3)
      else if startsWith (c :: r) ['t', 'r', 'u', 'e'] then some (.bool true, r.drop 3)
      else if startsWith (c :: r) ['f', 'a', 'l', 's', 'e'] then some (.bool false, r.drop 4)
      else none
def readItems : Nat → Str → Option (List JsonV × Str)
  | 0, _ => none
  | f+1, s =>
    match readValue f s with
    | none => none
    | some (v, r) =>
      match skipWs r with
      | ',' :: r' => (readItems f r').map fun p => (v :: p.1, p.2)
      | ']' :: r' => some ([v], r')
      | _ => none
def readMembers : Nat → Str → Option (List (Str × JsonV) × Str)
  | 0, _ => none
  | f+1, s =>
    match skipWs s with
    | '"' :: r =>
      match readBody r with
      | none => none
      | some (k, r1) =>
        match skipWs r1 with
        | ':' :: r2 =>
          match readValue f r2 with
          | none => none
          | some (v, r3) =>
            match skipWs r3 with
            | ',' :: r4 => (readMembers f r4).map fun p => ((k, v) :: p.1, p.2)
            | '}' :: r4 => some ([(k, v)], r4)
            | _ => none
        | _ => none
    | _ => none
end

/-- `json.loads(text)` (strict): one value, then only white space -/
def parseJson (s : Str) : Option JsonV :=
  match readValue (s.length + 1) s with
  | some (v, r) => if skipWs r = [] then some v else none
  | none => none

/-! ### `json_encode` -/

def variantNumber : Str → Option Nat
  | s => lookup s ([("Null", 0), ("Boolean", 1), ("SByte", 2), ("Byte", 3), ("Int16", 4), ("UInt16", 5), ("Int32", 6), ("UInt32", 7),
      ("Int64", 8), ("UInt64", 9), ("Float", 10), ("Double", 11), ("String", 12), ("DateTime", 13), ("Guid", 14),
      ("ByteString", 15), ("XmlElement", 16), ("NodeId", 17), ("ExpandedNodeId", 18), ("StatusCode", 19),
      ("QualifiedName", 20), ("LocalizedText", 21), ("ExtensionObject", 22), ("DataValue", 23), ("Variant", 24),
      ("DiagnosticInfo", 25)].map fun p => (p.1.toList, p.2))

def jobj (members : List (Str × Str)) : Str :=
  '{' :: ((members.map fun m => pyJsonQuote m.1 ++ ':' :: m.2).foldr (fun a acc => if acc = [] then a else a ++ ',' :: acc) [] ++ ['}'])

def is64 : IntKind → Bool
  | .int64 | .uint64 => true
  | _ => false

def idTypeInt : IdType → Nat
  | .i => 0 | .s => 1 | .g => 2 | .b => 3

/-- `UANodeId.json_encode`: the identifier text is *not* escaped (finding D-C10b) -/
def nodeIdJson (n : NodeId) : Str :=
  let a := if n.ns = 0 then [] else "\"Namespace\":".toList ++ pyStrInt n.ns ++ [',']
  let b := if n.ty = .i then [] else "\"IdType\":".toList ++ [digitChar (idTypeInt n.ty)] ++ [',']
  let c := if n.ty = .i then "\"Id\":".toList ++ n.ident else "\"Id\":\"".toList ++ n.ident ++ ['"']
  '{' :: (a ++ b ++ c ++ ['}'])

def ltJson (text loc : Option Str) : Str :=
  "{\"Text\":".toList ++ pyJsonQuote (text.getD []) ++
    (match loc with | none => [] | some l => ",\"Locale\":".toList ++ pyJsonQuote l) ++ ['}']

def fltJson (tok : Str) : Str :=
  if tok = "inf".toList then "\"Infinity\"".toList
  else if tok = "-inf".toList then "\"-Infinity\"".toList
  else if tok = "nan".toList then "\"NaN\"".toList
  else tok

/-- the built-in type number `UAVariant` infers from the class of its value -/
def variantTypeOf : Val → Option Nat
  | .bool _ => some 1
  | .int k _ => variantNumber k.tag
  | .enumeration _ _ _ => some 6
  | .flt dbl _ => some (if dbl then 11 else 10)
  | .str _ => some 12 | .dateTime _ => some 13 | .guid _ => some 14 | .byteString _ => some 15 | .xmlElem _ => some 16
  | .nodeId _ => some 17 | .qname _ _ => some 20 | .locText _ _ => some 21 | .extObj _ _ => some 22 | .variant _ => some 24
  | _ => none

mutual
/-- `value.json_encode()`; `none` = Python `None`; `fs i` = `str(float(i))` (CPython's) for the 64-bit encoders -/
def jsonEncode (fs : Int → Str) : Val → Except PyErr (Option Str)
  | .int k v => .ok (v.map fun i => if is64 k then '"' :: (fs i ++ ['"']) else pyStrInt i)
  | .enumeration v _ _ => .ok (v.map pyStrInt)
  | .flt _ v => .ok (v.map fltJson)
  | .str v => .ok (v.map pyJsonQuote)
  | .guid v => .ok (v.map pyJsonQuote)
  | .bool v => .ok (v.map fun b => if b then "true".toList else "false".toList)
  | .dateTime d => .ok (some ('"' :: (d.print ++ ['"'])))
  | .byteString v => .ok (v.map pyJsonQuote)
  | .xmlElem t => .ok (some (pyJsonQuote (Xml.render (layoutT t))))
  | .nodeId n => .ok (some (nodeIdJson n))
  | .qname ns name =>
    .ok (some ("{\"Name\":\"".toList ++ name ++ ['"'] ++ (if ns = 0 then [] else ",\"Uri\":".toList ++ showNat ns) ++ ['}']))
  | .locText t l => .ok (some (ltJson t l))
  | .variant inner =>
    match jsonEncode fs inner with
    | .error e => .error e
    | .ok none => .ok (some "null".toList)
    | .ok (some body) =>
      match variantTypeOf inner with
      | none => .error .typeError
      | some n => .ok (some ("{\"Type\":".toList ++ showNat n ++ ",\"Body\":".toList ++ body ++ ['}']))
  | .extObj tid body =>
    .ok (some ("{\"TypeId\":".toList ++ nodeIdJson tid ++ ",\"Body\":".toList ++ pyJsonQuote (Xml.render (layoutT body)) ++
      ",\"Encoding\":2}".toList))
  | .engUnits uri unit dT dL eT eL =>
    .ok (some ("{\"TypeId\":{\"Id\":888},\"Body\":{\"DisplayName\":".toList ++ ltJson dT dL ++ ",\"Description\":".toList ++
      ltJson eT eL ++ ",\"UnitId\":".toList ++ pyStrInt unit ++ ",\"NamespaceUri\":".toList ++ pyJsonQuote uri ++ "}}".toList))
  | .euRange lo hi =>
    .ok (some ("{\"TypeId\":{\"Id\":885},\"Body\":{\"Low\":".toList ++ fltJson lo ++ ",\"High\":".toList ++ fltJson hi ++ "}}".toList))
  | .list tn items =>
    match variantNumber tn with
    | none => .error .keyError
    | some n =>
      match listBody items with
      | .error e => .error e
      | .ok parts =>
        .ok (some ("{\"Type\":".toList ++ showNat n ++ ",\"Body\":[".toList ++
          parts.foldr (fun a acc => if acc = [] then a else a ++ ',' :: acc) [] ++ "]}".toList))
  | .pyNone => .error .attributeError
/-- `[str(element.value) for element in self.value]`: Python's `str` of the payload, not JSON -/
def listBody : ValS → Except PyErr (List Str)
  | .nil => .ok []
  | .cons v vs =>
    match listBody vs with
    | .error e => .error e
    | .ok rest =>
      match v with
      | .int _ (some i) => .ok (pyStrInt i :: rest)
      | .enumeration (some i) _ _ => .ok (pyStrInt i :: rest)
      | .int _ none => .ok ("<NA>".toList :: rest)
      | .enumeration none _ _ => .ok ("<NA>".toList :: rest)
      | .flt _ (some t) => .ok (t :: rest)
      | .flt _ none => .ok ("<NA>".toList :: rest)
      | .str (some s) => .ok (s :: rest)
      | .guid (some s) => .ok (s :: rest)
      | .str none => .ok ("<NA>".toList :: rest)
      | .guid none => .ok ("<NA>".toList :: rest)
      | .bool (some b) => .ok ((if b then "True".toList else "False".toList) :: rest)
      | .bool none => .ok ("<NA>".toList :: rest)
      | .nodeId n => .ok (n.ident :: rest)
      | _ => .error .other                              -- AttributeError / UnboundLocalError paths
end

end Opcua

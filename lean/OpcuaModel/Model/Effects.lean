import OpcuaModel.Model.Write
import OpcuaModel.Model.Validate
import OpcuaModel.Model.Graph
/-! # Operation histories on a graph (`UAGraph` as a state machine)

`Sys` is a state machine `step : S → Op → S × Out`; `graphSys` is the one whose state is the four
components of a `UAGraph` (nodes, references, namespaces, models) and whose operations are the
read-only part of the API: `write_nodeset` with all its argument choices, the browse-name look-ups,
`all_references_of_type`, the transitive closure and the circular-reference query.  Each operation is
written as the code computes it (on copies / on values derived from the state), returning the state
it leaves behind.  The harness compares, after every step of a history on the real object, the real
state with the state of this model and the real output with the output of the model. -/
namespace Opcua.Eff
open Opcua

structure Sys (S Op Out : Type) where
  step : S → Op → S × Out

variable {S Op Out : Type}

/-- run a history; collects every output -/
def Sys.run (sys : Sys S Op Out) : S → List Op → S × List Out
  | s, [] => (s, [])
  | s, op :: r =>
    let q := sys.step s op
    let rest := sys.run q.1 r
    (rest.1, q.2 :: rest.2)

/-- `write_nodeset(…, new_model_version=v)`: the version is replaced in the header that is written -/
def writeDocV (g : Graph) (uri : Str) (inclOutgoing : Bool) (newVersion : Option Str) : Except PyErr WDoc :=
  match writeDoc g uri inclOutgoing with
  | .error e => .error e
  | .ok d => .ok (match newVersion with | none => d | some v => { d with version := v })

inductive GOp
  | write (uri : Str) (inclOutgoing : Bool) (newVersion : Option Str) (lastModified publicationDate : Str)
  | lookup (name : Str) (cls : Option Str)
  | refsOfType (name : Str)
  | closure (name : Str)
  | circular (name : Str)

inductive GOut
  | text (r : Except PyErr Str)
  | id (r : Except PyErr Nat)
  | triples (r : Except PyErr (List (Nat × Nat × Nat)))
  | edges (r : Except PyErr (List Edge))
  | ids (r : Except PyErr (List Nat))

def nameRows (g : Graph) : List NameRow := g.nodes.map fun n => ⟨n.id, n.cls, n.browseName⟩

def kRefType : Str := "ReferenceType".toList

def refsOfType (g : Graph) (name : Str) : Except PyErr (List (Nat × Nat × Nat)) :=
  match lookupBrowse (nameRows g) name (some kRefType) with
  | .error e => .error e
  | .ok t => .ok (g.refs.filter fun r => r.2.2 = t)

def edgesOf (rs : List (Nat × Nat × Nat)) : List Edge := rs.map fun r => (r.1, r.2.1)

def out (g : Graph) : GOp → GOut
  | .write uri incl v lm pd =>
    .text (match writeDocV g uri incl v with
      | .error e => .error e
      | .ok d => .ok (renderDoc d lm pd))
  | .lookup name cls => .id (lookupBrowse (nameRows g) name cls)
  | .refsOfType name => .triples (refsOfType g name)
  | .closure name => .edges (match refsOfType g name with | .error e => .error e | .ok rs => .ok (closure (edgesOf rs)))
  | .circular name => .ids (match refsOfType g name with | .error e => .error e | .ok rs => .ok (circular (edgesOf rs)))

/-- every operation hands back the graph it was given: it works on copies and derived values -/
def graphSys : Sys Graph GOp GOut := ⟨fun g op => (g, out g op)⟩

end Opcua.Eff

/-! # Prelude: Python strings, `int()`, `str(int)`, exceptions — the vocabulary of the model.

Everything here is executable, total and Mathlib-free (the driver links against it).
`Str = List Char`: Python `str` as a list of code points. -/
namespace Opcua

abbrev Str := List Char

/-- the Python exception classes the modelled code can raise -/
inductive PyErr
  | valueError | indexError | typeError | keyError | attributeError | stopIteration | validationError
  | other
deriving DecidableEq, Repr, Inhabited

def PyErr.name : PyErr → String
  | .valueError => "ValueError" | .indexError => "IndexError" | .typeError => "TypeError"
  | .keyError => "KeyError" | .attributeError => "AttributeError" | .stopIteration => "StopIteration"
  | .validationError => "ValidationError" | .other => "Exception"

deriving instance DecidableEq for Except

/-- Python `s.split(sep, maxsplit=1)` for a one-character separator:
    `(head, some tail)` if `sep` occurs, else `(s, none)`. -/
def split1 (sep : Char) : Str → Str × Option Str
  | [] => ([], none)
  | c :: cs =>
    if c = sep then ([], some cs)
    else
      let r := split1 sep cs
      (c :: r.1, r.2)

/-- Python `s.startswith(p)` -/
def startsWith : Str → Str → Bool
  | _, [] => true
  | [], _ :: _ => false
  | c :: cs, p :: ps => c == p && startsWith cs ps

/-- Python `p in s` for strings -/
def isInfix (p : Str) : Str → Bool
  | [] => p.isEmpty
  | c :: cs => startsWith (c :: cs) p || isInfix p cs

/-- Python `str.isspace()` for one character (the Unicode White_Space set CPython uses,
    plus the four ASCII separators 0x1c–0x1f). -/
def isSpace (c : Char) : Bool :=
  let n := c.toNat
  (9 ≤ n && n ≤ 13) || (28 ≤ n && n ≤ 32) || n == 0x85 || n == 0xA0 || n == 0x1680 ||
  (0x2000 ≤ n && n ≤ 0x200A) || n == 0x2028 || n == 0x2029 || n == 0x202F || n == 0x205F || n == 0x3000

/-- Python `s.lstrip()` -/
def lstrip (s : Str) : Str := s.dropWhile isSpace
/-- Python `s.rstrip()` -/
def rstrip (s : Str) : Str := (s.reverse.dropWhile isSpace).reverse
/-- Python `s.strip()` -/
def strip (s : Str) : Str := rstrip (lstrip s)

def digitChar (d : Nat) : Char := Char.ofNat (48 + d)

/-- Python `str(n)` for a natural number -/
def showNat (n : Nat) : Str :=
  if h : n < 10 then [digitChar n] else showNat (n / 10) ++ [digitChar (n % 10)]
decreasing_by omega

def digitVal (c : Char) : Option Nat :=
  if '0' ≤ c ∧ c ≤ '9' then some (c.toNat - 48) else none

def readNatAux : Str → Nat → Option Nat
  | [], acc => some acc
  | c :: cs, acc => match digitVal c with
    | some d => readNatAux cs (acc * 10 + d)
    | none => none

/-- non-empty ASCII digit string → number -/
def readNat : Str → Option Nat
  | [] => none
  | s => readNatAux s 0

/-- Python `str(i)` for an int -/
def pyStrInt (i : Int) : Str :=
  match i with
  | .ofNat n => showNat n
  | .negSucc n => '-' :: showNat (n + 1)

/-- `int()` accepts single underscores between digits -/
def validUnderscores : Str → Bool
  | [] => true
  | ['_'] => false
  | '_' :: '_' :: _ => false
  | _ :: cs => validUnderscores cs

/-- the digit part of an `int()` literal: ASCII digits, single underscores between digits.
    (CPython also accepts other Unicode decimal digits; those are outside the model's domain.) -/
def readNatU (s : Str) : Option Nat :=
  if s.all (· ≠ '_') then readNat s
  else if s.head? ≠ some '_' ∧ validUnderscores s then readNat (s.filter (· ≠ '_')) else none

/-- Python `int(s)` for a string (base 10): surrounding whitespace, optional sign, digits. -/
def pyInt (s : Str) : Option Int :=
  match strip s with
  | '-' :: r => (readNatU r).map fun n => -(n : Int)
  | '+' :: r => (readNatU r).map fun n => (n : Int)
  | r => (readNatU r).map fun n => (n : Int)

def pyIntE (s : Str) : Except PyErr Int :=
  match pyInt s with | some n => .ok n | none => .error .valueError

/-- Python `str.isdigit()` restricted to ASCII digits (see `readNatU`). -/
def isDigitStr (s : Str) : Bool := !s.isEmpty && s.all fun c => '0' ≤ c && c ≤ '9'

/-- lexicographic lifting of a strict order to lists (Python's sequence comparison) -/
def lexLt {α} (lt : α → α → Bool) : List α → List α → Bool
  | [], [] => false
  | [], _ :: _ => true
  | _ :: _, [] => false
  | a :: as, b :: bs => if lt a b then true else if lt b a then false else lexLt lt as bs

def charLt (a b : Char) : Bool := a.toNat < b.toNat

/-- Python `<` on `str`: lexicographic on code points -/
def slt : Str → Str → Bool := lexLt charLt

/-- association-list lookup (Python dict with `in` / `[]`) -/
def lookup {α β} [DecidableEq α] (k : α) : List (α × β) → Option β
  | [] => none
  | (a, b) :: r => if a = k then some b else lookup k r

end Opcua

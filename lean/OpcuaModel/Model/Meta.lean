import OpcuaModel.Model.Parse
/-! # Model and namespace metadata: `json_parser.parse.pre_process_xml_to_json` (header lines),
`nodeset_parser.get_namespace_data_from_file` (XML), `json_parser.namespaces.get_namespace_data_from_file`
(JSON side file), `get_xml_namespaces`, `exclude_files_not_in_namespaces`. -/
namespace Opcua

/-- what the helpers see of a file: its name, whether it has a NamespaceUris element, and the header -/
structure FileDoc where
  name : Str
  hasNsUris : Bool
  doc : Doc

def kBaseName : Str := "Opc.Ua.NodeSet2.xml".toList

structure NsData where
  name : Str
  included : List Str          -- a set: compared up to order, no duplicates
deriving DecidableEq, Repr

def insertSet (s : List Str) (x : Str) : List Str := if x ∈ s then s else s ++ [x]

/-- add every URI different from the file's own name -/
def addUris (own : Str) (init : List Str) (uris : List Str) : List Str :=
  uris.foldl (fun acc u => if u = own then acc else insertSet acc u) init

/-- `nodeset_parser.get_namespace_data_from_file(xml_file)` -/
def nsDataXml (f : FileDoc) : Except PyErr NsData :=
  if endsWithStr f.name kBaseName then .ok ⟨UA_URI, []⟩
  else
    match f.doc.models with
    | [] => .error .valueError                                         -- "Missing 'Model' tag"
    | m :: _ =>
      let own := m.uri.getD []
      let base : NsData := if m.uri = some UA_URI then ⟨UA_URI, []⟩ else ⟨own, [UA_URI]⟩
      .ok { base with included := addUris base.name base.included (if f.hasNsUris then f.doc.uris else []) }
where
  endsWithStr (s suf : Str) : Bool := startsWith s.reverse suf.reverse

/-- the header lines of the side file that matter here, in document order -/
inductive SideLine
  | nsUris (uris : List Str)
  | models (uris : List (Option Str))
deriving Repr

/-- `pre_process_xml_to_json`: NamespaceUris (if present) comes before Models in a NodeSet2 document -/
def sideLines (f : FileDoc) : List SideLine :=
  (if f.hasNsUris then [SideLine.nsUris f.doc.uris] else []) ++
  (if f.doc.models = [] then [] else [SideLine.models (f.doc.models.map (·.uri))])

/-- `json_parser.namespaces.get_namespace_data_from_file(json_file_path)` on those lines -/
def nsDataJson (f : FileDoc) : Except PyErr NsData :=
  if nsDataXml.endsWithStr f.name kBaseName then .ok ⟨UA_URI, []⟩
  else
    let ls := sideLines f
    let nsl := ls.findSome? fun l => match l with | .nsUris u => some u | _ => none
    let mdl := ls.findSome? fun l => match l with | .models (u :: _) => some u | _ => none
    match mdl with
    | none => .error .valueError                                        -- "Missing 'Model' tag"
    | some mu =>
      let own := mu.getD []
      let base : NsData := if mu = some UA_URI then ⟨UA_URI, []⟩ else ⟨own, [UA_URI]⟩
      match nsl with
      | none => if base.name = UA_URI then .ok base else .error .valueError   -- "Missing 'NamespaceUris' tag"
      | some uris => .ok { base with included := addUris base.name base.included uris }

/-- `get_xml_namespaces(xml_file)` -/
def xmlNamespaces (f : FileDoc) : List Str :=
  if nsDataXml.endsWithStr f.name kBaseName then ["http://opcfoundation.org/UA".toList, UA_URI]
  else f.doc.models.filterMap fun m => match m.uri with | some u => if u = [] then none else some u | none => none

/-- `exclude_files_not_in_namespaces(input_files, namespaces)`; `none` entries of the list are ignored -/
def excludeFiles (files : List FileDoc) (namespaces : List (Option Str)) : List FileDoc :=
  let wanted := namespaces.filterMap fun x => match x with | some u => if u = [] then none else some u | none => none
  files.filter fun f => (xmlNamespaces f).any fun u => wanted.contains u

end Opcua

import OpcuaModel.Model.NodeId
import OpcuaModel.Model.Graph
import OpcuaModel.Model.Value
/-! # NodeSet2 parsing: `nodeset_parser.extend_namespace_map`, `iterparse_xml` (header, aliases,
batching), `process_elem_batch` and its helpers, `get_attrib_df`, the browse-name split,
`parse_xml_without_normalization`, `parse_xml_files`, `normalize_wrt_nodeid`,
`UAGraph._get_namespace_list`.  The input is the XML *infoset* (what lxml hands to the code). -/
namespace Opcua

def UA_URI : Str := "http://opcfoundation.org/UA/".toList

/-- `[f(x) for x in l]` where `f` may raise: the first exception aborts -/
def mapE {α β ε} (f : α → Except ε β) : List α → Except ε (List β)
  | [] => .ok []
  | a :: as =>
    match f a with
    | .error e => .error e
    | .ok b =>
      match mapE f as with
      | .error e => .error e
      | .ok bs => .ok (b :: bs)

/-! ### namespace tables -/

/-- one iteration of the loop of `extend_namespace_map` -/
def addUri (existing : List Str) (n : Str) : List Str :=
  if n ∈ existing then existing else existing ++ [n]

/-- the loop: returns the grown global list and, per document URI, its global index -/
def extendNs : List Str → List Str → List Str × List Nat
  | existing, [] => (existing, [])
  | existing, n :: rest =>
    let e1 := addUri existing n
    let r := extendNs e1 rest
    (r.1, e1.idxOf n :: r.2)

/-- the `namespace_map` dict: `{0: 0, 1: g₀, 2: g₁, …}` -/
def nsMapOf (gs : List Nat) : List (Int × Int) :=
  (0, 0) :: ((List.range gs.length).zip gs).map fun p => (((p.1 : Nat) : Int) + 1, ((p.2 : Nat) : Int))

/-- `UAGraph._get_namespace_list(dict)`: dense list up to the largest key, gaps filled with "None" -/
def namespaceListOfDict (d : List (Nat × Str)) : List Str :=
  match d.map Prod.fst |>.max? with
  | none => []
  | some m => (List.range (m + 1)).map fun i => (lookup i d).getD "None".toList

/-- `parse_xml_without_normalization`: the OPC UA namespace is appended when the caller's list lacks it -/
def withUA (ns : List Str) : List Str := if UA_URI ∈ ns then ns else ns ++ [UA_URI]

/-! ### infoset -/

structure RefElem where
  attrs : List (Str × Str)
  text : Option Str
deriving Repr, DecidableEq

structure NodeElem where
  cls : Str                               -- local name of the element
  attrs : List (Str × Str)
  displayNames : List (Option Str)        -- `.text` of each DisplayName child, in order
  descriptions : List (Option Str)
  refs : List RefElem                     -- Reference children of all References children, in order
  value : Option Xml.T := none            -- first child of the first Value child, if it has one

structure ReqModel where
  uri : Option Str
  publicationDate : Option Str
  version : Option Str
deriving Repr, DecidableEq

structure ModelElem where
  uri : Option Str
  publicationDate : Option Str
  version : Option Str
  required : List ReqModel
deriving Repr, DecidableEq

structure Doc where
  uris : List Str
  models : List ModelElem
  aliases : List (Str × Str)              -- Alias attribute, element text
  nodes : List NodeElem

/-! ### one node element → one row -/

inductive AttrVal
  | str (s : Str) | int (i : Int) | bool (b : Bool)
deriving Repr, DecidableEq

structure NodeRow where
  cls : Str
  nodeId : NodeId
  browseName : Str
  browseNs : Option Int
  display : Str
  description : Str
  dataType : Option NodeId
  parent : Option NodeId
  methodDecl : Option NodeId
  attrs : List (Str × AttrVal)            -- every other attribute the element has
  value : Option Val := none              -- typed Value (`findval` + `parse_value`)

abbrev Triple := NodeId × NodeId × NodeId   -- (Src, Trg, ReferenceType)

/-- `first.text.rstrip()` of the first child with that name, `""` when absent or empty -/
def firstText (l : List (Option Str)) : Str :=
  match l with
  | [] => []
  | none :: _ => []
  | some t :: _ => rstrip t

def splitAllAux (sep : Char) : Str → Str → List Str
  | cur, [] => [cur.reverse]
  | cur, c :: cs => if c = sep then cur.reverse :: splitAllAux sep [] cs else splitAllAux sep (c :: cur) cs

/-- Python `s.split(":")` -/
def splitAll (sep : Char) (s : Str) : List Str := splitAllAux sep [] s

/-- browse-name prefix: `int(x.split(":")[0]) if ":" in x else 0` and `x.split(":")[1] if ":" in x else x` -/
def browseSplit (x : Str) : Except PyErr (Int × Str) :=
  if ':' ∈ x then
    match splitAll ':' x with
    | p :: n :: _ => do let k ← pyIntE p; return (k, n)
    | _ => .error .indexError
  else .ok (0, x)

/-- two's-complement wrap of pandas' fixed-width cast -/
def wrapInt (bits : Nat) (n : Int) : Int :=
  let m : Int := 2 ^ bits
  let h : Int := 2 ^ (bits - 1)
  ((n + h) % m + m) % m - h

/-- the typed attribute columns of `get_attrib_df` -/
def typedAttr (k v : Str) : Except PyErr AttrVal :=
  if k = "IsAbstract".toList ∨ k = "Symmetric".toList then
    .ok (.bool (!(v = "false".toList ∨ v = [])))
  else if k = "ValueRank".toList ∨ k = "AccessLevel".toList ∨ k = "EventNotifier".toList then
    do let n ← pyIntE v; return .int (wrapInt 8 n)
  else if k = "MinimumSamplingInterval".toList then
    do let n ← pyIntE v; return .int (wrapInt 32 n)
  else .ok (.str v)

def kNodeId : Str := "NodeId".toList
def kBrowseName : Str := "BrowseName".toList
def kDataType : Str := "DataType".toList
def kParentNodeId : Str := "ParentNodeId".toList
def kMethodDeclarationId : Str := "MethodDeclarationId".toList
def kReferenceType : Str := "ReferenceType".toList
def kIsForward : Str := "IsForward".toList
def kFalse : Str := "false".toList

def idAttrs : List Str := [kNodeId, kBrowseName, kDataType, kParentNodeId, kMethodDeclarationId]

def optParse (attrs : List (Str × Str)) (k : Str) (nsmap : List (Int × Int)) (al : List (Str × NodeId)) :
    Except PyErr (Option NodeId) :=
  match lookup k attrs with
  | none => .ok none
  | some t =>
    match parseNodeId t nsmap (some al) with
    | .error e => .error e
    | .ok n => .ok (some n)

/-- one typed attribute cell: `(name, value)` -/
def typedPair (p : Str × Str) : Except PyErr (Str × AttrVal) :=
  match typedAttr p.1 p.2 with
  | .error e => .error e
  | .ok v => .ok (p.1, v)

/-- `findval`: no Value element or an empty one is missing; otherwise `parse_value` of its first child -/
def optDecode (v : Option Xml.T) : Except PyErr (Option Val) :=
  match v with
  | none => .ok none
  | some t =>
    match decodeValue t with
    | .error x => .error x
    | .ok val => .ok (some val)

/-- `parse_node_attrib` + `finddisplayname` + `finddescription` + `get_attrib_df` + browse-name split -/
def parseNode (nsmap : List (Int × Int)) (al : List (Str × NodeId)) (e : NodeElem) : Except PyErr NodeRow :=
  match lookup kNodeId e.attrs with
  | none => .error .keyError
  | some nidText =>
    match parseNodeId nidText nsmap (some al) with
    | .error x => .error x
    | .ok nid =>
      match optParse e.attrs kDataType nsmap al with
      | .error x => .error x
      | .ok dt =>
        match optParse e.attrs kParentNodeId nsmap al with
        | .error x => .error x
        | .ok pa =>
          match optParse e.attrs kMethodDeclarationId nsmap al with
          | .error x => .error x
          | .ok md =>
            match lookup kBrowseName e.attrs with
            | none => .error .keyError
            | some bnText =>
              match browseSplit bnText with
              | .error x => .error x
              | .ok (bk, bn) =>
                match mapE typedPair (e.attrs.filter fun p => !idAttrs.contains p.1) with
                | .error x => .error x
                | .ok others =>
                  match optDecode e.value with
                  | .error x => .error x
                  | .ok val =>
                    .ok { cls := e.cls, nodeId := nid, browseName := bn, browseNs := lookup bk nsmap,
                          display := firstText e.displayNames, description := firstText e.descriptions,
                          dataType := dt, parent := pa, methodDecl := md, attrs := others, value := val }

/-- `findrefs` + `fix_ref_attrib` + the IsForward swap for one Reference element of node `src` -/
def parseRef (nsmap : List (Int × Int)) (al : List (Str × NodeId)) (src : NodeId) (r : RefElem) :
    Except PyErr Triple :=
  match r.text with
  | none => .error .attributeError
  | some t =>
    match parseNodeId (rstrip t) nsmap (some al) with
    | .error x => .error x
    | .ok other =>
      match lookup kReferenceType r.attrs with
      | none => .error .keyError
      | some tyText =>
        match parseNodeId tyText nsmap (some al) with
        | .error x => .error x
        | .ok ty =>
          if lookup kIsForward r.attrs = some kFalse then .ok (other, src, ty) else .ok (src, other, ty)

/-- pandas `drop_duplicates` (keep first) -/
def dedup {α} [DecidableEq α] : List α → List α := uniques

/-- the alias table of a document (`alias_map[name] = parse_nodeid(text, namespace_map)` in document
    order): `lookup` returns the first binding, and the most recent definition is consed in front,
    so later definitions of a name win as with dict assignment -/
def aliasTable (nsmap : List (Int × Int)) (as : List (Str × Str)) : Except PyErr (List (Str × NodeId)) :=
  as.foldlM (fun tbl p => do
    let n ← parseNodeId p.2 nsmap none
    return (p.1, n) :: tbl) []

structure ParsedDoc where
  nodes : List NodeRow
  refs : List Triple
  models : List ModelElem

/-- split a list into consecutive batches of `k` (the parser's `batchsize`) -/
def batches {α} (k : Nat) (l : List α) : List (List α) :=
  if h : k = 0 ∨ l = [] then (if l = [] then [] else [l])
  else l.take k :: batches k (l.drop k)
termination_by l.length
decreasing_by
  have h1 : k ≠ 0 := fun e => h (Or.inl e)
  have h2 : l ≠ [] := fun e => h (Or.inr e)
  have : 0 < l.length := List.length_pos_iff.2 h2
  simp [List.length_drop]; omega

/-- `iterparse_xml` + `parse_xml_without_normalization` for one document against the global list;
    nodes are processed batch by batch as the code does -/
def parseDoc (global : List Str) (d : Doc) (batch : Nat := 100000) : Except PyErr (List Str × ParsedDoc) :=
  let ext := extendNs (withUA global) d.uris
  let nsmap := nsMapOf ext.2
  match aliasTable nsmap d.aliases with
  | .error e => .error e
  | .ok al =>
    if d.nodes = [] then .error .valueError            -- `pd.concat([])`: "No objects to concatenate"
    else
      match mapE (mapE (parseNode nsmap al)) (batches batch d.nodes) with
      | .error e => .error e
      | .ok rowsB =>
        match mapE (fun p => mapE (parseRef nsmap al p.2.nodeId) p.1.refs) (d.nodes.zip rowsB.flatten) with
        | .error e => .error e
        | .ok trips =>
          .ok (ext.1, { nodes := rowsB.flatten, refs := dedup trips.flatten, models := d.models })

structure ParseOut where
  namespaces : List Str
  nodes : List NodeRow
  refs : List Triple
  models : List ModelElem

/-- `parse_xml_files` (files already filtered and sorted), before normalisation -/
def parseFilesAux : List Str → List Doc → Except PyErr ParseOut
  | g, [] => .ok { namespaces := g, nodes := [], refs := [], models := [] }
  | g, d :: ds =>
    match parseDoc g d with
    | .error e => .error e
    | .ok (g1, p) =>
      match parseFilesAux g1 ds with
      | .error e => .error e
      | .ok r => .ok { namespaces := r.namespaces, nodes := p.nodes ++ r.nodes, refs := p.refs ++ r.refs,
                       models := p.models ++ r.models }

def parseFiles (caller : List Str) (docs : List Doc) : Except PyErr ParseOut :=
  if docs = [] then .error .valueError
  else match parseFilesAux caller docs with
    | .error e => .error e
    | .ok r => .ok { r with refs := dedup r.refs }

/-! ### `normalize_wrt_nodeid` -/

/-- `get_indexer`: code of a NodeId in the `uniques` table; `none` = -1 -/
def code {α} [DecidableEq α] (us : List α) (a : α) : Option Nat :=
  if a ∈ us then some (us.idxOf a) else none

/-- all ids in the order `pd.concat` sees them: the four node columns, then the three reference columns -/
def allIds (nodes : List NodeRow) (refs : List Triple) : List NodeId :=
  nodes.map (·.nodeId) ++ nodes.filterMap (·.parent) ++ nodes.filterMap (·.dataType) ++
    nodes.filterMap (·.methodDecl) ++ refs.map (·.1) ++ refs.map (·.2.1) ++ refs.map (·.2.2)

structure NormRow where
  id : Option Nat
  parent : Option Nat
  dataType : Option Nat
  methodDecl : Option Nat
deriving Repr, DecidableEq

structure Normalized where
  lookup : List NodeId                       -- `lookup_df["uniques"]`, position = id
  nodeIds : List NormRow
  refs : List (Option Nat × Option Nat × Option Nat)
deriving Repr

def normalize (nodes : List NodeRow) (refs : List Triple) : Normalized :=
  let us := uniques (allIds nodes refs)
  { lookup := us,
    nodeIds := nodes.map fun r => ⟨code us r.nodeId, r.parent.bind (code us), r.dataType.bind (code us),
                                   r.methodDecl.bind (code us)⟩,
    refs := refs.map fun t => (code us t.1, code us t.2.1, code us t.2.2) }

end Opcua

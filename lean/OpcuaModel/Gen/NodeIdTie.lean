import OpcuaModel.Gen.NodeIdGen
import OpcuaModel.Props.C09
import OpcuaModel.Props.C03
/-! # Tie (A) for the NodeId kernel and `extend_namespace_map`: the definitions GENERATED from the Python source are equal to the
hand model, so every C09 theorem is a theorem about the code as written.  This file is re-checked against
a freshly generated `NodeIdGen` on every run of the C09 / C03 checks. -/
namespace Opcua.Tie
open Opcua

theorem cachedParse_eq (s : Str) : Gen.cached_parse_nodeid s = cachedParse s := by
  unfold Gen.cached_parse_nodeid cachedParse nsPrefixed
  by_cases hp : startsWith (lstrip s) ['n', 's', '='] = true
  · simp only [hp, if_true]
    rcases h1 : split1 ';' s with ⟨a, ra⟩
    rcases h3 : split1 '=' a with ⟨c, rc⟩
    cases rc with
    | none => cases ra <;> simp [pySplit1, pyIndex, bindE, h1, h3]
    | some k =>
      cases hk : pyInt k with
      | none => cases ra <;> simp [pySplit1, pyIndex, bindE, pyIntE, h1, h3, hk]
      | some n =>
        cases ra with
        | none => simp [pySplit1, pyIndex, bindE, pyIntE, h1, h3, hk]
        | some rest =>
          rcases h4 : split1 '=' rest with ⟨t, rv⟩
          cases rv with
          | none => simp [pySplit1, pyIndex, pyUnpack2, bindE, pyIntE, h1, h3, hk, h4]
          | some v =>
            cases ht : IdType.ofStr t <;>
              simp [pySplit1, pyIndex, pyUnpack2, bindE, pyIntE, IdType.ofStrE, pyStr, h1, h3, hk, h4, ht]
  · simp only [hp, if_false, Bool.false_eq_true]
    rcases h2 : split1 '=' s with ⟨t, rv⟩
    cases rv with
    | none => simp [pySplit1, pyLen, pyIndex, pyUnpack2, bindE, h2]
    | some v =>
      cases ht : IdType.ofStr t <;> simp [pySplit1, pyLen, pyIndex, pyUnpack2, bindE, IdType.ofStrE, pyStr, h2, ht]

theorem parseNodeId_some_eq (s : Str) (m : List (Int × Int)) (al : Option (List (Str × NodeId))) :
    Gen.parse_nodeid s (some m) al = parseNodeId s m al := by
  unfold Gen.parse_nodeid parseNodeId
  simp only [cachedParse_eq]
  cases al with
  | none =>
    cases hc : cachedParse s with
    | error e => cases m <;> simp [bindE, pyIsSome, pyDictHas, pyTruthy, pyDictGet]
    | ok r =>
      obtain ⟨ns, ty, v⟩ := r
      cases m with
      | nil => cases hk : mkNodeId ns ty v <;> simp [bindE, pyIsSome, pyDictHas, pyTruthy, pyDictGet, hk]
      | cons p ps =>
        cases hl : lookup ns (p :: ps) with
        | none => simp [bindE, pyIsSome, pyDictHas, pyTruthy, pyDictGet, hl]
        | some g => cases hk : mkNodeId g ty v <;> simp [bindE, pyIsSome, pyDictHas, pyTruthy, pyDictGet, hl, hk]
  | some l =>
    cases hl0 : lookup s l with
    | some n => simp [bindE, pyIsSome, pyDictHas, pyTruthy, pyDictGet, hl0]
    | none =>
      cases hc : cachedParse s with
      | error e => cases m <;> simp [bindE, pyIsSome, pyDictHas, pyTruthy, pyDictGet, hl0]
      | ok r =>
        obtain ⟨ns, ty, v⟩ := r
        cases m with
        | nil => cases hk : mkNodeId ns ty v <;> simp [bindE, pyIsSome, pyDictHas, pyTruthy, pyDictGet, hl0, hk]
        | cons p ps =>
          cases hl : lookup ns (p :: ps) with
          | none => simp [bindE, pyIsSome, pyDictHas, pyTruthy, pyDictGet, hl0, hl]
          | some g => cases hk : mkNodeId g ty v <;> simp [bindE, pyIsSome, pyDictHas, pyTruthy, pyDictGet, hl0, hl, hk]

theorem print_eq (n : NodeId) : Gen.nodeid_str n = .ok n.print := by
  unfold Gen.nodeid_str NodeId.print
  by_cases h : n.ns = 0 <;> simp [h, pyFormat, PyFormat.fmt, pyEnumValue]

theorem parseNodeId_none_eq (s : Str) (al : Option (List (Str × NodeId))) :
    Gen.parse_nodeid s none al = parseNodeId s [] al := by
  unfold Gen.parse_nodeid parseNodeId
  simp only [cachedParse_eq]
  cases al with
  | none =>
    cases hc : cachedParse s with
    | error e => simp [bindE, pyIsSome, pyDictHas, pyTruthy, pyDictGet]
    | ok r =>
      obtain ⟨ns, ty, v⟩ := r
      cases hk : mkNodeId ns ty v <;> simp [bindE, pyIsSome, pyDictHas, pyTruthy, pyDictGet, hk]
  | some l =>
    cases hl0 : lookup s l with
    | some n => simp [bindE, pyIsSome, pyDictHas, pyTruthy, pyDictGet, hl0]
    | none =>
      cases hc : cachedParse s with
      | error e => simp [bindE, pyIsSome, pyDictHas, pyTruthy, pyDictGet, hl0]
      | ok r =>
        obtain ⟨ns, ty, v⟩ := r
        cases hk : mkNodeId ns ty v <;> simp [bindE, pyIsSome, pyDictHas, pyTruthy, pyDictGet, hl0, hk]

/-! ### the C09 theorems, restated for the definitions generated from the source -/

/-- **round trip, about the code as written**: printing a valid NodeId with the generated `__str__`
    and parsing the text with the generated `parse_nodeid` (no map, no aliases) gives it back -/
theorem gen_parse_print (n : NodeId) (hv : n.Valid) :
    bindE (Gen.nodeid_str n) (fun t => Gen.parse_nodeid t none none) = .ok n := by
  rw [print_eq]; simp only [bindE]; rw [parseNodeId_none_eq]
  exact C09.parse_print n hv

/-- with a namespace map: the local index is replaced by its image, `KeyError` when it has none -/
theorem gen_parse_mapped (n : NodeId) (m : List (Int × Int)) (hm : m ≠ []) (g : Int)
    (hg : lookup n.ns m = some g) (hv : n.Valid) :
    bindE (Gen.nodeid_str n) (fun t => Gen.parse_nodeid t (some m) none) = .ok { n with ns := g } := by
  rw [print_eq]; simp only [bindE]; rw [parseNodeId_some_eq]
  exact C09.parse_mapped n m hm g hg hv

/-! ### `extend_namespace_map` -/
theorem lookup_append_none {β : Type} (k : Int) (m : List (Int × β)) (p : Int × β) (h : lookup k m = none) :
    lookup k (m ++ [p]) = if p.1 = k then some p.2 else none := by
  induction m with
  | nil => obtain ⟨a, b⟩ := p; simp [lookup]
  | cons q r ih =>
    obtain ⟨a, b⟩ := q
    simp only [lookup] at h
    by_cases e : a = k
    · simp [e] at h
    · simp only [e, if_false] at h
      show lookup k ((a, b) :: (r ++ [p])) = _
      simp only [lookup, e, if_false]
      exact ih h

/-- the entries the loop adds for local indices `j+1, j+2, …` -/
def tailFrom (j : Nat) (gs : List Nat) : List (Int × Int) :=
  ((List.range' j gs.length).zip gs).map fun p => (((p.1 : Nat) : Int) + 1, ((p.2 : Nat) : Int))

theorem nsMapOf_eq (gs : List Nat) : nsMapOf gs = (0, 0) :: tailFrom 0 gs := by
  simp [nsMapOf, tailFrom, List.range_eq_range']

theorem tailFrom_cons (j g : Nat) (gs : List Nat) :
    tailFrom j (g :: gs) = (((j : Nat) : Int) + 1, ((g : Nat) : Int)) :: tailFrom (j + 1) gs := by
  simp [tailFrom, List.range'_succ]

theorem go_spec {f : Nat → Str → List Str × List (Int × Int) → Except PyErr (List Str × List (Int × Int))}
    (hf : ∀ i n ex m, f i n (ex, m) = .ok (addUri ex n, pyDictSet m (((i : Nat) : Int) + 1) (((addUri ex n).idxOf n : Nat) : Int)))
    (uris : List Str) (j : Nat) (ex : List Str) (m : List (Int × Int))
    (hm : ∀ k : Int, ((j : Nat) : Int) + 1 ≤ k → lookup k m = none) :
    pyEnumFoldE.go f j uris (ex, m) = .ok ((extendNs ex uris).1, m ++ tailFrom j (extendNs ex uris).2) := by
  induction uris generalizing j ex m with
  | nil => simp [pyEnumFoldE.go, extendNs, tailFrom]
  | cons n rest ih =>
    have hnone : lookup (((j : Nat) : Int) + 1) m = none := hm _ (Int.le_refl _)
    have hset : pyDictSet m (((j : Nat) : Int) + 1) (((addUri ex n).idxOf n : Nat) : Int) =
        m ++ [(((j : Nat) : Int) + 1, (((addUri ex n).idxOf n : Nat) : Int))] := by
      simp [pyDictSet, hnone]
    simp only [pyEnumFoldE.go, hf, hset]
    have hm' : ∀ k : Int, (((j + 1 : Nat) : Nat) : Int) + 1 ≤ k →
        lookup k (m ++ [(((j : Nat) : Int) + 1, (((addUri ex n).idxOf n : Nat) : Int))]) = none := by
      intro k hk
      have h1 : lookup k m = none := hm k (by omega)
      rw [lookup_append_none k m _ h1]
      have : ¬ (((j : Nat) : Int) + 1 = k) := by omega
      simp [this]
    rw [ih (j + 1) (addUri ex n) _ hm']
    simp [extendNs, tailFrom_cons, List.append_assoc]

/-- **tie (A) for `extend_namespace_map`**: the definition generated from the source, started with the
    map `{0: 0}` as `iterparse_xml` does, returns the global list and the namespace map of the hand
    model — so the C03 theorems are theorems about the code as written -/
theorem extend_eq (e uris : List Str) :
    Gen.extend_namespace_map e uris [(0, 0)] = .ok (nsMapOf (extendNs e uris).2, (extendNs e uris).1) := by
  unfold Gen.extend_namespace_map
  have h0 : pyContains ([((0 : Int), (0 : Int))] : List (Int × Int)) (0 : Int) = true := by decide
  simp only [h0, Bool.not_true, Bool.false_eq_true, if_false, bindE, pyEnumFoldE]
  rw [go_spec (f := _) ?_ uris 0 e [(0, 0)] ?_]
  · simp [nsMapOf_eq]
  · intro i n ex m
    by_cases hmem : n ∈ ex
    · simp [pyContains, PyContains.has, hmem, bindE, pyListIndex, addUri]
    · simp [pyContains, PyContains.has, hmem, bindE, pyListIndex, pyListAppend, addUri]
  · intro k hk
    have : ¬ ((0 : Int) = k) := by omega
    simp [lookup, this]


/-- C03's `extend_correct`, restated for the generated definition: the i-th URI of a document is found
    in the returned global list at the index the returned map gives for local index i+1 -/
theorem gen_extend_correct (e uris : List Str) (i : Nat) (hi : i < uris.length) :
    ∃ m l g, Gen.extend_namespace_map e uris [(0, 0)] = .ok (m, l) ∧
      lookup (((i : Nat) : Int) + 1) m = some ((g : Nat) : Int) ∧ l[g]? = uris[i]? := by
  obtain ⟨g, h1, h2⟩ := C03.extend_correct e uris i hi
  refine ⟨_, _, g, extend_eq e uris, ?_, h2⟩
  rw [C03.lookup_nsMapOf, h1]; rfl


end Opcua.Tie

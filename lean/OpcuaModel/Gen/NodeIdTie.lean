import OpcuaModel.Gen.NodeIdGen
import OpcuaModel.Props.C09
import OpcuaModel.Props.C03
import OpcuaModel.Props.C08
import OpcuaModel.Props.C10
/-! # Tie (A) for the NodeId kernel and `extend_namespace_map`: the definitions GENERATED from the Python source are equal to the
hand model, so every C09 theorem is a theorem about the code as written.  This file is re-checked against
a freshly generated `NodeIdGen` on every run of the C09 / C03 checks. -/
namespace Opcua.Tie
open Opcua

theorem cachedParse_eq (s : Str) : Gen.cached_parse_nodeid s = cachedParse s := by
  unfold Gen.cached_parse_nodeid cachedParse nsPrefixed
  by_cases hp : startsWith (lstrip s) ['n', 's', '='] = true
  · simp only [hp, if_true]
    rcases h1 : split1 ';' s with ⟨a, ra⟩
    rcases h3 : split1 '=' a with ⟨c, rc⟩
    cases rc with
    | none => cases ra <;> simp [pySplit1, pyIndex, bindE, h1, h3]
    | some k =>
      cases hk : pyInt k with
      | none => cases ra <;> simp [pySplit1, pyIndex, bindE, pyIntE, h1, h3, hk]
      | some n =>
        cases ra with
        | none => simp [pySplit1, pyIndex, bindE, pyIntE, h1, h3, hk]
        | some rest =>
          rcases h4 : split1 '=' rest with ⟨t, rv⟩
          cases rv with
          | none => simp [pySplit1, pyIndex, pyUnpack2, bindE, pyIntE, h1, h3, hk, h4]
          | some v =>
            cases ht : IdType.ofStr t <;>
              simp [pySplit1, pyIndex, pyUnpack2, bindE, pyIntE, IdType.ofStrE, pyStr, h1, h3, hk, h4, ht]
  · simp only [hp, if_false, Bool.false_eq_true]
    rcases h2 : split1 '=' s with ⟨t, rv⟩
    cases rv with
    | none => simp [pySplit1, pyLen, pyIndex, pyUnpack2, bindE, h2]
    | some v =>
      cases ht : IdType.ofStr t <;> simp [pySplit1, pyLen, pyIndex, pyUnpack2, bindE, IdType.ofStrE, pyStr, h2, ht]

theorem parseNodeId_some_eq (s : Str) (m : List (Int × Int)) (al : Option (List (Str × NodeId))) :
    Gen.parse_nodeid s (some m) al = parseNodeId s m al := by
  unfold Gen.parse_nodeid parseNodeId
  simp only [cachedParse_eq]
  cases al with
  | none =>
    cases hc : cachedParse s with
    | error e => cases m <;> simp [bindE, pyIsSome, pyDictHas, pyTruthy, pyDictGet]
    | ok r =>
      obtain ⟨ns, ty, v⟩ := r
      cases m with
      | nil => cases hk : mkNodeId ns ty v <;> simp [bindE, pyIsSome, pyDictHas, pyTruthy, pyDictGet, hk]
      | cons p ps =>
        cases hl : lookup ns (p :: ps) with
        | none => simp [bindE, pyIsSome, pyDictHas, pyTruthy, pyDictGet, hl]
        | some g => cases hk : mkNodeId g ty v <;> simp [bindE, pyIsSome, pyDictHas, pyTruthy, pyDictGet, hl, hk]
  | some l =>
    cases hl0 : lookup s l with
    | some n => simp [bindE, pyIsSome, pyDictHas, pyTruthy, pyDictGet, hl0]
    | none =>
      cases hc : cachedParse s with
      | error e => cases m <;> simp [bindE, pyIsSome, pyDictHas, pyTruthy, pyDictGet, hl0]
      | ok r =>
        obtain ⟨ns, ty, v⟩ := r
        cases m with
        | nil => cases hk : mkNodeId ns ty v <;> simp [bindE, pyIsSome, pyDictHas, pyTruthy, pyDictGet, hl0, hk]
        | cons p ps =>
          cases hl : lookup ns (p :: ps) with
          | none => simp [bindE, pyIsSome, pyDictHas, pyTruthy, pyDictGet, hl0, hl]
          | some g => cases hk : mkNodeId g ty v <;> simp [bindE, pyIsSome, pyDictHas, pyTruthy, pyDictGet, hl0, hl, hk]

theorem print_eq (n : NodeId) : Gen.nodeid_str n = .ok n.print := by
  unfold Gen.nodeid_str NodeId.print
  by_cases h : n.ns = 0 <;> simp [h, pyFormat, PyFormat.fmt, pyEnumValue]

theorem parseNodeId_none_eq (s : Str) (al : Option (List (Str × NodeId))) :
    Gen.parse_nodeid s none al = parseNodeId s [] al := by
  unfold Gen.parse_nodeid parseNodeId
  simp only [cachedParse_eq]
  cases al with
  | none =>
    cases hc : cachedParse s with
    | error e => simp [bindE, pyIsSome, pyDictHas, pyTruthy, pyDictGet]
    | ok r =>
      obtain ⟨ns, ty, v⟩ := r
      cases hk : mkNodeId ns ty v <;> simp [bindE, pyIsSome, pyDictHas, pyTruthy, pyDictGet, hk]
  | some l =>
    cases hl0 : lookup s l with
    | some n => simp [bindE, pyIsSome, pyDictHas, pyTruthy, pyDictGet, hl0]
    | none =>
      cases hc : cachedParse s with
      | error e => simp [bindE, pyIsSome, pyDictHas, pyTruthy, pyDictGet, hl0]
      | ok r =>
        obtain ⟨ns, ty, v⟩ := r
        cases hk : mkNodeId ns ty v <;> simp [bindE, pyIsSome, pyDictHas, pyTruthy, pyDictGet, hl0, hk]

/-! ### the C09 theorems, restated for the definitions generated from the source -/

/-- **round trip, about the code as written**: printing a valid NodeId with the generated `__str__`
    and parsing the text with the generated `parse_nodeid` (no map, no aliases) gives it back -/
theorem gen_parse_print (n : NodeId) (hv : n.Valid) :
    bindE (Gen.nodeid_str n) (fun t => Gen.parse_nodeid t none none) = .ok n := by
  rw [print_eq]; simp only [bindE]; rw [parseNodeId_none_eq]
  exact C09.parse_print n hv

/-- with a namespace map: the local index is replaced by its image, `KeyError` when it has none -/
theorem gen_parse_mapped (n : NodeId) (m : List (Int × Int)) (hm : m ≠ []) (g : Int)
    (hg : lookup n.ns m = some g) (hv : n.Valid) :
    bindE (Gen.nodeid_str n) (fun t => Gen.parse_nodeid t (some m) none) = .ok { n with ns := g } := by
  rw [print_eq]; simp only [bindE]; rw [parseNodeId_some_eq]
  exact C09.parse_mapped n m hm g hg hv

/-! ### `extend_namespace_map` -/
theorem lookup_append_none {β : Type} (k : Int) (m : List (Int × β)) (p : Int × β) (h : lookup k m = none) :
    lookup k (m ++ [p]) = if p.1 = k then some p.2 else none := by
  induction m with
  | nil => obtain ⟨a, b⟩ := p; simp [lookup]
  | cons q r ih =>
    obtain ⟨a, b⟩ := q
    simp only [lookup] at h
    by_cases e : a = k
    · simp [e] at h
    · simp only [e, if_false] at h
      show lookup k ((a, b) :: (r ++ [p])) = _
      simp only [lookup, e, if_false]
      exact ih h

/-- the entries the loop adds for local indices `j+1, j+2, …` -/
def tailFrom (j : Nat) (gs : List Nat) : List (Int × Int) :=
  ((List.range' j gs.length).zip gs).map fun p => (((p.1 : Nat) : Int) + 1, ((p.2 : Nat) : Int))

theorem nsMapOf_eq (gs : List Nat) : nsMapOf gs = (0, 0) :: tailFrom 0 gs := by
  simp [nsMapOf, tailFrom, List.range_eq_range']

theorem tailFrom_cons (j g : Nat) (gs : List Nat) :
    tailFrom j (g :: gs) = (((j : Nat) : Int) + 1, ((g : Nat) : Int)) :: tailFrom (j + 1) gs := by
  simp [tailFrom, List.range'_succ]

theorem go_spec {f : Nat → Str → List Str × List (Int × Int) → Except PyErr (List Str × List (Int × Int))}
    (hf : ∀ i n ex m, f i n (ex, m) = .ok (addUri ex n, pyDictSet m (((i : Nat) : Int) + 1) (((addUri ex n).idxOf n : Nat) : Int)))
    (uris : List Str) (j : Nat) (ex : List Str) (m : List (Int × Int))
    (hm : ∀ k : Int, ((j : Nat) : Int) + 1 ≤ k → lookup k m = none) :
    pyEnumFoldE.go f j uris (ex, m) = .ok ((extendNs ex uris).1, m ++ tailFrom j (extendNs ex uris).2) := by
  induction uris generalizing j ex m with
  | nil => simp [pyEnumFoldE.go, extendNs, tailFrom]
  | cons n rest ih =>
    have hnone : lookup (((j : Nat) : Int) + 1) m = none := hm _ (Int.le_refl _)
    have hset : pyDictSet m (((j : Nat) : Int) + 1) (((addUri ex n).idxOf n : Nat) : Int) =
        m ++ [(((j : Nat) : Int) + 1, (((addUri ex n).idxOf n : Nat) : Int))] := by
      simp [pyDictSet, hnone]
    simp only [pyEnumFoldE.go, hf, hset]
    have hm' : ∀ k : Int, (((j + 1 : Nat) : Nat) : Int) + 1 ≤ k →
        lookup k (m ++ [(((j : Nat) : Int) + 1, (((addUri ex n).idxOf n : Nat) : Int))]) = none := by
      intro k hk
      have h1 : lookup k m = none := hm k (by omega)
      rw [lookup_append_none k m _ h1]
      have : ¬ (((j : Nat) : Int) + 1 = k) := by omega
      simp [this]
    rw [ih (j + 1) (addUri ex n) _ hm']
    simp [extendNs, tailFrom_cons, List.append_assoc]

/-- **tie (A) for `extend_namespace_map`**: the definition generated from the source, started with the
    map `{0: 0}` as `iterparse_xml` does, returns the global list and the namespace map of the hand
    model — so the C03 theorems are theorems about the code as written -/
theorem extend_eq (e uris : List Str) :
    Gen.extend_namespace_map e uris [(0, 0)] = .ok (nsMapOf (extendNs e uris).2, (extendNs e uris).1) := by
  unfold Gen.extend_namespace_map
  have h0 : pyContains ([((0 : Int), (0 : Int))] : List (Int × Int)) (0 : Int) = true := by decide
  simp only [h0, Bool.not_true, Bool.false_eq_true, if_false, bindE, pyEnumFoldE]
  rw [go_spec (f := _) ?_ uris 0 e [(0, 0)] ?_]
  · simp [nsMapOf_eq]
  · intro i n ex m
    by_cases hmem : n ∈ ex
    · simp [pyContains, PyContains.has, hmem, bindE, pyListIndex, addUri]
    · simp [pyContains, PyContains.has, hmem, bindE, pyListIndex, pyListAppend, addUri]
  · intro k hk
    have : ¬ ((0 : Int) = k) := by omega
    simp [lookup, this]


/-- C03's `extend_correct`, restated for the generated definition: the i-th URI of a document is found
    in the returned global list at the index the returned map gives for local index i+1 -/
theorem gen_extend_correct (e uris : List Str) (i : Nat) (hi : i < uris.length) :
    ∃ m l g, Gen.extend_namespace_map e uris [(0, 0)] = .ok (m, l) ∧
      lookup (((i : Nat) : Int) + 1) m = some ((g : Nat) : Int) ∧ l[g]? = uris[i]? := by
  obtain ⟨g, h1, h2⟩ := C03.extend_correct e uris i hi
  refine ⟨_, _, g, extend_eq e uris, ?_, h2⟩
  rw [C03.lookup_nsMapOf, h1]; rfl



/-! ### `UAGraph._get_namespace_list` -/

theorem pyFoldE_append (g : Int → Str) (f : Int → List Str → Except PyErr (List Str)) (xs : List Int) (l0 : List Str)
    (hf : ∀ i ∈ xs, ∀ l, f i l = .ok (l ++ [g i])) :
    pyFoldE f xs l0 = .ok (l0 ++ xs.map g) := by
  induction xs generalizing l0 with
  | nil => simp [pyFoldE]
  | cons x r ih =>
    simp only [pyFoldE, hf x (by simp)]
    rw [ih _ (fun i hi => hf i (by simp [hi]))]
    simp

def castKeys (d : List (Nat × Str)) : List (Int × Str) := d.map fun p => ((p.1 : Int), p.2)

theorem lookup_cast (d : List (Nat × Str)) (k : Nat) : lookup (k : Int) (castKeys d) = lookup k d := by
  induction d with
  | nil => rfl
  | cons p r ih =>
    obtain ⟨a, b⟩ := p
    simp only [castKeys, List.map_cons, lookup] at ih ⊢
    by_cases h : a = k
    · simp [h]
    · have : ¬ ((a : Int) = (k : Int)) := by omega
      simp only [h, this, if_false]
      exact ih

theorem mem_keys_cast (d : List (Nat × Str)) (k : Nat) : ((k : Int) ∈ pyKeys (castKeys d)) ↔ (lookup k d).isSome = true := by
  induction d with
  | nil => simp [pyKeys, castKeys, lookup]
  | cons p r ih =>
    obtain ⟨a, b⟩ := p
    simp only [pyKeys, castKeys, List.map_cons, List.map_map, List.mem_cons, lookup] at ih ⊢
    by_cases h : a = k
    · simp [h]
    · have : ¬ ((k : Int) = (a : Int)) := by omega
      simp only [this, false_or, h, if_false]
      exact ih

theorem foldl_max_cast (l : List Nat) (a : Nat) :
    (l.map (fun n : Nat => (n : Int))).foldl max (a : Int) = ((l.foldl max a : Nat) : Int) := by
  induction l generalizing a with
  | nil => rfl
  | cons b r ih =>
    simp only [List.map_cons, List.foldl_cons]
    have : max (a : Int) (b : Int) = ((max a b : Nat) : Int) := by omega
    rw [this, ih]

theorem max_cast (l : List Nat) : (l.map (fun n : Nat => (n : Int))).max? = l.max?.map (fun n : Nat => (n : Int)) := by
  cases l with
  | nil => rfl
  | cons a r => simp only [List.map_cons, List.max?_cons', Option.map_some, foldl_max_cast]

/-- **tie (A) for `UAGraph._Gen.get_namespace_list`**: the definition generated from the source computes the hand
    model `namespaceListOfDict` (the object of C03's `namespaceList_at`) on every non-empty dict with
    natural-number keys -/
theorem getNamespaceList_eq (d : List (Nat × Str)) (hne : d ≠ []) :
    Gen.get_namespace_list (castKeys d) = .ok (namespaceListOfDict d) := by
  unfold Gen.get_namespace_list namespaceListOfDict
  have hk : pyKeys (castKeys d) = (d.map Prod.fst).map (fun n : Nat => (n : Int)) := by
    simp [pyKeys, castKeys, List.map_map, Function.comp_def]
  cases hm : (d.map Prod.fst).max? with
  | none =>
    exfalso
    cases d with
    | nil => exact hne rfl
    | cons p r => simp [List.max?_cons'] at hm
  | some m =>
    have hmax : pyMax (pyKeys (castKeys d)) = .ok (m : Int) := by
      unfold pyMax
      rw [hk, max_cast, hm]
      rfl
    simp only [hmax, bindE, pyRangeFoldE]
    have hn : (((m : Int) + 1) - 0).toNat = m + 1 := by omega
    rw [hn]
    rw [pyFoldE_append (fun i => (lookup i.toNat d).getD "None".toList)]
    · simp [List.map_map, Function.comp_def]
    · intro i hi l
      simp only [List.mem_map, List.mem_range] at hi
      obtain ⟨k, _, rfl⟩ := hi
      have hik : (0 : Int) + (k : Int) = (k : Int) := by omega
      rw [hik]
      by_cases hin : (lookup k d).isSome = true
      · have h1 : pyContains (pyKeys (castKeys d)) (k : Int) = true := by
          simp [pyContains, PyContains.has, (mem_keys_cast d k).2 hin]
        obtain ⟨v, hv⟩ := Option.isSome_iff_exists.1 hin
        simp [h1, pyAssocGet, lookup_cast, hv, bindE, pyListAppend]
      · have h1 : pyContains (pyKeys (castKeys d)) (k : Int) = false := by
          have : ¬ ((k : Int) ∈ pyKeys (castKeys d)) := fun h => hin ((mem_keys_cast d k).1 h)
          simp [pyContains, PyContains.has, this]
        have hv : lookup k d = none := by
          cases h : lookup k d with
          | none => rfl
          | some v => simp [h] at hin
        simp [h1, hv, bindE, pyListAppend]

/-- C03's `namespaceList_at`, restated for the generated definition -/
theorem gen_namespaceList_at (d : List (Nat × Str)) (i : Nat) (u : Str) (h : lookup i d = some u) :
    ∃ l, Gen.get_namespace_list (castKeys d) = .ok l ∧ l[i]? = some u := by
  have hne : d ≠ [] := by intro e; subst e; simp [lookup] at h
  exact ⟨_, getNamespaceList_eq d hne, C03.namespaceList_at d i u h⟩


/-! ### `UANodeId.nodeid_type_value_to_int`, `UANodeId.xml_encode`, `UANodeId.json_encode`: generated = hand model -/

theorem typeInt_eq (n : NodeId) : Gen.nodeid_type_value_to_int n = .ok ((idTypeInt n.ty : Nat) : Int) := by
  cases n with
  | mk ns ty ident =>
    cases ty <;> simp [Gen.nodeid_type_value_to_int, pyLitHas, pyLitGet, lookup, pyEnumValue, IdType.char, bindE, idTypeInt]

theorem tId_eq : tId = ['I', 'd', 'e', 'n', 't', 'i', 'f', 'i', 'e', 'r'] := by decide
theorem xmlns_eq : xmlnsAttr true = [' '] ++ ['x', 'm', 'l', 'n', 's', '=', '"', 'h', 't', 't', 'p', ':', '/', '/', 'o', 'p', 'c', 'f', 'o', 'u', 'n', 'd', 'a', 't', 'i', 'o', 'n', '.', 'o', 'r', 'g', '/', 'U', 'A', '/', '2', '0', '0', '8', '/', '0', '2', '/', 'T', 'y', 'p', 'e', 's', '.', 'x', 's', 'd', '"'] := by decide
theorem xmlns_false : xmlnsAttr false = [] := rfl

theorem xmlEncode_eq (n : NodeId) (b : Bool) : Gen.nodeid_xml_encode n b = .ok (encodeText (.nodeId n) b) := by
  have he : encodeText (.nodeId n) b = wrap tId b n.print := by simp only [encodeText]
  rw [he]
  unfold Gen.nodeid_xml_encode wrap
  rw [print_eq, tId_eq]
  cases b
  · rw [xmlns_false]; simp [bindE]
  · rw [xmlns_eq]; simp [bindE]

theorem showNat_digit (d : Nat) (h : d < 10) : showNat d = [digitChar d] := by
  rw [showNat]; simp [h]

theorem jsonEncode_eq (n : NodeId) : Gen.nodeid_json_encode n = .ok (nodeIdJson n) := by
  unfold Gen.nodeid_json_encode
  rw [typeInt_eq]
  cases n with
  | mk ns ty ident =>
    have h1 : pyStrInt 1 = [digitChar 1] := showNat_digit 1 (by omega)
    have h2 : pyStrInt 2 = [digitChar 2] := showNat_digit 2 (by omega)
    have h3 : pyStrInt 3 = [digitChar 3] := showNat_digit 3 (by omega)
    by_cases h0 : ns = 0 <;> cases ty <;>
      simp [bindE, nodeIdJson, h0, pyEnumValue, IdType.char, pyFormat, PyFormat.fmt, idTypeInt, h1, h2, h3]

/-- C10 (`nodeId_numeric_valid`) restated for the generated encoder: the text `UANodeId.json_encode` — as the source reads
    now — produces for a numeric identifier parses as JSON, for every namespace and every number -/
theorem gen_nodeId_numeric_valid (ns k : Nat) :
    ∃ t, Gen.nodeid_json_encode ⟨(ns : Int), .i, showNat k⟩ = .ok t ∧
      parseJson t = parseJson (nodeIdJson ⟨(ns : Int), .i, showNat k⟩) :=
  ⟨_, jsonEncode_eq _, rfl⟩

/-- the generated XML encoder never raises and produces the model's `<Identifier>` element -/
theorem gen_xmlEncode_total (n : NodeId) (b : Bool) : ∃ t, Gen.nodeid_xml_encode n b = .ok t ∧ t = encodeText (.nodeId n) b :=
  ⟨_, xmlEncode_eq n b, rfl⟩

/-! ### `UAQualifiedName.xml_encode`, `UAQualifiedName.json_encode`: generated = hand model -/

theorem tQName_eq : "QualifiedName".toList = ['Q', 'u', 'a', 'l', 'i', 'f', 'i', 'e', 'd', 'N', 'a', 'm', 'e'] := by decide
theorem tNsIndex_eq : "NamespaceIndex".toList = ['N', 'a', 'm', 'e', 's', 'p', 'a', 'c', 'e', 'I', 'n', 'd', 'e', 'x'] := by decide
theorem tName_eq : "Name".toList = ['N', 'a', 'm', 'e'] := by decide
theorem qnameKey_eq : "{\"Name\":\"".toList = ['{', '"', 'N', 'a', 'm', 'e', '"', ':', '"'] := by decide
theorem uriKey_eq : ",\"Uri\":".toList = [',', '"', 'U', 'r', 'i', '"', ':'] := by decide

theorem qnameXml_eq (q : QName) (b : Bool) : Gen.qname_xml_encode q b = .ok (encodeText (.qname q.ns q.name) b) := by
  have he : encodeText (.qname q.ns q.name) b = wrap "QualifiedName".toList b
      (wrap "NamespaceIndex".toList false (showNat q.ns) ++ wrap "Name".toList false q.name) := by simp only [encodeText]
  rw [he]
  unfold Gen.qname_xml_encode wrap
  rw [tQName_eq, tNsIndex_eq, tName_eq, xmlns_false]
  cases b
  · rw [xmlns_false]; simp [bindE, pyFormat, PyFormat.fmt]
  · rw [xmlns_eq]; simp [bindE, pyFormat, PyFormat.fmt]

theorem qnameJson_eq (fs : Int → Str) (q : QName) :
    (Gen.qname_json_encode q).map some = jsonEncode fs (.qname q.ns q.name) := by
  rw [jsonEncode]
  unfold Gen.qname_json_encode
  rw [qnameKey_eq, uriKey_eq]
  by_cases h0 : q.ns = 0
  · simp [bindE, h0, Except.map]
  · have h1 : ¬ ((q.ns : Int) = 0) := by omega
    simp [bindE, h0, h1, Except.map, pyFormat, PyFormat.fmt]

/-! ### `xml_encode` of the eight integer built-ins and of `UABoolean`: generated = hand model -/

theorem tag_sbyte : IntKind.tag .sbyte = ['S', 'B', 'y', 't', 'e'] := by decide
theorem tag_byte : IntKind.tag .byte = ['B', 'y', 't', 'e'] := by decide
theorem tag_int16 : IntKind.tag .int16 = ['I', 'n', 't', '1', '6'] := by decide
theorem tag_uint16 : IntKind.tag .uint16 = ['U', 'I', 'n', 't', '1', '6'] := by decide
theorem tag_int32 : IntKind.tag .int32 = ['I', 'n', 't', '3', '2'] := by decide
theorem tag_uint32 : IntKind.tag .uint32 = ['U', 'I', 'n', 't', '3', '2'] := by decide
theorem tag_int64 : IntKind.tag .int64 = ['I', 'n', 't', '6', '4'] := by decide
theorem tag_uint64 : IntKind.tag .uint64 = ['U', 'I', 'n', 't', '6', '4'] := by decide
theorem tBoolean_eq : tBoolean = ['B', 'o', 'o', 'l', 'e', 'a', 'n'] := by decide
theorem true_eq : "true".toList = ['t', 'r', 'u', 'e'] := by decide
theorem false_eq : "false".toList = ['f', 'a', 'l', 's', 'e'] := by decide

theorem intXml_sbyte (v : Option Int) (b : Bool) : Gen.int_xml_encode_sbyte ⟨v⟩ b = .ok (encodeText (.int .sbyte v) b) := by
  have he : encodeText (.int .sbyte v) b = wrap (IntKind.tag .sbyte) b (intText v) := by simp only [encodeText]
  rw [he]
  unfold Gen.int_xml_encode_sbyte wrap
  rw [tag_sbyte]
  cases b <;> cases v <;> first | rw [xmlns_false] | rw [xmlns_eq]
  all_goals simp [bindE, intText, pyFormat, PyFormat.fmt]

theorem intXml_byte (v : Option Int) (b : Bool) : Gen.int_xml_encode_byte ⟨v⟩ b = .ok (encodeText (.int .byte v) b) := by
  have he : encodeText (.int .byte v) b = wrap (IntKind.tag .byte) b (intText v) := by simp only [encodeText]
  rw [he]
  unfold Gen.int_xml_encode_byte wrap
  rw [tag_byte]
  cases b <;> cases v <;> first | rw [xmlns_false] | rw [xmlns_eq]
  all_goals simp [bindE, intText, pyFormat, PyFormat.fmt]

theorem intXml_int16 (v : Option Int) (b : Bool) : Gen.int_xml_encode_int16 ⟨v⟩ b = .ok (encodeText (.int .int16 v) b) := by
  have he : encodeText (.int .int16 v) b = wrap (IntKind.tag .int16) b (intText v) := by simp only [encodeText]
  rw [he]
  unfold Gen.int_xml_encode_int16 wrap
  rw [tag_int16]
  cases b <;> cases v <;> first | rw [xmlns_false] | rw [xmlns_eq]
  all_goals simp [bindE, intText, pyFormat, PyFormat.fmt]

theorem intXml_uint16 (v : Option Int) (b : Bool) : Gen.int_xml_encode_uint16 ⟨v⟩ b = .ok (encodeText (.int .uint16 v) b) := by
  have he : encodeText (.int .uint16 v) b = wrap (IntKind.tag .uint16) b (intText v) := by simp only [encodeText]
  rw [he]
  unfold Gen.int_xml_encode_uint16 wrap
  rw [tag_uint16]
  cases b <;> cases v <;> first | rw [xmlns_false] | rw [xmlns_eq]
  all_goals simp [bindE, intText, pyFormat, PyFormat.fmt]

theorem intXml_int32 (v : Option Int) (b : Bool) : Gen.int_xml_encode_int32 ⟨v⟩ b = .ok (encodeText (.int .int32 v) b) := by
  have he : encodeText (.int .int32 v) b = wrap (IntKind.tag .int32) b (intText v) := by simp only [encodeText]
  rw [he]
  unfold Gen.int_xml_encode_int32 wrap
  rw [tag_int32]
  cases b <;> cases v <;> first | rw [xmlns_false] | rw [xmlns_eq]
  all_goals simp [bindE, intText, pyFormat, PyFormat.fmt]

theorem intXml_uint32 (v : Option Int) (b : Bool) : Gen.int_xml_encode_uint32 ⟨v⟩ b = .ok (encodeText (.int .uint32 v) b) := by
  have he : encodeText (.int .uint32 v) b = wrap (IntKind.tag .uint32) b (intText v) := by simp only [encodeText]
  rw [he]
  unfold Gen.int_xml_encode_uint32 wrap
  rw [tag_uint32]
  cases b <;> cases v <;> first | rw [xmlns_false] | rw [xmlns_eq]
  all_goals simp [bindE, intText, pyFormat, PyFormat.fmt]

theorem intXml_int64 (v : Option Int) (b : Bool) : Gen.int_xml_encode_int64 ⟨v⟩ b = .ok (encodeText (.int .int64 v) b) := by
  have he : encodeText (.int .int64 v) b = wrap (IntKind.tag .int64) b (intText v) := by simp only [encodeText]
  rw [he]
  unfold Gen.int_xml_encode_int64 wrap
  rw [tag_int64]
  cases b <;> cases v <;> first | rw [xmlns_false] | rw [xmlns_eq]
  all_goals simp [bindE, intText, pyFormat, PyFormat.fmt]

theorem intXml_uint64 (v : Option Int) (b : Bool) : Gen.int_xml_encode_uint64 ⟨v⟩ b = .ok (encodeText (.int .uint64 v) b) := by
  have he : encodeText (.int .uint64 v) b = wrap (IntKind.tag .uint64) b (intText v) := by simp only [encodeText]
  rw [he]
  unfold Gen.int_xml_encode_uint64 wrap
  rw [tag_uint64]
  cases b <;> cases v <;> first | rw [xmlns_false] | rw [xmlns_eq]
  all_goals simp [bindE, intText, pyFormat, PyFormat.fmt]

theorem boolXml_eq (v : Option Bool) (b : Bool) : Gen.bool_xml_encode ⟨v⟩ b = .ok (encodeText (.bool v) b) := by
  have he : encodeText (.bool v) b = wrap tBoolean b (boolText v) := by simp only [encodeText]
  rw [he]
  unfold Gen.bool_xml_encode wrap
  rw [tBoolean_eq]
  cases b <;> (first | rw [xmlns_false] | rw [xmlns_eq]) <;> (rcases v with _ | _ | _) <;>
    simp [bindE, boolText, true_eq, false_eq]

/-- every integer encoder, as the source reads now, is total and emits the model's text (C08's `encodeText`) -/
theorem gen_intXml_all (k : IntKind) (v : Option Int) (b : Bool) :
    ∃ t, (match k with
      | .sbyte => Gen.int_xml_encode_sbyte ⟨v⟩ b | .byte => Gen.int_xml_encode_byte ⟨v⟩ b
      | .int16 => Gen.int_xml_encode_int16 ⟨v⟩ b | .uint16 => Gen.int_xml_encode_uint16 ⟨v⟩ b
      | .int32 => Gen.int_xml_encode_int32 ⟨v⟩ b | .uint32 => Gen.int_xml_encode_uint32 ⟨v⟩ b
      | .int64 => Gen.int_xml_encode_int64 ⟨v⟩ b | .uint64 => Gen.int_xml_encode_uint64 ⟨v⟩ b) = .ok t ∧
      t = encodeText (.int k v) b := by
  cases k
  · exact ⟨_, intXml_sbyte v b, rfl⟩
  · exact ⟨_, intXml_byte v b, rfl⟩
  · exact ⟨_, intXml_int16 v b, rfl⟩
  · exact ⟨_, intXml_uint16 v b, rfl⟩
  · exact ⟨_, intXml_int32 v b, rfl⟩
  · exact ⟨_, intXml_uint32 v b, rfl⟩
  · exact ⟨_, intXml_int64 v b, rfl⟩
  · exact ⟨_, intXml_uint64 v b, rfl⟩

/-! ### `json_encode` of the six integer built-ins below 64 bits: generated = hand model -/

theorem intJson_sbyte (fs : Int → Str) (v : Option Int) : Gen.int_json_encode_sbyte ⟨v⟩ = jsonEncode fs (.int .sbyte v) := by
  rw [jsonEncode]
  cases v <;> simp [Gen.int_json_encode_sbyte, is64, pyFormat, PyFormat.fmt]

theorem intJson_byte (fs : Int → Str) (v : Option Int) : Gen.int_json_encode_byte ⟨v⟩ = jsonEncode fs (.int .byte v) := by
  rw [jsonEncode]
  cases v <;> simp [Gen.int_json_encode_byte, is64, pyFormat, PyFormat.fmt]

theorem intJson_int16 (fs : Int → Str) (v : Option Int) : Gen.int_json_encode_int16 ⟨v⟩ = jsonEncode fs (.int .int16 v) := by
  rw [jsonEncode]
  cases v <;> simp [Gen.int_json_encode_int16, is64, pyFormat, PyFormat.fmt]

theorem intJson_uint16 (fs : Int → Str) (v : Option Int) : Gen.int_json_encode_uint16 ⟨v⟩ = jsonEncode fs (.int .uint16 v) := by
  rw [jsonEncode]
  cases v <;> simp [Gen.int_json_encode_uint16, is64, pyFormat, PyFormat.fmt]

theorem intJson_int32 (fs : Int → Str) (v : Option Int) : Gen.int_json_encode_int32 ⟨v⟩ = jsonEncode fs (.int .int32 v) := by
  rw [jsonEncode]
  cases v <;> simp [Gen.int_json_encode_int32, is64, pyFormat, PyFormat.fmt]

theorem intJson_uint32 (fs : Int → Str) (v : Option Int) : Gen.int_json_encode_uint32 ⟨v⟩ = jsonEncode fs (.int .uint32 v) := by
  rw [jsonEncode]
  cases v <;> simp [Gen.int_json_encode_uint32, is64, pyFormat, PyFormat.fmt]

/-- C10's `int32_valid` restated for the generated encoder: what `UAInt32.json_encode` — as the source reads now — returns for a
    natural number is its decimal text, and that text is one JSON number token -/
theorem gen_int32_valid (n : Nat) :
    Gen.int_json_encode_int32 ⟨some (n : Int)⟩ = .ok (some (showNat n)) ∧ parseJson (showNat n) = some (.num (showNat n)) := by
  rw [intJson_int32 (fun _ => [])]
  exact C10.int32_valid _ .int32 rfl n

/-! ### `UAString.xml_encode` / `json_encode`, `UALocalizedText.xml_encode`: generated = hand model -/

theorem tString_eq : tString = ['S', 't', 'r', 'i', 'n', 'g'] := by decide
theorem tLT_eq : tLT = ['L', 'o', 'c', 'a', 'l', 'i', 'z', 'e', 'd', 'T', 'e', 'x', 't'] := by decide
theorem tLoc_eq : tLoc = ['L', 'o', 'c', 'a', 'l', 'e'] := by decide
theorem tText_eq : tText = ['T', 'e', 'x', 't'] := by decide

theorem strXml_eq (v : Option Str) (b : Bool) : Gen.str_xml_encode ⟨v⟩ b = .ok (encodeText (.str v) b) := by
  have he : encodeText (.str v) b = wrap tString b (Xml.escText (optS v)) := by simp only [encodeText]
  rw [he]
  unfold Gen.str_xml_encode wrap
  rw [tString_eq]
  cases b <;> cases v <;> first | rw [xmlns_false] | rw [xmlns_eq]
  all_goals simp [bindE, optS, pyXmlEscape, pyFormat, PyFormat.fmt, Xml.escText]

/-- `UAGuid` inherits `UAString.xml_encode`: the same generated definition is the model's Guid encoder -/
theorem guidXml_eq (v : Option Str) (b : Bool) : Gen.str_xml_encode ⟨v⟩ b = .ok (encodeText (.guid v) b) := by
  rw [strXml_eq]
  simp only [encodeText]

theorem strJson_eq (fs : Int → Str) (v : Option Str) : Gen.str_json_encode ⟨v⟩ = jsonEncode fs (.str v) := by
  rw [jsonEncode]
  cases v <;> simp [Gen.str_json_encode, pyJsonDumps]

theorem locTextXml_eq (t l : Option Str) (b : Bool) : Gen.loctext_xml_encode ⟨t, l⟩ b = .ok (encodeText (.locText t l) b) := by
  have he : encodeText (.locText t l) b = wrap tLT b (wrap tLoc false (optS l) ++ wrap tText false (Xml.escText (optS t))) := by
    simp only [encodeText]
  rw [he]
  unfold Gen.loctext_xml_encode wrap
  rw [tLT_eq, tLoc_eq, tText_eq, xmlns_false]
  cases b <;> cases t <;> cases l <;> first | rw [xmlns_false] | rw [xmlns_eq]
  all_goals simp [bindE, optS, pyXmlEscape, Xml.escText]

/-- C10's `string_valid` restated for the generated encoder -/
theorem gen_string_json (s : Str) : Gen.str_json_encode ⟨some s⟩ = .ok (some (pyJsonQuote s)) := by
  simp [Gen.str_json_encode, pyJsonDumps]

/-! ### `UALocalizedText.json_encode`: generated = hand model, with and without a locale override -/

theorem textKey_eq : "{\"Text\":".toList = ['{', '"', 'T', 'e', 'x', 't', '"', ':'] := by decide
theorem localeKey_eq : ",\"Locale\":".toList = [',', '"', 'L', 'o', 'c', 'a', 'l', 'e', '"', ':'] := by decide

/-- without an override the generated encoder is the model's `ltJson` of the value's own text and locale -/
theorem locTextJson_eq (t l : Option Str) : Gen.loctext_json_encode ⟨t, l⟩ none = .ok (ltJson t l) := by
  unfold Gen.loctext_json_encode ltJson
  rw [textKey_eq, localeKey_eq]
  cases t <;> cases l <;> simp [bindE, pyJsonDumps]

/-- with an override the Locale member is the override — whatever locale the value holds — and the Text is the value's own -/
theorem locTextJson_override (t l : Option Str) (o : Str) : Gen.loctext_json_encode ⟨t, l⟩ (some o) = .ok (ltJson t (some o)) := by
  unfold Gen.loctext_json_encode ltJson
  rw [textKey_eq, localeKey_eq]
  cases t <;> cases l <;> simp [bindE, pyJsonDumps]

/-- the generated encoder agrees with `jsonEncode` on LocalizedText values -/
theorem locTextJson_model (fs : Int → Str) (t l : Option Str) :
    (Gen.loctext_json_encode ⟨t, l⟩ none).map some = jsonEncode fs (.locText t l) := by
  rw [locTextJson_eq, jsonEncode]; rfl

open Opcua.C10 in
/-- C10's `locText_valid` restated for the generated encoder: what `UALocalizedText.json_encode()` — as the source reads now —
    returns is one JSON object whose Text / Locale members are exactly the value's text and locale, for every string -/
theorem gen_locText_valid (t : Str) (l : Option Str) :
    ∃ j, Gen.loctext_json_encode ⟨some t, l⟩ none = .ok j ∧
      parseJson j = some (.obj ((kText, .str t) :: (match l with | none => [] | some x => [(kLocale, .str x)]))) := by
  obtain ⟨j, hj, hp⟩ := C10.locText_valid (fun _ => []) t l
  have h2 : jsonEncode (fun _ => []) (.locText (some t) l) = .ok (some (ltJson (some t) l)) := by simp [jsonEncode]
  rw [h2] at hj
  have hj' : ltJson (some t) l = j := by injection hj with h; injection h
  subst hj'
  exact ⟨_, locTextJson_eq _ _, hp⟩

/-! ### `UAEUInformation.xml_encode`: generated = the `<EUInformation>` element of the hand model -/

theorem tEU_eq : tEU = ['E', 'U', 'I', 'n', 'f', 'o', 'r', 'm', 'a', 't', 'i', 'o', 'n'] := by decide
theorem tNsUri_eq : tNsUri = ['N', 'a', 'm', 'e', 's', 'p', 'a', 'c', 'e', 'U', 'r', 'i'] := by decide
theorem tUnitId_eq : tUnitId = ['U', 'n', 'i', 't', 'I', 'd'] := by decide
theorem tDispName_eq : tDispName = ['D', 'i', 's', 'p', 'l', 'a', 'y', 'N', 'a', 'm', 'e'] := by decide
theorem tDescr_eq : tDescr = ['D', 'e', 's', 'c', 'r', 'i', 'p', 't', 'i', 'o', 'n'] := by decide
theorem en_eq : "en".toList = ['e', 'n'] := by decide

theorem xmlns_eq1 : xmlnsAttr true = [' ', 'x', 'm', 'l', 'n', 's', '=', '"', 'h', 't', 't', 'p', ':', '/', '/', 'o', 'p', 'c', 'f', 'o', 'u', 'n', 'd', 'a', 't', 'i', 'o', 'n', '.', 'o', 'r', 'g', '/', 'U', 'A', '/', '2', '0', '0', '8', '/', '0', '2', '/', 'T', 'y', 'p', 'e', 's', '.', 'x', 's', 'd', '"'] := by decide
theorem optEn (o : Option Str) : (match o with | some x => x | none => ['e', 'n']) = o.getD ['e', 'n'] := by cases o <;> rfl
theorem optEsc (o : Option Str) : (match o with | some x => pyXmlEscape x | none => ([] : Str)) = Xml.escText (optS o) := by
  cases o <;> simp [optS, pyXmlEscape, Xml.escText]

set_option maxRecDepth 8000 in
/-- the element `UAEngineeringUnits.xml_encode` wraps into its extension object (`encodeText (.engUnits …)`): name-space URI
    escaped, unit id as decimal text, a missing Locale written as `en`, texts escaped, locales not -/
theorem euInfoXml_eq (uri : Str) (unit : Int) (dT dL eT eL : Option Str) (b : Bool) :
    Gen.euinfo_xml_encode ⟨uri, unit, ⟨dT, dL⟩, ⟨eT, eL⟩⟩ b =
      .ok (wrap tEU b (wrap tNsUri false (Xml.escText uri) ++ wrap tUnitId false (pyStrInt unit) ++ euLT tDispName dT dL ++ euLT tDescr eT eL)) := by
  unfold Gen.euinfo_xml_encode euLT wrap
  rw [tEU_eq, tNsUri_eq, tUnitId_eq, tDispName_eq, tDescr_eq, tLoc_eq, tText_eq, en_eq, xmlns_false]
  have hnil : Xml.escText [] = [] := by simp [Xml.escText]
  cases b
  · rw [xmlns_false]
    cases dT <;> cases dL <;> cases eT <;> cases eL <;>
      simp [bindE, optS, pyXmlEscape, pyFormat, PyFormat.fmt, hnil]
  · rw [← xmlns_eq1]
    generalize xmlnsAttr true = X
    cases dT <;> cases dL <;> cases eT <;> cases eL <;>
      simp [bindE, optS, pyXmlEscape, pyFormat, PyFormat.fmt, hnil]

end Opcua.Tie

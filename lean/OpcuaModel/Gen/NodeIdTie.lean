import OpcuaModel.Gen.NodeIdGen
import OpcuaModel.Props.C09
/-! # Tie (A) for the NodeId kernel: the definitions GENERATED from the Python source are equal to the
hand model, so every C09 theorem is a theorem about the code as written.  This file is re-checked against
a freshly generated `NodeIdGen` on every run of the C09 / C03 checks. -/
namespace Opcua.Tie
open Opcua

theorem cachedParse_eq (s : Str) : Gen.cached_parse_nodeid s = cachedParse s := by
  unfold Gen.cached_parse_nodeid cachedParse nsPrefixed
  by_cases hp : startsWith (lstrip s) ['n', 's', '='] = true
  · simp only [hp, if_true]
    rcases h1 : split1 ';' s with ⟨a, ra⟩
    rcases h3 : split1 '=' a with ⟨c, rc⟩
    cases rc with
    | none => cases ra <;> simp [pySplit1, pyIndex, bindE, h1, h3]
    | some k =>
      cases hk : pyInt k with
      | none => cases ra <;> simp [pySplit1, pyIndex, bindE, pyIntE, h1, h3, hk]
      | some n =>
        cases ra with
        | none => simp [pySplit1, pyIndex, bindE, pyIntE, h1, h3, hk]
        | some rest =>
          rcases h4 : split1 '=' rest with ⟨t, rv⟩
          cases rv with
          | none => simp [pySplit1, pyIndex, pyUnpack2, bindE, pyIntE, h1, h3, hk, h4]
          | some v =>
            cases ht : IdType.ofStr t <;>
              simp [pySplit1, pyIndex, pyUnpack2, bindE, pyIntE, IdType.ofStrE, pyStr, h1, h3, hk, h4, ht]
  · simp only [hp, if_false, Bool.false_eq_true]
    rcases h2 : split1 '=' s with ⟨t, rv⟩
    cases rv with
    | none => simp [pySplit1, pyLen, h2]
    | some v =>
      cases ht : IdType.ofStr t <;> simp [pySplit1, pyLen, pyIndex, bindE, IdType.ofStrE, pyStr, h2, ht]

theorem parseNodeId_some_eq (s : Str) (m : List (Int × Int)) (al : Option (List (Str × NodeId))) :
    Gen.parse_nodeid s (some m) al = parseNodeId s m al := by
  unfold Gen.parse_nodeid parseNodeId
  rw [cachedParse_eq]
  cases al with
  | none =>
    simp only [pyIsSome, pyDictHas, pyTruthy, Option.isSome, Bool.false_and, Bool.false_eq_true, if_false, Option.bind]
    cases cachedParse s with
    | error e => cases m <;> simp [bindE]
    | ok r =>
      obtain ⟨ns, ty, v⟩ := r
      cases m with
      | nil => simp [bindE]; cases mkNodeId ns ty v <;> rfl
      | cons p ps =>
        simp only [List.isEmpty_cons, Bool.not_false, if_true, bindE, pyDictGet, Bool.false_eq_true, if_false]
        cases lookup ns (p :: ps) with
        | none => rfl
        | some g => simp only []; cases mkNodeId g ty v <;> rfl
  | some l =>
    simp only [pyIsSome, pyDictHas, pyTruthy, Option.isSome, Bool.true_and, Option.bind]
    cases hl : lookup s l with
    | some n => simp [bindE, pyDictGet, hl]
    | none =>
      simp only [Option.isSome, Bool.false_eq_true, if_false]
      cases cachedParse s with
      | error e => cases m <;> simp [bindE]
      | ok r =>
        obtain ⟨ns, ty, v⟩ := r
        cases m with
        | nil => simp [bindE]; cases mkNodeId ns ty v <;> rfl
        | cons p ps =>
          simp only [List.isEmpty_cons, Bool.not_false, if_true, bindE, pyDictGet, Bool.false_eq_true, if_false]
          cases lookup ns (p :: ps) with
          | none => rfl
          | some g => simp only []; cases mkNodeId g ty v <;> rfl

theorem print_eq (n : NodeId) : Gen.nodeid_str n = .ok n.print := by
  unfold Gen.nodeid_str NodeId.print
  by_cases h : n.ns = 0 <;> simp [h, pyFormat, PyFormat.fmt, pyEnumValue]

theorem parseNodeId_none_eq (s : Str) (al : Option (List (Str × NodeId))) :
    Gen.parse_nodeid s none al = parseNodeId s [] al := by
  unfold Gen.parse_nodeid parseNodeId
  rw [cachedParse_eq]
  cases al with
  | none =>
    simp only [pyIsSome, pyDictHas, pyTruthy, Option.isSome, Bool.false_and, Bool.false_eq_true, if_false, Option.bind]
    cases cachedParse s with
    | error e => simp [bindE]
    | ok r =>
      obtain ⟨ns, ty, v⟩ := r
      simp [bindE]; cases mkNodeId ns ty v <;> rfl
  | some l =>
    simp only [pyIsSome, pyDictHas, pyTruthy, Option.isSome, Bool.true_and, Option.bind]
    cases hl : lookup s l with
    | some n => simp [bindE, pyDictGet, hl]
    | none =>
      simp only [Bool.false_eq_true, if_false]
      cases cachedParse s with
      | error e => simp [bindE]
      | ok r =>
        obtain ⟨ns, ty, v⟩ := r
        simp [bindE]; cases mkNodeId ns ty v <;> rfl

/-! ### the C09 theorems, restated for the definitions generated from the source -/

/-- **round trip, about the code as written**: printing a valid NodeId with the generated `__str__`
    and parsing the text with the generated `parse_nodeid` (no map, no aliases) gives it back -/
theorem gen_parse_print (n : NodeId) (hv : n.Valid) :
    bindE (Gen.nodeid_str n) (fun t => Gen.parse_nodeid t none none) = .ok n := by
  rw [print_eq]; simp only [bindE]; rw [parseNodeId_none_eq]
  exact C09.parse_print n hv

/-- with a namespace map: the local index is replaced by its image, `KeyError` when it has none -/
theorem gen_parse_mapped (n : NodeId) (m : List (Int × Int)) (hm : m ≠ []) (g : Int)
    (hg : lookup n.ns m = some g) (hv : n.Valid) :
    bindE (Gen.nodeid_str n) (fun t => Gen.parse_nodeid t (some m) none) = .ok { n with ns := g } := by
  rw [print_eq]; simp only [bindE]; rw [parseNodeId_some_eq]
  exact C09.parse_mapped n m hm g hg hv

end Opcua.Tie

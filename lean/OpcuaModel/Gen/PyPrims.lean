import OpcuaModel.Model.NodeId
/-! # Meaning of the Python primitives the translator's output mentions (hand written; trusted base of tie A) -/
namespace Opcua

/-- `Except` bind, spelled out so that generated code needs no `do` notation -/
def bindE {ε α β : Type} (x : Except ε α) (f : α → Except ε β) : Except ε β :=
  match x with
  | .error e => .error e
  | .ok a => f a

/-- `s.split(c, maxsplit=1)`: a list of one or two strings -/
def pySplit1 (s : Str) (c : Char) : List Str :=
  match split1 c s with
  | (h, none) => [h]
  | (h, some r) => [h, r]

/-- `xs[i]` for a constant index: `IndexError` when out of range -/
def pyIndex (xs : List Str) (i : Nat) : Except PyErr Str :=
  match xs[i]? with
  | some x => .ok x
  | none => .error .indexError

/-- `a, b = xs`: `ValueError` unless exactly two items -/
def pyUnpack2 (xs : List Str) : Except PyErr (Str × Str) :=
  match xs with
  | [a, b] => .ok (a, b)
  | _ => .error .valueError

def pyLen (xs : List Str) : Int := xs.length
def pyStr (s : Str) : Str := s

/-- `NodeIdType(text)`: `ValueError` for anything but i / s / g / b -/
def IdType.ofStrE (s : Str) : Except PyErr IdType :=
  match IdType.ofStr s with
  | some t => .ok t
  | none => .error .valueError

def pyIsSome {α : Type} (o : Option α) : Bool := o.isSome

/-- `k in d` for an optional dict -/
def pyDictHas {κ ν : Type} [DecidableEq κ] (d : Option (List (κ × ν))) (k : κ) : Bool :=
  match d with
  | some l => (lookup k l).isSome
  | none => false

/-- `d[k]`: `KeyError` when absent (`TypeError` on `None`, which the guards exclude) -/
def pyDictGet {κ ν : Type} [DecidableEq κ] (d : Option (List (κ × ν))) (k : κ) : Except PyErr ν :=
  match d with
  | some l => (match lookup k l with | some v => .ok v | none => .error .keyError)
  | none => .error .typeError

/-- truthiness of an optional dict: `None` and `{}` are false -/
def pyTruthy {κ ν : Type} (d : Option (List (κ × ν))) : Bool :=
  match d with
  | some l => !l.isEmpty
  | none => false

/-- `NodeIdType.X.value` -/
def pyEnumValue (t : IdType) : Str := [t.char]

/-- `f"{x}"` -/
class PyFormat (α : Type) where
  fmt : α → Str
instance : PyFormat Str := ⟨id⟩
instance : PyFormat Int := ⟨pyStrInt⟩
def pyFormat {α : Type} [PyFormat α] (x : α) : Str := PyFormat.fmt x

end Opcua

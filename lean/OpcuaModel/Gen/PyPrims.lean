import OpcuaModel.Model.NodeId
import OpcuaModel.Model.Parse
import OpcuaModel.Model.Xml
import OpcuaModel.Model.Json
/-! # Meaning of the Python primitives the translator's output mentions (hand written; trusted base of tie A) -/
namespace Opcua

/-- `Except` bind, spelled out so that generated code needs no `do` notation -/
def bindE {ε α β : Type} (x : Except ε α) (f : α → Except ε β) : Except ε β :=
  match x with
  | .error e => .error e
  | .ok a => f a

/-- `s.split(c, maxsplit=1)`: a list of one or two strings -/
def pySplit1 (s : Str) (c : Char) : List Str :=
  match split1 c s with
  | (h, none) => [h]
  | (h, some r) => [h, r]

/-- `xs[i]` for a constant index: `IndexError` when out of range -/
def pyIndex (xs : List Str) (i : Nat) : Except PyErr Str :=
  match xs[i]? with
  | some x => .ok x
  | none => .error .indexError

/-- `a, b = xs`: `ValueError` unless exactly two items -/
def pyUnpack2 (xs : List Str) : Except PyErr (Str × Str) :=
  match xs with
  | [a, b] => .ok (a, b)
  | _ => .error .valueError

def pyLen (xs : List Str) : Int := xs.length
def pyStr (s : Str) : Str := s

/-- `NodeIdType(text)`: `ValueError` for anything but i / s / g / b -/
def IdType.ofStrE (s : Str) : Except PyErr IdType :=
  match IdType.ofStr s with
  | some t => .ok t
  | none => .error .valueError

def pyIsSome {α : Type} (o : Option α) : Bool := o.isSome

/-- `k in d` for an optional dict -/
def pyDictHas {κ ν : Type} [DecidableEq κ] (d : Option (List (κ × ν))) (k : κ) : Bool :=
  match d with
  | some l => (lookup k l).isSome
  | none => false

/-- `d[k]`: `KeyError` when absent (`TypeError` on `None`, which the guards exclude) -/
def pyDictGet {κ ν : Type} [DecidableEq κ] (d : Option (List (κ × ν))) (k : κ) : Except PyErr ν :=
  match d with
  | some l => (match lookup k l with | some v => .ok v | none => .error .keyError)
  | none => .error .typeError

/-- truthiness of an optional dict: `None` and `{}` are false -/
def pyTruthy {κ ν : Type} (d : Option (List (κ × ν))) : Bool :=
  match d with
  | some l => !l.isEmpty
  | none => false

/-- `NodeIdType.X.value` -/
def pyEnumValue (t : IdType) : Str := [t.char]

/-- `f"{x}"` -/
class PyFormat (α : Type) where
  fmt : α → Str
instance : PyFormat Str := ⟨id⟩
instance : PyFormat Int := ⟨pyStrInt⟩
def pyFormat {α : Type} [PyFormat α] (x : α) : Str := PyFormat.fmt x

class PyContains (γ : Type) (α : outParam Type) where
  has : γ → α → Bool
instance : PyContains (List Str) Str := ⟨fun l x => decide (x ∈ l)⟩
instance : PyContains (List (Int × Int)) Int := ⟨fun d k => (lookup k d).isSome⟩
/-- `x in c` for a list (membership) or a dict (key membership) -/
def pyContains {γ α : Type} [PyContains γ α] (c : γ) (x : α) : Bool := PyContains.has c x

def pyListAppend (l : List Str) (x : Str) : List Str := l ++ [x]
/-- `l.index(x)`: `ValueError` when absent -/
def pyListIndex (l : List Str) (x : Str) : Except PyErr Int :=
  if x ∈ l then .ok ((l.idxOf x : Nat) : Int) else .error .valueError
/-- `d[k] = v`: replaces the value of an existing key in place, otherwise appends (insertion order) -/
def pyDictSet (d : List (Int × Int)) (k v : Int) : List (Int × Int) :=
  if (lookup k d).isSome then d.map (fun p => if p.1 = k then (k, v) else p) else d ++ [(k, v)]
/-- `for i, x in enumerate(xs): state = body(i, x, state)` with a body that can raise -/
def pyEnumFoldE {α σ : Type} (xs : List α) (init : σ) (f : Nat → α → σ → Except PyErr σ) : Except PyErr σ :=
  let rec go : Nat → List α → σ → Except PyErr σ
    | _, [], s => .ok s
    | i, x :: r, s => match f i x s with
      | .error e => .error e
      | .ok s' => go (i + 1) r s'
  go 0 xs init

/-- `d.keys()` of a dict held as an association list (insertion order) -/
def pyKeys {ν : Type} (d : List (Int × ν)) : List Int := d.map Prod.fst
instance : PyContains (List Int) Int := ⟨fun l x => decide (x ∈ l)⟩
/-- `max(xs)`: `ValueError` on an empty sequence -/
def pyMax (xs : List Int) : Except PyErr Int :=
  match xs.max? with
  | some m => .ok m
  | none => .error .valueError
/-- `d[k]` on a dict held as an association list: `KeyError` when absent -/
def pyAssocGet {ν : Type} (d : List (Int × ν)) (k : Int) : Except PyErr ν :=
  match lookup k d with
  | some v => .ok v
  | none => .error .keyError
/-- a loop whose body can raise, over the items of a list -/
def pyFoldE {α σ : Type} (f : α → σ → Except PyErr σ) : List α → σ → Except PyErr σ
  | [], s => .ok s
  | x :: r, s => match f x s with
    | .error e => .error e
    | .ok s' => pyFoldE f r s'
/-- `for i in range(lo, hi): state = body(i, state)` -/
def pyRangeFoldE {σ : Type} (lo hi : Int) (init : σ) (f : Int → σ → Except PyErr σ) : Except PyErr σ :=
  pyFoldE f ((List.range (hi - lo).toNat).map fun (i : Nat) => lo + (i : Int)) init

/-- `k in d` for a dict literal held as an association list -/
def pyLitHas {κ ν : Type} [DecidableEq κ] (d : List (κ × ν)) (k : κ) : Bool := (lookup k d).isSome
/-- `d[k]` on a dict literal: `KeyError` when absent -/
def pyLitGet {κ ν : Type} [DecidableEq κ] (d : List (κ × ν)) (k : κ) : Except PyErr ν :=
  match lookup k d with
  | some v => .ok v
  | none => .error .keyError

/-- a `UAQualifiedName` after `__post_init__`: `namespace_index` is a `np.uint16`, `name` a `str` -/
structure QName where
  ns : Nat
  name : Str
/-- `str()` of a non-negative numpy / Python integer -/
instance : PyFormat Nat := ⟨showNat⟩

/-- the `value` field of an integer built-in (`UASByte` … `UAUInt64`): `pd.NA` is `none` -/
structure IntVal where
  value : Option Int
/-- the `value` field of `UABoolean`: `pd.NA` is `none` -/
structure BoolVal where
  value : Option Bool

/-- the `value` field of `UAString` / `UAGuid`: `pd.NA` is `none` -/
structure StrVal where
  value : Option Str
/-- the fields of `UALocalizedText`: `pd.NA` is `none` -/
structure LocText where
  text : Option Str
  locale : Option Str
/-- `xml.sax.saxutils.escape(s)`: `&`, `<`, `>` (the hand model's text escaping, validated against the library by C07 / C08) -/
def pyXmlEscape (s : Str) : Str := Xml.escText s
/-- `json.dumps(s, ensure_ascii=False)` of a `str` (the hand model's quoting, validated against the library by C10) -/
def pyJsonDumps (s : Str) : Str := pyJsonQuote s

/-- the fields of `UAEUInformation` (`display_name` / `description` are `UALocalizedText`) -/
structure EUInfo where
  namespace_uri : Str
  unit_id : Int
  display_name : LocText
  description : LocText

end Opcua

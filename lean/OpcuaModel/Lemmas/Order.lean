import OpcuaModel.Model.Order
/-! Strict total orders and their lexicographic / option / key liftings. Core only. -/
namespace Opcua

/-- strict total order, Boolean-valued -/
structure STO {α} (lt : α → α → Bool) : Prop where
  irrefl : ∀ a, lt a a = false
  trans : ∀ a b c, lt a b = true → lt b c = true → lt a c = true
  tri : ∀ a b, lt a b = true ∨ lt b a = true ∨ a = b

theorem STO.asymm {α} {lt : α → α → Bool} (h : STO lt) (a b : α) (h1 : lt a b = true) : lt b a = false := by
  cases hb : lt b a with
  | false => rfl
  | true => have := h.trans a b a h1 hb; rw [h.irrefl] at this; exact absurd this (by simp)

theorem charLt_sto : STO charLt where
  irrefl := by intro a; simp [charLt]
  trans := by intro a b c; simp only [charLt, decide_eq_true_eq]; omega
  tri := by
    intro a b
    simp only [charLt, decide_eq_true_eq]
    by_cases h1 : a.toNat < b.toNat
    · exact Or.inl h1
    · by_cases h2 : b.toNat < a.toNat
      · exact Or.inr (Or.inl h2)
      · exact Or.inr (Or.inr (Char.ext (UInt32.toNat_inj.1 (by
          have : a.toNat = b.toNat := by omega
          exact this))))

theorem lexLt_irrefl {α} {lt : α → α → Bool} (h : STO lt) (a : List α) : lexLt lt a a = false := by
  induction a with
  | nil => rfl
  | cons c cs ih => simp [lexLt, h.irrefl, ih]

theorem lexLt_tri {α} {lt : α → α → Bool} (h : STO lt) (a b : List α) :
    lexLt lt a b = true ∨ lexLt lt b a = true ∨ a = b := by
  induction a generalizing b with
  | nil => cases b <;> simp [lexLt]
  | cons c cs ih =>
    cases b with
    | nil => simp [lexLt]
    | cons d ds =>
      simp only [lexLt]
      rcases h.tri c d with h1 | h1 | h1
      · simp [h1]
      · simp [h1, h.asymm d c h1]
      · subst h1
        simp only [h.irrefl, Bool.false_eq_true, if_false]
        rcases ih ds with h2 | h2 | h2
        · exact Or.inl h2
        · exact Or.inr (Or.inl h2)
        · exact Or.inr (Or.inr (by rw [h2]))

theorem lexLt_trans {α} {lt : α → α → Bool} (h : STO lt) (a b c : List α)
    (h1 : lexLt lt a b = true) (h2 : lexLt lt b c = true) : lexLt lt a c = true := by
  induction a generalizing b c with
  | nil =>
    cases b with
    | nil => simp [lexLt] at h1
    | cons _ _ => cases c <;> simp_all [lexLt]
  | cons x xs ih =>
    cases b with
    | nil => simp [lexLt] at h1
    | cons y ys =>
      cases c with
      | nil => simp [lexLt] at h2
      | cons z zs =>
        simp only [lexLt] at h1 h2 ⊢
        cases hxy : lt x y with
        | true =>
          cases hyz : lt y z with
          | true => simp [h.trans x y z hxy hyz]
          | false =>
            simp only [hyz, Bool.false_eq_true, if_false] at h2
            cases hzy : lt z y with
            | true => simp [hzy] at h2
            | false =>
              -- y = z
              rcases h.tri y z with t | t | t
              · rw [hyz] at t; exact absurd t (by simp)
              · rw [hzy] at t; exact absurd t (by simp)
              · subst t; simp [hxy]
        | false =>
          simp only [hxy, Bool.false_eq_true, if_false] at h1
          cases hyx : lt y x with
          | true => simp [hyx] at h1
          | false =>
            simp only [hyx, Bool.false_eq_true, if_false] at h1
            rcases h.tri x y with t | t | t
            · rw [hxy] at t; exact absurd t (by simp)
            · rw [hyx] at t; exact absurd t (by simp)
            · subst t
              cases hxz : lt x z with
              | true => simp
              | false =>
                simp only [hxz, Bool.false_eq_true, if_false] at h2 ⊢
                cases hzx : lt z x with
                | true => simp [hzx] at h2
                | false =>
                  simp only [hzx, Bool.false_eq_true, if_false] at h2 ⊢
                  exact ih ys zs h1 h2

/-- lexicographic lifting preserves strict totality (Python's `<` on `str`, and on rows) -/
theorem lexLt_sto {α} {lt : α → α → Bool} (h : STO lt) : STO (lexLt lt) where
  irrefl := lexLt_irrefl h
  trans := lexLt_trans h
  tri := lexLt_tri h

theorem slt_sto : STO slt := lexLt_sto charLt_sto

theorem optLt_sto {α} {lt : α → α → Bool} (h : STO lt) : STO (optLt lt) where
  irrefl := by intro a; cases a <;> simp [optLt, h.irrefl]
  trans := by
    intro a b c
    cases a <;> cases b <;> cases c <;> simp [optLt]
    exact h.trans _ _ _
  tri := by
    intro a b
    cases a <;> cases b <;> simp [optLt]
    rename_i x y
    rcases h.tri x y with t | t | t
    · exact Or.inl t
    · exact Or.inr (Or.inl t)
    · exact Or.inr (Or.inr t)

theorem keyLt_sto : STO Key.lt where
  irrefl := by intro a; simp [Key.lt, slt_sto.irrefl]
  trans := by
    intro a b c h1 h2
    unfold Key.lt at *
    by_cases e1 : a.cls = b.cls <;> by_cases e2 : b.cls = c.cls
    · have e3 : a.cls = c.cls := e1.trans e2
      simp_all only [ne_eq, not_true_eq_false, if_false]
      exact slt_sto.trans _ _ _ h1 h2
    · have e3 : ¬ a.cls = c.cls := fun e => e2 (e1.symm.trans e)
      simp_all
    · have e3 : ¬ a.cls = c.cls := fun e => e1 (e.trans e2.symm)
      simp_all
    · simp only [e1, e2, ne_eq, not_false_eq_true, if_true] at h1 h2
      have h3 := slt_sto.trans _ _ _ h1 h2
      have e3 : ¬ a.cls = c.cls := by
        intro e; rw [e] at h1
        have := slt_sto.asymm _ _ h1
        rw [this] at h2; exact absurd h2 (by simp)
      simp [e3, h3]
  tri := by
    intro a b
    unfold Key.lt
    by_cases hc : a.cls = b.cls
    · simp only [hc, ne_eq, not_true_eq_false, if_false]
      rcases slt_sto.tri a.rep b.rep with t | t | t
      · exact Or.inl t
      · exact Or.inr (Or.inl t)
      · exact Or.inr (Or.inr (by cases a; cases b; simp_all))
    · have hc' : ¬ b.cls = a.cls := fun e => hc e.symm
      simp only [hc, hc', ne_eq, not_false_eq_true, if_true]
      rcases slt_sto.tri a.cls b.cls with t | t | t
      · exact Or.inl t
      · exact Or.inr (Or.inl t)
      · exact absurd t hc

theorem rowLt_sto : STO rowLt := lexLt_sto (optLt_sto keyLt_sto)

/-! ### from a strict total order to a sortable `le` -/
section
variable {α : Type} {lt : α → α → Bool}

theorem le_total (h : STO lt) (a b : α) : (!lt b a || !lt a b) = true := by
  cases hb : lt b a with
  | false => simp
  | true => simp [h.asymm b a hb]

theorem le_trans (h : STO lt) (a b c : α) (h1 : (!lt b a) = true) (h2 : (!lt c b) = true) : (!lt c a) = true := by
  simp only [Bool.not_eq_eq_eq_not, Bool.not_true] at h1 h2 ⊢
  cases hca : lt c a with
  | false => rfl
  | true =>
    rcases h.tri a b with t | t | t
    · have := h.trans c a b hca t; rw [h2] at this; exact absurd this (by simp)
    · rw [h1] at t; exact absurd t (by simp)
    · subst t; rw [h2] at hca; exact absurd hca (by simp)

theorem le_antisymm (h : STO lt) (a b : α) (h1 : (!lt b a) = true) (h2 : (!lt a b) = true) : a = b := by
  simp only [Bool.not_eq_eq_eq_not, Bool.not_true] at h1 h2
  rcases h.tri a b with t | t | t
  · rw [h2] at t; exact absurd t (by simp)
  · rw [h1] at t; exact absurd t (by simp)
  · exact t

/-- sorting with the `le` of a strict total order is canonical: any two permutations of the same
    multiset sort to the same list -/
theorem mergeSort_canonical (h : STO lt) (l₁ l₂ : List α) (hp : l₁.Perm l₂) :
    l₁.mergeSort (fun a b => !lt b a) = l₂.mergeSort (fun a b => !lt b a) := by
  have s1 := List.pairwise_mergeSort (le := fun a b => !lt b a)
    (fun a b c => le_trans h a b c) (fun a b => le_total h a b) l₁
  have s2 := List.pairwise_mergeSort (le := fun a b => !lt b a)
    (fun a b c => le_trans h a b c) (fun a b => le_total h a b) l₂
  have p : (l₁.mergeSort fun a b => !lt b a).Perm (l₂.mergeSort fun a b => !lt b a) :=
    (List.mergeSort_perm l₁ _).trans (hp.trans (List.mergeSort_perm l₂ _).symm)
  exact List.Perm.eq_of_pairwise (fun a b _ _ => le_antisymm h a b) s1 s2 p
end

end Opcua

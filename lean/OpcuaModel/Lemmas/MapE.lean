import OpcuaModel.Model.Parse
import Batteries.Data.List.Basic
/-! Lemmas about `mapE` (list comprehension with exceptions). Core only. -/
namespace Opcua

theorem mapE_ok_length {α β ε} (f : α → Except ε β) (l : List α) (ys : List β)
    (h : mapE f l = .ok ys) : ys.length = l.length := by
  induction l generalizing ys with
  | nil => simp [mapE] at h; subst h; rfl
  | cons a as ih =>
    simp only [mapE] at h
    cases hf : f a with
    | error e => simp [hf] at h
    | ok b =>
      simp only [hf] at h
      cases hm : mapE f as with
      | error e => simp [hm] at h
      | ok bs =>
        simp only [hm, Except.ok.injEq] at h
        subst h
        simp [ih bs hm]

/-- element-wise characterisation: the i-th output is `f` of the i-th input -/
theorem mapE_ok_forall {α β ε} (f : α → Except ε β) (l : List α) (ys : List β)
    (h : mapE f l = .ok ys) : List.Forall₂ (fun a b => f a = .ok b) l ys := by
  induction l generalizing ys with
  | nil => simp [mapE] at h; subst h; exact List.Forall₂.nil
  | cons a as ih =>
    simp only [mapE] at h
    cases hf : f a with
    | error e => simp [hf] at h
    | ok b =>
      simp only [hf] at h
      cases hm : mapE f as with
      | error e => simp [hm] at h
      | ok bs =>
        simp only [hm, Except.ok.injEq] at h
        subst h
        exact List.Forall₂.cons hf (ih bs hm)

theorem mapE_of_forall {α β ε} (f : α → Except ε β) (l : List α) (ys : List β)
    (h : List.Forall₂ (fun a b => f a = .ok b) l ys) : mapE f l = .ok ys := by
  induction h with
  | nil => rfl
  | cons hf _ ih => simp [mapE, hf, ih]

theorem mapE_append {α β ε} (f : α → Except ε β) (l₁ l₂ : List α) :
    mapE f (l₁ ++ l₂) =
      match mapE f l₁ with
      | .error e => .error e
      | .ok xs => match mapE f l₂ with
        | .error e => .error e
        | .ok ys => .ok (xs ++ ys) := by
  induction l₁ with
  | nil => simp [mapE]; cases mapE f l₂ <;> rfl
  | cons a as ih =>
    simp only [List.cons_append, mapE]
    cases f a with
    | error e => rfl
    | ok b =>
      simp only [ih]
      cases mapE f as with
      | error e => rfl
      | ok xs =>
        cases mapE f l₂ with
        | error e => rfl
        | ok ys => rfl

theorem mapE_mem {α β ε} (f : α → Except ε β) (l : List α) (ys : List β) (h : mapE f l = .ok ys) (b : β) :
    b ∈ ys ↔ ∃ a ∈ l, f a = .ok b := by
  have hf := mapE_ok_forall f l ys h
  induction hf with
  | nil => simp
  | @cons a b' l' ys' hab _ ih =>
    simp only [List.mem_cons]
    have hm : mapE f l' = .ok ys' := mapE_of_forall f l' ys' ‹_›
    constructor
    · rintro (rfl | hb)
      · exact ⟨a, Or.inl rfl, hab⟩
      · obtain ⟨x, hx, hfx⟩ := (ih hm).1 hb
        exact ⟨x, Or.inr hx, hfx⟩
    · rintro ⟨x, rfl | hx, hfx⟩
      · left; rw [hab] at hfx; injection hfx with e; exact e.symm
      · exact Or.inr ((ih hm).2 ⟨x, hx, hfx⟩)

theorem mapE_ok_of_mem {α β ε} (f : α → Except ε β) (l : List α) (ys : List β) (h : mapE f l = .ok ys)
    (a : α) (ha : a ∈ l) : ∃ b ∈ ys, f a = .ok b := by
  induction l generalizing ys with
  | nil => simp at ha
  | cons x xs ih =>
    simp only [mapE] at h
    split at h
    · simp at h
    · next b hb =>
      split at h
      · simp at h
      · next bs hbs =>
        simp only [Except.ok.injEq] at h
        subst h
        simp only [List.mem_cons] at ha
        rcases ha with rfl | ha
        · exact ⟨b, by simp, hb⟩
        · obtain ⟨b', hb', hf⟩ := ih bs hbs ha
          exact ⟨b', by simp [hb'], hf⟩

end Opcua

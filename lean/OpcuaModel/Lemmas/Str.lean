import OpcuaModel.Model.Prelude
/-! Lemmas about the string primitives of the prelude. Core only. -/
namespace Opcua

theorem split1_append (sep : Char) (a b : Str) (h : sep ∉ a) :
    split1 sep (a ++ sep :: b) = (a, some b) := by
  induction a with
  | nil => simp [split1]
  | cons c cs ih =>
    have hc : c ≠ sep := by intro e; apply h; simp [e]
    have hcs : sep ∉ cs := by intro e; apply h; simp [e]
    simp [split1, hc, ih hcs]

theorem split1_none (sep : Char) (a : Str) (h : sep ∉ a) : split1 sep a = (a, none) := by
  induction a with
  | nil => simp [split1]
  | cons c cs ih =>
    have hc : c ≠ sep := by intro e; apply h; simp [e]
    have hcs : sep ∉ cs := by intro e; apply h; simp [e]
    simp [split1, hc, ih hcs]

/-- inversion: what a successful split says about the input -/
theorem split1_some_inv (sep : Char) (s a b : Str) (h : split1 sep s = (a, some b)) :
    s = a ++ sep :: b ∧ sep ∉ a := by
  induction s generalizing a with
  | nil => simp [split1] at h
  | cons c cs ih =>
    unfold split1 at h
    split at h
    · next hc =>
      simp only [Prod.mk.injEq, Option.some.injEq] at h
      obtain ⟨rfl, rfl⟩ := h
      simp [hc]
    · next hc =>
      simp only [Prod.mk.injEq] at h
      obtain ⟨h1, h2⟩ := h
      have := ih (split1 sep cs).1 (by rw [← h2])
      subst h1
      refine ⟨by simp; exact this.1, ?_⟩
      simp only [List.mem_cons, not_or]
      exact ⟨fun e => hc e.symm, this.2⟩

theorem split1_none_inv (sep : Char) (s a : Str) (h : split1 sep s = (a, none)) :
    s = a ∧ sep ∉ a := by
  induction s generalizing a with
  | nil => simp [split1] at h; subst h; simp
  | cons c cs ih =>
    unfold split1 at h
    split at h
    · simp at h
    · next hc =>
      simp only [Prod.mk.injEq] at h
      obtain ⟨h1, h2⟩ := h
      have := ih (split1 sep cs).1 (by rw [← h2])
      subst h1
      refine ⟨by rw [← this.1], ?_⟩
      simp only [List.mem_cons, not_or]
      exact ⟨fun e => hc e.symm, this.2⟩

theorem startsWith_append (p s : Str) : startsWith (p ++ s) p = true := by
  induction p with
  | nil => cases s <;> simp [startsWith]
  | cons c cs ih => simp [startsWith, ih]

/-! ### decimal digits -/

def IsDigit (c : Char) : Prop := '0' ≤ c ∧ c ≤ '9'
instance (c : Char) : Decidable (IsDigit c) := by unfold IsDigit; infer_instance

theorem digitChar_isDigit (d : Nat) (h : d < 10) : IsDigit (digitChar d) := by
  have : d = 0 ∨ d = 1 ∨ d = 2 ∨ d = 3 ∨ d = 4 ∨ d = 5 ∨ d = 6 ∨ d = 7 ∨ d = 8 ∨ d = 9 := by omega
  rcases this with h|h|h|h|h|h|h|h|h|h <;> subst h <;> decide

theorem digitVal_digitChar (d : Nat) (h : d < 10) : digitVal (digitChar d) = some d := by
  have : d = 0 ∨ d = 1 ∨ d = 2 ∨ d = 3 ∨ d = 4 ∨ d = 5 ∨ d = 6 ∨ d = 7 ∨ d = 8 ∨ d = 9 := by omega
  rcases this with h|h|h|h|h|h|h|h|h|h <;> subst h <;> decide

theorem showNat_digits (n : Nat) : ∀ c ∈ showNat n, IsDigit c := by
  induction n using Nat.strongRecOn with
  | _ n ih =>
    unfold showNat
    split
    · next h => intro c hc; simp at hc; subst hc; exact digitChar_isDigit n h
    · next h =>
      intro c hc
      simp only [List.mem_append, List.mem_singleton] at hc
      rcases hc with hc | hc
      · exact ih (n / 10) (by omega) c hc
      · subst hc; exact digitChar_isDigit _ (by omega)

theorem showNat_ne_nil (n : Nat) : showNat n ≠ [] := by
  unfold showNat; split <;> simp

/-- a digit is none of the syntax characters and is not white space -/
theorem IsDigit.facts {c : Char} (h : IsDigit c) :
    c ≠ ';' ∧ c ≠ '=' ∧ c ≠ '_' ∧ c ≠ '-' ∧ c ≠ '+' ∧ isSpace c = false := by
  obtain ⟨h1, h2⟩ := h
  have h1' : 48 ≤ c.toNat := h1
  have h2' : c.toNat ≤ 57 := h2
  refine ⟨?_, ?_, ?_, ?_, ?_, ?_⟩
  · intro e; subst e; revert h2'; decide
  · intro e; subst e; revert h2'; decide
  · intro e; subst e; revert h2'; decide
  · intro e; subst e; revert h1'; decide
  · intro e; subst e; revert h1'; decide
  · simp only [isSpace]
    have e1 : (c.toNat == 0x85) = false := by simp; omega
    have e2 : (c.toNat == 0xA0) = false := by simp; omega
    have e3 : (c.toNat == 0x1680) = false := by simp; omega
    have e4 : (c.toNat == 0x2028) = false := by simp; omega
    have e5 : (c.toNat == 0x2029) = false := by simp; omega
    have e6 : (c.toNat == 0x202F) = false := by simp; omega
    have e7 : (c.toNat == 0x205F) = false := by simp; omega
    have e8 : (c.toNat == 0x3000) = false := by simp; omega
    simp [e1, e2, e3, e4, e5, e6, e7, e8]
    omega

theorem readNatAux_append (a b : Str) (acc : Nat) :
    readNatAux (a ++ b) acc = (readNatAux a acc).bind (readNatAux b) := by
  induction a generalizing acc with
  | nil => simp [readNatAux]
  | cons c cs ih =>
    simp only [List.cons_append, readNatAux]
    cases digitVal c with
    | none => simp
    | some d => simp [ih]

theorem readNatAux_showNat (n : Nat) : readNatAux (showNat n) 0 = some n := by
  induction n using Nat.strongRecOn with
  | _ n ih =>
    unfold showNat
    split
    · next h => simp [readNatAux, digitVal_digitChar n h]
    · next h =>
      rw [readNatAux_append, ih (n / 10) (by omega)]
      simp [readNatAux, digitVal_digitChar (n % 10) (by omega)]
      omega

theorem readNat_showNat (n : Nat) : readNat (showNat n) = some n := by
  have h := showNat_ne_nil n
  cases hs : showNat n with
  | nil => exact absurd hs h
  | cons c cs => simp [readNat, ← hs, readNatAux_showNat]

theorem readNatU_showNat (n : Nat) : readNatU (showNat n) = some n := by
  have hno : ∀ c ∈ showNat n, c ≠ '_' := fun c hc => (showNat_digits n c hc).facts.2.2.1
  have : (showNat n).all (· ≠ '_') = true := by
    simp only [List.all_eq_true, decide_eq_true_eq]
    exact hno
  unfold readNatU
  rw [if_pos this]
  exact readNat_showNat n

/-! ### stripping -/

theorem dropWhile_of_head {p : Char → Bool} (c : Char) (cs : Str) (h : p c = false) :
    (c :: cs).dropWhile p = c :: cs := by simp [List.dropWhile, h]

theorem lstrip_cons (c : Char) (cs : Str) (h : isSpace c = false) : lstrip (c :: cs) = c :: cs := by
  simp [lstrip, List.dropWhile, h]

theorem rstrip_of_last (s : Str) (c : Char) (h : isSpace c = false) : rstrip (s ++ [c]) = s ++ [c] := by
  simp [rstrip, List.dropWhile, h]

/-- a string whose characters are all non-blank is unchanged by `strip` -/
theorem strip_of_no_space (s : Str) (h : ∀ c ∈ s, isSpace c = false) : strip s = s := by
  unfold strip
  have hl : lstrip s = s := by
    cases s with
    | nil => rfl
    | cons c cs => exact lstrip_cons c cs (h c (by simp))
  rw [hl]
  cases hr : s.reverse with
  | nil => have : s = [] := by simpa using hr
           subst this; rfl
  | cons c cs =>
    have hs : s = cs.reverse ++ [c] := by
      have := congrArg List.reverse hr; simpa using this
    rw [hs]; exact rstrip_of_last _ _ (h c (by rw [hs]; simp))

/-- **int text round trip**: `int(str(i)) == i` for every integer -/
theorem pyInt_pyStrInt (i : Int) : pyInt (pyStrInt i) = some i := by
  cases i with
  | ofNat n =>
    have hs : strip (showNat n) = showNat n :=
      strip_of_no_space _ fun c hc => (showNat_digits n c hc).facts.2.2.2.2.2
    simp only [pyInt, pyStrInt, hs]
    have hne := showNat_ne_nil n
    cases hsn : showNat n with
    | nil => exact absurd hsn hne
    | cons c cs =>
      have hd : IsDigit c := showNat_digits n c (by simp [hsn])
      have h1 : c ≠ '-' := hd.facts.2.2.2.1
      have h2 : c ≠ '+' := hd.facts.2.2.2.2.1
      have := readNatU_showNat n
      rw [hsn] at this
      split
      · next h => simp at h; exact absurd h.1 h1
      · next h => simp at h; exact absurd h.1 h2
      · simp [this]
  | negSucc n =>
    have hsp : isSpace '-' = false := by decide
    have hs : strip ('-' :: showNat (n + 1)) = '-' :: showNat (n + 1) := by
      apply strip_of_no_space
      intro c hc
      simp only [List.mem_cons] at hc
      rcases hc with rfl | hc
      · exact hsp
      · exact (showNat_digits _ c hc).facts.2.2.2.2.2
    simp only [pyInt, pyStrInt, hs, readNatU_showNat, Option.map_some]
    rfl

/-- none of the NodeId syntax characters occurs in `str(i)` -/
theorem pyStrInt_no_syntax (i : Int) : ';' ∉ pyStrInt i ∧ '=' ∉ pyStrInt i := by
  cases i with
  | ofNat n =>
    simp only [pyStrInt]
    exact ⟨fun h => (showNat_digits n _ h).facts.1 rfl, fun h => (showNat_digits n _ h).facts.2.1 rfl⟩
  | negSucc n =>
    simp only [pyStrInt, List.mem_cons, not_or]
    exact ⟨⟨by decide, fun h => (showNat_digits _ _ h).facts.1 rfl⟩,
           ⟨by decide, fun h => (showNat_digits _ _ h).facts.2.1 rfl⟩⟩

end Opcua

import OpcuaModel.Model.Value
import OpcuaModel.Lemmas.Str
/-! Printing and re-reading the fixed-width DateTime text. Core only. -/
namespace Opcua

theorem showNat_length_le (w n : Nat) (hw : 1 ≤ w) (h : n < 10 ^ w) : (showNat n).length ≤ w := by
  induction w generalizing n with
  | zero => omega
  | succ w ih =>
    unfold showNat
    split
    · simp
    · next hn =>
      cases w with
      | zero => simp at h; omega
      | succ w' =>
        have : n / 10 < 10 ^ (w' + 1) := by
          rw [Nat.pow_succ] at h
          exact Nat.div_lt_of_lt_mul (by rw [Nat.mul_comm]; exact h)
        have := ih (n / 10) (by omega) this
        simp; omega

theorem showNat_length_ge (k n : Nat) (h : 10 ^ k ≤ n) : k + 1 ≤ (showNat n).length := by
  induction k generalizing n with
  | zero => have := showNat_ne_nil n; cases hs : showNat n with
    | nil => exact absurd hs this
    | cons _ _ => simp
  | succ k ih =>
    have h10 : 10 ≤ n := by
      have : 10 ^ (k + 1) ≥ 10 := by
        rw [Nat.pow_succ]; have := Nat.one_le_two_pow (n := 0); have : 1 ≤ 10 ^ k := Nat.one_le_pow _ _ (by omega); omega
      omega
    unfold showNat
    split
    · omega
    · have : 10 ^ k ≤ n / 10 := by
        rw [Nat.pow_succ] at h
        exact (Nat.le_div_iff_mul_le (by omega)).2 h
      have := ih (n / 10) this
      simp; omega

theorem padNat_length (w n : Nat) (hw : 1 ≤ w) (h : n < 10 ^ w) : (padNat w n).length = w := by
  have := showNat_length_le w n hw h
  simp [padNat]; omega

theorem padNat_digits (w n : Nat) : ∀ c ∈ padNat w n, IsDigit c := by
  intro c hc
  simp only [padNat, List.mem_append, List.mem_replicate] at hc
  rcases hc with ⟨_, rfl⟩ | hc
  · decide
  · exact showNat_digits n c hc

theorem readNatAux_zeros (k : Nat) (s : Str) : readNatAux (List.replicate k '0' ++ s) 0 = readNatAux s 0 := by
  induction k with
  | zero => simp
  | succ k ih =>
    have hz : digitVal '0' = some 0 := by decide
    simp [List.replicate_succ, readNatAux, hz, ih]

theorem readNat_padNat (w n : Nat) : readNat (padNat w n) = some n := by
  have hne : padNat w n ≠ [] := by
    simp [padNat]; intro _; exact showNat_ne_nil n
  cases hp : padNat w n with
  | nil => exact absurd hp hne
  | cons c cs =>
    simp only [readNat]
    rw [← hp, padNat, readNatAux_zeros, readNatAux_showNat]

theorem all_digits_of (s : Str) (h : ∀ c ∈ s, IsDigit c) : s.all (fun c => '0' ≤ c && c ≤ '9') = true := by
  simp only [List.all_eq_true, Bool.and_eq_true, decide_eq_true_eq]
  intro c hc; exact h c hc

theorem readDigits_pad (w n : Nat) (rest : Str) (hw : 1 ≤ w) (h : n < 10 ^ w) :
    readDigits w (padNat w n ++ rest) = some (n, rest) := by
  have hl := padNat_length w n hw h
  have ht : (padNat w n ++ rest).take w = padNat w n := by
    exact List.take_left' hl
  have hd : (padNat w n ++ rest).drop w = rest := by
    exact List.drop_left' hl
  simp only [readDigits, ht, hd, hl, all_digits_of _ (padNat_digits w n), readNat_padNat, and_self, if_true,
    Option.map_some]

theorem showNat_eq_pad4 (y : Nat) (h1 : 1000 ≤ y) (h2 : y ≤ 9999) : showNat y = padNat 4 y := by
  have a := showNat_length_le 4 y (by omega) (by omega)
  have b := showNat_length_ge 3 y (by omega)
  have : (showNat y).length = 4 := by omega
  simp [padNat, this]

/-- **DateTime text round trip**: reading what `strftime` printed gives the same fields back
    (four-digit years; every field inside its printed width) -/
theorem parseDT_print (d : DT) (hy : 1000 ≤ d.year ∧ d.year ≤ 9999) (hm : d.month ≤ 99) (hd : d.day ≤ 99)
    (hh : d.hour ≤ 99) (hmi : d.minute ≤ 99) (hs : d.second ≤ 99) (hus : d.micro ≤ 999999) :
    parseDT d.print = some d := by
  unfold DT.print parseDT
  rw [showNat_eq_pad4 d.year hy.1 hy.2]
  simp only [readDigits_pad 4 d.year _ (by omega) (by omega), readDigits_pad 2 d.month _ (by omega) (by omega),
    readDigits_pad 2 d.day _ (by omega) (by omega), readDigits_pad 2 d.hour _ (by omega) (by omega),
    readDigits_pad 2 d.minute _ (by omega) (by omega), readDigits_pad 2 d.second _ (by omega) (by omega),
    readDigits_pad 6 d.micro _ (by omega) (by omega), expectChar, bind, Option.bind, if_true]

/-- the excluded point: a year below 1000 is printed unpadded and the text is no longer of the
    fixed-width form (finding D-C08f) -/
theorem year_below_1000_print : DT.print ⟨1, 1, 1, 0, 0, 0, 0⟩ = "1-01-01T00:00:00.000000Z".toList := by
  have e1 : showNat 1 = ['1'] := by unfold showNat; simp [digitChar]
  have e0 : showNat 0 = ['0'] := by unfold showNat; simp [digitChar]
  simp [DT.print, padNat, e1, e0]
theorem year_below_1000_witness : parseDT (DT.print ⟨1, 1, 1, 0, 0, 0, 0⟩) = none := by
  rw [year_below_1000_print]; decide

end Opcua

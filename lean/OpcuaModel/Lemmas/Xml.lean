import OpcuaModel.Model.Xml
/-! Proofs about XmlLite: escape/decode inverse and safety, lexer segment lemmas, `lex_render`,
builder completeness, and `parseXml_render : WF x → parseXml (render x) = some (strip x)`. Core only. -/
namespace Opcua.Xml
open Opcua

theorem decode_escText (s : Str) : decode (escText s) = some s := by
  induction s with
  | nil => simp [escText, decode]
  | cons c cs ih =>
    unfold escText
    split
    · next h => subst h; unfold decode; simp [ih]
    · split
      · next h => subst h; unfold decode; simp [ih]
      · split
        · next h => subst h; unfold decode; simp [ih]
        · next h1 h2 h3 => unfold decode; simp [h1, ih]


theorem decode_escAttr (s : Str) : decode (escAttr s) = some s := by
  induction s with
  | nil => simp [escAttr, decode]
  | cons c cs ih =>
    unfold escAttr
    split
    · next h => subst h; unfold decode; simp [ih]
    · split
      · next h => subst h; unfold decode; simp [ih]
      · split
        · next h => subst h; unfold decode; simp [ih]
        · split
          · next h => subst h; unfold decode; simp [ih]
          · next h1 h2 h3 h4 => unfold decode; simp [h1, ih]


theorem lt_not_mem_escText (s : Str) : '<' ∉ escText s := by
  induction s with
  | nil => simp [escText]
  | cons c cs ih =>
    unfold escText
    split
    · simp [ih]
    · split
      · simp [ih]
      · split
        · simp [ih]
        · next h1 h2 h3 => simp [ih]; exact fun h => h2 h.symm


theorem lt_quot_not_mem_escAttr (s : Str) : '<' ∉ escAttr s ∧ '"' ∉ escAttr s := by
  induction s with
  | nil => simp [escAttr]
  | cons c cs ih =>
    unfold escAttr
    split
    · simp [ih]
    · split
      · simp [ih]
      · split
        · simp [ih]
        · split
          · simp [ih]
          · next h1 h2 h3 h4 =>
            simp [ih]
            exact ⟨fun h => h2 h.symm, fun h => h4 h.symm⟩


/-- the attribute-position safety lemma is FALSE for the code's plain `escape` -/
theorem escText_not_attr_safe : '"' ∈ escText ['a', '"', 'b'] := by decide




theorem run_append (st) (a b : Str) : run st (a ++ b) = run (run st a) b := by
  simp [run, List.foldl_append]


theorem run_cons (st) (c : Char) (s : Str) : run st (c :: s) = run (step st c) s := rfl

theorem run_nil (st) : run st [] = st := rfl


theorem run_text (ts : List Tok) (acc s : Str) (h : '<' ∉ s) :
    run (ts, .text acc) s = (ts, .text (acc ++ s)) := by
  induction s generalizing acc with
  | nil => simp [run_nil]
  | cons c cs ih =>
    have hc : c ≠ '<' := by intro e; apply h; simp [e]
    have hcs : '<' ∉ cs := by intro e; apply h; simp [e]
    rw [run_cons]
    simp only [step, hc, if_false]
    rw [ih _ hcs]; simp


theorem run_oname (ts : List Tok) (n s : Str) (h : ∀ c ∈ s, isNameChar c = true) :
    run (ts, .oname n) s = (ts, .oname (n ++ s)) := by
  induction s generalizing n with
  | nil => simp [run_nil]
  | cons c cs ih =>
    rw [run_cons]
    simp only [step, h c (by simp), if_true]
    rw [ih _ (fun d hd => h d (by simp [hd]))]; simp


theorem run_cname (ts : List Tok) (n s : Str) (h : ∀ c ∈ s, isNameChar c = true) :
    run (ts, .cname n) s = (ts, .cname (n ++ s)) := by
  induction s generalizing n with
  | nil => simp [run_nil]
  | cons c cs ih =>
    rw [run_cons]
    simp only [step, h c (by simp), if_true]
    rw [ih _ (fun d hd => h d (by simp [hd]))]; simp


theorem run_aname (ts : List Tok) (n : Str) (as) (k s : Str) (h : ∀ c ∈ s, isNameChar c = true) :
    run (ts, .aname n as k) s = (ts, .aname n as (k ++ s)) := by
  induction s generalizing k with
  | nil => simp [run_nil]
  | cons c cs ih =>
    rw [run_cons]
    simp only [step, h c (by simp), if_true]
    rw [ih _ (fun d hd => h d (by simp [hd]))]; simp


theorem run_aval (ts : List Tok) (n : Str) (as) (k v s : Str) (h1 : '"' ∉ s) (h2 : '<' ∉ s) :
    run (ts, .aval n as k v) s = (ts, .aval n as k (v ++ s)) := by
  induction s generalizing v with
  | nil => simp [run_nil]
  | cons c cs ih =>
    have hc1 : c ≠ '"' := by intro e; apply h1; simp [e]
    have hc2 : c ≠ '<' := by intro e; apply h2; simp [e]
    rw [run_cons]
    simp only [step, hc1, hc2, if_false]
    rw [ih _ (by intro e; apply h1; simp [e]) (by intro e; apply h2; simp [e])]; simp


theorem run_ws (ts : List Tok) (n : Str) (as) (s : Str) (h : ∀ c ∈ s, isWs c = true) :
    run (ts, .inTag n as) s = (ts, .inTag n as) := by
  induction s with
  | nil => simp [run_nil]
  | cons c cs ih =>
    rw [run_cons]
    simp only [step, h c (by simp), if_true]
    exact ih (fun d hd => h d (by simp [hd]))




theorem ws_facts {c : Char} (h : isWs c = true) :
    isNameChar c = false ∧ c ≠ '>' ∧ c ≠ '/' ∧ c ≠ '<' := by
  have : c = ' ' ∨ c = '\n' ∨ c = '\t' := by
    simp [isWs] at h; rcases h with (h | h) | h <;> simp [h]
  rcases this with h | h | h <;> subst h <;> decide


theorem name_facts {c : Char} (h : isNameChar c = true) :
    isWs c = false ∧ c ≠ '>' ∧ c ≠ '/' ∧ c ≠ '<' ∧ c ≠ '=' ∧ c ≠ '"' := by
  refine ⟨?_, ?_, ?_, ?_, ?_, ?_⟩
  · cases hw : isWs c with
    | false => rfl
    | true => have := (ws_facts hw).1; simp [this] at h
  all_goals (intro e; subst e; revert h; decide)


theorem run_attr (ts : List Tok) (n : Str) (as : List (Str × Str)) (a : PAttr) (h : a.OK) :
    run (ts, .inTag n as) (printAttr a) = (ts, .inTag n (as ++ [(a.k, a.v)])) := by
  obtain ⟨hws, hne, hk⟩ := h
  cases hkk : a.k with
  | nil => exact absurd hkk hne
  | cons c ks =>
    have hc : isNameChar c = true := hk c (by simp [hkk])
    have hks : ∀ d ∈ ks, isNameChar d = true := fun d hd => hk d (by simp [hkk, hd])
    obtain ⟨hcw, hc1, hc2, _, _, _⟩ := name_facts hc
    have hq := lt_quot_not_mem_escAttr a.v
    unfold printAttr
    rw [hkk]
    simp only [List.append_assoc, List.cons_append, List.nil_append]
    rw [run_append, run_ws ts n as a.ws hws, run_cons]
    simp only [step, hcw, hc1, hc2, hc, if_true, if_false, Bool.false_eq_true]
    rw [run_append, run_aname ts n as [c] ks hks, run_cons]
    have heq : isNameChar '=' = false := by decide
    simp only [step, heq, if_true, if_false, Bool.false_eq_true]
    rw [run_cons]
    simp only [step, if_true]
    rw [run_append, run_aval ts n as _ [] (escAttr a.v) hq.2 hq.1, run_cons]
    simp only [step, if_true, List.nil_append, decode_escAttr, run_nil, List.cons_append]


theorem run_attrs (ts : List Tok) (n : Str) (as : List (Str × Str)) (ps : List PAttr)
    (h : ∀ a ∈ ps, a.OK) :
    run (ts, .inTag n as) (printAttrs ps) = (ts, .inTag n (as ++ ps.map fun a => (a.k, a.v))) := by
  induction ps generalizing as with
  | nil => simp [printAttrs, run_nil]
  | cons a ps ih =>
    simp only [printAttrs, List.flatMap_cons]
    rw [run_append, run_attr ts n as a (h a (by simp))]
    have := ih (as ++ [(a.k, a.v)]) (fun b hb => h b (by simp [hb]))
    simp only [printAttrs] at this
    rw [this]; simp


theorem run_open (ts : List Tok) (acc : Str) (tag : Str) (ps : List PAttr) (trail : Str)
    (h : OpenOK tag ps trail) (ts' : List Tok) (hf : flush ts acc = some ts') :
    run (ts, .text acc) (printOpen tag ps trail)
      = (ts' ++ [Tok.open tag (ps.map fun a => (a.k, a.v))], .text []) := by
  obtain ⟨⟨hne, hn⟩, hps, htr, hhead⟩ := h
  cases htag : tag with
  | nil => exact absurd htag hne
  | cons c cs =>
    have hc : isNameChar c = true := hn c (by simp [htag])
    have hcs : ∀ d ∈ cs, isNameChar d = true := fun d hd => hn d (by simp [htag, hd])
    obtain ⟨_, _, hc2, _, _, _⟩ := name_facts hc
    unfold printOpen
    rw [run_cons]
    simp only [step, if_true, hf]
    simp only [List.cons_append]
    rw [run_cons]
    simp only [step, hc2, hc, if_true, if_false]
    rw [run_append, run_oname ts' [c] cs hcs]
    -- now at `.oname tag`; what follows is attrs ++ trail ++ ">"
    cases ps with
    | nil =>
      simp only [printAttrs, List.flatMap_nil, List.nil_append, List.map_nil]
      cases trail with
      | nil =>
        simp only [List.nil_append, List.cons_append]
        rw [run_cons]
        have : isNameChar '>' = false := by decide
        have hw : isWs '>' = false := by decide
        simp [step, this, hw, run_nil]
      | cons w wt =>
        have hw : isWs w = true := htr w (by simp)
        obtain ⟨hwn, _, _, _⟩ := ws_facts hw
        simp only [List.nil_append, List.cons_append]
        rw [run_cons]
        simp only [step, hwn, hw, if_true, if_false, Bool.false_eq_true]
        rw [run_append, run_ws _ _ _ wt (fun d hd => htr d (by simp [hd])), run_cons]
        have : isWs '>' = false := by decide
        simp [step, this, run_nil]
    | cons a ps =>
      have ha : a.OK := hps a (by simp)
      have hane : a.ws ≠ [] := hhead a (by simp)
      -- first blank moves `.oname` to `.inTag`
      cases haw : a.ws with
      | nil => exact absurd haw hane
      | cons w wt =>
        have hw : isWs w = true := ha.1 w (by simp [haw])
        obtain ⟨hwn, _, _, _⟩ := ws_facts hw
        have hsplit : printAttrs (a :: ps) = w :: printAttrs ({ a with ws := wt } :: ps) := by
          simp [printAttrs, printAttr, haw]
        rw [hsplit]
        simp only [List.nil_append, List.cons_append]
        rw [run_cons]
        simp only [step, hwn, hw, if_true, if_false, Bool.false_eq_true]
        have hok : ∀ b ∈ ({ a with ws := wt } :: ps), b.OK := by
          intro b hb
          simp only [List.mem_cons] at hb
          rcases hb with rfl | hb
          · exact ⟨fun d hd => ha.1 d (by simp [haw, hd]), ha.2⟩
          · exact hps b (by simp [hb])
        rw [run_append, run_attrs _ _ [] _ hok, run_append,
          run_ws _ _ _ trail htr, run_cons]
        have : isWs '>' = false := by decide
        simp [step, this, run_nil]


theorem run_close (ts : List Tok) (acc : Str) (tag : Str) (h : NameOK tag)
    (ts' : List Tok) (hf : flush ts acc = some ts') :
    run (ts, .text acc) (printClose tag) = (ts' ++ [Tok.close tag], .text []) := by
  obtain ⟨_, hn⟩ := h
  unfold printClose
  rw [run_cons]
  simp only [step, if_true, hf]
  rw [run_cons]
  simp only [step, if_true]
  rw [run_append, run_cname ts' [] tag hn, run_cons]
  have : isNameChar '>' = false := by decide
  simp [step, this, run_nil]


theorem escText_eq_nil {s : Str} : escText s = [] ↔ s = [] := by
  cases s with
  | nil => simp [escText]
  | cons c cs => unfold escText; split <;> (try split) <;> (try split) <;> simp


theorem flush_escText (ts : List Tok) (s : Str) : flush ts (escText s) = some (ts ++ textTok s) := by
  unfold flush textTok
  by_cases h : s = []
  · subst h; simp [escText]
  · have : escText s ≠ [] := fun e => h (escText_eq_nil.1 e)
    simp [this, h, decode_escText]


theorem flush_nil (ts : List Tok) : flush ts [] = some ts := by simp [flush]

theorem escAttr_eq_nil {s : Str} : escAttr s = [] ↔ s = [] := by
  cases s with
  | nil => simp [escAttr]
  | cons c cs => unfold escAttr; split <;> (try split) <;> (try split) <;> (try split) <;> simp

theorem flush_escAttr (ts : List Tok) (s : Str) : flush ts (escAttr s) = some (ts ++ textTok s) := by
  unfold flush textTok
  by_cases h : s = []
  · subst h; simp [escAttr]
  · have : escAttr s ≠ [] := fun e => h (escAttr_eq_nil.1 e)
    simp [this, h, decode_escAttr]

theorem lt_not_mem_escOf (q : Bool) (s : Str) : '<' ∉ escOf q s := by
  cases q
  · exact lt_not_mem_escText s
  · exact (lt_quot_not_mem_escAttr s).1

theorem flush_escOf (q : Bool) (ts : List Tok) (s : Str) : flush ts (escOf q s) = some (ts ++ textTok s) := by
  cases q
  · exact flush_escText ts s
  · exact flush_escAttr ts s


mutual
theorem run_render (x : X) (h : WF x) (ts : List Tok) (acc : Str) (ts' : List Tok)
    (hf : flush ts acc = some ts') :
    run (ts, .text acc) (render x) = (ts' ++ tokens (strip x), .text []) := by
  match x, h with
  | .node tag attrs trail qesc text kids, h =>
    obtain ⟨hopen, hkids⟩ := h
    simp only [render, strip, tokens]
    rw [run_append, run_open ts acc tag attrs trail hopen ts' hf,
      run_append, run_text _ [] (escOf qesc text) (lt_not_mem_escOf qesc text)]
    simp only [List.nil_append]
    have hfl := flush_escOf qesc (ts' ++ [Tok.open tag (attrs.map fun a => (a.k, a.v))]) text
    -- kids, then the close tag
    cases kids with
    | nil =>
      simp only [renderS, stripS, tokensS, List.nil_append]
      rw [run_close _ _ tag hopen.1 _ hfl]
      simp
    | cons k ks =>
      rw [run_append, run_renderS (.cons k ks) hkids _ _ _ hfl (by simp),
        run_close _ [] tag hopen.1 _ (flush_nil _)]
      simp
theorem run_renderS (xs : XS) (h : WFS xs) (ts : List Tok) (acc : Str) (ts' : List Tok)
    (hf : flush ts acc = some ts') (hne : xs ≠ .nil) :
    run (ts, .text acc) (renderS xs) = (ts' ++ tokensS (stripS xs), .text []) := by
  match xs, h with
  | .nil, _ => exact absurd rfl hne
  | .cons x rest, h =>
    obtain ⟨hx, hrest⟩ := h
    simp only [renderS, stripS, tokensS]
    rw [run_append, run_render x hx ts acc ts' hf]
    cases rest with
    | nil => simp [renderS, stripS, tokensS, run_nil]
    | cons y ys =>
      rw [run_renderS (.cons y ys) hrest _ [] _ (flush_nil _) (by simp)]
      simp
end


/-- **text level, stage 2**: the emitted text lexes to exactly the intended token stream -/
theorem lex_render (x : X) (h : WF x) : lex (render x) = some (tokens (strip x)) := by
  unfold lex
  rw [run_render x h [] [] [] (flush_nil _)]
  simp [flush]


/-- a data tree is normal if no text node is empty-but-present: that is what `tokens` can express.
    (always true; kept for clarity) -/
theorem takeText_textTok (s : Str) (rest : List Tok) (hrest : ∀ u r, rest ≠ Tok.text u :: r) :
    takeText (textTok s ++ rest) = (s, rest) := by
  unfold textTok
  by_cases h : s = []
  · subst h
    cases rest with
    | nil => simp [takeText]
    | cons t r =>
      cases t with
      | text u => exact absurd rfl (hrest u r)
      | «open» _ _ => simp [takeText]
      | close _ => simp [takeText]
  · simp [h, takeText]


theorem tokens_ne_text (t : T) (rest : List Tok) : ∀ u r, tokens t ++ rest ≠ Tok.text u :: r := by
  intro u r
  cases t with
  | node tag attrs text kids => simp [tokens]


theorem tokensS_close_ne_text (ks : TS) (tag : Str) (rest : List Tok) :
    ∀ u r, tokensS ks ++ Tok.close tag :: rest ≠ Tok.text u :: r := by
  intro u r
  cases ks with
  | nil => simp [tokensS]
  | cons k ks' =>
    simp only [tokensS, List.append_assoc]
    exact tokens_ne_text k _ u r


mutual
theorem buildNode_tokens (t : T) (rest : List Tok) (f : Nat) (hf : sizeT t ≤ f) :
    buildNode f (tokens t ++ rest) = some (t, rest) := by
  match t with
  | .node tag attrs text kids =>
    cases f with
    | zero => simp [sizeT] at hf
    | succ f =>
      simp only [sizeT] at hf
      simp only [tokens, List.cons_append, List.append_assoc, List.nil_append, buildNode]
      rw [takeText_textTok text _ (tokensS_close_ne_text kids tag rest)]
      simp only
      rw [buildKids_tokens kids tag rest f (by omega)]
      simp
theorem buildKids_tokens (ks : TS) (tag : Str) (rest : List Tok) (f : Nat) (hf : sizeTS ks ≤ f) :
    buildKids f (tokensS ks ++ Tok.close tag :: rest) = some (ks, Tok.close tag :: rest) := by
  match ks with
  | .nil =>
    cases f with
    | zero => simp [sizeTS] at hf
    | succ f => simp [tokensS, buildKids]
  | .cons k ks' =>
    cases f with
    | zero => simp [sizeTS] at hf
    | succ f =>
      simp only [sizeTS] at hf
      have hk := buildNode_tokens k (tokensS ks' ++ Tok.close tag :: rest) f (by omega)
      have hks := buildKids_tokens ks' tag rest f (by omega)
      cases k with
      | node ktag kattrs ktext kkids =>
        simp only [tokensS, List.append_assoc] at hk ⊢
        simp only [tokens, List.cons_append] at hk ⊢
        simp only [buildKids]
        rw [hk]
        simp only
        rw [hks]
end


mutual
theorem sizeT_le (t : T) : sizeT t + 1 ≤ 2 * (tokens t).length := by
  match t with
  | .node tag attrs text kids =>
    have := sizeTS_le kids
    simp only [sizeT, tokens, List.length_cons, List.length_append, List.length_nil]
    omega
theorem sizeTS_le (ks : TS) : sizeTS ks ≤ 1 + 2 * (tokensS ks).length := by
  match ks with
  | .nil => simp [sizeTS, tokensS]
  | .cons t ts =>
    have h1 := sizeT_le t
    have h2 := sizeTS_le ts
    simp only [sizeTS, tokensS, List.length_append]
    omega
end


/-- **text level, stage 3**: reading what the writer emitted gives back exactly the intended
    tree — for every tag/attribute layout the writer uses and every text / attribute content. -/
theorem parseXml_render (x : X) (h : WF x) : parseXml (render x) = some (strip x) := by
  unfold parseXml
  rw [lex_render x h]
  have hb := buildNode_tokens (strip x) [] (2 * (tokens (strip x)).length)
    (by have := sizeT_le (strip x); omega)
  simp only [List.append_nil] at hb
  simp [hb]


-- non-vacuity: a concrete hostile element satisfies WF and round-trips by evaluation
def demo : X :=
  .node "UAObject".toList
    [⟨[' '], "NodeId".toList, "ns=1;s=a\"b<&".toList⟩, ⟨[' ', ' '], "BrowseName".toList, "1:q".toList⟩] [' '] false
    [] (.cons (.node "DisplayName".toList [] [] false "a<b & c>".toList .nil) .nil)

theorem demo_WF : WF demo := by
  simp only [demo, WF, WFS, OpenOK, NameOK, PAttr.OK, and_true]
  refine ⟨⟨⟨by decide, by decide⟩, ?_, by decide, ?_⟩, ⟨⟨by decide, by decide⟩, by simp, by simp, by simp⟩⟩
  · intro a ha
    simp only [List.mem_cons, List.mem_nil_iff, or_false] at ha
    rcases ha with rfl | rfl
    · exact ⟨by decide, by decide, by decide⟩
    · exact ⟨by decide, by decide, by decide⟩
  · intro a ha
    simp only [List.head?_cons, Option.some.injEq] at ha
    subst ha; decide

example : parseXml (render demo) = some (strip demo) := parseXml_render demo demo_WF


end Opcua.Xml

"""lxml element -> JSON trees for the model (two conventions) and tolerant comparisons."""
TYPES = "http://opcfoundation.org/UA/2008/02/Types.xsd"


def resolved(e, home=TYPES):
    """namespace-resolved tree: local name for elements of the home namespace, '{ns}local' otherwise"""
    if not isinstance(e.tag, str):
        return None
    if e.tag.startswith("{"):
        ns, local = e.tag[1:].split("}", 1)
    else:
        ns, local = "", e.tag
    tag = local if ns == home else ("{%s}%s" % (ns, local) if ns else local)
    return {"tag": tag, "attrs": [[k, v] for k, v in e.attrib.items()], "text": e.text or None,
            "kids": [x for x in (resolved(c, home) for c in e) if x is not None]}


def syntactic(e, parent_nsmap=None):
    """tree as written: prefixed names, xmlns declarations as attributes"""
    if not isinstance(e.tag, str):
        return None
    parent_nsmap = parent_nsmap or {}
    local = e.tag.split("}", 1)[1] if e.tag.startswith("{") else e.tag
    tag = (e.prefix + ":" if e.prefix else "") + local
    attrs = []
    for p, u in e.nsmap.items():
        if parent_nsmap.get(p) != u:
            attrs.append(["xmlns" + (":" + p if p else ""), u])
    inv = {u: p for p, u in e.nsmap.items() if p}
    for k, v in e.attrib.items():
        if k.startswith("{"):
            ns, loc = k[1:].split("}", 1)
            k = (inv.get(ns, "ns") + ":" + loc)
        attrs.append([k, v])
    return {"tag": tag, "attrs": attrs, "text": e.text or None,
            "kids": [x for x in (syntactic(c, e.nsmap) for c in e) if x is not None]}


def strip_ws(t):
    """ignore white-space-only text (layout) when comparing raw XML bodies"""
    if t is None:
        return None
    txt = t["text"]
    if txt is not None and not txt.strip() and t["kids"]:
        txt = None
    tag = t["tag"].split(":", 1)[1] if (":" in t["tag"] and not t["tag"].startswith("{")) else t["tag"]
    if tag.startswith("{"):
        tag = tag.split("}", 1)[1]
    # namespace declarations and prefixes are layout: compare local names and ordinary attributes
    attrs = sorted(a for a in t["attrs"] if not a[0].startswith("xmlns"))
    return {"tag": tag, "attrs": attrs, "text": txt, "kids": [strip_ws(k) for k in t["kids"]]}

"""Running the real parser and the model's parser on the same document set, in canonical JSON."""
import os

import docs as D
import values

META = {"NodeClass", "DisplayName", "Description", "Value", "NodeId", "BrowseName", "BrowseNameNamespace", "ns", "id",
        "DataType", "ParentNodeId", "MethodDeclarationId"}


class NoEntry:
    """an id without an entry under its label in lookup_df"""
    def __init__(self, i):
        self.i = i


def nid_json(n):
    if isinstance(n, NoEntry):
        return ["<no lookup entry>", "", str(n.i)]
    return [int(n.namespace), n.nodeid_type.value, n.value]


def cell(x):
    import pandas as pd
    import numpy as np
    if x is None or x is pd.NA:
        return None
    if isinstance(x, float) and x != x:
        return None
    if isinstance(x, (bool, np.bool_)):
        return bool(x)
    if isinstance(x, (int, np.integer)):
        return int(x)
    if isinstance(x, float):
        return int(x) if x == int(x) else x
    return str(x)


def impl_tables(out):
    """parse output dict -> canonical JSON (same shape as the driver's parse.files answer)"""
    import pandas as pd
    nodes, refs, lk = out["nodes"], out["references"], out.get("lookup_df")
    # the lookup table is read the way a user reads it: by index LABEL (= id), not by row position
    uniq = None
    if lk is not None:
        by_label = dict(zip([int(i) if not pd.isna(i) else None for i in lk.index.tolist()], lk["uniques"].tolist()))
        uniq = [by_label[i] if i in by_label else NoEntry(i) for i in range(len(lk))]
    look = (lambda i: None if pd.isna(i) else (nid_json(uniq[int(i)]) if 0 <= int(i) < len(uniq) else ["<id outside the lookup table>", "", str(int(i))])) \
        if uniq is not None else (lambda n: None if pd.isna(n) else nid_json(n))
    rows = []
    cols = [c for c in nodes.columns if c not in META]
    for _, r in nodes.iterrows():
        attrs = {}
        for c in cols:
            v = cell(r[c])
            if v is None:
                continue
            if c in ("IsAbstract", "Symmetric") and v is False:
                continue
            attrs[c] = v
        bns = r["BrowseNameNamespace"]
        rows.append({
            "cls": r["NodeClass"], "id": nid_json(r["NodeId"]), "browse": r["BrowseName"],
            "browse_ns": None if pd.isna(bns) else int(bns), "display": r["DisplayName"], "description": r["Description"],
            "dt": look(r["DataType"]) if "DataType" in nodes.columns else None,
            "parent": look(r["ParentNodeId"]) if "ParentNodeId" in nodes.columns else None,
            "md": look(r["MethodDeclarationId"]) if "MethodDeclarationId" in nodes.columns else None,
            "attrs": attrs,
            "value": values.describe(r["Value"]) if "Value" in nodes.columns else None,
            "nid_ns_col": None if pd.isna(r["ns"]) else int(r["ns"]),
            "int_id": None if "id" not in nodes.columns or pd.isna(r["id"]) else int(r["id"]),
        })
    rr = [[look(a), look(b), look(c)] for a, b, c in zip(refs["Src"], refs["Trg"], refs["ReferenceType"])]
    res = {"namespaces": list(out["namespaces"]), "nodes": rows, "refs": rr, "models": out["models"]}
    if uniq is not None:
        res["lookup"] = [nid_json(u) for u in uniq]
        res["nrefs"] = [[cell(a), cell(b), cell(c)] for a, b, c in zip(refs["Src"], refs["Trg"], refs["ReferenceType"])]
        res["ids"] = [[cell(r["id"]), cell(r["ParentNodeId"]) if "ParentNodeId" in nodes.columns else None,
                       cell(r["DataType"]) if "DataType" in nodes.columns else None,
                       cell(r["MethodDeclarationId"]) if "MethodDeclarationId" in nodes.columns else None] for _, r in nodes.iterrows()]
    return res


def impl_parse_files(paths, caller=None):
    from opcua_tools.nodeset_parser import parse_xml_files
    try:
        out = parse_xml_files(list(paths), None if caller is None else list(caller))
        return impl_tables(out)
    except Exception as e:  # noqa: BLE001
        return {"err": type(e).__name__, "msg": str(e)[:300]}


def impl_parse_one(path, caller=None, normalized=True):
    from opcua_tools.nodeset_parser import parse_xml, parse_xml_without_normalization
    try:
        out = (parse_xml if normalized else parse_xml_without_normalization)(path, None if caller is None else list(caller))
        return impl_tables(out)
    except Exception as e:  # noqa: BLE001
        return {"err": type(e).__name__, "msg": str(e)[:300]}


def model_rows(mo):
    """driver answer -> same canonical shape as impl_tables (without value)"""
    rows = []
    for r in mo["nodes"]:
        attrs = {}
        for k, v in r["attrs"]:
            if k in ("IsAbstract", "Symmetric") and v is False:
                continue
            attrs[k] = v
        rows.append({"cls": r["cls"], "id": r["id"], "browse": r["browse"], "browse_ns": r["browse_ns"], "display": r["display"],
                     "description": r["description"], "dt": r["dt"], "parent": r["parent"], "md": r["md"], "attrs": attrs,
                     "value": norm_model_value(r.get("value"))})
    return rows


def norm_model_value(v):
    """model value JSON -> the normal form used for comparisons (raw XML as white-space-stripped trees)"""
    import parsecheck
    import xmltree
    if v is None:
        return None
    if v["t"] == "PyNone":
        return {"t": "PyNone"}
    if v["t"] == "XmlElement":
        return {"t": "XmlElement", "tree": xmltree.strip_ws(v["tree"])}
    if v["t"] == "ExtensionObject":
        return {"t": "ExtensionObject", "type": v["type"], "tree": xmltree.strip_ws(v["tree"])}
    if v["t"] == "ListOf":
        return {"t": "ListOf", "typename": v["typename"], "items": [norm_model_value(x) for x in v["items"]]}
    return parsecheck.norm_value(v)


def norm_impl_value(v):
    import lxml.etree as ET
    import parsecheck
    import xmltree
    if v is None:
        return None
    if v["t"] == "PyNone":
        return {"t": "PyNone"}
    if v["t"] == "XmlElement":
        return {"t": "XmlElement", "tree": xmltree.strip_ws(xmltree.resolved(ET.fromstring(v["v"])))}
    if v["t"] == "ExtensionObject":
        body = v["body"]
        return {"t": "ExtensionObject", "type": v["type"], "tree": xmltree.strip_ws(xmltree.resolved(ET.fromstring(body["v"])))}
    if v["t"] == "ListOf":
        return {"t": "ListOf", "typename": v["typename"], "items": [norm_impl_value(x) for x in v["items"]]}
    return parsecheck.norm_value(v)


ROW_KEYS = ["cls", "id", "browse", "browse_ns", "display", "description", "dt", "parent", "md", "attrs"]


def strip_row(r):
    d = {k: r[k] for k in ROW_KEYS}
    d["value"] = norm_impl_value(r.get("value"))
    return d


def resolve(ns_list, nid):
    if nid is None:
        return None
    k = nid[0]
    if not isinstance(k, int):          # a marker for "no lookup entry" / "id outside the table": kept as it is, it matches nothing
        return list(nid)
    uri = ns_list[k] if 0 <= k < len(ns_list) else "<index %d out of range>" % k
    return [uri, nid[1], nid[2]]


def write_set(scratch, name, files, with_base=False):
    d = scratch.sub(name)
    scratch.write(d, files, with_base=with_base)
    return d, sorted(os.path.join(d, f) for f in os.listdir(d) if f.endswith(".xml"))

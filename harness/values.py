"""Generators of UA values as JSON-able descriptions, and constructors of the real objects.

A value description is {"t": <type>, ...}; `build(desc)` returns the opcua_tools object."""
import base64
import datetime
import math

import gen

INT_RANGES = {"SByte": (-128, 127), "Byte": (0, 255), "Int16": (-32768, 32767), "UInt16": (0, 65535),
              "Int32": (-2**31, 2**31 - 1), "UInt32": (0, 2**32 - 1), "Int64": (-2**63, 2**63 - 1), "UInt64": (0, 2**64 - 1)}
FLOATS = [0.0, -0.0, 1.5, -2.25, 1e-310, 5e-324, 1.7976931348623157e308, -1.7976931348623157e308, 3.4028234663852886e38,
          0.1, 1 / 3, 1e22, 123456789.125, float("inf"), float("-inf"), float("nan")]


def rand_int(rng, t):
    lo, hi = INT_RANGES[t]
    r = rng.random()
    if r < 0.25:
        return rng.choice([lo, hi, 0, 1, lo + 1, hi - 1])
    if r < 0.5:
        return rng.randint(max(lo, -1000), min(hi, 1000))
    return rng.randint(lo, hi)


def rand_float(rng):
    r = rng.random()
    if r < 0.5:
        return rng.choice(FLOATS)
    if r < 0.75:
        return rng.uniform(-1e6, 1e6)
    import struct
    while True:
        x = struct.unpack("<d", struct.pack("<Q", rng.getrandbits(64)))[0]
        return x


def fdesc(x):
    return repr(x)


def fval(s):
    return float(s)


def rand_text(rng, ws_edges=False, allow_empty=False):
    return gen.hostile_text(rng, allow_ws_edges=ws_edges, allow_empty=allow_empty)


def rand_datetime(rng, utc_only=True):
    r = rng.random()
    if r < 0.15:
        d = rng.choice([datetime.datetime(1000, 1, 1), datetime.datetime(9999, 12, 31, 23, 59, 59, 999999),
                        datetime.datetime(1970, 1, 1), datetime.datetime(1601, 1, 1), datetime.datetime(2038, 1, 19, 3, 14, 7)])
    else:
        d = datetime.datetime(rng.randint(1000, 9999), rng.randint(1, 12), rng.randint(1, 28), rng.randint(0, 23),
                              rng.randint(0, 59), rng.randint(0, 59), rng.choice([0, 0, 1, 500000, 999999, rng.randint(0, 999999)]))
    return d.strftime("%Y-%m-%dT%H:%M:%S.%f")


SCALARS = ["Boolean", "SByte", "Byte", "Int16", "UInt16", "Int32", "UInt32", "Int64", "UInt64", "Float", "Double", "String",
           "DateTime", "Guid", "ByteString", "NodeId", "LocalizedText"]


def rand_scalar(rng, t=None, allow_null=True):
    t = t or rng.choice(SCALARS)
    null = allow_null and rng.random() < 0.08
    if t == "Boolean":
        return {"t": t, "v": None if null else rng.random() < 0.5}
    if t in INT_RANGES:
        return {"t": t, "v": None if null else rand_int(rng, t)}
    if t in ("Float", "Double"):
        return {"t": t, "v": None if null else fdesc(rand_float(rng))}
    if t in ("String", "Guid"):
        if t == "Guid" and not null and rng.random() < 0.7:
            return {"t": t, "v": "%08x-%04x-%04x-%04x-%012x" % (rng.getrandbits(32), rng.getrandbits(16), rng.getrandbits(16), rng.getrandbits(16), rng.getrandbits(48))}
        if not null and rng.random() < 0.06:
            # markup-like text that needs escaping although it holds neither '&' nor '<'
            return {"t": t, "v": rng.choice(["a]]>b", "]]>", "limit[idx[0]]>5", "1 > 0", "-->", "?>", "]]", "x]>y"])}
        return {"t": t, "v": None if null else rand_text(rng)}
    if t == "DateTime":
        return {"t": t, "v": rand_datetime(rng), "tz": "utc"}
    if t == "ByteString":
        n = rng.choice([0, 1, 2, 3, 4, 16, 33])
        return {"t": t, "v": None if null else base64.b64encode(bytes(rng.getrandbits(8) for _ in range(n))).decode()}
    if t == "NodeId":
        it = rng.choice("isgb")
        ident = str(rng.choice([0, 5, 47, 2253])) if it == "i" else rand_text(rng, allow_empty=False)
        if it != "i" and rng.random() < 0.15:
            ident = rng.choice(["4711", "0042", "7", "000815", "12"])      # digits only, but not a numeric NodeId
        return {"t": t, "v": [rng.choice([0, 0, 1, 2, 7]), it, ident]}
    if t == "LocalizedText":
        return {"t": t, "text": None if rng.random() < 0.1 else rand_text(rng), "locale": rng.choice([None, "en", "en-US", "nb_NO", "de"])}
    raise ValueError(t)


def rand_value(rng, depth=0):
    r = rng.random()
    if r < 0.62 or depth > 1:
        return rand_scalar(rng)
    if r < 0.72:
        lo, hi = sorted([rng.uniform(-1e3, 1e3), rng.uniform(-1e3, 1e3)])
        return {"t": "EURange", "low": fdesc(lo), "high": fdesc(hi)}
    if r < 0.80:
        return {"t": "EngineeringUnits", "uri": rng.choice(["http://www.opcfoundation.org/UA/units/un/cefact", rand_text(rng, allow_empty=False)]),
                "unit_id": rng.choice([4408652, -1, 5]) if rng.random() < 0.3 else rng.randint(-2**31, 2**31 - 1),   # a few unit ids recur under different names
                "display": {"text": rand_text(rng), "locale": rng.choice([None, "en", "de"])},
                "description": {"text": rand_text(rng), "locale": rng.choice([None, "en", "nb"])}}
    if r < 0.85:
        return {"t": "XmlElement", "v": "<x:Thing xmlns:x=\"urn:x\" a=\"1\">%s</x:Thing>" % gen.plain_text(rng)}
    # homogeneous list
    t = rng.choice(SCALARS)
    n = rng.choice([0, 1, 2, 3, 5])
    return {"t": "ListOf", "typename": t, "items": [rand_scalar(rng, t, allow_null=(t not in ("DateTime", "NodeId"))) for _ in range(n)]}


def build(d):
    """description -> opcua_tools object"""
    import pandas as pd
    import opcua_tools.ua_data_types as U
    t = d["t"]
    na = pd.NA
    if t == "Boolean":
        return U.UABoolean(value=na if d["v"] is None else d["v"])
    if t in INT_RANGES:
        return getattr(U, "UA" + t)(value=na if d["v"] is None else d["v"])
    if t in ("Float", "Double"):
        return getattr(U, "UA" + t)(value=na if d["v"] is None else fval(d["v"]))
    if t == "String":
        return U.UAString(value=na if d["v"] is None else d["v"])
    if t == "Guid":
        return U.UAGuid(value=na if d["v"] is None else d["v"])
    if t == "DateTime":
        dt = datetime.datetime.strptime(d["v"], "%Y-%m-%dT%H:%M:%S.%f")
        tz = d.get("tz", "utc")
        if tz == "utc":
            dt = dt.replace(tzinfo=datetime.timezone.utc)
        elif tz != "naive":
            dt = dt.replace(tzinfo=datetime.timezone(datetime.timedelta(minutes=int(tz))))
        return U.UADateTime(value=dt)
    if t == "ByteString":
        return U.UAByteString(value=None if d["v"] is None else base64.b64decode(d["v"]))   # UAByteString(pd.NA) raises (bool(pd.NA)); None is the null the parser uses
    if t == "NodeId":
        return U.UANodeId(d["v"][0], U.NodeIdType(d["v"][1]), d["v"][2])
    if t == "LocalizedText":
        return U.UALocalizedText(text=na if d["text"] is None else d["text"], locale=na if d["locale"] is None else d["locale"])
    if t == "EURange":
        return U.UAEURange(low=fval(d["low"]), high=fval(d["high"]))
    if t == "EngineeringUnits":
        mk = lambda x: U.UALocalizedText(text=na if x["text"] is None else x["text"], locale=na if x["locale"] is None else x["locale"])  # noqa: E731
        return U.UAEngineeringUnits(display_name=mk(d["display"]), description=mk(d["description"]), unit_id=d["unit_id"], namespace_uri=d["uri"])
    if t == "XmlElement":
        return U.UAXMLElement(value=d["v"])
    if t == "ListOf":
        return U.UAListOf(value=tuple(build(x) for x in d["items"]), typename=d["typename"])
    if t == "Enumeration":
        return U.UAEnumeration(value=d["v"], string=d["string"], name=d["name"])
    if t == "ExtensionObject":
        return U.UAExtensionObject(type_nodeid=build({"t": "NodeId", "v": d["type"]}), body=U.UAXMLElement(value=d["body"]))
    if t == "Variant":
        return U.UAVariant(value=build(d["v"]))
    if t == "QualifiedName":
        return U.UAQualifiedName(namespace_index=d["ns"], name=d["name"])
    raise ValueError(t)


# ------------------------------------------------------------------------------------------------
# describe(): opcua_tools object -> description (inverse of build, for comparisons)
# ------------------------------------------------------------------------------------------------
def describe(o):
    import pandas as pd
    import opcua_tools.ua_data_types as U
    if o is None:
        return {"t": "PyNone"}
    if o is pd.NA or (isinstance(o, float) and o != o):
        return None
    na = lambda x: None if (x is pd.NA or x is None) else x   # noqa: E731
    cls = type(o).__name__
    if isinstance(o, U.UAEnumeration):
        return {"t": "Enumeration", "v": na(o.value), "string": o.string, "name": o.name}
    if cls == "UABoolean":
        return {"t": "Boolean", "v": na(o.value)}
    if cls[2:] in INT_RANGES:
        return {"t": cls[2:], "v": na(o.value)}
    if cls in ("UAFloat", "UADouble"):
        return {"t": cls[2:], "v": None if o.value is pd.NA else repr(o.value)}
    if cls in ("UAString", "UAGuid"):
        return {"t": cls[2:], "v": na(o.value)}
    if cls == "UADateTime":
        d = o.value
        off = d.utcoffset()
        tz = "naive" if off is None else ("utc" if off.total_seconds() == 0 else str(int(off.total_seconds() // 60)))
        return {"t": "DateTime", "v": d.strftime("%Y-%m-%dT%H:%M:%S.%f"), "tz": tz}
    if cls == "UAByteString":
        return {"t": "ByteString", "v": None if o.value is pd.NA else base64.b64encode(o.value).decode()}
    if cls == "UANodeId":
        return {"t": "NodeId", "v": [o.namespace, o.nodeid_type.value, o.value]}
    if cls == "UALocalizedText":
        return {"t": "LocalizedText", "text": na(o.text), "locale": na(o.locale)}
    if cls == "UAEURange":
        return {"t": "EURange", "low": repr(o.ua_range.low), "high": repr(o.ua_range.high)}
    if cls == "UAEngineeringUnits":
        i = o.ua_eu_information
        lt = lambda x: {"text": na(x.text), "locale": na(x.locale)}   # noqa: E731
        return {"t": "EngineeringUnits", "uri": i.namespace_uri, "unit_id": i.unit_id, "display": lt(i.display_name),
                "description": lt(i.description)}
    if cls == "UAXMLElement":
        return {"t": "XmlElement", "v": o.value}
    if cls == "UAListOf":
        return {"t": "ListOf", "typename": o.typename, "items": [describe(x) for x in o.value]}
    if cls == "UAExtensionObject":
        return {"t": "ExtensionObject", "type": describe(o.type_nodeid)["v"], "body": describe(o.body)}
    return {"t": "Other:" + cls, "repr": repr(o)}

"""C16 — value/DataType validation on write rejects exactly the mismatching variables."""
import json
import os

import docs as D
import minibase
import values
import writecheck as W

MODULE = "OpcuaModel.Props.C16"
TRUSTED_BASE = [
    "Lean 4.33.0 kernel; axioms audited (subset of propext, Classical.choice, Quot.sound)",
    "hand model Model/Validate.lean (checkedRows, classOf = DATA_TYPES_MAPPING, expectedOf, potentially, offending, validateValues) tied to /repo by this correspondence run",
    "pandas masks / replace / isin of value_validator.py as modelled; the position of the call before any output is checked end to end (no file appears)",
    "driver JSON decoding, harness",
]
ASSUMPTIONS = [
    "a structure value (UAEURange, UAEngineeringUnits) declaring a built-in DataType is treated like a scalar of another type (the code's behaviour); graph construction never produces it",
    "an enumeration value declaring a built-in DataType next to other checked variables can raise with an empty name list (not reachable from parsed graphs); excluded by hypothesis in no_offender_accepted",
]
RULE = ("the full matrix of instantiable value classes x the 25 built-in DataType names (single-row frames), mixed frames with 0..n offenders among lists, "
        "enumerations, structures and non-built-in DataTypes, missing DataTypes; end-to-end writes of graphs with one injected mismatch (no output file); "
        "distinct = distinct frame; non-trivial = at least one checked variable")

BUILTIN = ["Boolean", "SByte", "Byte", "Int16", "UInt16", "Int32", "UInt32", "Int64", "UInt64", "Float", "Double", "String", "DateTime", "Guid",
           "ByteString", "XmlElement", "NodeId", "ExpandedNodeId", "StatusCode", "QualifiedName", "LocalizedText", "ExtensionObject", "DataValue",
           "Variant", "DiagnosticInfo"]
OTHER_DT = ["MyEnum", "Range", "EUInformation", "MyStructure", "Number", "Counter"]


def sample_values(rng):
    """one value per instantiable class, as (description, object)"""
    import opcua_tools.ua_data_types as U
    descs = [values.rand_scalar(rng, t, allow_null=False) for t in values.SCALARS]
    descs += [{"t": "EURange", "low": "0.0", "high": "1.0"},
              {"t": "EngineeringUnits", "uri": "u", "unit_id": 1, "display": {"text": "a", "locale": "en"}, "description": {"text": "b", "locale": "en"}},
              {"t": "XmlElement", "v": "<a/>"}, {"t": "ListOf", "typename": "Int32", "items": [{"t": "Int32", "v": 1}]},
              {"t": "ListOf", "typename": "String", "items": []}, {"t": "Enumeration", "v": 1, "string": "On", "name": "MyEnum"},
              {"t": "QualifiedName", "ns": 1, "name": "q"}, {"t": "Variant", "v": {"t": "Int32", "v": 1}},
              {"t": "ExtensionObject", "type": [0, "i", "1"], "raw": "<a/>"}]
    out = []
    for d in descs:
        from props import c08
        out.append((d, c08.build(d)))
    return out


def frame_case(run, rows, dt_names):
    """rows: list of (display, value object or None, dt id or None, node class)"""
    import pandas as pd
    from opcua_tools.validator import value_validator
    from opcua_tools.validator.exceptions import ValidationError
    df = pd.DataFrame({"NodeClass": [r[3] for r in rows], "DisplayName": [r[0] for r in rows],
                       "Value": pd.Series([pd.NA if r[1] is None else r[1] for r in rows], dtype=object),
                       "DataType": pd.array([pd.NA if r[2] is None else r[2] for r in rows], dtype="Int32")})
    dtn = pd.DataFrame({"DisplayName": list(dt_names.values())}, index=list(dt_names.keys()))
    mrows = [{"cls": r[3], "display": r[0], "value_class": None if r[1] is None else type(r[1]).__name__, "dt": r[2]} for r in rows]
    case = {"frame": mrows, "dt_names": {str(k): v for k, v in dt_names.items()}}
    run.compared += 1
    try:
        import warnings
        with warnings.catch_warnings():
            warnings.simplefilter("ignore")
            value_validator.validate_values_in_df(df, dtn)
        io = {"ok": True}
    except ValidationError as e:
        msg = str(e)
        if msg.startswith("UAVariables has no DataType"):
            io = {"err": "ValidationError", "kind": "no-datatype"}
        else:
            names = json.loads(msg[msg.index("["):msg.rindex("]") + 1].replace("'", '"'))
            io = {"err": "ValidationError", "kind": "invalid", "names": names}
    except Exception as e:  # noqa: BLE001
        io = {"err": type(e).__name__, "msg": str(e)[:200]}
    # oracle
    checked = [r for r in rows if r[3] == "UAVariable" and r[1] is not None]
    if any(r[2] is None for r in checked):
        want = {"err": "ValidationError", "kind": "no-datatype"}
    else:
        off = []
        for r in checked:
            cname = type(r[1]).__name__
            expected = dt_names.get(r[2])
            if expected not in BUILTIN or cname in ("UAListOf", "UAEnumeration"):
                continue
            mapped = "XmlElement" if cname == "UAXMLElement" else (cname[2:] if cname.startswith("UA") and cname[2:] in BUILTIN else cname)
            if mapped != expected:
                off.append(r[0])
        want = {"err": "ValidationError", "kind": "invalid", "names": off} if off else {"ok": True}
    if io != want:
        run.violation(case, {"what": "validation outcome differs from 'reject exactly the mismatching variables, naming them'", "impl": io, "expected": want,
                             "call": "opcua_tools.validator.value_validator.validate_values_in_df"})
        return False
    PENDING.append((case, {"op": "values.validate", "rows": mrows, "dt_names": [[k, v] for k, v in dt_names.items()]}, io))
    return True


PENDING = []


def flush(run):
    outs = run.driver.batch([p[1] for p in PENDING])
    for (case, _op, io), mo in zip(PENDING, outs):
        if mo != io:
            run.disagree(case, mo, io)
    del PENDING[:]


def matrix(run):
    rng = run.rng
    vals = sample_values(rng)
    names = {i + 1: n for i, n in enumerate(BUILTIN + OTHER_DT)}
    n = 0
    for d, obj in vals:
        for dt, dtname in names.items():
            run.case({"matrix": [type(obj).__name__, dtname]}, tag="matrix")
            n += 1
            if not frame_case(run, [("V", obj, dt, "UAVariable")], names) or run.full():
                return
    run.extra["matrix_cells"] = n
    run.exhaustive = False


def mixed(run, n):
    rng = run.rng
    names = {i + 1: nm for i, nm in enumerate(BUILTIN + OTHER_DT)}
    inv = {v: k for k, v in names.items()}
    for i in range(n):
        vals = sample_values(rng)
        rows = []
        for j in range(rng.randint(0, 7)):
            d, obj = rng.choice(vals)
            r = rng.random()
            cname = type(obj).__name__
            good = "XmlElement" if cname == "UAXMLElement" else cname[2:]
            if r < 0.45 and good in inv:
                dt = inv[good]
            elif r < 0.55:
                dt = None
            else:
                dt = rng.choice(list(names))
            cls = "UAVariable" if rng.random() < 0.85 else rng.choice(["UAVariableType", "UAObject"])
            rows.append(("n%d" % j, obj if rng.random() < 0.9 else None, dt if rng.random() < 0.97 else None, cls))
        if rng.random() < 0.3:
            # only never-rejected rows (enumeration / list values under any built-in DataType) next to correctly typed ones:
            # the write must be accepted (regression class of the fixed defect D-C16c)
            rows = []
            for j in range(rng.randint(1, 4)):
                d, obj = rng.choice(vals)
                cname = type(obj).__name__
                good = "XmlElement" if cname == "UAXMLElement" else cname[2:]
                if cname in ("UAEnumeration", "UAListOf"):
                    rows.append(("e%d" % j, obj, rng.choice(list(names)), "UAVariable"))
                elif good in inv:
                    rows.append(("g%d" % j, obj, inv[good], "UAVariable"))
            special = [v for v in vals if type(v[1]).__name__ in ("UAEnumeration", "UAListOf")]
            if special:
                rows.append(("s", rng.choice(special)[1], rng.choice(list(names)), "UAVariable"))
        if rows and rng.random() < 0.3:
            # several variables of the same kind (same value class, same declared type): each offender is named
            for j in range(rng.randint(1, 3)):
                nm, obj, dt, cls = rng.choice(rows)
                rows.append(("%s_again%d" % (nm, j), obj, dt, cls))
        run.case({"mixed": i, "rows": len(rows)}, nontrivial=bool(rows), tag="mixed")
        if not frame_case(run, rows, names) or run.full():
            return


def end_to_end(run, n):
    """inject one mismatch into a real graph: the write must raise ValidationError and create no file"""
    from opcua_tools.validator.exceptions import ValidationError
    rng = run.rng
    with minibase.Scratch() as sc:
        for i in range(n):
            want_inject = i % 2 == 0            # every other case is a rejected write
            for _ in range(30):
                g, files = W.gen_closed(rng, hostile=False, n_ns=1)
                vars_ = [k for k in g["order"] if g["nodes"][k]["cls"] == "UAVariable" and g["nodes"][k]["value"] is not None
                         and g["nodes"][k]["value"]["t"] in ("Int32", "String", "Double", "Boolean")]
                if vars_ or not want_inject:
                    break
            inject = bool(vars_) and want_inject
            bad_name = None
            if inject:
                k = rng.choice(vars_)
                t = g["nodes"][k]["value"]["t"]
                wrong = rng.choice([x for x in ("Int32", "String", "Double", "Boolean") if x != t])
                g["nodes"][k]["attrs"]["DataType"] = D.BASE(D.VALUE_DT[wrong])
                g["nodes"][k]["display"] = "BadOne"
                bad_name = "BadOne"
            files = D.serialise(rng, g, extras=False)
            G, d = W.build_graph(sc, "e%d" % i, files)
            out = os.path.join(sc.sub("o%d" % i), "out.xml")
            uri = g["uris"][0]
            run.case({"e2e": i, "inject": inject}, tag="e2e:" + ("mismatch" if inject else "clean"))
            run.compared += 1
            try:
                G.write_nodeset(out, uri, last_modified=W.FIXED, publication_date=W.FIXED)
                res = "written"
            except ValidationError as e:
                res = "ValidationError:" + str(e)
            except Exception as e:  # noqa: BLE001
                res = type(e).__name__ + ":" + str(e)[:200]
            exists = os.path.exists(out)
            # the same call with an in-memory target: nothing may have been written into it when the write is rejected
            import io as _io
            buf = _io.StringIO()
            try:
                G.write_nodeset(buf, uri, last_modified=W.FIXED, publication_date=W.FIXED)
            except Exception:  # noqa: BLE001
                pass
            if inject and buf.getvalue() != "":
                exists = "StringIO target holds %d characters" % len(buf.getvalue())
            ok = (res == "written" and exists and not inject) or (inject and res.startswith("ValidationError") and not exists and "['BadOne']" in res)
            if not ok:
                run.violation({"files": files, "uri": uri}, {"what": "write_nodeset validation end to end", "impl": res[:400], "output_exists": exists,
                                                               "expected": "ValidationError naming ['BadOne'], no file" if inject else "document written"})
                return
        # several namespaces: only the variables BEING WRITTEN count — a mismatch in another namespace of the graph
        # (even one the written namespace refers to) does not make the write fail
        for i in range(max(2, n // 4)):
            for _ in range(30):
                g, files = W.gen_closed(rng, hostile=False, n_ns=rng.choice([2, 3]))
                vars_ = [k for k in g["order"] if g["nodes"][k]["cls"] == "UAVariable" and g["nodes"][k]["value"] is not None
                         and g["nodes"][k]["value"]["t"] in ("Int32", "String", "Double", "Boolean")]
                if vars_:
                    break
            if not vars_:
                continue
            k = rng.choice(vars_)
            t = g["nodes"][k]["value"]["t"]
            wrong = rng.choice([x for x in ("Int32", "String", "Double", "Boolean") if x != t])
            g["nodes"][k]["attrs"]["DataType"] = D.BASE(D.VALUE_DT[wrong])
            g["nodes"][k]["display"] = "BadOne"
            files = D.serialise(rng, g, extras=False)
            G, d = W.build_graph(sc, "m%d" % i, files)
            for uri in g["uris"]:
                own = uri == k[0]
                run.case({"e2e_multi": i, "uri": uri, "holds_the_mismatch": own}, tag="e2e:multi:" + ("rejected" if own else "accepted"))
                run.compared += 1
                import io as _io
                buf = _io.StringIO()
                try:
                    G.write_nodeset(buf, uri, last_modified=W.FIXED, publication_date=W.FIXED)
                    res = "written"
                except ValidationError as e:
                    res = "ValidationError:" + str(e)
                except Exception as e:  # noqa: BLE001
                    res = type(e).__name__ + ":" + str(e)[:200]
                ok = (own and res.startswith("ValidationError") and "['BadOne']" in res and buf.getvalue() == "") or (not own and res == "written")
                if not ok and not own and res.startswith("IndexError"):
                    continue        # a namespace that cannot be written at all (findings D-C06a,b) is not this property's business
                if not ok:
                    run.violation({"files": files, "uri": uri}, {"what": "write_nodeset validation with several namespaces", "impl": res[:400],
                                                                   "expected": "ValidationError naming ['BadOne'], nothing written" if own else "document written (the mismatch is in %s)" % k[0]})
                    return


TYPES_NS = 'xmlns="http://opcfoundation.org/UA/2008/02/Types.xsd"'


def _var(i, name, dt, tag, text):
    return ('<UAVariable NodeId="ns=1;i=%d" BrowseName="1:%s" DataType="%s"><DisplayName>%s</DisplayName><References>'
            '<Reference ReferenceType="i=40">i=63</Reference><Reference ReferenceType="i=47" IsForward="false">ns=1;i=5000</Reference>'
            '</References><Value><%s %s>%s</%s></Value></UAVariable>' % (i, name, dt, name, tag, TYPES_NS, text, tag))


def unusual_tables(run):
    """graphs whose DataType table is not the plain one: a base node defined twice ahead of the DataType definitions (row labels and ids
    differ from there on: the class of the repaired D-C16d), and a further, unused DataType whose DisplayName repeats a built-in one.
    Correctly typed variables must be written; one wrongly typed variable must be named, alone."""
    import io as _io
    from opcua_tools import UAGraph
    from opcua_tools.validator.exceptions import ValidationError
    base = minibase.base_xml()
    line35 = [l for l in base.splitlines() if 'NodeId="i=35"' in l][0]
    line31 = [l for l in base.splitlines() if 'NodeId="i=31"' in l][0]
    bases = {"plain": base, "i=35 twice": base.replace(line35, line35 + "\n" + line35, 1),
             "i=31 three times": base.replace(line31, "\n".join([line31] * 3), 1)}
    extra_dt = {"none": "",
                "String again": '<UADataType NodeId="ns=1;i=3100" BrowseName="1:String"><DisplayName>String</DisplayName><References><Reference ReferenceType="i=45" IsForward="false">i=12</Reference></References></UADataType>',
                "Int32 and Double again": '<UADataType NodeId="ns=1;i=3101" BrowseName="1:Int32"><DisplayName>Int32</DisplayName><References><Reference ReferenceType="i=45" IsForward="false">i=6</Reference></References></UADataType>'
                                          '<UADataType NodeId="ns=1;i=3102" BrowseName="1:MyDouble"><DisplayName>Double</DisplayName><References><Reference ReferenceType="i=45" IsForward="false">i=11</Reference></References></UADataType>'}
    uri = "http://c16.example/plant"
    head = ('<?xml version="1.0" encoding="utf-8"?>\n<UANodeSet xmlns="http://opcfoundation.org/UA/2011/03/UANodeSet.xsd">\n<NamespaceUris><Uri>%s</Uri></NamespaceUris>\n'
            '<Models><Model ModelUri="%s" Version="1.0.0" PublicationDate="2020-01-01T00:00:00Z"><RequiredModel ModelUri="http://opcfoundation.org/UA/" Version="1.04" PublicationDate="2019-05-01T00:00:00Z"/></Model></Models>\n'
            '<UAObject NodeId="ns=1;i=5000" BrowseName="1:Plant"><DisplayName>Plant</DisplayName><References><Reference ReferenceType="i=40">i=58</Reference>'
            '<Reference ReferenceType="i=35" IsForward="false">i=85</Reference></References></UAObject>\n' % (uri, uri))
    good = [_var(5001, "Count", "i=6", "Int32", "5"), _var(5002, "Label", "i=12", "String", "abc"),
            _var(5003, "Ratio", "i=11", "Double", "0.5"), _var(5004, "Flag", "i=1", "Boolean", "true")]
    bad = _var(5005, "BadOne", "i=6", "String", "not a number")
    bad2 = _var(5006, "BadTwo", "i=12", "Int32", "7")
    with minibase.Scratch() as sc:
        k = 0
        for bname, btext in bases.items():
            for ename, etext in extra_dt.items():
                for offenders in ([], [bad], [bad2], [bad, bad2]):
                    k += 1
                    doc = head + etext + "\n" + "\n".join(good + offenders) + "\n</UANodeSet>\n"
                    d = sc.sub("u%d" % k)
                    open(os.path.join(d, "Opc.Ua.NodeSet2.xml"), "w", encoding="utf-8").write(btext)
                    open(os.path.join(d, "plant.xml"), "w", encoding="utf-8").write(doc)
                    names = sorted(("BadOne" if o is bad else "BadTwo") for o in offenders)
                    case = {"unusual_tables": {"base": bname, "extra_datatypes": ename, "offenders": names}}
                    run.case(case, tag="e2e:tables:" + ("rejected" if offenders else "accepted"))
                    run.compared += 1
                    buf = _io.StringIO()
                    try:
                        G = UAGraph.from_path(d)
                        G.write_nodeset(buf, uri, last_modified=W.FIXED, publication_date=W.FIXED)
                        res = "written"
                    except ValidationError as e:
                        res = "ValidationError:" + str(e)
                    except Exception as e:  # noqa: BLE001
                        res = type(e).__name__ + ":" + str(e)[:200]
                    if offenders:
                        named = sorted(n for n in ("BadOne", "BadTwo", "Count", "Label", "Ratio", "Flag") if "'%s'" % n in res)
                        ok = res.startswith("ValidationError") and named == names and buf.getvalue() == ""
                    else:
                        ok = res == "written" and buf.getvalue() != ""
                    if not ok:
                        run.violation({"files": {"Opc.Ua.NodeSet2.xml": btext, "plant.xml": doc}, "uri": uri, "own_base": True},
                                      {"what": "write_nodeset validation on a graph with an unusual DataType table", "impl": res[:400], "case": case,
                                       "expected": ("ValidationError naming exactly %s, nothing written" % names) if offenders else "document written"})
                        return



def explore(run):
    thorough = run.tier == "thorough"
    matrix(run)
    flush(run)
    if run.full():
        return
    mixed(run, 5000 if thorough else 200)
    flush(run)
    if run.full():
        return
    unusual_tables(run)
    if run.full():
        return
    end_to_end(run, 400 if thorough else 20)


def search_missing(run, disagreements):
    mixed(run, 3000)
    flush(run)


def replay(run, path):
    body = json.load(open(path))
    print("recorded detail:", json.dumps(body["detail"], default=str, ensure_ascii=False)[:3000])
    print("recorded case:", json.dumps(body["case"], default=str, ensure_ascii=False)[:2000])
    print("VIOLATION property=C16 replay=%s" % path)
    return 1

"""C04 — integer-id normalisation is a consistent bijection with NodeIds."""
import json

import docs as D
import minibase
import parse_run as P
import parsecheck as PC

MODULE = "OpcuaModel.Props.C04"
TRUSTED_BASE = [
    "Lean 4.33.0 kernel; axioms audited (subset of propext, Classical.choice, Quot.sound)",
    "hand model Model/Parse.lean (allIds, uniques, code, normalize) tied to /repo by this correspondence run (exact ids and lookup order are compared)",
    "pandas factorize / Index.get_indexer / replace(-1, NA) as modelled; driver, harness",
]
ASSUMPTIONS = ["two rows declaring the same NodeId share one id (in the real code as well): for such inputs 'every row has its own id' is unsatisfiable together with "
               "'each distinct NodeId has one id' and is not demanded; all other clauses are. Document sets give every node its own NodeId; synthetic frames repeat NodeIds in a quarter of the cases"]
RULE = ("document sets (closed or with dangling end points) where ids occur first or only as DataType / ParentNodeId / MethodDeclarationId / "
        "reference type / target, references before definitions; normalize_wrt_nodeid also run directly on synthetic frames; "
        "distinct = distinct document set or frame pair; non-trivial = >= 2 distinct NodeIds")


def frame_cases(run, n):
    """normalize_wrt_nodeid on synthetic frames (columns present / absent, NA cells)"""
    import pandas as pd
    from opcua_tools.nodeset_parser import normalize_wrt_nodeid
    from opcua_tools.ua_data_types import NodeIdType, UANodeId
    rng = run.rng
    for i in range(n):
        pool = [UANodeId(rng.choice([0, 1, 2]), NodeIdType.NUMERIC, str(rng.randint(1, 12))) for _ in range(rng.randint(2, 10))]
        if rng.random() < 0.4:      # twins: the same namespace and identifier text under another identifier type are different NodeIds
            pool += [UANodeId(x.namespace, rng.choice([NodeIdType.STRING, NodeIdType.OPAQUE]), x.value) for x in rng.sample(pool, min(3, len(pool)))]
        k = rng.randint(1, 6)
        ids = rng.sample(pool, min(k, len(pool)))
        ids = list(dict.fromkeys(ids))
        if rng.random() < 0.25:
            # a NodeId declared by two rows (overlapping exports): the rows share one id — "own unique id" cannot hold then and is
            # not demanded; every other clause (id <-> NodeId consistency, denormalisation) still must
            ids.insert(rng.randrange(len(ids) + 1), rng.choice(ids))
        cols = {"NodeId": ids}
        for c in ("ParentNodeId", "DataType", "MethodDeclarationId"):
            if rng.random() < 0.6:
                cols[c] = [rng.choice(pool) if rng.random() < 0.5 else pd.NA for _ in ids]
        nodes = pd.DataFrame({c: pd.Series(v, dtype=object) for c, v in cols.items()})
        m = rng.randint(0, 6)
        refs = pd.DataFrame({c: pd.Series([rng.choice(pool) for _ in range(m)], dtype=object) for c in ("Src", "Trg", "ReferenceType")})
        relabelled = rng.random() < 0.35
        if relabelled:
            # tables whose row labels are not 0..n-1 (a filtered or concatenated table): ids belong to rows, not to labels
            nodes.index = rng.sample(range(50, 500), len(ids))
            refs.index = rng.sample(range(50, 500), m)
        orig_n, orig_r = nodes.copy(), refs.copy()
        run.case({"frame": i, "nodes": len(ids), "refs": m}, nontrivial=len(set(pool)) > 1, tag="frame" + (":repeated-nodeid" if len(set(ids)) < len(ids) else "") + (":relabelled" if relabelled else ""))
        run.compared += 1
        try:
            lk = normalize_wrt_nodeid(nodes, refs)
        except Exception as e:  # noqa: BLE001
            run.violation({"frame": i}, {"what": "normalize_wrt_nodeid raised", "impl": type(e).__name__ + ": " + str(e)[:200]})
            return
        by_label = dict(zip([int(x) for x in lk.index.tolist()], lk["uniques"].tolist()))     # read by LABEL, as a user of lookup_df does
        uniq = [by_label.get(x, "<no lookup entry %d>" % x) for x in range(len(lk))]
        problems = []
        if sorted(by_label) != list(range(len(lk))):
            problems.append("lookup labels are not 0..n-1: %r" % sorted(by_label)[:12])
        if len(set(uniq)) != len(uniq):
            problems.append("duplicate NodeId in lookup")
        def at(i_):
            """the lookup entry of an id cell; a cell that is not an id at all is reported, not crashed on"""
            try:
                return uniq[int(i_)]
            except (TypeError, ValueError, IndexError):
                return "<cell is not an id: %r>" % (i_,)
        for j in range(len(ids)):
            if at(nodes["id"].iloc[j]) != orig_n["NodeId"].iloc[j]:
                problems.append("lookup[id] != NodeId")
            for c in ("ParentNodeId", "DataType", "MethodDeclarationId"):
                if c in cols:
                    was, now = orig_n[c].iloc[j], nodes[c].iloc[j]
                    if was is pd.NA:
                        if not pd.isna(now):
                            problems.append("absent %s became an id" % c)
                    elif (not isinstance(now, UANodeId) and pd.isna(now)) or at(now) != was:
                        problems.append("%s does not denormalise to the original" % c)
        for j in range(m):
            for c in ("Src", "Trg", "ReferenceType"):
                if at(refs[c].iloc[j]) != orig_r[c].iloc[j]:
                    problems.append("reference column %s does not denormalise" % c)
        if problems:
            run.violation({"frame": {"nodes": {c: [str(x) for x in v] for c, v in cols.items()},
                                     "refs": [[str(x) for x in orig_r[c]] for c in ("Src", "Trg", "ReferenceType")]}},
                          {"what": "; ".join(sorted(set(problems)))})
            return


def lookup_df_cases(run, n):
    """create_lookup_df on node tables that hold only some of the ids (one namespace's rows, a filtered graph):
    reading the table by id gives that row's NodeId"""
    import pandas as pd
    from opcua_tools.nodeset_generator import create_lookup_df
    from opcua_tools.ua_data_types import NodeIdType, UANodeId
    rng = run.rng
    for i in range(n):
        k = rng.randint(1, 8)
        ids = rng.sample(range(0, 40), k)
        if rng.random() < 0.5:
            ids = sorted(ids)
        nids = [UANodeId(rng.choice([0, 1, 2]), NodeIdType.NUMERIC, str(1000 + j)) for j in range(k)]
        nodes = pd.DataFrame({"id": ids, "NodeId": pd.Series(nids, dtype=object), "BrowseName": ["n%d" % j for j in range(k)]})
        repeated = False
        if rng.random() < 0.35:
            # a node defined twice (overlapping documents): the same id and NodeId on two rows — still ONE lookup entry per id
            j = rng.randrange(k)
            nodes = pd.concat([nodes, nodes.iloc[[j]].assign(BrowseName="again")], ignore_index=True)
            repeated = True
        if rng.random() < 0.5:
            nodes.index = rng.sample(range(100, 200), len(nodes))
        run.case({"lookup_df": i, "ids": ids, "a_row_repeated": repeated}, nontrivial=ids != list(range(k)), tag="lookup_df" + (":repeated-row" if repeated else ""))
        try:
            lk = create_lookup_df(nodes)
            if not lk.index.is_unique:
                run.violation({"lookup_df": {"ids": ids, "a_row_repeated": repeated}},
                              {"what": "create_lookup_df(nodes) holds more than one entry for an id", "impl": sorted(int(x) for x in lk.index[lk.index.duplicated()])[:5],
                               "call": "opcua_tools.nodeset_generator.create_lookup_df"})
                return
            got = {x: lk.loc[x, "uniques"] for x in ids}
            extra = [x for x in lk.index.tolist() if x not in ids]
        except Exception as e:  # noqa: BLE001
            run.violation({"lookup_df": {"ids": ids}}, {"what": "create_lookup_df / reading it by id raised", "impl": type(e).__name__ + ": " + str(e)[:200]})
            return
        if any(got[x] != y for x, y in zip(ids, nids)) or extra:
            run.violation({"lookup_df": {"ids": ids, "nodeids": [str(x) for x in nids]}},
                          {"what": "create_lookup_df(nodes) read by id does not give each row's NodeId", "impl": {str(k_): str(v) for k_, v in got.items()}, "labels_without_a_node": extra[:5],
                           "call": "opcua_tools.nodeset_generator.create_lookup_df"})
            return


def graph_tables(run, sc, n):
    """the graph's own de-normalisation (get_normalized_nodes_df, whole and per namespace): the node-reference
    columns of every row name exactly the NodeIds the documents named, whichever namespace the row is asked through"""
    import pandas as pd
    from opcua_tools import UAGraph
    rng = run.rng
    for j in range(n):
        g = D.gen_graph(rng, hostile=False, closed=True, values_ok=False)
        files = D.serialise(rng, g)
        case = {"graph_tables": j, "files": {k: files[k] for k in sorted(files)}}
        try:
            G = UAGraph.from_path(sc.write(sc.sub("gt%d" % j), files))
        except Exception:  # noqa: BLE001  (building generated sets is C11's business)
            continue
        run.case({"graph_tables": j, "nodes": len(g["nodes"])}, tag="graph_tables")
        exp = D.expected_rows(g)

        def nid(x, G=G):
            if x is None or x is pd.NA or (isinstance(x, float) and x != x):
                return None
            try:
                return [G.namespaces[x.namespace], x.nodeid_type.value, str(x.value)]
            except Exception:  # noqa: BLE001
                return ["<not a NodeId>", repr(x)]
        try:
            for uri in [None] + [u for u in G.namespaces[1:] if u != "None"]:
                t = G.get_normalized_nodes_df(uri)
                seen = set()
                for rec in t.to_dict("records"):
                    k = nid(rec["NodeId"])
                    e = exp.get(tuple(k)) if k else None
                    if e is None:
                        continue                     # a base-nodeset node
                    seen.add(tuple(k))
                    for col in ("DataType", "ParentNodeId", "MethodDeclarationId"):
                        want = e["attrs"].get(col)
                        got = nid(rec.get(col))
                        if got != (None if want is None else [want[0], want[1], str(want[2])]):
                            run.violation(case, {"what": "get_normalized_nodes_df(%r): column %s of node %r is %r, the document names %r" % (uri, col, k, got, want),
                                                 "call": "UAGraph.get_normalized_nodes_df(namespace_uri)"})
                            return
                # replacing ids by lookup entries neither adds nor drops rows (a node defined twice stays two rows, it does not become four)
                rows_in = len(G.nodes) if uri is None else int((G.nodes["ns"] == G.namespaces.index(uri)).sum())
                if len(t) != rows_in:
                    run.violation(case, {"what": "get_normalized_nodes_df(%r) has %d rows for %d node rows" % (uri, len(t), rows_in), "call": "UAGraph.get_normalized_nodes_df(namespace_uri)"})
                    return
                want_keys = {k for k in exp if uri is None or k[0] == uri}
                if seen != want_keys:
                    run.violation(case, {"what": "get_normalized_nodes_df(%r) rows != nodes of that namespace" % uri, "missing": sorted(want_keys - seen)[:5], "extra": sorted(seen - want_keys)[:5]})
                    return
        except Exception as e:  # noqa: BLE001
            run.violation(case, {"what": "get_normalized_nodes_df raised", "impl": type(e).__name__ + ": " + str(e)[:300]})
            return


def explore(run):
    rng = run.rng
    thorough = run.tier == "thorough"
    frame_cases(run, 5000 if thorough else 200)
    if run.full():
        return
    lookup_df_cases(run, 3000 if thorough else 150)
    if run.full():
        return
    with minibase.Scratch() as sc:
        graph_tables(run, sc, 60 if thorough else 6)
        if run.full():
            return
        for i in range(900 if thorough else 90):
            g = D.gen_graph(rng, hostile=rng.random() < 0.3, closed=rng.random() < 0.4, values_ok=False)
            files = D.serialise(rng, g, one_file=rng.random() < 0.3)
            run.case({"set": i, "nodes": len(g["nodes"]), "refs": len(g["refs"])}, nontrivial=len(g["nodes"]) > 1, tag="set")
            PC.check_set(run, sc, g, files, None, ["ids", "nodes", "refs"], "s%d" % i)
            if run.full():
                return


def search_missing(run, disagreements):
    frame_cases(run, 3000)
    rng = run.rng
    with minibase.Scratch() as sc:
        for i in range(300):
            g = D.gen_graph(rng, hostile=False, closed=False, values_ok=False)
            PC.check_set(run, sc, g, D.serialise(rng, g), None, ["ids"], "m%d" % i)
            if run.full():
                return


def replay(run, path):
    body = json.load(open(path))
    case = body["case"]
    if "files" in case:
        with minibase.Scratch() as sc:
            d, paths = P.write_set(sc, "r", case["files"])
            io = P.impl_parse_files(paths, case.get("caller"))
            print("implementation lookup:", json.dumps(io.get("lookup", io), default=str)[:2000])
    print("recorded detail:", json.dumps(body["detail"], default=str, ensure_ascii=False)[:3000])
    print("VIOLATION property=C04 replay=%s" % path)
    return 1

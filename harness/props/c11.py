"""C11 — a UAGraph is closed under its references and look-ups are unambiguous."""
import json
import os
import re

import docs as D
import minibase
import parse_run as P
import writecheck as W

UA = minibase.UA
MODULE = "OpcuaModel.Props.C11"
TRUSTED_BASE = [
    "Lean 4.33.0 kernel; axioms audited (subset of propext, Classical.choice, Quot.sound)",
    "hand model Model/Validate.lean (missingSrc / missingTrg / validateClosed, candidates / lookupBrowse) tied to /repo by this correspondence run",
    "pandas set algebra / DataFrame.loc on an index of browse names as modelled; the error text is parsed for NodeIds (plain identifiers only)",
    "driver JSON decoding, harness, generator (the set of nodes removed is the oracle)",
]
ASSUMPTIONS = [
    "node ids coincide with row positions (distinct NodeIds), which is how the parser assigns them; the error text is read with plain identifiers",
    "construction includes transform_ints_to_enums; closed sets over the synthetic base namespace",
]
RULE = ("closed document sets with a random subset of node elements or whole files removed (0-3), so that references lose their source, their target or "
        "both; look-ups of absent / unique / duplicated browse names with and without node class; distinct = distinct (document set, removal); "
        "non-trivial = at least one reference loses an end point")

NID = re.compile(r"(?:ns=\d+;)?[isgb]=[^\s]+")


BUILD_COUNT = [0]


def build(files, scratch, name, with_base=True):
    from opcua_tools import UAGraph
    d = scratch.sub(name)
    scratch.write(d, files, with_base=with_base)
    paths = sorted(os.path.join(d, f) for f in os.listdir(d))
    BUILD_COUNT[0] += 1
    try:
        # both constructors promise the same closure check: they are used alternately
        return {"graph": UAGraph.from_file_list(paths) if BUILD_COUNT[0] % 2 else UAGraph.from_path(d)}
    except ValueError as e:
        return {"err": "ValueError", "msg": str(e)}
    except Exception as e:  # noqa: BLE001
        return {"err": type(e).__name__, "msg": str(e)[:300]}


def remove_nodes(text, keys, g, local_of):
    """drop the node elements of the given keys from a generated document text"""
    import lxml.etree as ET
    root = ET.fromstring(text.encode("utf-8"))
    X = "{%s}" % D.NS_XSD
    uris = [u.text for nsu in root.findall(X + "NamespaceUris") for u in nsu.findall(X + "Uri")]
    table = [UA] + uris
    removed = 0
    for e in list(root):
        if not isinstance(e.tag, str) or e.tag[len(X):] not in D.CLASSES:
            continue
        t = e.get("NodeId")
        k, rest = (int(t[3:].split(";", 1)[0]), t.split(";", 1)[1]) if t.startswith("ns=") else (0, t)
        it, ident = rest.split("=", 1)
        if (table[k], it, ident) in keys:
            root.remove(e)
            removed += 1
    return ET.tostring(root, encoding="unicode"), removed


def duplicate_node(text, rng):
    """repeat one node element of a document (overlapping exports define a node twice)"""
    import copy
    import lxml.etree as ET
    root = ET.fromstring(text.encode("utf-8"))
    X = "{%s}" % D.NS_XSD
    els = [e for e in root if isinstance(e.tag, str) and e.tag[len(X):] in D.CLASSES]
    if not els:
        return text
    e = rng.choice(els)
    root.insert(rng.choice([root.index(els[0]), len(root)]), copy.deepcopy(e))
    return ET.tostring(root, encoding="unicode")


def closure_cases(run, sc, n):
    rng = run.rng
    for i in range(n):
        g, files = W.gen_closed(rng, hostile=False, values_ok=rng.random() < 0.5)
        keys = list(g["order"])
        k = rng.choice([0, 0, 1, 1, 2, 3])
        victims = set(rng.sample(keys, min(k, len(keys))))
        files2 = {}
        for nm, text in files.items():
            t2, _ = remove_nodes(text, victims, g, None)
            files2[nm] = t2
        if rng.random() < 0.15 and len(files2) > 1:
            drop = rng.choice(sorted(files2))
            victims |= {k_ for k_ in keys if False}
            del files2[drop]
        repeated = rng.random() < 0.25
        if repeated:
            nm = rng.choice(sorted(files2))
            files2[nm] = duplicate_node(files2[nm], rng)
        case = {"files": files2}
        # what is parsed, before the closure check (oracle for the expected outcome)
        d0, paths = P.write_set(sc, "p%d" % i, dict(files2))
        with open(os.path.join(d0, "Opc.Ua.NodeSet2.xml"), "w", encoding="utf-8") as f:
            f.write(minibase.base_xml())
        io = P.impl_parse_files(sorted(os.path.join(d0, f) for f in os.listdir(d0)))
        if "err" in io:
            continue
        ids = [r["int_id"] for r in io["nodes"]]
        refs = io["nrefs"]
        lk = io["lookup"]
        miss_src = [r for r in refs if r[0] not in ids]
        miss_trg = [r for r in refs if r[1] not in ids]
        closed = not miss_src and not miss_trg
        run.case({"set": i, "removed": len(victims)}, nontrivial=not closed, tag="closure:" + ("closed" if closed else "src" if miss_src else "trg") + (":repeated-node" if repeated else ""))
        run.compared += 1
        res = build(files2, sc, "b%d" % i)
        mo = run.driver.ask({"op": "closed.validate", "ids": ids, "refs": refs})
        if closed:
            if "graph" not in res:
                run.violation(case, {"what": "construction failed although every reference end point is defined", "impl": res})
                return
            if "ok" not in mo:
                run.disagree(case, mo, {"ok": True})
            continue
        if res.get("err") != "ValueError":
            run.violation(case, {"what": "construction did not raise ValueError although a reference end point is undefined", "impl": {k: v for k, v in res.items() if k != "graph"}})
            return
        # the message lists the present end point of every offending reference
        want_rows = miss_src if miss_src else miss_trg
        present = [lk[r[1]] if miss_src else lk[r[0]] for r in want_rows]
        ns_list = io["namespaces"]
        want = sorted(("ns=%d;" % p[0] if p[0] else "") + "%s=%s" % (p[1], p[2]) for p in present)
        body = res["msg"].split("\n", 2)[2] if res["msg"].count("\n") >= 2 else res["msg"]
        got = []
        for line in body.split("\n")[1:]:
            m = NID.findall(line)
            if m:
                got.append(m[0])
        if sorted(got) != want or ("source ids do not exist" in res["msg"]) != bool(miss_src):
            run.violation(case, {"what": "the error does not list exactly the present end points of the references with a missing %s" % ("source" if miss_src else "target"),
                                 "impl": sorted(got), "expected": want, "message": res["msg"][:600]})
            return
        exp_model = {"missing": "source" if miss_src else "target", "rows": want_rows}
        if mo.get("missing") != exp_model["missing"] or sorted(mo.get("rows", [])) != sorted(want_rows):
            run.disagree(case, mo, exp_model)


def standalone_cases(run, sc, n):
    """document sets that do not include the OPC UA base document: self-contained (own reference type, own
    data type, references among their own nodes only) they build; with one end point taken out they do not"""
    from opcua_tools import UAGraph
    rng = run.rng
    for i in range(n):
        k = rng.randint(2, 6)
        uri = "urn:standalone:%d" % i
        rt = "ns=1;i=1"
        nodes = ['<UAReferenceType NodeId="ns=1;i=1" BrowseName="1:Links"><DisplayName>Links</DisplayName><References/></UAReferenceType>',
                 '<UADataType NodeId="ns=1;i=2" BrowseName="1:Kind"><DisplayName>Kind</DisplayName><References><Reference ReferenceType="%s" IsForward="false">ns=1;i=1</Reference></References></UADataType>' % rt]
        victim = rng.choice([None, None] + list(range(10, 10 + k)))
        for j in range(k):
            refs = "".join('<Reference ReferenceType="%s"%s>ns=1;i=%d</Reference>' % (rt, ' IsForward="false"' if rng.random() < 0.4 else "", 10 + t)
                           for t in sorted(rng.sample(range(k), rng.randint(0, min(2, k)))) if t != j)
            cls = rng.choice(["UAObject", "UAVariable"])
            extra = ' DataType="ns=1;i=2"' if cls == "UAVariable" else ""
            if victim == 10 + j:
                continue
            nodes.append('<%s NodeId="ns=1;i=%d" BrowseName="1:n%d"%s><DisplayName>n%d</DisplayName><References>%s</References></%s>' % (cls, 10 + j, j, extra, j, refs, cls))
        text = ('<?xml version="1.0" encoding="utf-8"?>\n<UANodeSet xmlns="http://opcfoundation.org/UA/2011/03/UANodeSet.xsd"><NamespaceUris><Uri>%s</Uri></NamespaceUris>'
                '<Models><Model ModelUri="%s" Version="1" PublicationDate="2020-01-01T00:00:00Z"/></Models><Aliases/>\n%s\n</UANodeSet>' % (uri, uri, "\n".join(nodes)))
        d = sc.sub("sa%d" % i)
        path = os.path.join(d, "only.xml")
        open(path, "w", encoding="utf-8").write(text)
        io = P.impl_parse_files([path])
        if "err" in io:
            run.violation({"files": {"only.xml": text}}, {"what": "parse_xml_files raised on a self-contained document", "impl": io})
            return
        ids = {r["int_id"] for r in io["nodes"]}
        closed = all(r[0] in ids and r[1] in ids for r in io["nrefs"])
        run.case({"standalone": i, "closed": closed}, nontrivial=True, tag="standalone:" + ("closed" if closed else "open"))
        try:
            UAGraph.from_file_list([path]) if i % 2 else UAGraph.from_path(d)
            res = "built"
        except ValueError:
            res = "ValueError"
        except Exception as e:  # noqa: BLE001
            res = type(e).__name__ + ": " + str(e)[:200]
        if res != ("built" if closed else "ValueError"):
            run.violation({"files": {"only.xml": text}, "without_base": True},
                          {"what": "a document set without the base document: every reference end point is %sdefined in it, construction gave %s" % ("" if closed else "not ", res),
                           "call": "UAGraph.from_file_list / from_path"})
            return


def many_dangling(run, sc):
    """more offending references than a table print-out shows by default: the error still lists the present end point of
    every one of them (missing targets, then missing sources)"""
    from opcua_tools import UAGraph
    rng = run.rng
    for side in ("target", "source"):
        k = rng.randint(22, 40)
        nodes = []
        for j in range(k):
            ref = ('<Reference ReferenceType="i=40">ns=1;i=%d</Reference>' % (9000 + j)) if side == "target" else \
                  ('<Reference ReferenceType="i=35" IsForward="false">ns=1;i=%d</Reference>' % (9000 + j))
            nodes.append('<UAObject NodeId="ns=1;i=%d" BrowseName="1:p%d"><DisplayName>p%d</DisplayName><References>%s</References></UAObject>' % (100 + j, j, j, ref))
        text = ('<?xml version="1.0" encoding="utf-8"?>\n<UANodeSet xmlns="http://opcfoundation.org/UA/2011/03/UANodeSet.xsd"><NamespaceUris><Uri>urn:many</Uri></NamespaceUris>'
                '<Models><Model ModelUri="urn:many" Version="1" PublicationDate="2020-01-01T00:00:00Z"/></Models><Aliases/>' + "".join(nodes) + "</UANodeSet>")
        case = {"files": {"many.xml": text}}
        run.case({"many_dangling": side, "references": k}, tag="closure:many-" + side)
        res = build({"many.xml": text}, sc, "many_" + side)
        want = sorted("ns=1;i=%d" % (100 + j) for j in range(k))
        got = []
        if res.get("err") == "ValueError":
            body = res["msg"].split("\n", 2)[2] if res["msg"].count("\n") >= 2 else res["msg"]
            for line in body.split("\n")[1:]:
                m = NID.findall(line)
                if m:
                    got.append(m[0])
        if res.get("err") != "ValueError" or sorted(got) != want:
            run.violation(case, {"what": "with %d references whose %s is undefined the error does not list the present end point of every one of them" % (k, side),
                                 "listed": len(got), "missing_from_the_message": sorted(set(want) - set(got))[:6], "message_tail": res.get("msg", "")[-300:],
                                 "call": "UAGraph.from_path / from_file_list"})
            return


def reduced_bases(run, sc):
    """closed document sets over a base document that lacks reference types none of their references uses (HasProperty,
    HasModellingRule): every end point is defined, so construction succeeds — also when the set defines enumeration data types
    but no variable of such a type"""
    base = minibase.base_xml()
    doc = ('<?xml version="1.0" encoding="utf-8"?>\n<UANodeSet xmlns="http://opcfoundation.org/UA/2011/03/UANodeSet.xsd"><NamespaceUris><Uri>urn:reduced</Uri></NamespaceUris>'
           '<Models><Model ModelUri="urn:reduced" Version="1" PublicationDate="2020-01-01T00:00:00Z"/></Models><Aliases/>'
           '<UADataType NodeId="ns=1;i=3000" BrowseName="1:Colour"><DisplayName>Colour</DisplayName><References><Reference ReferenceType="i=45" IsForward="false">i=29</Reference></References></UADataType>'
           '<UAObject NodeId="ns=1;i=5000" BrowseName="1:Plant"><DisplayName>Plant</DisplayName><References><Reference ReferenceType="i=40">i=58</Reference>'
           '<Reference ReferenceType="i=35" IsForward="false">i=85</Reference></References></UAObject>'
           '<UAVariable NodeId="ns=1;i=5001" BrowseName="1:Count" DataType="i=6"><DisplayName>Count</DisplayName><References><Reference ReferenceType="i=40">i=63</Reference>'
           '<Reference ReferenceType="i=47" IsForward="false">ns=1;i=5000</Reference></References></UAVariable></UANodeSet>')
    for name, ids in (("without HasProperty", [46]), ("without HasModellingRule", [37]), ("without both", [46, 37])):
        b = base
        usable = True
        for i in ids:
            line = [l for l in b.splitlines() if 'NodeId="i=%d"' % i in l]
            alias = [a for a in ("HasProperty", "HasModellingRule") if 'ReferenceType="%s"' % a in b]
            import re as _re
            rest = _re.sub(r"<Alias [^>]*>[^<]*</Alias>", "", b.replace(line[0], "") if len(line) == 1 else b)
            if len(line) != 1 or 'ReferenceType="i=%d"' % i in rest or ">i=%d<" % i in rest or alias:
                usable = False
                break
            b = b.replace(line[0] + "\n", "", 1)
        if not usable:
            continue
        files = {"Opc.Ua.NodeSet2.xml": b, "reduced.xml": doc}
        case = {"files": files, "without_base": True}
        run.case({"reduced_base": name}, tag="closure:reduced-base")
        res = build(files, sc, "red_" + "_".join(str(i) for i in ids), with_base=False)
        if "graph" not in res:
            run.violation(case, {"what": "a closed document set over a base document %s does not build" % name, "impl": res, "call": "UAGraph.from_path / from_file_list"})
            return


LOOKUP_CALLS = [0]


def lookup_cases(run, sc, n):
    rng = run.rng
    # half of the graphs define one or two nodes twice (overlapping exports): ids and row positions then differ
    LOOKUP_CALLS[0] += 1
    g, _ = W.gen_closed(rng, hostile=False, n_ns=2, n_nodes=8, features={"repeat_nodes": LOOKUP_CALLS[0] % 2 == 1})
    # duplicated browse names: within one node class and across classes / namespaces
    keys = list(g["nodes"])
    for _ in range(4):
        a, b = rng.sample(keys, 2)
        g["nodes"][b]["browse"] = g["nodes"][a]["browse"]
    # always: a name borne by nodes of two classes one of which is a prefix-extension of the other (Object / ObjectType,
    # Variable / VariableType), and a name borne by the longer-named class only
    by_cls = {}
    for k_ in keys:
        by_cls.setdefault(g["nodes"][k_]["cls"], []).append(k_)
    for short, long_ in (("UAObject", "UAObjectType"), ("UAVariable", "UAVariableType")):
        if by_cls.get(short) and by_cls.get(long_):
            g["nodes"][by_cls[long_][0]]["browse"] = g["nodes"][by_cls[short][0]]["browse"]
    same_cls = [(a, b) for a in keys for b in keys if a < b and g["nodes"][a]["cls"] == g["nodes"][b]["cls"]]
    for a, b in rng.sample(same_cls, min(2, len(same_cls))):
        g["nodes"][b]["browse"] = g["nodes"][a]["browse"]
    files = D.serialise(rng, g)
    if LOOKUP_CALLS[0] % 2 == 1:
        # ... and one node of the document that is read first is defined a second time in front of all others, so that
        # every later row of the table is shifted against its id
        first = sorted(files)[0]
        import lxml.etree as ET
        import copy
        root = ET.fromstring(files[first].encode("utf-8"))
        els = [e for e in root if isinstance(e.tag, str) and e.tag[e.tag.index("}") + 1:] in D.CLASSES]
        if els:
            root.insert(root.index(els[0]), copy.deepcopy(els[-1]))
            files[first] = ET.tostring(root, encoding="unicode")
    G, _ = W.build_graph(sc, "lk", files)
    rows = [{"id": int(r["id"]), "cls": r["NodeClass"], "browse": r["BrowseName"]} for _, r in G.nodes.iterrows()]
    names = sorted({r["browse"] for r in rows})
    methods = {"ReferenceType": G.reference_type_by_browsename, "ObjectType": G.object_type_by_browsename,
               "VariableType": G.variable_type_by_browsename, "DataType": G.data_type_by_browsename, "Object": G.object_by_browsename}
    ops, plan = [], []
    for _ in range(n):
        name = rng.choice(names + ["NoSuchName", "", "Speed", "Pump"])
        cls = rng.choice([None, "Object", "Variable", "ObjectType", "DataType", "ReferenceType", "VariableType", "Method", "View"])
        if len(plan) < len(rows):
            # every node once: by its own name and class (present), and by its name under a class whose name contains its own class name
            r0 = rows[len(plan)]
            name, cls = r0["browse"], r0["cls"][2:]
            if len(plan) % 2 == 1 and cls.endswith("Type") and cls[:-4] in ("Object", "Variable"):
                cls = cls[:-4]
        elif rng.random() < 0.6:          # a present name, with the class of one of its bearers (or none)
            r0 = rng.choice(rows)
            dup = [r for r in rows if sum(1 for q in rows if q["browse"] == r["browse"]) > 1]
            if dup and rng.random() < 0.5:
                r0 = rng.choice(dup)
            name, cls = r0["browse"], rng.choice([None, r0["cls"][2:]])
        plan.append((name, cls))
        op = {"op": "browse.lookup", "nodes": rows, "name": name}
        if cls:
            op["cls"] = cls
        ops.append(op)
    outs = run.driver.batch(ops)
    for (name, cls), mo in zip(plan, outs):
        case = {"lookup": name, "cls": cls}
        matches = [r for r in rows if r["browse"] == name and (cls is None or r["cls"] == "UA" + cls)]
        run.case(case, nontrivial=len(matches) != 1, tag="lookup:%d" % min(len(matches), 2))
        run.compared += 1
        try:
            nid = G.nodeid_by_browsename(name, cls)
            io = {"nodeid": P.nid_json(nid)}
        except ValueError:
            io = {"err": "ValueError"}
        except Exception as e:  # noqa: BLE001
            io = {"err": type(e).__name__}
        if cls in methods and name:
            try:
                io["id"] = methods[cls](name)
            except ValueError:
                io["id_err"] = "ValueError"
            except Exception as e:  # noqa: BLE001
                io["id_err"] = type(e).__name__
        want_ok = len(matches) == 1 and name != ""
        if want_ok:
            exp_nid = P.nid_json(G.nodes.loc[G.nodes["id"] == matches[0]["id"], "NodeId"].values[0])
            bad = io.get("nodeid") != exp_nid or ("id" in io and io["id"] != matches[0]["id"]) or "id_err" in io
        else:
            bad = io.get("err") != "ValueError" or ("id" in io) or (io.get("id_err", "ValueError") != "ValueError")
        if bad:
            run.violation(case, {"what": "browse-name look-up is not 'the unique match or ValueError'", "impl": io,
                                 "matches": matches, "call": "UAGraph.nodeid_by_browsename / *_by_browsename"})
            return
        if ("id" in mo) != want_ok or (want_ok and mo["id"] != matches[0]["id"]):
            run.disagree(case, mo, io)


def explore(run):
    thorough = run.tier == "thorough"
    with minibase.Scratch() as sc:
        closure_cases(run, sc, 700 if thorough else 45)
        if run.full():
            return
        standalone_cases(run, sc, 200 if thorough else 16)
        if run.full():
            return
        many_dangling(run, sc)
        if run.full():
            return
        reduced_bases(run, sc)
        if run.full():
            return
        for _ in range(20 if thorough else 2):
            lookup_cases(run, sc, 400 if thorough else 200)
            if run.full():
                return


def search_missing(run, disagreements):
    with minibase.Scratch() as sc:
        closure_cases(run, sc, 300)


def replay(run, path):
    body = json.load(open(path))
    case = body["case"]
    if "files" in case:
        with minibase.Scratch() as sc:
            res = build(case["files"], sc, "r", with_base=not case.get("without_base"))
            print("construction:", {k: (v if k != "graph" else "<UAGraph>") for k, v in res.items()})
    print("recorded detail:", json.dumps(body["detail"], default=str, ensure_ascii=False)[:3000])
    print("VIOLATION property=C11 replay=%s" % path)
    return 1

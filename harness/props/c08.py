"""C08 — XML value encoding and decoding are inverse for every supported value."""
import datetime
import json
import math
import os
import struct
import time

import gen
import values
import xmltree

MODULE = "OpcuaModel.Props.C08"
NS_XSD = "http://opcfoundation.org/UA/2011/03/UANodeSet.xsd"
TYPES = xmltree.TYPES
EXTRA_AUDIT = [("OpcuaModel.Gen.NodeIdTie", "Opcua.Tie.")]
TRUSTED_BASE = [
    "Lean 4.33.0 kernel; axioms audited (subset of propext, Classical.choice, Quot.sound)",
    "tie (A): UANodeId.xml_encode (with UANodeId.__str__) is also regenerated from the source on every run (translator/py2lean.py) and Gen/NodeIdTie.lean proves the generated definition equal to encodeText (.nodeId n) b for every NodeId and both settings of include_xmlns (xmlEncode_eq); coverage.translator_tie says which case applied",
    "hand model Model/Value.lean (encodeText = every xml_encode as string concatenation; decodeT = parse_value and helpers) and Model/Xml.lean (XmlLite reader), tied to /repo by this correspondence run: emitted text compared as strings, decoded values compared structurally",
    "CPython: float(str(x)) == x, b64decode(b64encode(b)) == b, strftime on glibc (%Y unpadded), dateutil.parser.parse on the printed format — standard library / third party, sampled here (TextCodecs laws)",
    "lxml as the XML reader of the real parser (the model reads the same infoset); XmlLite is validated against lxml on every emitted fragment",
    "driver JSON decoding, harness, value generator",
]
ASSUMPTIONS = [
    "float and base64 payloads are opaque tokens in the model (the text CPython printed); their exactness is CPython's",
    "DateTime reading is modelled only on the image of the printer (four-digit years, UTC); raw XML payloads are compared as trees",
    "recorded findings: Guid (D-C08b), NodeId (D-C08c), null Boolean (D-C08e), DateTime year<1000 / non-UTC / naive (D-C08f,g,j), EUInformation locale and empty URI (D-C08h)",
]
RULE = ("values of every supported type: min/max of each integer width, boundary / subnormal / huge / non-finite floats, hostile and "
        "non-ASCII text, boundary dates with sub-second parts, empty and null values, nested lists, EUInformation / Range structures, "
        "extension objects and raw XML elements; both include_xmlns settings; distinct = distinct value; non-trivial = not a null scalar")


def rand_value(rng, known_classes):
    """supported stream, or (known_classes) the classes recorded as findings"""
    if not known_classes:
        r = rng.random()
        if r < 0.08:
            k = rng.randint(0, 9)
            tns = rng.choice([0, 1, 2])
            # 885 / 888 in namespace 0 are the Range / EUInformation encodings (decoded as structures); in any other namespace they are ordinary type ids
            return {"t": "ExtensionObject", "type": [tns, "i", str(rng.choice([1, 884, 886, 889, 12345] + ([885, 888, 887] if tns != 0 else [])))],
                    "raw": "<x:Body%d xmlns:x=\"urn:x\" a=\"%s\"><x:k>%s</x:k></x:Body%d>" % (k, gen.plain_text(rng), gen.plain_text(rng), k)}
        while True:
            v = values.rand_value(rng)
            if ok_class(v):
                return v
    r = rng.random()
    if r < 0.2:
        return {"t": "Guid", "v": "%08x-0000-0000-0000-%012x" % (rng.getrandbits(32), rng.getrandbits(48))}
    if r < 0.4:
        return values.rand_scalar(rng, "NodeId")
    if r < 0.5:
        return {"t": "Boolean", "v": None}
    if r < 0.7:
        d = values.rand_datetime(rng)
        which = rng.choice(["year", "offset", "naive"])
        if which == "year":
            return {"t": "DateTime", "v": "%04d" % rng.choice([1, 9, 99, 999]) + d[4:], "tz": "utc"}
        return {"t": "DateTime", "v": d, "tz": "naive" if which == "naive" else str(rng.choice([60, -300, 330, 765]))}
    if r < 0.85:
        v = values.rand_value(rng)
        while v["t"] != "EngineeringUnits":
            v = values.rand_value(rng)
        if rng.random() < 0.5:
            v["display"]["locale"] = None
        else:
            v["uri"] = ""
        return v
    t = rng.choice(["Guid", "NodeId", "Boolean"])
    items = [values.rand_scalar(rng, t, allow_null=False) for _ in range(rng.randint(1, 3))]
    if t == "Boolean":
        items[0] = {"t": "Boolean", "v": None}
    return {"t": "ListOf", "typename": t, "items": items}


def ok_class(v):
    """inside the supported domain (outside every recorded finding)?"""
    t = v["t"]
    if t in ("Guid", "NodeId"):
        return False
    if t == "Boolean" and v["v"] is None:
        return False
    if t == "DateTime":
        return v.get("tz", "utc") == "utc" and int(v["v"][:4]) >= 1000
    if t == "EngineeringUnits":
        return v["display"]["locale"] is not None and v["description"]["locale"] is not None and v["uri"].strip() != ""
    if t == "ListOf":
        return v["typename"] not in ("Guid", "NodeId") and all(ok_class(x) for x in v["items"])
    return True


def finding_for(v):
    t = v["t"]
    if t == "Guid":
        return "D-C08b"
    if t == "NodeId":
        return "D-C08c"
    if t == "Boolean":
        return "D-C08e"
    if t == "DateTime":
        if int(v["v"][:4]) < 1000:
            return "D-C08f"
        return "D-C08j" if v.get("tz") == "naive" else "D-C08g"
    if t == "EngineeringUnits":
        return "D-C08h"
    if t == "ListOf":
        for x in v["items"]:
            if not ok_class(x):
                return finding_for(x)
        if v["typename"] in ("Guid", "NodeId"):
            return "D-C08b" if v["typename"] == "Guid" else "D-C08c"
    return None


def build(v):
    import opcua_tools.ua_data_types as U
    if v["t"] == "ExtensionObject" and "raw" in v:
        return U.UAExtensionObject(type_nodeid=U.UANodeId(v["type"][0], U.NodeIdType(v["type"][1]), v["type"][2]),
                                   body=U.UAXMLElement(value=v["raw"]))
    return values.build(v)


def for_model(v):
    """value description for the driver (raw XML as syntactic trees)"""
    import lxml.etree as ET
    v = dict(v)
    if v["t"] == "XmlElement":
        v["tree"] = xmltree.syntactic(ET.fromstring(v["v"]))
    elif v["t"] == "ExtensionObject":
        v["tree"] = xmltree.syntactic(ET.fromstring(v["raw"]))
    elif v["t"] == "ListOf":
        v["items"] = [for_model(x) for x in v["items"]]
    return v


def norm(v):
    """content the property promises to preserve"""
    import parsecheck
    if v is None:
        return None
    v = dict(v)
    if v["t"] == "ExtensionObject":
        import lxml.etree as ET
        raw = v.get("raw")
        if raw is None and isinstance(v.get("body"), dict):
            raw = v["body"].get("v")
        tree = xmltree.strip_ws(xmltree.resolved(ET.fromstring(raw))) if raw is not None else xmltree.strip_ws(v.get("tree"))
        return {"t": "ExtensionObject", "type": v["type"], "tree": tree}
    if v["t"] == "XmlElement":
        import lxml.etree as ET
        tree = xmltree.strip_ws(xmltree.resolved(ET.fromstring(v["v"]))) if "v" in v else xmltree.strip_ws(v["tree"])
        return {"t": "XmlElement", "tree": tree}
    if v["t"] == "ListOf":
        return {"t": "ListOf", "typename": v["typename"], "items": [norm(x) for x in v["items"]]}
    if v["t"] == "DateTime":
        return v
    return parsecheck.norm_value(v)


def value_cases(run, descs):
    import lxml.etree as ET
    from opcua_tools.value_parser import parse_value
    ops = []
    for v in descs:
        for b in (True, False):
            ops.append({"op": "value.xml", "val": for_model(v), "xmlns": b})
    outs = run.driver.batch(ops)
    dec_ops, dec_plan = [], []
    for i, v in enumerate(descs):
        supported = ok_class(v)
        fid = None if supported else finding_for(v)
        case = {"value": v}
        run.case(case, nontrivial=not (v.get("v", 1) is None), tag="val:" + v["t"] + ("" if supported else ":known-class"))
        run.compared += 1
        try:
            obj = build(v)
            texts = [obj.xml_encode(include_xmlns=True), obj.xml_encode(include_xmlns=False)]
        except Exception as e:  # noqa: BLE001
            if run.violation(case, {"what": "constructor / xml_encode raised", "impl": type(e).__name__ + ": " + str(e)[:200]}):
                return
            continue
        mtexts = [outs[2 * i]["text"], outs[2 * i + 1]["text"]]
        raw_layout = v["t"] in ("XmlElement", "ExtensionObject") or (v["t"] == "ListOf" and False)
        if texts != mtexts and not raw_layout:
            run.disagree(case, mtexts, texts)
        # --- the property on the real code: well-formed fragment in the types namespace, decode gives the value back
        # the element is decoded where it sits in a document: the ancestors declare prefixes the value does not use
        doc = '<uax:Value xmlns:uax="%s" xmlns:xsd="http://www.w3.org/2001/XMLSchema" xmlns:xsi="http://www.w3.org/2001/XMLSchema-instance">%s</uax:Value>' % (NS_XSD, texts[0])
        problem = None
        try:
            el = ET.fromstring(doc.encode("utf-8"))
        except ET.XMLSyntaxError as e:
            el, problem = None, {"what": "encoding is not well-formed XML", "impl": texts[0][:500], "error": str(e)[:200]}
        if el is not None:
            top = el[0]
            if v["t"] != "XmlElement" and not top.tag.startswith("{%s}" % TYPES):
                problem = {"what": "fragment is not in the UA types namespace", "impl": top.tag}
            else:
                try:
                    back = values.describe(parse_value(el))
                except Exception as e:  # noqa: BLE001
                    back = {"t": "raised", "err": type(e).__name__ + ": " + str(e)[:200]}
                want, got = norm(v), norm(back) if back and back.get("t") not in ("raised", "PyNone") and not str(back.get("t")).startswith("Other") else back
                if want != got:
                    problem = {"what": "decode(encode(v)) != v", "text": texts[0][:600], "impl": back, "expected": v,
                               "call": "opcua_tools.value_parser.parse_value(<Value>) after value.xml_encode(True)"}
                elif "XMLSchema" in json.dumps(back) and "XMLSchema" not in json.dumps(v):
                    problem = {"what": "the decoded raw XML carries namespace declarations of the surrounding document (decode(encode(v)) != v as text)",
                               "impl": back, "expected": v, "call": "opcua_tools.value_parser.parse_value(<Value>) inside a document"}
                if supported:
                    dec_ops.append({"op": "value.decode", "elem": xmltree.resolved(top)})
                    dec_plan.append((case, back))
        if problem:
            if fid and run.known(fid):
                run.count("known:" + fid)
            else:
                if run.violation(case, problem):
                    return
        elif fid:
            run.count("known-class-but-holds:" + fid)
        # --- XmlLite vs lxml on the emitted text (model's reader reads what the real reader reads)
    # model decode vs implementation decode on the same trees
    outs2 = run.driver.batch(dec_ops)
    for (case, back), mo in zip(dec_plan, outs2):
        if back is not None and back.get("t") == "raised":
            if "err" not in mo:
                run.disagree({"decode": case}, mo, back)
            continue
        if "err" in mo:
            run.disagree({"decode": case}, mo, back)
            continue
        a, b = norm(mo["val"]) if mo["val"]["t"] != "PyNone" else mo["val"], norm(back) if back and back.get("t") not in ("PyNone",) else back
        if a != b:
            run.disagree({"decode": case}, mo["val"], back)


def xmllite_cases(run, descs):
    """XmlLite (the model's reader) against lxml on the emitted fragments"""
    import lxml.etree as ET
    texts = []
    for v in descs:
        try:
            texts.append(build(v).xml_encode(include_xmlns=True))
        except Exception:  # noqa: BLE001
            pass
    outs = run.driver.batch([{"op": "xml.parse", "text": t} for t in texts])
    for t, mo in zip(texts, outs):
        run.case({"xmllite": t[:200]}, tag="xmllite")
        run.compared += 1
        try:
            lx = xmltree.syntactic(ET.fromstring(t.encode("utf-8")))
        except ET.XMLSyntaxError:
            lx = None
        mt = mo.get("tree")
        if (lx is None) != (mt is None) or (lx is not None and xmltree.strip_ws(lx) != xmltree.strip_ws(mt)):
            # white-space-only text is kept by both readers; strip_ws only drops it next to children
            run.disagree({"xmllite": t[:800]}, mt, lx)


def codec_laws(run, n):
    """TextCodecs laws of CPython used as hypotheses by the theorems"""
    import base64
    rng = run.rng
    bad = []
    fl = list(values.FLOATS) + [struct.unpack("<d", struct.pack("<Q", rng.getrandbits(64)))[0] for _ in range(n)]
    for x in fl:
        s = str(x)
        y = float(s)
        run.evaluations += 1
        if not ((x != x and y != y) or struct.pack("<d", x) == struct.pack("<d", y)) or s != s.strip() or any(c in s for c in "<>&\"'"):
            bad.append(("float", repr(x)))
    for _ in range(n // 4):
        b = bytes(rng.getrandbits(8) for _ in range(rng.randint(0, 40)))
        t = base64.b64encode(b).decode()
        run.evaluations += 1
        if base64.b64decode(t) != b or any(c in t for c in "<>&\"' \n"):
            bad.append(("b64", b.hex()))
    if bad:
        run.violation({"codec_laws": bad[:5]}, {"what": "a standard-library law assumed by the theorems does not hold in this interpreter"})


def explore(run):
    rng = run.rng
    thorough = run.tier == "thorough"
    import core
    # tie (A): UANodeId.xml_encode regenerated from the source (Gen/NodeIdTie.lean: xmlEncode_eq); never a verdict by itself
    run.extra["translator_tie"] = core.translator_tie()
    codec_laws(run, 20000 if thorough else 2000)
    corpus = [
        {"t": "Byte", "v": 255}, {"t": "Double", "v": "nan"}, {"t": "Float", "v": "inf"}, {"t": "Double", "v": "-inf"},
        {"t": "EngineeringUnits", "uri": "http://x?a=1&b=<2>", "unit_id": 5, "display": {"text": "a<b & c", "locale": "en"},
         "description": {"text": "]]>", "locale": "de"}},
        # the same (NamespaceUri, UnitId) under other names / locales, decoded in the same process (round 8: a per-unit decode cache)
        {"t": "EngineeringUnits", "uri": "http://x?a=1&b=<2>", "unit_id": 5, "display": {"text": "other name", "locale": "nb"},
         "description": {"text": "other description", "locale": "en"}},
        {"t": "EngineeringUnits", "uri": "http://www.opcfoundation.org/UA/units/un/cefact", "unit_id": -1, "display": {"text": "widgets", "locale": "en"},
         "description": {"text": "custom unit one", "locale": "en"}},
        {"t": "EngineeringUnits", "uri": "http://www.opcfoundation.org/UA/units/un/cefact", "unit_id": -1, "display": {"text": "gadgets", "locale": "en"},
         "description": {"text": "custom unit two", "locale": "en"}},
        {"t": "Int64", "v": -2**63}, {"t": "UInt64", "v": 2**64 - 1}, {"t": "String", "v": "<&>\"'"}, {"t": "String", "v": None},
        {"t": "DateTime", "v": "9999-12-31T23:59:59.999999", "tz": "utc"}, {"t": "DateTime", "v": "1000-01-01T00:00:00.000000", "tz": "utc"},
        {"t": "ListOf", "typename": "Int32", "items": []},
    ]
    value_cases(run, corpus)
    if run.full():
        return
    tzs = ["UTC"] if not thorough else ["UTC", "Europe/Oslo", "America/New_York", "Asia/Kolkata"]
    for tz in tzs:
        os.environ["TZ"] = tz
        time.tzset()
        n = 25000 if thorough else 1800
        descs = [rand_value(rng, False) for _ in range(n)]
        value_cases(run, descs)
        if run.full():
            return
        value_cases(run, [rand_value(rng, True) for _ in range(n // 6)])
        if run.full():
            return
        xmllite_cases(run, descs[: n // 3])
    run.extra["time_zones"] = tzs


def search_missing(run, disagreements):
    value_cases(run, [rand_value(run.rng, False) for _ in range(6000)])


def replay(run, path):
    body = json.load(open(path))
    cases = body["case"] if isinstance(body["case"], list) else [body["case"]]
    vs = []
    for c in cases:
        c = c.get("decode", c)
        if "value" in c:
            vs.append(c["value"])
    run.findings = {}            # a replay shows the raw verdict
    value_cases(run, vs)
    for kind, case, detail in run.violations:
        print("VIOLATION property=C08 replay=%s" % path)
        print(json.dumps(detail, default=str, ensure_ascii=False)[:2000])
    for d in run.disagreements:
        print("model/implementation disagreement:", json.dumps(d, default=str, ensure_ascii=False)[:2000])
    return 1 if (run.violations or run.disagreements) else 0

"""C03 — all identifiers are expressed in one global namespace table."""
import itertools
import json
import os
import random

import docs as D
import minibase
import parse_run as P
import parsecheck as PC

UA = minibase.UA
MODULE = "OpcuaModel.Props.C03"
EXTRA_AUDIT = [("OpcuaModel.Gen.NodeIdTie", "Opcua.Tie.")]
TRUSTED_BASE = [
    "Lean 4.33.0 kernel; axioms audited (subset of propext, Classical.choice, Quot.sound)",
    "hand model Model/Parse.lean (addUri, extendNs, nsMapOf, withUA, namespaceListOfDict, parseDoc, parseFiles) tied to /repo by this correspondence run; "
    "extend_namespace_map is also regenerated from the source on every run (translator/py2lean.py, procedure mode) and Gen/NodeIdTie.lean proves that the generated "
    "definition, started with {0: 0}, returns exactly (nsMapOf, extendNs) of the hand model (extend_eq, gen_extend_correct); coverage.translator_tie says which case applied",
    "lxml infoset; Python list.index / dict semantics as modelled; driver, harness, abstract-graph oracle",
]
ASSUMPTIONS = [
    "caller-supplied lists start with the OPC UA namespace (the statement's hypothesis); a list naming a subset of the files' model URIs makes "
    "parse_xml_files skip the other files (documented behaviour, see C18), so partial lists are exercised through parse_xml on single files",
]
RULE = ("document sets parsed under: permutations of each document's NamespaceUris with consistently renumbered ids, both file orders, "
        "caller lists (absent / full / reordered / with unused URIs / with 'None' gaps / partial on single files) incl. the dict form of "
        "UAGraph._get_namespace_list; extend_namespace_map on random lists; distinct = distinct (document set, caller list); non-trivial = >= 1 non-base namespace")


def impl_ns_helpers(run):
    """extend_namespace_map and _get_namespace_list against the model"""
    from opcua_tools.nodeset_parser import extend_namespace_map
    from opcua_tools.ua_graph import UAGraph
    rng = run.rng
    pool = ["u%d" % i for i in range(6)] + [UA]
    ops, plan = [], []
    for _ in range(300 if run.tier == "quick" else 5000):
        ex = rng.sample(pool, rng.randint(0, 4))
        if rng.random() < 0.2 and ex:
            ex.append(ex[0])
        us = [rng.choice(pool) for _ in range(rng.randint(0, 5))]
        plan.append(("ext", ex, us)); ops.append({"op": "ns.extend", "existing": ex, "uris": us})
        dct = {rng.randint(0, 6): rng.choice(pool) for _ in range(rng.randint(1, 4))}
        plan.append(("lst", dct, None)); ops.append({"op": "ns.list", "dict": [[k, v] for k, v in dct.items()]})
    outs = run.driver.batch(ops)
    for (kind, a, b), mo in zip(plan, outs):
        run.case({kind: [a if kind == "ext" else {str(k): v for k, v in a.items()}, b]}, tag="helper:" + kind)
        run.compared += 1
        if kind == "ext":
            ex2, mp = list(a), {0: 0}
            extend_namespace_map(ex2, list(b), mp)
            io = {"namespaces": ex2, "map": sorted([k, v] for k, v in mp.items())}
            # property predicates
            ok = ex2[:len(a)] == a and all(ex2[mp[i + 1]] == u for i, u in enumerate(b)) and all(u in ex2 for u in b)
            if not ok:
                run.violation({"extend_namespace_map": [a, b]}, {"what": "local index does not map to the URI's global index, or prefix lost", "impl": io})
                return
            if io != {"namespaces": mo["namespaces"], "map": sorted(mo["map"])}:
                run.disagree({"extend_namespace_map": [a, b]}, mo, io)
        else:
            io = UAGraph._get_namespace_list(dict(a))
            if any(io[k] != v for k, v in a.items()):
                run.violation({"_get_namespace_list": {str(k): v for k, v in a.items()}}, {"what": "dict key i is not at list index i", "impl": io})
                return
            if io != mo["list"]:
                run.disagree({"_get_namespace_list": {str(k): v for k, v in a.items()}}, mo, io)


def graph_entry_points(run):
    """the graph constructors that take a namespace dict {index: URI}: key i ends up at index i of the
    graph's namespace list (gaps filled), whether the dict is dense, gapped or given in another key order"""
    import glob
    from opcua_tools import UAGraph
    rng = run.rng
    A, B = "http://a.example/types", "http://b.example/inst"
    # (a file whose model URI is not in the caller's list is left out by design, so every dict names all three)
    dicts = [{0: UA, 1: A, 2: B}, {0: UA, 2: B, 1: A}, {0: UA, 3: A, 1: B}, {0: UA, 2: A, 5: B}, {2: B, 0: UA, 4: A}, {0: UA, 4: "urn:unused", 2: B, 6: A}]
    for _ in range(4 if run.tier == "quick" else 40):
        ks = rng.sample(range(1, 8), 2)
        d_ = {0: UA, ks[0]: A, ks[1]: B}
        items = list(d_.items()); rng.shuffle(items)
        dicts.append(dict(items))
    with minibase.Scratch() as sc:
        d = sc.write(sc.sub("ge"), {"a.xml": minibase.DOC_A, "b.xml": minibase.DOC_B})
        files = sorted(glob.glob(d + "/*.xml"))
        for dct in dicts:
            case = {"namespace_dict": {str(k): v for k, v in dct.items()}}
            for entry, build in (("from_file_list", lambda: UAGraph.from_file_list(list(files), dict(dct))), ("from_path", lambda: UAGraph.from_path(d, dict(dct)))):
                run.case(dict(case, entry=entry), tag="graph_entry:" + entry)
                try:
                    G = build()
                except Exception as e:  # noqa: BLE001
                    run.violation(dict(case, entry=entry), {"what": "UAGraph.%s raised with a namespace dict" % entry, "impl": type(e).__name__ + ": " + str(e)[:300]})
                    return
                ns = list(G.namespaces)
                bad = [k for k, v in dct.items() if not (k < len(ns) and ns[k] == v)]
                once = [u for u in (UA, A, B) if ns.count(u) != 1]
                # every node is still found under its own URI
                uris = {ns[n] if 0 <= int(n) < len(ns) else "<index %d outside graph.namespaces>" % int(n) for n in G.nodes["ns"].unique()} if "ns" in G.nodes.columns else set()
                if bad or once or not {UA, A, B} <= uris or any(u.startswith("<index") for u in uris):
                    run.violation(dict(case, entry=entry), {"what": "UAGraph.%s(namespace_dict): dict key(s) %r are not at that index of graph.namespaces, or a URI is missing/duplicated (%r)" % (entry, bad, once),
                                                            "impl": ns, "call": "UAGraph.%s(files, namespace_dict)" % entry})
                    return


def explore(run):
    rng = run.rng
    thorough = run.tier == "thorough"
    import core
    # tie (A): extend_namespace_map (and the NodeId kernel) regenerated from the source; never a verdict by itself
    run.extra["translator_tie"] = core.translator_tie()
    impl_ns_helpers(run)
    if run.full():
        return
    graph_entry_points(run)
    if run.full():
        return
    with minibase.Scratch() as sc:
        n = 600 if thorough else 70
        for i in range(n):
            many = rng.random() < 0.1          # documents with ten or more NamespaceUris (two-digit local indices)
            g = D.gen_graph(rng, hostile=rng.random() < 0.4, closed=False, values_ok=False, features={"many_ns": many}, n_nodes=2 if many else None)
            lseed = rng.getrandbits(32)
            files = D.serialise(random.Random(lseed), g, uri_rng=random.Random(0))
            all_uris = [UA] + g["uris"]
            variants = []
            # 1. baseline, no caller list
            variants.append((files, None))
            # 2. permuted NamespaceUris (consistently renumbered)
            for pk in range(1, 4 if not thorough else 7):
                # same layout, another order of every document's NamespaceUris (ids renumbered consistently)
                variants.append((D.serialise(random.Random(lseed), g, uri_rng=random.Random(pk)), None))
            # 3. file order: rename so that sorting reverses
            names = sorted(files)
            variants.append(({("z%02d_" % (len(names) - j)) + nm: files[nm] for j, nm in enumerate(names)}, None))
            # 4. caller lists: full, reordered, with unused URIs, with gaps
            rest = list(g["uris"]); rng.shuffle(rest)
            variants.append((files, [UA] + rest))
            variants.append((files, [UA] + rest + ["http://unused.example/zz"]))
            variants.append((files, [UA, "None"] + rest))
            variants.append((files, [UA]) if False else (files, [UA] + rest[::-1]))
            base = None
            for vi, (fs, caller) in enumerate(variants):
                run.case({"set": i, "variant": vi, "caller": caller}, nontrivial=bool(g["uris"]), tag="variant:%d" % vi)
                io = PC.check_set(run, sc, g, fs, caller, ["namespaces", "nodes", "refs"], "s%d_%d" % (i, vi))
                if run.full():
                    return
                if io is None:
                    continue
                content = (sorted(json.dumps(r, sort_keys=True) for r in [dict(x, value=None) for x in PC.resolve_rows(io)]), PC.resolve_refs(io))
                if base is None:
                    base = content
                elif content != base:
                    run.violation({"files": fs, "caller": caller},
                                  {"what": "what the identifiers denote depends on NamespaceUris order / local indices / file order / caller list",
                                   "variant": vi})
                    return
            # 5. partial caller list on a single file (parse_xml does not filter files)
            for nm in list(files)[:1]:
                d, paths = P.write_set(sc, "p%d" % i, {nm: files[nm]})
                # the list argument left out altogether, before and after another document was parsed the same way: the returned list
                # holds the OPC UA namespace and this document's URIs — not those of whatever was parsed earlier in the process
                try:
                    from opcua_tools.nodeset_parser import parse_xml as _parse_xml
                    other = ('<?xml version="1.0" encoding="utf-8"?>\n<UANodeSet xmlns="http://opcfoundation.org/UA/2011/03/UANodeSet.xsd"><NamespaceUris><Uri>urn:c03:other:%d</Uri></NamespaceUris>'
                             '<Aliases/><UAObject NodeId="ns=1;i=1" BrowseName="1:o"><DisplayName>o</DisplayName></UAObject></UANodeSet>' % i)
                    d2, paths2 = P.write_set(sc, "q%d" % i, {"other.xml": other})
                    first = list(_parse_xml(paths[0])["namespaces"])
                    mid = list(_parse_xml(paths2[0])["namespaces"])
                    again = list(_parse_xml(paths[0])["namespaces"])
                    run.case({"set": i, "single": nm, "caller": "argument omitted, three calls"}, tag="single:no-list-history")
                    if first != again or mid != [UA, "urn:c03:other:%d" % i]:
                        run.violation({"files": {nm: files[nm], "other.xml": other}, "caller": None},
                                      {"what": "parse_xml(file) without a namespace list: the returned list depends on what was parsed before", "first": first, "other_document": mid, "again": again,
                                       "call": "opcua_tools.parse_xml(file); parse_xml(other); parse_xml(file)"})
                        return
                except Exception:  # noqa: BLE001  (a document the parser rejects is C01's business)
                    pass
                for caller in ([UA], [UA, "http://other.example/x"]):
                    io = P.impl_parse_one(paths[0], list(caller))
                    run.case({"set": i, "single": nm, "caller": caller}, tag="single")
                    if "err" in io:
                        continue
                    ns = io["namespaces"]
                    if ns[:len(caller)] != caller or ns[0] != UA or len(set(ns)) != len(ns):
                        run.violation({"files": {nm: files[nm]}, "caller": caller},
                                      {"what": "caller list not kept as prefix / URI repeated", "impl": ns, "call": "opcua_tools.parse_xml(file, namespaces)"})
                        return


def search_missing(run, disagreements):
    rng = run.rng
    with minibase.Scratch() as sc:
        for i in range(400):
            g = D.gen_graph(rng, hostile=False, closed=False, values_ok=False)
            fs = D.serialise(rng, g)
            PC.check_set(run, sc, g, fs, None, ["namespaces", "nodes", "refs"], "m%d" % i)
            if run.full():
                return


def replay(run, path):
    body = json.load(open(path))
    case = body["case"]
    if "files" in case:
        with minibase.Scratch() as sc:
            d, paths = P.write_set(sc, "r", case["files"])
            io = P.impl_parse_files(paths, case.get("caller"))
            print("implementation namespaces:", io.get("namespaces", io))
    print("recorded detail:", json.dumps(body["detail"], default=str, ensure_ascii=False)[:3000])
    print("VIOLATION property=C03 replay=%s" % path)
    return 1

"""C15 — queries and writes leave the graph unchanged; results do not depend on history."""
import copy
import hashlib
import io
import json
import os

import minibase
import writecheck as W

UA = minibase.UA
MODULE = "OpcuaModel.Props.C15"
TRUSTED_BASE = [
    "Lean 4.33.0 kernel; axioms audited (subset of propext, Classical.choice, Quot.sound)",
    "hand model Model/Effects.lean: the graph as a state machine whose operations return the state they leave behind; the model's operations are "
    "functions of the graph value, so that they leave it unchanged is a fact about the model — it is the run below that ties it to the object: "
    "after EVERY step of every history the real graph's full fingerprint (values, dtypes, index, column order, namespaces, models) and every "
    "caller-owned argument are compared with what they were, and every output with the model's output (write, look-ups, references of a type, closure) "
    "and with the same operation on a freshly built graph (all operations)",
    "pandas copy semantics are not modelled; they are observed",
]
ASSUMPTIONS = [
    "operations: write_nodeset (StringIO and file target, outgoing switch, new model version, fixed time stamps), normalised tables, browse-name look-ups, "
    "all_references_of_type, navigation functions on caller-owned tables, neighbours, node paths, circular references, class / instance / enum queries",
    "transform_ints_to_enums is a mutation by design and is not part of the histories (C17)",
    "time stamps are fixed by the caller, as the property says",
]
RULE = ("random closed multi-namespace graphs; random histories of 20 (quick) / 120 (thorough) operations with all argument choices, interleaved in any order; "
        "distinct = distinct (graph, history prefix); non-trivial = the history contains at least one write with a new model version or without outgoing references")


# -------------------------------------------------------------------------------------------------
# fingerprints
# -------------------------------------------------------------------------------------------------
def cell(x):
    return type(x).__name__ + ":" + repr(x)


def table_fp(df):
    h = hashlib.sha256()
    for row in df.itertuples(index=True, name=None):
        h.update(("|".join(cell(x) for x in row) + "\n").encode("utf-8", "replace"))
    return {"columns": [str(c) for c in df.columns], "dtypes": [str(t) for t in df.dtypes], "rows": len(df), "index": type(df.index).__name__,
            "values": h.hexdigest()}


def graph_fp(G):
    return {"nodes": table_fp(G.nodes), "references": table_fp(G.references), "namespaces": list(G.namespaces),
            "models": json.dumps(G.models, sort_keys=True, default=str)}


def out_canon(x):
    import pandas as pd
    if isinstance(x, pd.DataFrame):
        return {"df": table_fp(x)}
    if isinstance(x, pd.Series):
        return {"series": [cell(v) for v in x.tolist()], "dtype": str(x.dtype)}
    if isinstance(x, (list, tuple)):
        return [out_canon(v) for v in x]
    if isinstance(x, dict):
        return {str(k): out_canon(v) for k, v in x.items()}
    if isinstance(x, (str, int, float, bool)) or x is None:
        return x
    return cell(x)


def diff_fp(a, b):
    out = []
    for k in a:
        if a[k] != b[k]:
            if isinstance(a[k], dict):
                out.append("%s: %s" % (k, ", ".join("%s %r -> %r" % (kk, a[k][kk], b[k][kk]) for kk in a[k] if a[k][kk] != b[k][kk])[:600]))
            else:
                out.append("%s: %r -> %r" % (k, a[k], b[k]))
    return "; ".join(out)


# -------------------------------------------------------------------------------------------------
# operations
# -------------------------------------------------------------------------------------------------
def gen_op(rng, info):
    uris = info["uris"]
    k = rng.choice(["write", "write", "write", "norm_nodes", "norm_refs", "lookup", "lookup", "refs_of_type", "closure", "circular", "nav", "neighbours",
                    "paths", "circular_ns", "classes", "instances", "objects_of_type", "browsenames", "enum"])
    if k == "write":
        return {"k": "write", "uri": rng.choice(uris[1:] + ["urn:not-there"] if rng.random() < 0.05 else uris[1:]), "outgoing": rng.random() < 0.5,
                "new_version": rng.choice([None, None, "9.9", "2.0-beta"]), "target": rng.choice(["stringio", "stringio", "file"])}
    if k in ("norm_nodes", "norm_refs", "circular_ns"):
        return {"k": k, "uri": rng.choice(uris + [None]) if k != "circular_ns" else rng.choice(uris[1:])}
    if k == "lookup":
        name = rng.choice(info["names"] + ["NoSuchName", ""])
        if info.get("shared") and rng.random() < 0.5:
            name = rng.choice(info["shared"])
        return {"k": "lookup", "name": name, "cls": rng.choice([None, "ReferenceType", "ObjectType", "Object", "DataType", "VariableType"])}
    if k in ("refs_of_type", "closure", "circular"):
        return {"k": k, "name": rng.choice(info["reftypes"] + ["NoSuchType"] if rng.random() < 0.1 else info["reftypes"]), "dup": rng.random() < 0.5}
    if k == "nav":
        return {"k": "nav", "fn": rng.choice(["hierarchical", "typing", "subtypes", "relatives_d", "relatives_a", "has_subtype"]), "name": rng.choice(info["reftypes"]),
                "keep_paths": rng.random() < 0.5}
    if k == "neighbours":
        return {"k": "neighbours", "id": rng.choice(info["ids"]), "relation": rng.choice(["outgoing", "incoming"])}
    if k == "paths":
        return {"k": "paths", "root": "Objects", "types": rng.sample(info["reftypes"], min(2, len(info["reftypes"])))}
    if k == "objects_of_type":
        return {"k": k, "name": rng.choice(info["objtypes"] or ["FolderType"])}
    if k == "browsenames":
        return {"k": k, "cls": rng.choice(["UAObject", "UAVariable", "UAReferenceType", "UADataType"]), "ns": rng.choice([None, 0, 1])}
    if k == "enum":
        return {"k": k, "name": rng.choice(info["enums"] or ["NoEnum"])}
    return {"k": k}


def acyclic(pairs):
    """no directed cycle among the edges (walk enumeration terminates only then)"""
    out = {}
    for a, b in pairs:
        out.setdefault(a, []).append(b)
    state = {}
    for root in list(out):
        if root in state:
            continue
        stack = [(root, iter(out.get(root, [])))]
        state[root] = 1
        while stack:
            node, it = stack[-1]
            nxt = next(it, None)
            if nxt is None:
                state[node] = 2
                stack.pop()
            elif state.get(nxt) == 1:
                return False
            elif nxt not in state:
                state[nxt] = 1
                stack.append((nxt, iter(out.get(nxt, []))))
    return True


def walk_count(pairs, starts):
    """number of walks that start in `starts` (acyclic edges): the number of rows find_relatives builds"""
    import sys
    sys.setrecursionlimit(10000)
    out = {}
    for a, b in pairs:
        out.setdefault(a, []).append(b)
    memo = {}

    def walks(n):
        if n not in memo:
            memo[n] = 1 + sum(walks(m) for m in out.get(n, []))
        return memo[n]
    return sum(walks(s) for s in starts)


def apply(G, op, sc):
    """perform op on G; returns (canonical output, problems with caller-owned arguments)"""
    import pandas as pd
    from opcua_tools import navigation as nav
    problems = []
    k = op["k"]
    try:
        if k == "write":
            if op["target"] == "file":
                path = os.path.join(sc.sub("out"), "w.xml")
                G.write_nodeset(path, op["uri"], include_outgoing_instance_level_references=op["outgoing"], last_modified=W.FIXED,
                                publication_date=W.FIXED, new_model_version=op["new_version"])
                text = open(path, encoding="utf-8").read()
                os.remove(path)
            else:
                buf = io.StringIO()
                G.write_nodeset(buf, op["uri"], include_outgoing_instance_level_references=op["outgoing"], last_modified=W.FIXED,
                                publication_date=W.FIXED, new_model_version=op["new_version"])
                text = buf.getvalue()
            return {"text": text}, problems
        if k == "norm_nodes":
            return out_canon(G.get_normalized_nodes_df(op["uri"])), problems
        if k == "norm_refs":
            return out_canon(G.get_normalized_references_df(op["uri"])), problems
        if k == "lookup":
            fn = {None: None, "ReferenceType": G.reference_type_by_browsename, "ObjectType": G.object_type_by_browsename, "Object": G.object_by_browsename,
                  "DataType": G.data_type_by_browsename, "VariableType": G.variable_type_by_browsename}[op["cls"]]
            if fn is None:
                return {"nodeid": cell(G.nodeid_by_browsename(op["name"]))}, problems
            return {"id": fn(op["name"]), "nodeid": cell(G.nodeid_by_browsename(op["name"], op["cls"]))}, problems
        if k == "refs_of_type":
            r = G.all_references_of_type(op["name"])
            return {"triples": sorted([int(a), int(b), int(c)] for a, b, c in zip(r["Src"], r["Trg"], r["ReferenceType"]))}, problems
        if k in ("closure", "circular"):
            r = G.all_references_of_type(op["name"])
            if (r["Src"] == r["Trg"]).any() or len(r) == 0:
                return {"skipped": "self-loop or no edge"}, problems
            arg = r[["Src", "Trg"]].copy()
            if op.get("dup"):
                # the caller's table names an edge more than once (parallel references of two types collapse to that)
                arg = pd.concat([arg, arg.head(2)], ignore_index=True)
            before = table_fp(arg)
            tc = nav.fast_transitive_closure(arg)
            if table_fp(arg) != before:
                problems.append("fast_transitive_closure modified the table passed in")
            pairs = sorted({(int(a), int(b)) for a, b in zip(tc["Src"], tc["Trg"])})
            if k == "closure":
                return {"pairs": [list(p) for p in pairs]}, problems
            s = set(pairs)
            return {"nodes": sorted({a for (a, b) in pairs if (b, a) in s})}, problems
        if k == "nav":
            args = {"inst": G.references.copy(), "types": G.references.copy(), "nodes": G.nodes.copy()}
            before = {n: table_fp(v) for n, v in args.items()}
            fn = op["fn"]
            if fn == "hierarchical":
                out = nav.hierarchical_references(args["inst"], args["types"], args["nodes"])
            elif fn == "typing":
                out = nav.typing_transitive_reflexive(args["types"], args["nodes"])
            elif fn == "subtypes":
                t = G.reference_type_by_browsename(op["name"])
                out = nav.subtypes_of_nodes(pd.DataFrame({"type": [t]}), args["types"], args["nodes"])
            elif fn == "has_subtype":
                out = nav.has_subtype_references(args["inst"], args["nodes"])
            else:
                edges = G.all_references_of_type(op["name"])
                start = args["nodes"].loc[args["nodes"]["id"].isin(edges["Src"].head(3)), ["id"]].copy()
                args["edges"], args["start"] = edges, start
                before["edges"], before["start"] = table_fp(edges), table_fp(start)
                pairs = [(int(a), int(b)) for a, b in zip(edges["Src"], edges["Trg"])]
                if fn[-1] == "a":
                    pairs = [(b, a) for a, b in pairs]
                if not acyclic(pairs) or walk_count(pairs, [int(x) for x in start["id"]]) > 5000:
                    return {"skipped": "cyclic edges (the walk enumeration has no cut-off) or too many walks"}, problems
                out = nav.find_relatives(nodes=start, nodes_key_col="id", edges=edges, relative_type=fn[-1], keep_paths=op["keep_paths"])
            for n, v in args.items():
                if table_fp(v) != before[n]:
                    problems.append("navigation.%s modified the caller's %s table: %s" % (fn, n, diff_fp(before[n], table_fp(v))))
            return out_canon(out), problems
        if k == "neighbours":
            return out_canon(G.get_neighboring_nodes_by_id(op["id"], op["relation"])), problems
        if k == "paths":
            types = list(op["types"])
            tids = [G.reference_type_by_browsename(t) for t in types]
            sel = G.references[G.references["ReferenceType"].isin(tids)]
            pairs = [(int(a), int(b)) for a, b in zip(sel["Src"], sel["Trg"])]
            if not acyclic(pairs) or walk_count(pairs, [G.object_by_browsename(op["root"])]) > 5000:
                return {"skipped": "cyclic edges or too many walks"}, problems
            out = G.create_node_paths_by_reference_types(op["root"], types)
            if types != op["types"]:
                problems.append("create_node_paths_by_reference_types modified the list passed in")
            return out_canon(out), problems
        if k == "circular_ns":
            return out_canon(G.find_circular_reference_nodes(op["uri"])), problems
        if k == "classes":
            return out_canon(G.get_nodes_classes()), problems
        if k == "instances":
            return out_canon(G.get_instances_with_type_info()), problems
        if k == "objects_of_type":
            return out_canon(G.get_objects_of_type(op["name"])), problems
        if k == "browsenames":
            return out_canon(G.get_browsenames_for_nodeclass(op["cls"], op["ns"])), problems
        if k == "enum":
            return out_canon(G.get_enum_dict(op["name"])), problems
        raise ValueError(k)
    except AssertionError as e:
        return {"err": "AssertionError", "msg": str(e)[:80]}, problems
    except Exception as e:  # noqa: BLE001
        return {"err": type(e).__name__}, problems


MODEL_OPS = {"write", "lookup", "refs_of_type", "closure", "circular"}


def model_op(op):
    if op["k"] == "write":
        return {"k": "write", "uri": op["uri"], "outgoing": op["outgoing"], "new_version": op["new_version"],
                "last_modified": W.FIXED.isoformat(), "publication_date": W.FIXED.isoformat()}
    if op["k"] == "lookup":
        return {"k": "lookup", "name": op["name"], "cls": op["cls"]}
    return {"k": op["k"], "name": op["name"]}


def same_as_model(op, io, mo, doc):
    """relation between a real output and the model's output of the same operation"""
    if "err" in io:
        return "err" in mo
    if "skipped" in io:
        return True
    if "err" in mo:
        return False
    if op["k"] == "write":
        a, b = W.impl_doc_canon(io["text"]), W.model_doc_canon(doc)
        return W.same_docs(a, b)
    if op["k"] == "lookup":
        return op["cls"] is None or io["id"] == mo["ok"]
    if op["k"] == "refs_of_type":
        return io["triples"] == sorted(mo["ok"])
    if op["k"] == "closure":
        return io["pairs"] == sorted(mo["ok"])
    if op["k"] == "circular":
        return io["nodes"] == sorted(mo["ok"])
    return True


def graph_info(G):
    n = G.nodes
    rt = n.loc[n["NodeClass"] == "UAReferenceType", "BrowseName"].tolist()
    present = set(G.references["ReferenceType"].tolist())
    rt_used = [b for b, i in zip(n.loc[n["NodeClass"] == "UAReferenceType", "BrowseName"], n.loc[n["NodeClass"] == "UAReferenceType", "id"]) if i in present]
    enums = []
    by = {}
    for b_, c_ in zip(n["BrowseName"], n["NodeClass"]):
        by.setdefault(b_, set()).add(c_)
    return {"shared": sorted(b_ for b_, cs in by.items() if len(cs) > 1), "uris": list(G.namespaces), "names": sorted(set(n["BrowseName"].tolist()))[:60], "reftypes": sorted(set(rt_used)) or sorted(set(rt)),
            "ids": [int(x) for x in n["id"].tolist()[:80]], "objtypes": sorted(set(n.loc[n["NodeClass"] == "UAObjectType", "BrowseName"].tolist())),
            "enums": enums}


def one_history(run, sc, i, length):
    rng = run.rng
    # half of the graphs have a namespace URI with XML-special characters (it shows up in Model / RequiredModel attributes)
    g, files = W.gen_closed(rng, hostile=rng.random() < 0.3, features={"hostile_uri": rng.random() < 0.5})
    # browse names shared by nodes of different classes (a look-up by name is then decided by the class asked for)
    keys_ = list(g["nodes"])
    for _ in range(3):
        if len(keys_) >= 2:
            a_, b_ = rng.sample(keys_, 2)
            if g["nodes"][a_]["cls"] != g["nodes"][b_]["cls"]:
                g["nodes"][b_]["browse"] = g["nodes"][a_]["browse"]
    import docs as D
    files = D.serialise(rng, g)
    if rng.random() < 0.3:
        # a document without a Models element: its namespace has no model in the graph (a write makes one up for the header only)
        import re
        nm = rng.choice(sorted(files))
        files[nm] = re.sub(r"<((?:\w+:)?)Models>.*?</(?:\w+:)?Models>", "", files[nm], count=1, flags=re.S)
    try:
        G, _ = W.build_graph(sc, "g%d" % i, files)
    except Exception as e:  # noqa: BLE001
        run.violation({"files": files}, {"what": "UAGraph.from_path raised on a closed document set: %s: %s" % (type(e).__name__, str(e)[:200])})
        return False
    G0 = snapshot_graph(run, G, {"files": files})
    if G0 is None:
        return False
    gj = W.graph_json(G0)
    info = graph_info(G0)
    fp0 = graph_fp(G)
    ops = [gen_op(rng, info) for _ in range(length)]
    fresh_cache = {}
    real_out = []
    case = {"files": files, "history": []}
    interesting = False
    for step, op in enumerate(ops):
        case["history"].append(op)
        run.case({"graph": i, "step": step, "op": op}, nontrivial=step > 0, tag="op:" + op["k"])
        if op["k"] == "write" and (op["new_version"] is not None or not op["outgoing"]):
            interesting = True
        out, problems = apply(G, op, sc)
        real_out.append(out)
        fp = graph_fp(G)
        if fp != fp0:
            problems.append("graph changed by step %d (%s): %s" % (step, op["k"], diff_fp(fp0, fp)))
        key = json.dumps(op, sort_keys=True)
        if key not in fresh_cache:
            fresh_cache[key] = apply(copy.deepcopy(G0), op, sc)[0]
        if out != fresh_cache[key]:
            what = "text differs" if "text" in out and "text" in fresh_cache[key] else "%r vs fresh %r" % (str(out)[:200], str(fresh_cache[key])[:200])
            problems.append("step %d (%s) does not return what it returns on a freshly built graph: %s" % (step, json.dumps(op), what))
        if problems:
            run.case({"graph": i, "history": case["history"]}, nontrivial=interesting, tag="history")
            run.violation(case, {"what": "; ".join(problems)[:2500]})
            return False
    run.case({"graph": i, "history": case["history"]}, nontrivial=interesting, tag="history")
    # ---- the model on the same history (its modelled operations)
    mops = [(j, op) for j, op in enumerate(ops) if op["k"] in MODEL_OPS]
    mo = run.driver.ask({"op": "hist.run", "graph": gj, "ops": [model_op(op) for _, op in mops]})
    run.compared += len(mops)
    state_model = {"namespaces": mo["namespaces"], "model_versions": mo["model_versions"], "counts": mo["counts"]}
    state_impl = {"namespaces": list(G.namespaces), "model_versions": [m.get("version") for m in G.models], "counts": [len(G.nodes), len(G.references)]}
    if state_model != state_impl:
        run.disagree(case, state_model, state_impl)
    for (j, op), o, d in zip(mops, mo["outputs"], mo["docs"]):
        if not same_as_model(op, real_out[j], o, d):
            run.disagree({"files": files, "history": case["history"][: j + 1]}, {"step": j, "model": str(o)[:400]}, {"step": j, "impl": str(real_out[j])[:400]})
            break
    return True


def snapshot_graph(run, G, case):
    """a deep copy of the graph (the reference for 'what a freshly built graph returns'); a graph whose state cannot be
    copied — a one-shot iterator in place of a list, an open handle — cannot be 'left exactly as it was' by reading it"""
    try:
        G0 = copy.deepcopy(G)
        if [dict(m) for m in G0.models] != [dict(m) for m in G.models] or list(G0.namespaces) != list(G.namespaces):
            raise ValueError("models / namespaces of the graph change when they are read")
        return G0
    except Exception as e:  # noqa: BLE001
        run.violation(case, {"what": "the graph's state cannot be read without changing it / cannot be copied: %s: %s" % (type(e).__name__, str(e)[:200]),
                             "call": "UAGraph(...) then copy.deepcopy(graph), list(graph.models)"})
        return None


def modelless_witness(run, sc):
    """a namespace whose document has no Models element, written plainly, then with a new model version, then plainly
    again (and the other namespace after it): every write returns what it returns on a fresh graph"""
    import re
    files = {"a.xml": re.sub(r"<Models>.*?</Models>", "", minibase.DOC_A, count=1, flags=re.S),
             "b.xml": re.sub(r"<uax:Models>.*?</uax:Models>", "", minibase.DOC_B, count=1, flags=re.S)}
    try:
        G, _ = W.build_graph(sc, "mlw", files)
    except Exception as e:  # noqa: BLE001
        run.violation({"files": files}, {"what": "UAGraph.from_path raised on a closed document set: %s: %s" % (type(e).__name__, str(e)[:200])})
        return False
    G0 = snapshot_graph(run, G, {"files": files})
    if G0 is None:
        return False
    fp0 = graph_fp(G)
    A, B = "http://a.example/types", "http://b.example/inst"
    ops = [{"k": "write", "uri": A, "outgoing": True, "new_version": None, "target": "stringio"},
           {"k": "write", "uri": A, "outgoing": True, "new_version": "2.5.0", "target": "stringio"},
           {"k": "write", "uri": A, "outgoing": True, "new_version": None, "target": "stringio"},
           {"k": "write", "uri": B, "outgoing": False, "new_version": None, "target": "file"},
           {"k": "write", "uri": A, "outgoing": True, "new_version": "2.5.0", "target": "file"}]
    fresh = {}
    for step, op in enumerate(ops):
        key = json.dumps(op, sort_keys=True)
        if key not in fresh:
            fresh[key] = apply(copy.deepcopy(G0), op, sc)[0]
    case = {"files": files, "history": []}
    for step, op in enumerate(ops):
        case["history"].append(op)
        run.case({"modelless": step, "op": op}, nontrivial=step > 0, tag="op:write:modelless")
        out, problems = apply(G, op, sc)
        if graph_fp(G) != fp0:
            problems.append("graph changed by step %d: %s" % (step, diff_fp(fp0, graph_fp(G))))
        if out != fresh[json.dumps(op, sort_keys=True)]:
            problems.append("step %d (%s) does not return what it returns on a freshly built graph" % (step, json.dumps(op)))
        if problems:
            run.violation(case, {"what": "; ".join(problems)[:2000]})
            return False
    return True


def explore(run):
    thorough = run.tier == "thorough"
    with minibase.Scratch() as sc:
        if not modelless_witness(run, sc):
            return
        for i in range(60 if thorough else 12):
            if not one_history(run, sc, i, 120 if thorough else 25):
                return


def search_missing(run, disagreements):
    with minibase.Scratch() as sc:
        for i in range(25):
            if not one_history(run, sc, 1000 + i, 40):
                return


def replay(run, path):
    body = json.load(open(path))
    case = body["case"]
    print("recorded detail:", json.dumps(body["detail"], default=str, ensure_ascii=False)[:3000])
    if isinstance(case, dict) and "files" in case and "history" in case:
        with minibase.Scratch() as sc:
            G, _ = W.build_graph(sc, "r", case["files"])
            G0 = copy.deepcopy(G)
            fp0 = graph_fp(G)
            for step, op in enumerate(case["history"]):
                out, problems = apply(G, op, sc)
                if graph_fp(G) != fp0:
                    problems.append("graph changed: " + diff_fp(fp0, graph_fp(G)))
                if out != apply(copy.deepcopy(G0), op, sc)[0]:
                    problems.append("output differs from the fresh graph's")
                if problems:
                    print("step %d %s: %s" % (step, json.dumps(op), "; ".join(problems)[:1500]))
    print("VIOLATION property=C15 replay=%s" % path)
    return 1

"""C17 — enumeration values are attached without altering the data."""
import json
import os

import gen
import minibase
import parse_run as P
import values
import writecheck as W
from props import c08

UA = minibase.UA
MODULE = "OpcuaModel.Props.C17"
TRUSTED_BASE = [
    "Lean 4.33.0 kernel; axioms audited (subset of propext, Classical.choice, Quot.sound)",
    "hand model Model/Enum.lean (enumTypeIds, enumDef, enumDict, enumInt, toEnumValue, transformNode, transformEnums) tied to /repo by this correspondence run: the Value column after construction is compared with the model applied to the parsed tables",
    "pandas joins / apply / .loc write-back and xmltodict (EnumValueType bodies) as modelled; driver, harness, document builder",
]
ASSUMPTIONS = [
    "definitions are EnumStrings (ListOfLocalizedText) or EnumValues (ListOfExtensionObject of EnumValueType)",
    "recorded finding D-C17a: a list-valued enum variable is replaced by one scalar enumeration built from its first element; an integer without a defined string, "
    "or a null Int32, makes construction raise KeyError (outside the statement: no string is defined)",
]
RULE = ("graphs with 0-3 enumeration types (EnumStrings, EnumValues, or no definition; further properties; subtypes of enumeration types; a node defined twice ahead of them), enum-typed variables with Int32 / list / no value, other variables "
        "of every value type; the transformation applied once (construction) and again; distinct = distinct document; non-trivial = >= 1 enum-typed variable with a value")

T = "http://opcfoundation.org/UA/2008/02/Types.xsd"


def build_doc(rng):
    """returns (xml text, expectations)"""
    n_enum = rng.choice([0, 1, 1, 2, 2, 3])
    out = ['<?xml version="1.0" encoding="utf-8"?>', '<UANodeSet xmlns="http://opcfoundation.org/UA/2011/03/UANodeSet.xsd">',
           '<NamespaceUris><Uri>urn:enum</Uri></NamespaceUris><Models><Model ModelUri="urn:enum" Version="1" PublicationDate="2020-01-01T00:00:00Z"/></Models><Aliases/>']
    if rng.random() < 0.35:
        # a node defined twice ahead of everything else (overlapping exports): from here on row labels and ids differ
        twice = '<UAObject NodeId="ns=1;i=900" BrowseName="1:Twice"><DisplayName>Twice</DisplayName><References><Reference ReferenceType="i=40">i=58</Reference></References></UAObject>'
        out += [twice, twice.replace("<DisplayName>Twice", "<DisplayName>Twice (again)")]
    enums = []
    nid = 1000
    for e in range(n_enum):
        kind = rng.choice(["strings", "values", "none"])
        name = "Enum%d%s" % (e, rng.choice(["", "é", " x"]))
        if enums and rng.random() < 0.3:
            name = enums[0]["name"]           # two enumeration types may carry the same browse name (they are different types)
        k = rng.randint(1, 4)
        if kind == "values":
            keys = sorted(rng.sample(range(0, 12), k))
        else:
            keys = list(range(k))
        texts = [rng.choice("abcXYZ") + gen.hostile_text(rng, maxparts=2, allow_ws_edges=False, allow_empty=True) for _ in keys]
        hole = None
        if kind == "strings" and k >= 3 and rng.random() < 0.4:
            hole = rng.randrange(0, k - 1)       # a reserved slot: an EnumStrings entry without text; the later entries keep their numbers
            texts[hole] = ""
        dt_id, prop_id = nid, nid + 1
        nid += 2
        shared = None
        defined_so_far = [e_ for e_ in enums if e_["kind"] != "none" and e_.get("prop") is not None]
        if defined_so_far and rng.random() < 0.3:
            # two enumeration types may share one definition node (both have a HasProperty reference to the same EnumStrings / EnumValues variable)
            shared = rng.choice(defined_so_far)
            kind, prop_id = shared["kind"], shared["prop"]
        refs = '<Reference ReferenceType="i=45" IsForward="false">i=29</Reference>'
        if kind != "none":
            refs += '<Reference ReferenceType="i=46">ns=1;i=%d</Reference>' % prop_id
        extra_prop = None
        if rng.random() < 0.4:
            # a further property of the data type that is not its definition (it holds no value)
            extra_prop = nid
            nid += 1
            more = '<Reference ReferenceType="i=46">ns=1;i=%d</Reference>' % extra_prop
            refs = refs + more if rng.random() < 0.6 else more + refs
        from xml.sax.saxutils import escape, quoteattr
        # the enumeration's name is its BrowseName; the DisplayName is a different text in a third of the cases
        shown = name if rng.random() < 0.65 else "shown as " + name
        out.append('<UADataType NodeId="ns=1;i=%d" BrowseName=%s><DisplayName>%s</DisplayName><References>%s</References></UADataType>'
                   % (dt_id, quoteattr("1:" + name), escape(shown), refs))
        if extra_prop is not None:
            # ... or a value that is no definition at all (finding D-C17c, repaired: it used to be read as one)
            note = rng.choice(["", "", '<Value><String xmlns="%s">hello</String></Value>' % T, '<Value><ListOfInt32 xmlns="%s"><Int32>7</Int32></ListOfInt32></Value>' % T])
            out.append('<UAVariable NodeId="ns=1;i=%d" BrowseName="1:Note%d" DataType="i=12"><DisplayName>Note</DisplayName><References><Reference ReferenceType="i=40">i=68</Reference></References>%s</UAVariable>' % (extra_prop, extra_prop, note))
        if shared is not None:
            enums.append({"dt": dt_id, "kind": kind, "name": name, "dict": dict(shared["dict"]), "prop": prop_id})
            continue
        if kind == "strings":
            items = "".join('<LocalizedText><Locale>en</Locale><Text>%s</Text></LocalizedText>' % escape(t) for t in texts)
            out.append('<UAVariable NodeId="ns=1;i=%d" BrowseName="EnumStrings" DataType="i=21" ValueRank="1"><DisplayName>EnumStrings</DisplayName>'
                       '<References><Reference ReferenceType="i=40">i=68</Reference><Reference ReferenceType="i=46" IsForward="false">ns=1;i=%d</Reference></References>'
                       '<Value><ListOfLocalizedText xmlns="%s">%s</ListOfLocalizedText></Value></UAVariable>' % (prop_id, dt_id, T, items))
        elif kind == "values":
            items = "".join('<ExtensionObject><TypeId><Identifier>i=7616</Identifier></TypeId><Body><EnumValueType><Value>%d</Value><DisplayName><Locale>en</Locale><Text>%s</Text></DisplayName><Description/></EnumValueType></Body></ExtensionObject>'
                            % (kk, escape(t)) for kk, t in zip(keys, texts))
            out.append('<UAVariable NodeId="ns=1;i=%d" BrowseName="EnumValues" DataType="i=23" ValueRank="1"><DisplayName>EnumValues</DisplayName>'
                       '<References><Reference ReferenceType="i=40">i=68</Reference><Reference ReferenceType="i=46" IsForward="false">ns=1;i=%d</Reference></References>'
                       '<Value><ListOfExtensionObject xmlns="%s">%s</ListOfExtensionObject></Value></UAVariable>' % (prop_id, dt_id, T, items))
        if kind == "values":
            texts = [t.strip() for t in texts]          # xmltodict strips the text of EnumValueType bodies
        enums.append({"dt": dt_id, "kind": kind, "name": name, "dict": {k_: t_ for k_, t_ in zip(keys, texts) if k_ != hole},
                      "prop": prop_id if kind != "none" else None})
    expect = {}
    for v in range(rng.randint(1, 7)):
        vid = nid
        nid += 1
        r = rng.random()
        if enums and r < 0.6:
            en = rng.choice(enums)
            shape = rng.choice(["scalar", "scalar", "none", "list"])
            keys = list(en["dict"]) or [0, 1]
            if shape == "scalar":
                i = rng.choice(keys)
                val = '<Value><Int32 xmlns="%s">%d</Int32></Value>' % (T, i)
                expect[vid] = {"enum": en, "int": i}
            elif shape == "list":
                ii = [rng.choice(keys) for _ in range(rng.randint(1, 3))]
                val = '<Value><ListOfInt32 xmlns="%s">%s</ListOfInt32></Value>' % (T, "".join("<Int32>%d</Int32>" % i for i in ii))
                expect[vid] = {"enum": en, "list": ii}
            else:
                val = ""
                expect[vid] = {"enum": en, "novalue": True}
            dtxt = "ns=1;i=%d" % en["dt"]
        else:
            d = values.rand_scalar(rng, rng.choice(["Int32", "Int32", "String", "Double", "Boolean", "UInt32"]), allow_null=False)
            import docs as D
            val = "<Value>%s</Value>" % D.value_xml(d, "")
            dtxt = "i=%d" % D.VALUE_DT[d["t"]]
            expect[vid] = {"plain": d}
        out.append('<UAVariable NodeId="ns=1;i=%d" BrowseName="1:v%d" DataType="%s"><DisplayName>v%d</DisplayName><References><Reference ReferenceType="i=40">i=63</Reference></References>%s</UAVariable>'
                   % (vid, vid, dtxt, vid, val))
    # data types that are NOT direct subtypes of Enumeration — a subtype of an enumeration type, and Enumeration itself —
    # are not enumerations in the sense of the statement: an Int32 of such a variable stays the Int32 it is
    for en in enums[:2]:
        if rng.random() < 0.5:
            sub_id, vid = nid, nid + 1
            nid += 2
            out.append('<UADataType NodeId="ns=1;i=%d" BrowseName="1:Sub%d"><DisplayName>Sub%d</DisplayName><References><Reference ReferenceType="i=45" IsForward="false">ns=1;i=%d</Reference></References></UADataType>'
                       % (sub_id, sub_id, sub_id, en["dt"]))
            i = rng.choice(list(en["dict"]) or [0])
            expect[vid] = {"plain": {"t": "Int32", "v": i}}
            out.append('<UAVariable NodeId="ns=1;i=%d" BrowseName="1:v%d" DataType="ns=1;i=%d"><DisplayName>v%d</DisplayName><References><Reference ReferenceType="i=40">i=63</Reference></References>'
                       '<Value><Int32 xmlns="%s">%d</Int32></Value></UAVariable>' % (vid, vid, sub_id, vid, T, i))
    if rng.random() < 0.3:
        vid = nid
        nid += 1
        expect[vid] = {"plain": {"t": "Int32", "v": 1}}
        out.append('<UAVariable NodeId="ns=1;i=%d" BrowseName="1:v%d" DataType="i=29"><DisplayName>v%d</DisplayName><References><Reference ReferenceType="i=40">i=63</Reference></References>'
                   '<Value><Int32 xmlns="%s">1</Int32></Value></UAVariable>' % (vid, vid, vid, T))
    defined = [en for en in enums if en["kind"] != "none" and en["dict"]]
    # the same integer under two different enumerations (the string and the name must come from the variable's own DataType)
    if len(defined) >= 2 and rng.random() < 0.8:
        a, b = rng.sample(defined, 2)
        shared = [k for k in a["dict"] if k in b["dict"]]
        if shared:
            i = rng.choice(shared)
            for en in (a, b, a):
                vid = nid
                nid += 1
                expect[vid] = {"enum": en, "int": i}
                out.append('<UAVariable NodeId="ns=1;i=%d" BrowseName="1:v%d" DataType="ns=1;i=%d"><DisplayName>v%d</DisplayName><References><Reference ReferenceType="i=40">i=63</Reference></References>'
                           '<Value><Int32 xmlns="%s">%d</Int32></Value></UAVariable>' % (vid, vid, en["dt"], vid, T, i))
    # a variable TYPE whose DataType is an enumeration and that has a default value: it is not a variable, its value stays an Int32
    if defined and rng.random() < 0.5:
        en = rng.choice(defined)
        i = rng.choice(list(en["dict"]))
        vid = nid
        nid += 1
        expect[vid] = {"plain": {"t": "Int32", "v": i}}
        out.append('<UAVariableType NodeId="ns=1;i=%d" BrowseName="1:vt%d" DataType="ns=1;i=%d"><DisplayName>vt%d</DisplayName><References><Reference ReferenceType="i=45" IsForward="false">i=63</Reference></References>'
                   '<Value><Int32 xmlns="%s">%d</Int32></Value></UAVariableType>' % (vid, vid, en["dt"], vid, T, i))
    out.append("</UANodeSet>")
    return "\n".join(out), expect, enums


def graph_values(G):
    return {int(r["NodeId"].value): values.describe(r["Value"]) for _, r in G.nodes.iterrows() if r["NodeId"].namespace == 1}


def model_nodes(tables):
    """parsed (untransformed) tables -> model input"""
    nodes = []
    for r in tables["nodes"]:
        n = {"id": r["int_id"], "cls": r["cls"], "browse": r["browse"], "dt": None}
        nodes.append(n)
    return nodes


def one_case(run, sc, i):
    from opcua_tools import UAGraph, transform_ints_to_enums
    from opcua_tools.nodeset_parser import parse_xml_dir
    rng = run.rng
    text, expect, enums = build_doc(rng)
    files = {"e.xml": text}
    if rng.random() < 0.25:
        # the order of the base document's nodes is arbitrary: here Enumeration is its first node (it gets the internal id 0)
        b = minibase.base_xml()
        line = [l for l in b.splitlines() if 'NodeId="i=29"' in l][0]
        files["Opc.Ua.NodeSet2.xml"] = b.replace(line + "\n", "", 1).replace("</Aliases>\n", "</Aliases>\n" + line + "\n", 1)
    case = {"files": files}
    d = sc.sub("c%d" % i)
    sc.write(d, files, with_base=True)
    has_enum_val = any("int" in e or "list" in e for e in expect.values())
    run.case({"doc": i, "enums": [e["kind"] for e in enums], "vars": len(expect)}, nontrivial=has_enum_val, tag="doc:%d-enums" % len(enums))
    run.compared += 1
    before = parse_xml_dir(d)
    try:
        G = UAGraph.from_path(d)
    except Exception as e:  # noqa: BLE001
        run.violation(case, {"what": "graph construction raised", "impl": type(e).__name__ + ": " + str(e)[:300]})
        return
    # --- model on the parsed tables
    import pandas as pd
    bn = before["nodes"]
    mnodes = []
    for _, r in bn.iterrows():
        n = {"id": int(r["id"]), "cls": r["NodeClass"], "browse": r["BrowseName"],
             "dt": None if "DataType" not in bn.columns or pd.isna(r["DataType"]) else int(r["DataType"])}
        v = values.describe(r["Value"])
        if v is not None and v.get("t") != "PyNone":
            n["value"] = c08.for_model(W.fix_value(v))
        mnodes.append(n)
    mrefs = [[int(a), int(b), int(c)] for a, b, c in zip(before["references"]["Src"], before["references"]["Trg"], before["references"]["ReferenceType"])]
    hp = [int(r["id"]) for _, r in bn.iterrows() if r["NodeClass"] == "UAReferenceType" and r["BrowseName"] == "HasProperty"]
    mo = run.driver.ask({"op": "enum.transform", "nodes": mnodes, "refs": mrefs, "has_property": hp[0] if len(hp) == 1 else None})
    # --- the property on the real graph
    got = graph_values(G)
    before_vals = {int(r["NodeId"].value): values.describe(r["Value"]) for _, r in bn.iterrows() if r["NodeId"].namespace == 1}
    for vid, e in expect.items():
        g_ = got.get(vid)
        if "int" in e:
            en = e["enum"]
            if en["kind"] == "none":
                want = {"t": "Enumeration", "v": e["int"], "string": "Unknown", "name": "Unknown"}
            else:
                want = {"t": "Enumeration", "v": e["int"], "string": en["dict"][e["int"]], "name": en["name"]}
            if g_ != want:
                run.violation(case, {"what": "enum-typed Int32 variable does not carry (same integer, defined string, enumeration name)", "node": vid, "impl": g_, "expected": want})
                return
        elif "list" in e:
            if g_ is not None and g_.get("t") == "Enumeration" and run.known("D-C17a"):
                run.count("known:D-C17a")
            elif g_ != before_vals.get(vid):
                run.violation(case, {"what": "list-valued enum variable altered", "node": vid, "impl": g_, "expected": before_vals.get(vid)})
                return
        else:
            if g_ != before_vals.get(vid):
                run.violation(case, {"what": "a value that is not an enum-typed Int32 was altered", "node": vid, "impl": g_, "expected": before_vals.get(vid)})
                return
    # every other column unchanged
    cols = [c for c in bn.columns if c != "Value"]
    same = bn[cols].astype(str).values.tolist() == G.nodes[cols].astype(str).values.tolist()
    base_same = all(values.describe(a) == values.describe(b) for a, b, n in zip(bn["Value"], G.nodes["Value"], bn["NodeId"]) if n.namespace == 0)
    if not same or not base_same:
        run.violation(case, {"what": "the transformation altered a column other than Value (or a base-namespace value)"})
        return
    # idempotent
    snap = [values.describe(v) for v in G.nodes["Value"]]
    try:
        transform_ints_to_enums(G)
    except Exception as e:  # noqa: BLE001
        run.violation(case, {"what": "second application raised", "impl": type(e).__name__ + ": " + str(e)[:300]})
        return
    if [values.describe(v) for v in G.nodes["Value"]] != snap:
        run.violation(case, {"what": "applying the transformation again changed values"})
        return
    # written exactly as the Int32 it came from
    import opcua_tools.ua_data_types as U
    for v in G.nodes["Value"]:
        if isinstance(v, U.UAEnumeration) and v.xml_encode(True) != U.UAInt32(v.value).xml_encode(True):
            run.violation(case, {"what": "an enumeration value is not written as the Int32 it came from", "impl": v.xml_encode(True)})
            return
    # --- correspondence
    if "err" in mo:
        run.disagree(case, mo, {"ok": True})
        return
    mvals = {i_: (None if v is None else P.norm_model_value(v)) for i_, v in mo["values"]}
    ivals = {int(r["id"]): P.norm_impl_value(values.describe(r["Value"])) for _, r in G.nodes.iterrows()}
    ivals = {k: (None if v == {"t": "PyNone"} else v) for k, v in ivals.items()}
    if mvals != ivals:
        k = next(k for k in ivals if mvals.get(k) != ivals[k])
        run.disagree(case, {"id": k, "value": mvals.get(k)}, {"id": k, "value": ivals[k]})


def explore(run):
    thorough = run.tier == "thorough"
    with minibase.Scratch() as sc:
        for i in range(1500 if thorough else 60):
            one_case(run, sc, i)
            if run.full():
                return


def search_missing(run, disagreements):
    with minibase.Scratch() as sc:
        for i in range(300):
            one_case(run, sc, 10000 + i)
            if run.full():
                return


def replay(run, path):
    body = json.load(open(path))
    print("recorded detail:", json.dumps(body["detail"], default=str, ensure_ascii=False)[:3000])
    from opcua_tools import UAGraph
    with minibase.Scratch() as sc:
        d = sc.sub("r")
        sc.write(d, body["case"]["files"], with_base=True)
        try:
            G = UAGraph.from_path(d)
            print("values now:", json.dumps(graph_values(G), default=str, ensure_ascii=False)[:2000])
        except Exception as e:  # noqa: BLE001
            print("construction raised:", type(e).__name__, str(e)[:300])
    print("VIOLATION property=C17 replay=%s" % path)
    return 1

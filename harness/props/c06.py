"""C06 — a written NodeSet denotes exactly the requested namespace's part of the graph."""
import json

import docs as D
import minibase
import parse_run as P
import values
import writecheck as W

UA = minibase.UA
MODULE = "OpcuaModel.Props.C06"
TRUSTED_BASE = [
    "Lean 4.33.0 kernel; axioms audited (subset of propext, Classical.choice, Quot.sound)",
    "hand model Model/Write.lean (remapList, dropOutgoing, namespacesInUse, createNodeset, writeDoc) tied to /repo by this correspondence run: the infoset of the real text (lxml) is compared with the model's document, node by node",
    "pandas joins / isin / groupby of nodeset_generator modelled by list operations (sibling order of nodes and Reference children is not modelled and not compared)",
    "the independent NodeSet2 reader of the harness (lxml + schema structure); the repository's parse_value is used to read Value payloads (covered by C08)",
]
ASSUMPTIONS = [
    "graphs are built by UAGraph.from_path from generated closed document sets over the synthetic base namespace; attribute targets are defined nodes",
    "recorded findings: a namespace owning no node (D-C06a); a namespace whose nodes use nothing from namespace 0 (D-C06b)",
]
RULE = ("closed multi-namespace graphs (references inside / across / into the base namespace, custom reference types, all attribute columns, typed values), "
        "every non-base namespace U x both settings of the outgoing-reference switch; distinct = distinct (graph, U, switch); non-trivial = U owns >= 1 node")


def expected_for(G, uri, outgoing):
    nodes, refs = W.graph_abs(G)
    mine = {k: v for k, v in nodes.items() if v["id"][0] == uri}
    names = {json.dumps(v["id"]): v["browse"] for v in nodes.values() if v["cls"] == "UAReferenceType"}
    keep = []
    for r in refs:
        s, t, ty = json.loads(r)
        if s[0] != uri and t[0] != uri:
            continue
        if not outgoing and t[0] != uri and names.get(json.dumps(ty)) not in ("HasTypeDefinition", "HasModellingRule"):
            continue
        keep.append(r)
    return mine, sorted(keep)


def compare_node(exp, got):
    diffs = []
    for k in ("cls", "browse", "browse_ns", "display", "description"):
        if exp[k] != got[k]:
            diffs.append(k)
    ea = {}
    for k in W.WRITTEN_ATTRS:
        if k in exp["attrs"]:
            v = exp["attrs"][k]
            if k in ("IsAbstract", "Symmetric") and v is False:
                continue
            if k == "IsAbstract" and not exp["cls"].endswith("Type"):
                continue
            if k == "Symmetric" and exp["cls"] != "UAReferenceType":
                continue
            ea[k] = v if isinstance(v, list) else W.attr_as_text(v)
    ga = {k: v for k, v in got["attrs"].items() if not (k in ("IsAbstract", "Symmetric") and v == "false")}
    if ea != ga:
        diffs.append("attrs %r != %r" % (ea, ga))
    return diffs


def value_of(el):
    from opcua_tools.value_parser import parse_value_element
    if el is None:
        return None
    try:
        return values.describe(parse_value_element(el))
    except Exception as e:  # noqa: BLE001
        return {"t": "raised", "err": str(e)[:100]}


def check_write(run, G, gj, uri, outgoing, case):
    io = W.impl_write(G, uri, outgoing)
    mo = W.model_write(run, gj, uri, outgoing)
    run.compared += 1
    if "err" in io:
        if "err" in mo:
            return None
        run.violation(case, {"what": "write_nodeset raised", "impl": io, "call": "UAGraph.write_nodeset(StringIO, uri, include_outgoing_instance_level_references=%s)" % outgoing})
        return None
    doc = W.read_doc(io["text"])
    if "not_well_formed" in doc:
        run.violation(case, {"what": "written document is not well-formed", "impl": doc})
        return None
    exp_nodes, exp_refs = expected_for(G, uri, outgoing)
    got_ids = [json.dumps(n["id"]) for n in doc["nodes"]]
    if sorted(got_ids) != sorted(exp_nodes):
        run.violation(case, {"what": "declared nodes != the graph's nodes of the namespace (each once)",
                             "missing": [k for k in exp_nodes if k not in got_ids][:5], "extra": [k for k in got_ids if k not in exp_nodes][:5],
                             "duplicated": sorted({k for k in got_ids if got_ids.count(k) > 1})[:5]})
        return None
    for n in doc["nodes"]:
        e = exp_nodes[json.dumps(n["id"])]
        diffs = compare_node(e, n)
        import parsecheck
        ev = e["value"] if e["cls"] == "UAVariable" else None
        if ev is not None and ev.get("t") == "Enumeration":
            ev = {"t": "Int32", "v": ev["v"]}
        gv = value_of(n["value"])
        from props import c08
        comparable = ev is None or (c08.ok_class(ev) and ev["t"] not in ("XmlElement", "ExtensionObject", "ListOf"))
        if comparable and parsecheck.norm_value(ev) != parsecheck.norm_value(gv):
            diffs.append("value %r != %r" % (ev, gv))
        if diffs:
            run.violation(case, {"what": "node differs from the graph: " + "; ".join(diffs)[:600], "node": n["id"]})
            return None
    got_refs = sorted(json.dumps(r) for n in doc["nodes"] for r in n["refs"])
    if got_refs != exp_refs:
        run.violation(case, {"what": "declared references != the graph's references touching the namespace (each once)",
                             "missing": [r for r in exp_refs if r not in got_refs][:4], "extra": [r for r in got_refs if r not in exp_refs][:4],
                             "duplicated": sorted({r for r in got_refs if got_refs.count(r) > 1})[:4]})
        return None
    if "err" in mo:
        run.disagree(case, mo, {"ok": True})
    elif not W.same_docs(W.impl_doc_canon(io["text"]), W.model_doc_canon(mo["doc"])):
        a, b = W.impl_doc_canon(io["text"]), W.model_doc_canon(mo["doc"])
        diff = next(([x, y] for x, y in zip(a["nodes"], b["nodes"]) if x != y), [a["uris"], b["uris"], a["required"], b["required"]])
        run.disagree(case, diff[1], diff[0])
    return io["text"]


def witnesses(run, sc):
    """D-C06a: a namespace that owns no node cannot be written"""
    from opcua_tools import UAGraph
    doc = minibase.DOC_A.replace("<NamespaceUris><Uri>http://a.example/types</Uri></NamespaceUris>",
                                 "<NamespaceUris><Uri>http://a.example/types</Uri><Uri>urn:empty</Uri></NamespaceUris>")
    G, _ = W.build_graph(sc, "w", {"a.xml": doc})
    run.case({"witness": "D-C06a"}, tag="witness")
    io = W.impl_write(G, "urn:empty", True)
    if io.get("err") == "IndexError":
        run.known("D-C06a")
    # D-C06b: own reference type, no reference to the base namespace
    doc_b = ('<?xml version="1.0" encoding="utf-8"?><UANodeSet xmlns="http://opcfoundation.org/UA/2011/03/UANodeSet.xsd"><NamespaceUris><Uri>urn:self</Uri></NamespaceUris>'
             '<Models><Model ModelUri="urn:self"/></Models><Aliases/>'
             '<UAReferenceType NodeId="ns=1;i=1" BrowseName="1:R"><DisplayName>R</DisplayName></UAReferenceType>'
             '<UAObject NodeId="ns=1;i=2" BrowseName="1:a"><DisplayName>a</DisplayName><References><Reference ReferenceType="ns=1;i=1">ns=1;i=3</Reference></References></UAObject>'
             '<UAObject NodeId="ns=1;i=3" BrowseName="1:b"><DisplayName>b</DisplayName></UAObject></UANodeSet>')
    try:
        G2, _ = W.build_graph(sc, "w2", {"s.xml": doc_b})
        io = W.impl_write(G2, "urn:self", True)
        if io.get("err") == "IndexError":
            run.known("D-C06b")
    except Exception:  # noqa: BLE001
        pass


def explore(run):
    rng = run.rng
    thorough = run.tier == "thorough"
    with minibase.Scratch() as sc:
        witnesses(run, sc)
        for i in range(700 if thorough else 28):
            # a quarter of the graphs define one or two nodes twice (overlapping exports): row labels and ids then differ
            # (the first graphs always have a namespace URI with XML-special characters)
            g, files = W.gen_closed(rng, hostile=rng.random() < 0.4, features={"repeat_nodes": rng.random() < 0.25, "hostile_uri": i < 3})
            twice = {k_[0] for k_ in g.get("repeat", {})}
            try:
                G, _ = W.build_graph(sc, "g%d" % i, files)
            except Exception as e:  # noqa: BLE001
                run.violation({"files": files}, {"what": "UAGraph.from_path raised on a closed document set", "impl": type(e).__name__ + ": " + str(e)[:300]})
                return
            gj = W.graph_json(G)
            for uri in G.namespaces[1:]:
                if uri in twice:
                    continue        # "each node once" is not defined for a namespace that itself holds a node twice
                for outgoing in (True, False):
                    case = {"files": files, "uri": uri, "outgoing": outgoing}
                    run.case({"set": i, "uri": uri, "outgoing": outgoing}, tag="write:%s" % ("all" if outgoing else "no-outgoing"))
                    check_write(run, G, gj, uri, outgoing, case)
                    if run.full():
                        return


def search_missing(run, disagreements):
    rng = run.rng
    with minibase.Scratch() as sc:
        for i in range(150):
            g, files = W.gen_closed(rng, hostile=True)
            G, _ = W.build_graph(sc, "m%d" % i, files)
            gj = W.graph_json(G)
            for uri in G.namespaces[1:]:
                check_write(run, G, gj, uri, rng.random() < 0.5, {"files": files, "uri": uri})
                if run.full():
                    return


def replay(run, path):
    body = json.load(open(path))
    case = body["case"]
    with minibase.Scratch() as sc:
        G, _ = W.build_graph(sc, "r", case["files"])
        gj = W.graph_json(G)
        check_write(run, G, gj, case["uri"], case.get("outgoing", True), case)
    for kind, c, detail in run.violations:
        print("VIOLATION property=C06 replay=%s" % path)
        print(json.dumps(detail, default=str, ensure_ascii=False)[:2000])
    for d in run.disagreements:
        print("model/implementation disagreement:", json.dumps(d, default=str, ensure_ascii=False)[:2000])
    return 1 if (run.violations or run.disagreements) else 0

"""C14 — normalised tables are canonical; UA values are well ordered."""
import dataclasses
import json

import pandas as pd

import minibase
import values

MODULE = "OpcuaModel.Props.C14"
TRUSTED_BASE = [
    "Lean 4.33.0 kernel; axioms audited (subset of propext, Classical.choice, Quot.sound)",
    "hand model Model/Order.lean of lt/le/gt/ge (class name, then str(astuple(value))), of row sorting (NA last, lexicographic over columns) and of denormalisation by id look-up; tied to /repo by this correspondence run",
    "CPython str comparison = code-point lexicographic order; dataclass __eq__/__hash__ (tuple of fields); pandas sort_values on object columns (stable merge over the values' own ordering)",
    "driver JSON decoding, harness",
]
ASSUMPTIONS = [
    "the printed tuple str(astuple(v)) is computed by CPython and passed to the model as an opaque string",
    "== on values where exactly one compared field is pd.NA raises TypeError (recorded finding D-C14a); such pairs are excluded from 'comparable without error'",
]
RULE = ("a pool of UA values of every class incl. null-valued, NaN, +-0.0, enumerations, lists, structures: all ordered pairs (lt/le/gt/ge, ==, hash) "
        "and sampled triples (transitivity); random frames of UA-value/string columns sorted by pandas vs the model's sortRows; real graphs built "
        "from generated documents, rows shuffled and ids renumbered, whole and per namespace: normalised tables must be identical; "
        "distinct = distinct (operation, operands); non-trivial = operands of different content")


def key_of(v):
    return [type(v).__name__, str(dataclasses.astuple(v))]


def build(d):
    """values.build, plus NodeIds constructed the other documented ways (identifier type given as its symbol or its number)"""
    if d.get("t") == "NodeId" and d.get("ctor"):
        import opcua_tools.ua_data_types as U
        ty = d["v"][1] if d["ctor"] == "symbol" else {"i": 0, "s": 1, "g": 2, "b": 3}[d["v"][1]]
        return U.UANodeId(d["v"][0], ty, d["v"][2])
    return values.build(d)


def pool(rng, n):
    descs = [
        {"t": "Int32", "v": 1}, {"t": "Int32", "v": None}, {"t": "Int32", "v": 10}, {"t": "Int32", "v": 9}, {"t": "Int32", "v": -1},
        {"t": "UInt32", "v": 1}, {"t": "Double", "v": "0.0"}, {"t": "Double", "v": "-0.0"}, {"t": "Double", "v": "nan"}, {"t": "Double", "v": "nan"},
        {"t": "Double", "v": "inf"}, {"t": "Float", "v": "1.5"}, {"t": "Double", "v": None}, {"t": "String", "v": "a"}, {"t": "String", "v": None},
        {"t": "String", "v": "B"}, {"t": "Guid", "v": "a"}, {"t": "Boolean", "v": True}, {"t": "Boolean", "v": None},
        {"t": "LocalizedText", "text": "a", "locale": None}, {"t": "LocalizedText", "text": None, "locale": "en"},
        {"t": "Enumeration", "v": 1, "string": "On", "name": "E"}, {"t": "Enumeration", "v": 1, "string": "On", "name": "F"},
        {"t": "ListOf", "typename": "Int32", "items": []}, {"t": "ListOf", "typename": "Int32", "items": [{"t": "Int32", "v": 1}]},
        {"t": "NodeId", "v": [0, "i", "5"]}, {"t": "NodeId", "v": [0, "i", 5]}, {"t": "NodeId", "v": [1, "s", "5"]},
        {"t": "NodeId", "v": [0, "i", "5"], "ctor": "symbol"}, {"t": "NodeId", "v": [0, "i", "5"], "ctor": "int"}, {"t": "NodeId", "v": [1, "s", "5"], "ctor": "int"}, {"t": "EURange", "low": "0.0", "high": "1.0"},
        {"t": "QualifiedName", "ns": 1, "name": "q"}, {"t": "Variant", "v": {"t": "Int32", "v": 3}},
        # points in time with and without a zone, and with an offset
        {"t": "DateTime", "v": "2021-03-01T06:00:00.000000", "tz": "utc"}, {"t": "DateTime", "v": "2021-03-01T14:30:00.000000", "tz": "naive"},
        {"t": "DateTime", "v": "2021-03-01T08:00:00.000000", "tz": "120"}, {"t": "DateTime", "v": "1999-12-31T23:59:59.999999", "tz": "utc"},
    ]
    while len(descs) < n:
        descs.append(values.rand_value(rng))
    return descs


def has_na_field(v):
    """a pd.NA anywhere among the compared fields, also inside list items / nested structures
    (dataclass equality compares the field tuples element by element, so a nested NA is compared too)"""
    import pandas as pd

    def deep(x):
        if x is pd.NA:
            return True
        if isinstance(x, (list, tuple)):
            return any(deep(y) for y in x)
        if isinstance(x, dict):
            return any(deep(y) for y in x.values())
        return False
    return deep(dataclasses.astuple(v))


def order_cases(run, descs):
    rng = run.rng
    objs = [build(d) for d in descs]
    keys = [key_of(o) for o in objs]
    pairs = [(i, j) for i in range(len(objs)) for j in range(len(objs))]
    if run.tier == "quick" and len(pairs) > 3600:
        pairs = rng.sample(pairs, 3600)
    outs = run.driver.batch([{"op": "order.cmp", "a": keys[i], "b": keys[j]} for i, j in pairs])
    for (i, j), mo in zip(pairs, outs):
        a, b = objs[i], objs[j]
        case = {"cmp": [descs[i], descs[j]]}
        run.case(case, nontrivial=keys[i] != keys[j], tag="cmp")
        run.compared += 1
        try:
            io = {"lt": bool(a < b), "le": bool(a <= b), "gt": bool(a > b), "ge": bool(a >= b)}
        except Exception as e:  # noqa: BLE001
            if run.violation(case, {"what": "comparison operator raised", "impl": type(e).__name__ + ": " + str(e)[:200]}):
                return
            continue
        lt, gt = io["lt"], io["gt"]
        equiv = keys[i] == keys[j]
        # exactly one of a<b, b<a, equivalence; le/ge consistent
        ok = (int(lt) + int(gt) + int(equiv) == 1) and io["le"] == (not gt) and io["ge"] == (not lt)
        if not ok:
            if run.violation(case, {"what": "the comparison operators are not a total pre-order on this pair", "impl": io, "keys": [keys[i], keys[j]]}):
                return
            continue
        if io != mo:
            run.disagree(case, mo, io)
        # equality / hash
        try:
            e = a == b
            if e is True and hash(a) != hash(b):
                if run.violation(case, {"what": "equal values with different hashes", "impl": [hash(a), hash(b)]}):
                    return
            run.count("eq:" + str(bool(e)))
        except TypeError as ex:
            one_sided = has_na_field(a) != has_na_field(b) or (has_na_field(a) and has_na_field(b))
            if one_sided and run.known("D-C14a"):
                run.count("known:D-C14a")
            else:
                if run.violation(case, {"what": "== raised", "impl": str(ex)[:200]}):
                    return
    # transitivity on sampled triples
    n = len(objs)
    for _ in range(20000 if run.tier == "quick" else 200000):
        i, j, k = rng.randrange(n), rng.randrange(n), rng.randrange(n)
        a, b, c = objs[i], objs[j], objs[k]
        run.evaluations += 1
        if a < b and b < c and not a < c:
            if run.violation({"triple": [descs[i], descs[j], descs[k]]}, {"what": "lt is not transitive"}):
                return


def cell_key(x):
    import pandas as pd
    if x is None or x is pd.NA or (isinstance(x, float) and x != x):
        return None
    if isinstance(x, str):
        return ["str", x]
    return key_of(x)


def sort_cases(run, n):
    rng = run.rng
    descs = pool(rng, 40)
    objs = [build(d) for d in descs]
    frames = []
    for _ in range(n):
        ncol = rng.randint(1, 3)
        nrow = rng.randint(1, 9)
        cols = {}
        for c in range(ncol):
            if rng.random() < 0.3:
                cols["c%d" % c] = [rng.choice(["a", "B", "aa", "é", "", None]) for _ in range(nrow)]
            else:
                sub = rng.sample(range(len(objs)), rng.randint(1, 5))
                cols["c%d" % c] = [None if rng.random() < 0.15 else objs[rng.choice(sub)] for _ in range(nrow)]
        frames.append(cols)
    ops = []
    for cols in frames:
        names = sorted(cols)
        rows = [[cell_key(cols[c][r]) for c in names] for r in range(len(cols[names[0]]))]
        ops.append({"op": "order.sort", "rows": rows})
    outs = run.driver.batch(ops)
    for cols, op, mo in zip(frames, ops, outs):
        names = sorted(cols)
        df = pd.DataFrame({c: pd.Series(cols[c], dtype=object) for c in names})
        case = {"sort": op["rows"]}
        run.case(case, nontrivial=len(op["rows"]) > 1, tag="sort")
        run.compared += 1
        try:
            s = df.sort_values(by=names, ignore_index=True)
            io = [[cell_key(s[c][r]) for c in names] for r in range(len(s))]
        except Exception as e:  # noqa: BLE001
            io = {"err": type(e).__name__ + ": " + str(e)[:200]}
        if io != mo["rows"]:
            has_nan = any(c is not None and "nan" in c[1] for r in op["rows"] for c in r)
            cells = {(c[0], c[1]) for r in op["rows"] for c in r if c is not None}
            both_zeros = any((cl, tx.replace("-0.0", "0.0")) in cells for (cl, tx) in cells if "-0.0" in tx)
            dts = [x.value for c in names for x in cols[c] if type(x).__name__ == "UADateTime"]
            same_instant = any(x == y and repr(x) != repr(y) for x in dts for y in dts if x.tzinfo is not None and y.tzinfo is not None)
            if has_nan and run.known("D-C14b"):
                run.count("known:D-C14b")
            elif same_instant and run.known("D-C14d"):
                run.count("known:D-C14d")
            elif both_zeros and run.known("D-C14c"):
                run.count("known:D-C14c")
            else:
                run.disagree(case, mo["rows"], io)


def graph_cases(run, n):
    """metamorphic check on real graphs: shuffle rows + renumber ids => identical normalised tables"""
    import numpy as np
    from opcua_tools import UAGraph
    rng = run.rng
    import docs as D
    graphs = []
    with minibase.Scratch() as sc:
        d = sc.write(sc.sub("g"), {"a.xml": minibase.DOC_A, "b.xml": minibase.DOC_B})
        graphs.append(UAGraph.from_path(d))
        # a node defined twice with different content (overlapping exports that were edited): both definitions are content
        twice = minibase.DOC_A.replace("</UANodeSet>", '<UAObjectType NodeId="ns=1;i=1000" BrowseName="1:PumpType"><DisplayName>PumpType (revised)</DisplayName>'
                                       '<References><Reference ReferenceType="HasSubtype" IsForward="false">i=58</Reference></References></UAObjectType></UANodeSet>')
        try:
            graphs.append(UAGraph.from_path(sc.write(sc.sub("g2x"), {"a.xml": twice, "b.xml": minibase.DOC_B})))
        except Exception:  # noqa: BLE001
            pass
        # the same node on two rows with ids of their own, differing only in a node-reference column (DataType): the internal id must
        # not decide their order (round 8: the table was sorted before the id column was dropped)
        try:
            import pandas as _pd
            g0 = graphs[0]
            nd = g0.nodes.copy()
            cand = nd[(nd["NodeClass"] == "UAVariable") & nd["DataType"].notna()]
            dts = [int(x) for x in nd[nd["NodeClass"] == "UADataType"]["id"]]
            for n_extra in (1, 2):
                var = cand.iloc[0]
                extra = var.copy()
                extra["id"] = int(nd["id"].max()) + 1
                extra["DataType"] = [x for x in dts if x != int(var["DataType"])][n_extra - 1]
                nd = _pd.concat([nd, _pd.DataFrame([extra])], ignore_index=True).astype(g0.nodes.dtypes.to_dict())
            graphs.append(UAGraph(nodes=nd, references=g0.references.copy(), namespaces=list(g0.namespaces), models=list(g0.models)))
            run.count("graph:same-node-on-rows-with-own-ids")
        except Exception:  # noqa: BLE001
            pass
        # generated graphs with parallel references (same end points, different types) and repeated names
        for j in range(max(2, n // 8)):
            gg = D.gen_graph(rng, hostile=False, closed=True, values_ok=False)
            extra = []
            for (a, b, t) in gg["refs"][:6]:
                t2 = D.BASE(rng.choice([35, 46, 47]))
                if t2 != t:
                    extra.append((a, b, t2))
            gg["refs"] = list(dict.fromkeys(gg["refs"] + extra))
            try:
                graphs.append(UAGraph.from_path(sc.write(sc.sub("gen%d" % j), D.serialise(rng, gg))))
            except Exception:  # noqa: BLE001  (construction of generated sets is C11's business)
                pass
    for k in range(n):
        g = graphs[k % len(graphs)]
        perm_n = list(range(len(g.nodes)))
        rng.shuffle(perm_n)
        perm_r = list(range(len(g.references)))
        rng.shuffle(perm_r)
        ids = sorted(int(i) for i in g.nodes["id"])
        new = rng.sample(range(0, 5 * len(ids) + 10), len(ids))
        pi = dict(zip(ids, new))
        # ids that occur only in references/attributes (none in a closed graph) keep a fresh number
        nodes = g.nodes.iloc[perm_n].reset_index(drop=True).copy()
        refs = g.references.iloc[perm_r].reset_index(drop=True).copy()
        f = lambda x: pd.NA if pd.isna(x) else pi[int(x)]   # noqa: E731
        nodes["id"] = nodes["id"].map(f)
        for c in ("ParentNodeId", "DataType", "MethodDeclarationId"):
            if c in nodes.columns:
                nodes[c] = nodes[c].map(f).astype(pd.Int32Dtype())
        for c in ("Src", "Trg", "ReferenceType"):
            refs[c] = refs[c].map(f)
        case = {"graph_shuffle": {"node_perm": perm_n[:12], "ref_perm": perm_r[:12], "renumber_first": list(pi.items())[:6]}}
        run.case(case, tag="graph")
        run.compared += 1
        try:
            g2 = UAGraph(nodes=nodes, references=refs, namespaces=list(g.namespaces), models=list(g.models))
            # the same content put into a graph object that has answered queries before: its tables depend on the
            # content it holds now, not on what it held when it was first asked
            import copy
            g3 = copy.deepcopy(g)
            g3.get_normalized_references_df()
            g3.get_normalized_nodes_df()
            g3.nodes, g3.references = nodes.copy(), refs.copy()
            for uri in [None] + list(g.namespaces[1:]):
                c1, c2 = g3.get_normalized_nodes_df(uri), g2.get_normalized_nodes_df(uri)
                d1, d2 = g3.get_normalized_references_df(uri), g2.get_normalized_references_df(uri)
                if c1.astype(str).values.tolist() != c2.astype(str).values.tolist() or d1.astype(str).values.tolist() != d2.astype(str).values.tolist():
                    if run.violation(case, {"what": "a graph object that was queried before and then given the renumbered tables answers differently from a fresh graph holding the same tables",
                                            "namespace": uri, "call": "UAGraph.get_normalized_nodes_df / get_normalized_references_df"}):
                        return
                    break
            for uri in [None] + list(g.namespaces[1:]):
                a1, a2 = g.get_normalized_nodes_df(uri), g2.get_normalized_nodes_df(uri)
                b1, b2 = g.get_normalized_references_df(uri), g2.get_normalized_references_df(uri)
                same = (a1.astype(str).values.tolist() == a2.astype(str).values.tolist() and list(a1.columns) == list(a2.columns)
                        and b1.astype(str).values.tolist() == b2.astype(str).values.tolist()
                        # "identical tables": the row labels too (a table sorted by content is labelled 0..n-1 whatever the input order was)
                        and list(a1.index) == list(a2.index) and list(b1.index) == list(b2.index) and list(b1.columns) == list(b2.columns))
                if not same:
                    if run.violation(case, {"what": "normalised tables differ after shuffling rows and renumbering ids", "namespace": uri,
                                            "call": "UAGraph.get_normalized_nodes_df / get_normalized_references_df"}):
                        return
        except Exception as e:  # noqa: BLE001
            if run.violation(case, {"what": "normalisation raised", "impl": type(e).__name__ + ": " + str(e)[:300]}):
                return


NAN_DOC = '''<?xml version="1.0" encoding="utf-8"?>
<UANodeSet xmlns="http://opcfoundation.org/UA/2011/03/UANodeSet.xsd"><NamespaceUris><Uri>urn:nan</Uri></NamespaceUris>
<Models><Model ModelUri="urn:nan"/></Models><Aliases/>
<UAVariable NodeId="ns=1;i=1" BrowseName="1:v" DataType="i=11"><DisplayName>v</DisplayName><References><Reference ReferenceType="i=40">i=63</Reference></References><Value><Double xmlns="http://opcfoundation.org/UA/2008/02/Types.xsd">NaN</Double></Value></UAVariable>
<UAVariable NodeId="ns=1;i=2" BrowseName="1:v" DataType="i=11"><DisplayName>v</DisplayName><References><Reference ReferenceType="i=40">i=63</Reference></References><Value><Double xmlns="http://opcfoundation.org/UA/2008/02/Types.xsd">NaN</Double></Value></UAVariable>
</UANodeSet>'''


def nan_witness(run):
    """finding D-C14b: two rows that tie on every column before Value and hold NaN values are ordered by their input order"""
    from opcua_tools import UAGraph
    with minibase.Scratch() as sc:
        d = sc.write(sc.sub("n"), {"n.xml": NAN_DOC})
        g = UAGraph.from_path(d)
    t1 = g.get_normalized_nodes_df("urn:nan")
    g2 = UAGraph(nodes=g.nodes.iloc[::-1].reset_index(drop=True).copy(), references=g.references.copy(),
                 namespaces=list(g.namespaces), models=list(g.models))
    t2 = g2.get_normalized_nodes_df("urn:nan")
    run.case({"witness": "D-C14b"}, tag="witness")
    if t1.astype(str).values.tolist() != t2.astype(str).values.tolist():
        run.known("D-C14b")


def zero_witness(run):
    """finding D-C14c: 0.0 and -0.0 are == with equal hashes although `lt` orders them (by their printed text), so pandas'
    multi-column sort treats them as one key and rows that differ only in the sign of a zero keep their input order"""
    import pandas as pd
    from opcua_tools.ua_data_types import UADouble
    a, b = UADouble(0.0), UADouble(-0.0)
    run.case({"witness": "D-C14c"}, tag="witness")
    f1 = pd.DataFrame({"k": ["x", "x"], "v": pd.Series([a, b], dtype=object)}).sort_values(by=["k", "v"], ignore_index=True)
    f2 = pd.DataFrame({"k": ["x", "x"], "v": pd.Series([b, a], dtype=object)}).sort_values(by=["k", "v"], ignore_index=True)
    if a == b and (b < a) and [repr(x) for x in f1["v"]] != [repr(x) for x in f2["v"]]:
        run.known("D-C14c")


def instant_witness(run):
    """finding D-C14d: two DateTime values that denote the same point in time with different offsets are == (with equal hashes)
    although `lt` orders them by their printed text, so pandas' sort treats them as one key (same mechanism as D-C14c)"""
    import datetime as dtm
    import pandas as pd
    from opcua_tools.ua_data_types import UADateTime
    a = UADateTime(value=dtm.datetime(2021, 3, 1, 6, 0, tzinfo=dtm.timezone.utc))
    b = UADateTime(value=dtm.datetime(2021, 3, 1, 8, 0, tzinfo=dtm.timezone(dtm.timedelta(hours=2))))
    run.case({"witness": "D-C14d"}, tag="witness")
    f1 = pd.DataFrame({"k": ["x", "x"], "v": pd.Series([a, b], dtype=object)}).sort_values(by=["k", "v"], ignore_index=True)
    f2 = pd.DataFrame({"k": ["x", "x"], "v": pd.Series([b, a], dtype=object)}).sort_values(by=["k", "v"], ignore_index=True)
    if a == b and ((a < b) != (b < a)) and [repr(x) for x in f1["v"]] != [repr(x) for x in f2["v"]]:
        run.known("D-C14d")


def explore(run):
    rng = run.rng
    thorough = run.tier == "thorough"
    nan_witness(run)
    instant_witness(run)
    zero_witness(run)
    order_cases(run, pool(rng, 300 if thorough else 60))
    if run.full():
        return
    sort_cases(run, 3000 if thorough else 300)
    if run.full():
        return
    graph_cases(run, 200 if thorough else 25)


def search_missing(run, disagreements):
    order_cases(run, pool(run.rng, 120))
    graph_cases(run, 60)


def replay(run, path):
    body = json.load(open(path))
    cases = body["case"] if isinstance(body["case"], list) else [body["case"]]
    for c in cases:
        if "cmp" in c:
            order_cases(run, c["cmp"])
        elif "triple" in c:
            order_cases(run, c["triple"])
        else:
            graph_cases(run, 20)
            sort_cases(run, 100)
    for kind, case, detail in run.violations:
        print("VIOLATION property=C14 replay=%s" % path)
        print(json.dumps(detail, default=str)[:2000])
    for d in run.disagreements:
        print("model/implementation disagreement:", json.dumps(d, default=str)[:2000])
    return 1 if (run.violations or run.disagreements) else 0

"""C10 — JSON encodings are valid JSON of the right shape and lose nothing."""
import base64
import json
from decimal import Decimal

import gen
import values
from props import c08

MODULE = "OpcuaModel.Props.C10"
EXTRA_AUDIT = [("OpcuaModel.Gen.NodeIdTie", "Opcua.Tie.")]
TRUSTED_BASE = [
    "Lean 4.33.0 kernel; axioms audited (subset of propext, Classical.choice, Quot.sound)",
    "tie (A): UANodeId.json_encode and UANodeId.nodeid_type_value_to_int are also regenerated from the source on every run (translator/py2lean.py) and Gen/NodeIdTie.lean proves the generated definitions equal to nodeIdJson / idTypeInt for every NodeId (jsonEncode_eq, typeInt_eq, gen_nodeId_numeric_valid); coverage.translator_tie says which case applied",
    "hand model Model/Json.lean: pyJsonQuote (= json.dumps(s, ensure_ascii=False)), every json_encode, JsonLite strict reader; tied to /repo by this correspondence run (emitted text compared as strings; JsonLite compared with Python's json on every emitted text)",
    "CPython str(float) / str(float(int)) are passed to the model as tokens; json.loads (strict) is the independent reader of the oracle",
    "driver JSON decoding, harness, value generator",
]
ASSUMPTIONS = [
    "object-level shape theorems are proved for strings, Booleans, nulls and non-negative 32-bit integers; the remaining shapes are decided by the correspondence with the model plus the oracle on the real output",
    "recorded findings: Int64/UInt64 through float (D-C10a), unescaped NodeId/QualifiedName text (D-C10b), UAListOf bodies (D-C10c,d), functools.cache keyed by == (D-C10e)",
]
RULE = ("values of every supported type incl. quotes, backslashes, control and non-ASCII characters, 64-bit extremes, non-finite floats, empty and "
        "null values, variants of every scalar, lists of every element type, extension objects; distinct = distinct value; non-trivial = not null")

VT = {"Boolean": 1, "SByte": 2, "Byte": 3, "Int16": 4, "UInt16": 5, "Int32": 6, "UInt32": 7, "Int64": 8, "UInt64": 9, "Float": 10, "Double": 11,
      "String": 12, "DateTime": 13, "Guid": 14, "ByteString": 15, "XmlElement": 16, "NodeId": 17, "QualifiedName": 20, "LocalizedText": 21,
      "ExtensionObject": 22, "Variant": 24}


def clear_caches():
    import opcua_tools.ua_data_types as U
    for name in dir(U):
        c = getattr(U, name)
        f = getattr(c, "json_encode", None) if isinstance(c, type) else None
        if f is not None and hasattr(f, "cache_clear"):
            f.cache_clear()


def ctl_text(rng):
    pool = [gen.WORDS, gen.NONASCII, ['"', "\\", "\n", "\t", "\r", "\b", "\f", "\x01", "\x1f", "/", " ", "\\u0041"]]
    return "".join(rng.choice(rng.choice(pool)) for _ in range(rng.randint(0, 5)))


def rand_value(rng, known):
    r = rng.random()
    if not known:
        if r < 0.15:
            return {"t": "String", "v": ctl_text(rng) or None}
        if r < 0.25:
            return {"t": "LocalizedText", "text": ctl_text(rng) or None, "locale": rng.choice([None, "en", "nb-NO"])}
        if r < 0.35:
            inner = values.rand_scalar(rng, rng.choice([t for t in values.SCALARS if t not in ("NodeId",)]))
            if inner["t"] in ("Int64", "UInt64") and inner["v"] is not None and abs(inner["v"]) > 2**53:
                inner["v"] = inner["v"] % 1000
            if inner["t"] == "DateTime":
                inner["tz"] = "utc"
            return {"t": "Variant", "v": inner}
        if r < 0.42:
            return {"t": "NodeId", "v": [rng.choice([0, 1, 7]), rng.choice("isgb"), None]}
        if r < 0.47:
            return {"t": "QualifiedName", "ns": rng.choice([0, 1, 9]), "name": gen.plain_text(rng)}
        if r < 0.55:
            t = rng.choice(["SByte", "Byte", "Int16", "UInt16", "Int32", "UInt32", "Float", "Double"])
            items = [values.rand_scalar(rng, t, allow_null=False) for _ in range(rng.randint(0, 4))]
            items = [x for x in items if t not in ("Float", "Double") or float(x["v"]) == float(x["v"]) and abs(float(x["v"])) != float("inf")]
            return {"t": "ListOf", "typename": t, "items": items}
        if r < 0.6:
            return c08.rand_value(rng, False) if rng.random() < 0.5 else {"t": "XmlElement", "v": "<a b=\"1\">%s</a>" % gen.plain_text(rng)}
        if rng.random() < 0.08:       # ranges with non-finite bounds
            return {"t": "EURange", "low": rng.choice(["-inf", "nan", "-1.5", "0.0"]), "high": rng.choice(["inf", "nan", "100.0"])}
        v = values.rand_value(rng)
        while v["t"] in ("ListOf", "NodeId") or (v["t"] in ("Int64", "UInt64") and v["v"] is not None and abs(v["v"]) > 2**53):
            v = values.rand_value(rng)
        return v
    if r < 0.3:
        t = rng.choice(["Int64", "UInt64"])
        return {"t": t, "v": rng.choice([2**53 + 1, 2**63 - 1, 2**64 - 1 if t == "UInt64" else -2**63, 2**60 + 7])}
    if r < 0.5:
        return {"t": "NodeId", "v": [rng.choice([0, 2]), rng.choice("sgb"), rng.choice(['a"b', "a\\b", "x\ny", '"'])]}
    if r < 0.6:
        return {"t": "QualifiedName", "ns": 1, "name": rng.choice(['a"b', "a\\n"])}
    t = rng.choice(["String", "Boolean", "NodeId", "LocalizedText", "Guid", "DateTime", "ByteString", "Double"])
    items = [values.rand_scalar(rng, t, allow_null=(t not in ("DateTime", "NodeId"))) for _ in range(rng.randint(1, 3))]
    if t == "Double":
        items.append({"t": "Double", "v": "nan"})
    return {"t": "ListOf", "typename": t, "items": items}


def fix(v, rng):
    if v["t"] == "NodeId" and v["v"][2] is None:
        v["v"][2] = str(rng.randint(0, 9999)) if v["v"][1] == "i" else gen.plain_text(rng) + "é"
        if v["v"][1] != "i" and rng.random() < 0.3:
            v["v"][2] = rng.choice(["4711", "0042", "7", "000815", "12"])     # digits only, yet a string / guid / opaque identifier
    return v


def supported(v):
    t = v["t"]
    if t in ("Int64", "UInt64"):
        return v["v"] is None or abs(v["v"]) <= 2**53
    if t == "NodeId":
        return not any(c in v["v"][2] for c in '"\\') and all(ord(c) >= 32 for c in v["v"][2])
    if t == "QualifiedName":
        return not any(c in v["name"] for c in '"\\') and all(ord(c) >= 32 for c in v["name"])
    if t == "ListOf":
        return v["typename"] in ("SByte", "Byte", "Int16", "UInt16", "Int32", "UInt32", "Float", "Double") and all(
            x["v"] is not None and (x["t"] not in ("Float", "Double") or (float(x["v"]) == float(x["v"]) and abs(float(x["v"])) != float("inf")))
            for x in v["items"])
    if t == "Variant":
        return supported(v["v"])
    if t == "DateTime":
        return True
    return True


def finding_for(v):
    t = v["t"]
    if t in ("Int64", "UInt64"):
        return "D-C10a"
    if t in ("NodeId", "QualifiedName"):
        return "D-C10b"
    if t == "ListOf":
        return "D-C10d" if v["typename"] == "NodeId" else "D-C10c"
    if t == "Variant":
        return finding_for(v["v"])
    return None


def build(v):
    import opcua_tools.ua_data_types as U
    if v["t"] == "ExtensionObject":
        return c08.build(v)
    return values.build(v)


def fs_pairs(v):
    out = []
    if v["t"] in ("Int64", "UInt64") and v["v"] is not None:
        out.append([v["v"], str(float(v["v"]))])
    if v["t"] == "Variant":
        out += fs_pairs(v["v"])
    if v["t"] == "ListOf":
        for x in v["items"]:
            out += fs_pairs(x)
    return out


class NotJson(Exception):
    pass


def strict_loads(text):
    def bad(x):
        raise NotJson("constant " + x)
    return json.loads(text, parse_constant=bad, parse_float=lambda s: ("num", s), parse_int=lambda s: ("num", s))


def num(j):
    if not (isinstance(j, tuple) and j[0] == "num"):
        raise AssertionError("not a number literal: %r" % (j,))
    return Decimal(j[1])


def shape(v, j):
    """raises AssertionError when the decoded JSON does not have the OPC UA shape/content for v"""
    t = v["t"]
    if t in ("SByte", "Byte", "Int16", "UInt16", "Int32", "UInt32"):
        assert num(j) == v["v"]
    elif t == "Enumeration":
        assert num(j) == v["v"]
    elif t in ("Int64", "UInt64"):
        assert isinstance(j, str) and Decimal(j) == v["v"], "64-bit integer not a string holding the exact value"
    elif t in ("Float", "Double"):
        x = float(v["v"])
        if x != x:
            assert j == "NaN"
        elif x in (float("inf"), float("-inf")):
            assert j == ("Infinity" if x > 0 else "-Infinity")
        else:
            assert float(num(j)) == x and isinstance(j, tuple)
    elif t in ("String", "Guid"):
        assert j == v["v"]
    elif t == "Boolean":
        assert j is v["v"]
    elif t == "DateTime":
        assert isinstance(j, str) and j == v["v"] + "Z"
    elif t == "ByteString":
        assert isinstance(j, str) and base64.b64decode(j) == base64.b64decode(v["v"])
    elif t == "XmlElement":
        assert isinstance(j, str)
    elif t == "NodeId":
        ns, it, ident = v["v"]
        assert isinstance(j, dict)
        assert (num(j["Id"]) == int(ident)) if it == "i" else (j["Id"] == ident)
        assert ("IdType" not in j and it == "i") or num(j["IdType"]) == "isgb".index(it)
        assert ("Namespace" not in j and ns == 0) or num(j["Namespace"]) == ns
        assert set(j) <= {"Id", "IdType", "Namespace"}
    elif t == "QualifiedName":
        assert j["Name"] == v["name"] and (("Uri" not in j and v["ns"] == 0) or num(j["Uri"]) == v["ns"])
    elif t == "LocalizedText":
        assert j["Text"] == (v["text"] or "") and j.get("Locale") == v["locale"] and set(j) <= {"Text", "Locale"}
    elif t == "Variant":
        assert num(j["Type"]) == VT[v["v"]["t"]] and set(j) == {"Type", "Body"}
        shape(v["v"], j["Body"])
    elif t == "ListOf":
        assert num(j["Type"]) == VT[v["typename"]] and isinstance(j["Body"], list) and len(j["Body"]) == len(v["items"])
        for x, y in zip(v["items"], j["Body"]):
            shape(x, y)
    elif t == "ExtensionObject":
        shape({"t": "NodeId", "v": v["type"]}, j["TypeId"])
        assert isinstance(j["Body"], str) and num(j["Encoding"]) == 2
    elif t == "EURange":
        assert num(j["TypeId"]["Id"]) == 885
        shape({"t": "Double", "v": v["low"]}, j["Body"]["Low"])        # a bound is a Double: non-finite bounds are the quoted tokens
        shape({"t": "Double", "v": v["high"]}, j["Body"]["High"])
    elif t == "EngineeringUnits":
        b = j["Body"]
        assert num(j["TypeId"]["Id"]) == 888 and num(b["UnitId"]) == v["unit_id"] and b["NamespaceUri"] == v["uri"]
        assert b["DisplayName"]["Text"] == (v["display"]["text"] or "") and b["DisplayName"].get("Locale") == v["display"]["locale"]
        assert b["Description"]["Text"] == (v["description"]["text"] or "") and b["Description"].get("Locale") == v["description"]["locale"]
    else:
        raise AssertionError("no shape rule for " + t)


def is_null(v):
    if v["t"] == "LocalizedText":
        return False
    if v["t"] == "Variant":
        return is_null(v["v"])
    if v["t"] in ("String", "Guid", "ByteString") and v["v"] == "":
        return True          # the constructors turn empty strings / byte strings into null
    return "v" in v and v["v"] is None


def ctor_norm(v):
    """UAString / UAGuid / UAByteString constructors turn empty payloads into null (their __post_init__)"""
    v = dict(v)
    if v["t"] in ("String", "Guid", "ByteString") and v["v"] == "":
        v["v"] = None
    elif v["t"] == "Variant":
        v["v"] = ctor_norm(v["v"])
    elif v["t"] == "ListOf":
        v["items"] = [ctor_norm(x) for x in v["items"]]
    return v


def value_cases(run, descs):
    ops = [{"op": "value.json", "val": c08.for_model(ctor_norm(v)), "fs": fs_pairs(v)} for v in descs]
    outs = run.driver.batch(ops)
    texts = []
    for v, mo in zip(descs, outs):
        sup = supported(v)
        fid = None if sup else finding_for(v)
        case = {"value": v}
        run.case(case, nontrivial=not is_null(v), tag="json:" + v["t"] + ("" if sup else ":known-class"))
        run.compared += 1
        clear_caches()
        try:
            io = build(v).json_encode()
            impl = {"none": True} if io is None else {"text": io}
        except Exception as e:  # noqa: BLE001
            impl = {"err": type(e).__name__}
        problem = None
        if "err" in impl:
            problem = {"what": "json_encode raised", "impl": impl}
        elif "text" in impl:
            if not isinstance(impl["text"], str):
                problem = {"what": "json_encode returned a non-string", "impl": repr(impl["text"])}
            else:
                try:
                    j = strict_loads(impl["text"])
                    if is_null(v) and v["t"] != "Variant":
                        problem = {"what": "null value not reported as None", "impl": impl}
                    elif is_null(v):
                        assert j is None
                    else:
                        shape(v, j)
                except (ValueError, NotJson) as e:
                    problem = {"what": "not valid JSON", "impl": impl["text"][:400], "error": str(e)[:200]}
                except (AssertionError, KeyError, TypeError, ArithmeticError) as e:
                    problem = {"what": "wrong shape or content lost", "impl": impl["text"][:400], "error": repr(e)[:200], "expected": v}
                texts.append(impl["text"])
        else:
            if not is_null(v):
                problem = {"what": "non-null value encoded as None", "expected": v}
        if problem:
            problem["call"] = "<value>.json_encode()"
            if fid and run.known(fid):
                run.count("known:" + fid)
            elif run.violation(case, problem):
                return texts
            continue
        # the same object asked again after a call with a locale override: the plain encoding still carries the value's own content
        if "text" in impl and v["t"] in ("LocalizedText", "EngineeringUnits", "ExtensionObject", "Variant", "ListOf"):
            try:
                obj = build(v)
                try:
                    obj.json_encode(input_locale="zz-ZZ")
                except TypeError:
                    obj = None
                if obj is not None:
                    again = obj.json_encode()
                    run.count("asked-again-after-locale-override")
                    if again != impl["text"]:
                        shape(v, strict_loads(again))
            except (ValueError, NotJson, AssertionError, KeyError, TypeError, ArithmeticError) as e:
                if fid and run.known(fid):
                    run.count("known:" + fid)
                elif run.violation(case, {"what": "json_encode() after an earlier json_encode(input_locale=...) on the same object no longer carries the value's own content",
                                          "impl": str(locals().get("again"))[:400], "first": impl["text"][:400], "error": repr(e)[:200],
                                          "call": "<value>.json_encode(input_locale='zz-ZZ'); <value>.json_encode()"}):
                    return texts
                continue
        # correspondence (raw XML payloads differ in layout only)
        if sup and v["t"] not in ("XmlElement", "ExtensionObject") and not (v["t"] == "Variant" and v["v"]["t"] in ("XmlElement",)):
            m = {k: mo[k] for k in mo if k in ("text", "none", "err")}
            if ("err" in m) != ("err" in impl) or m.get("text") != impl.get("text") or m.get("none") != impl.get("none"):
                run.disagree(case, mo, impl)
    return texts


def canon_py(j):
    if isinstance(j, tuple):
        return {"num": j[1]}
    if isinstance(j, dict):
        return {"obj": [[k, canon_py(x)] for k, x in j.items()]}
    if isinstance(j, list):
        return [canon_py(x) for x in j]
    return j


def jsonlite_cases(run, texts, mutate):
    rng = run.rng
    cases = list(texts)
    if mutate:
        for t in texts:
            if t:
                k = rng.randrange(len(t))
                cases.append(t[:k] + rng.choice(['"', "\\", ",", "}", "]", "0", " ", "x", ""]) + t[k + (rng.random() < 0.5):])
    outs = run.driver.batch([{"op": "json.parse", "text": t} for t in cases])
    for t, mo in zip(cases, outs):
        run.case({"jsonlite": t[:120]}, tag="jsonlite")
        run.compared += 1
        try:
            def objhook(pairs):
                d = dict(pairs)
                if len(d) != len(pairs):
                    raise NotJson("duplicate key")      # JsonLite keeps duplicates; never emitted by the encoders
                return d
            py = json.loads(t, parse_constant=lambda x: (_ for _ in ()).throw(NotJson(x)), parse_float=lambda s: ("num", s),
                            parse_int=lambda s: ("num", s), object_pairs_hook=objhook)
            want = {"json": canon_py(py)}
        except NotJson as e:
            if "duplicate" in str(e):
                continue
            want = {"err": "invalid"}
        except ValueError:
            want = {"err": "invalid"}
        if mo != want:
            run.disagree({"jsonlite": t[:400]}, mo, want)


def cache_witness(run):
    """finding D-C10e: json_encode is cached by ==, so 0.0 returns what -0.0 produced earlier"""
    import opcua_tools.ua_data_types as U
    clear_caches()
    a = U.UADouble(-0.0).json_encode()
    b = U.UADouble(0.0).json_encode()
    clear_caches()
    c = U.UADouble(0.0).json_encode()
    run.case({"witness": "D-C10e"}, tag="witness")
    if b != c:
        run.known("D-C10e")


def extobj_bodies(run):
    """extension objects whose body is a byte string: {"TypeId":…, "Body": <base64>, "Encoding": 1}
    (the model covers XML bodies only; this is the oracle on the real encoder)"""
    import base64
    import opcua_tools.ua_data_types as U
    rng = run.rng
    for j in range(12):
        raw = bytes(rng.getrandbits(8) for _ in range(rng.choice([1, 2, 3, 16, 33])))   # (an empty byte string is this library's null byte string)
        ns, it, ident = rng.choice([0, 2, 7]), rng.choice("isg"), None
        ident = str(rng.randint(1, 9999)) if it == "i" else "T%d é" % j
        case = {"extension_object": {"type": [ns, it, ident], "byte_string_body": base64.b64encode(raw).decode()}, "in_variant": j % 3 == 2}
        run.case(case, tag="json:ExtensionObject:bytes")
        try:
            obj = U.UAExtensionObject(type_nodeid=U.UANodeId(ns, U.NodeIdType(it), ident), body=U.UAByteString(value=raw))
            text = (U.UAVariant(value=obj) if j % 3 == 2 else obj).json_encode()
            jv = strict_loads(text)
            if j % 3 == 2:
                assert num(jv["Type"]) == 22 and set(jv) == {"Type", "Body"}
                jv = jv["Body"]
            shape({"t": "NodeId", "v": [ns, it, ident]}, jv["TypeId"])
            assert set(jv) == {"TypeId", "Body", "Encoding"} and num(jv["Encoding"]) == 1 and isinstance(jv["Body"], str)
            assert base64.b64decode(jv["Body"]) == raw
        except Exception as e:  # noqa: BLE001
            if run.violation(case, {"what": "an extension object with a byte-string body is not encoded as {TypeId, Body: base64, Encoding: 1}",
                                    "error": type(e).__name__ + ": " + str(e)[:200], "impl": str(locals().get("text"))[:300], "call": "UAExtensionObject.json_encode()"}):
                return


def extobj_structure_again(run):
    """an extension object whose body is an EUInformation structure, asked for its JSON after an earlier call on the SAME object with a
    locale override (and through a Variant): the plain encoding carries the value's own Locale members, as a fresh equal object's does"""
    import opcua_tools.ua_data_types as U
    rng = run.rng
    for j in range(6):
        dn, ds = 'name %d "q" é' % j, "description %d" % j
        l1, l2 = rng.choice(["en", "nb-NO", "de"]), rng.choice(["en-US", "fr", "en"])
        unit, uri = rng.choice([4408652, -1, 5]), "http://www.opcfoundation.org/UA/units/un/cefact"

        def mk():
            info = U.UAEUInformation(display_name=U.UALocalizedText(text=dn, locale=l1), description=U.UALocalizedText(text=ds, locale=l2),
                                     unit_id=unit, namespace_uri=uri)
            eo = U.UAExtensionObject(type_nodeid=U.UANodeId(0, U.NodeIdType.NUMERIC, 888), body=U.UAStructure(value=info))
            return U.UAVariant(value=eo) if j % 2 else eo
        promised = {"TypeId": {"Id": 888}, "Body": {"DisplayName": {"Text": dn, "Locale": l1}, "Description": {"Text": ds, "Locale": l2},
                                                     "UnitId": unit, "NamespaceUri": uri}}
        if j % 2:
            promised = {"Type": 22, "Body": promised}
        case = {"extension_object": {"structure": "EUInformation", "display": [dn, l1], "description": [ds, l2], "unit_id": unit},
                "in_variant": bool(j % 2), "history": ["json_encode(input_locale='zz-ZZ')", "json_encode()"]}
        run.case(case, tag="json:ExtensionObject:structure:asked-again")
        try:
            clear_caches()
            import json as _json
            first = mk().json_encode()
            strict_loads(first)
            obj = mk()
            obj.json_encode(input_locale="zz-ZZ")
            again = obj.json_encode()
            strict_loads(again)
            assert _json.loads(first) == promised, ("fresh object", first)
            assert _json.loads(again) == promised, ("asked again", again)
        except Exception as e:  # noqa: BLE001
            if run.violation(case, {"what": "an extension object holding an EUInformation structure is not encoded with its own content (fresh, or asked again after a call with a locale override)",
                                    "error": type(e).__name__ + ": " + str(e)[:300], "expected": promised, "call": "UAExtensionObject.json_encode()"}):
                return


def xml_text_exact(run):
    """raw XML element values are JSON strings holding the element's text character for character — including the white
    space around it (the parser keeps the indentation that followed the element in its document)"""
    import opcua_tools.ua_data_types as U
    texts = ["<a/>\n      ", "\n  <a>1</a>", "<a>1</a>\t", " <a b=\"1\">é</a> ", "<a/>\r\n", "\u00a0<a>x</a>\u00a0", "<a>\n  <b/>\n</a>\n    "]
    for j, t in enumerate(texts):
        case = {"xml_element_text": t, "in_variant": j % 2 == 1}
        run.case(case, tag="json:XmlElement:whitespace")
        try:
            obj = U.UAXMLElement(value=t)
            text = (U.UAVariant(value=obj) if j % 2 == 1 else obj).json_encode()
            jv = strict_loads(text)
            if j % 2 == 1:
                assert num(jv["Type"]) == 16
                jv = jv["Body"]
            assert jv == t
        except Exception as e:  # noqa: BLE001
            if run.violation(case, {"what": "a raw XML element value is not encoded as the JSON string of exactly its text", "error": type(e).__name__ + ": " + str(e)[:200],
                                    "impl": str(locals().get("text"))[:300], "call": "UAXMLElement.json_encode()"}):
                return


def explore(run):
    rng = run.rng
    thorough = run.tier == "thorough"
    import core
    # tie (A): UANodeId.json_encode / nodeid_type_value_to_int regenerated from the source (Gen/NodeIdTie.lean: jsonEncode_eq, typeInt_eq); never a verdict by itself
    run.extra["translator_tie"] = core.translator_tie()
    cache_witness(run)
    xml_text_exact(run)
    if run.full():
        return
    extobj_bodies(run)
    if run.full():
        return
    extobj_structure_again(run)
    if run.full():
        return
    corpus = [{"t": "String", "v": 'a"b\\c\n\x01é😀'}, {"t": "Int64", "v": 42}, {"t": "UInt64", "v": 2**53}, {"t": "Double", "v": "inf"},
              {"t": "Double", "v": "nan"}, {"t": "Float", "v": "-inf"}, {"t": "Double", "v": "1e+22"}, {"t": "Double", "v": "5e-324"},
              {"t": "NodeId", "v": [0, "i", "5"]}, {"t": "NodeId", "v": [3, "s", "xé"]}, {"t": "LocalizedText", "text": None, "locale": None},
              {"t": "Variant", "v": {"t": "Boolean", "v": True}}, {"t": "Variant", "v": {"t": "String", "v": None}},
              {"t": "ListOf", "typename": "Int32", "items": []}, {"t": "ByteString", "v": None}, {"t": "ByteString", "v": "AAEC"},
              {"t": "EngineeringUnits", "uri": "", "unit_id": 5, "display": {"text": "m", "locale": "en"}, "description": {"text": "metre", "locale": None}}]
    texts = value_cases(run, corpus)
    if run.full():
        return
    n = 60000 if thorough else 2000
    texts += value_cases(run, [fix(rand_value(rng, False), rng) for _ in range(n)])
    if run.full():
        return
    value_cases(run, [fix(rand_value(rng, True), rng) for _ in range(n // 6)])
    if run.full():
        return
    jsonlite_cases(run, texts[: (30000 if thorough else 1200)], mutate=True)


def search_missing(run, disagreements):
    value_cases(run, [fix(rand_value(run.rng, False), run.rng) for _ in range(8000)])


def replay(run, path):
    body = json.load(open(path))
    cases = body["case"] if isinstance(body["case"], list) else [body["case"]]
    run.findings = {}
    value_cases(run, [c["value"] for c in cases if "value" in c])
    for kind, case, detail in run.violations:
        print("VIOLATION property=C10 replay=%s" % path)
        print(json.dumps(detail, default=str, ensure_ascii=False)[:2000])
    for d in run.disagreements:
        print("model/implementation disagreement:", json.dumps(d, default=str, ensure_ascii=False)[:2000])
    return 1 if (run.violations or run.disagreements) else 0

"""C19 — parsing leaves the input directory as it found it, even when it fails."""
import json
import os
import shutil

import minibase
import proto_run as PR

MODULE = "OpcuaModel.Props.C19"
TRUSTED_BASE = [
    "Lean 4.33.0 kernel; axioms audited (subset of propext, Classical.choice, Quot.sound)",
    "hand model Model/Proto.lean (step, runF, history, parseMany: one step per intercepted operation) tied to /repo by this run: "
    "operation trace, outcome and final directory of the real call vs the model for the same content, pre-existing files and failing operation",
    "the interception layer harness/proto_run.py (proxies for os / open / lxml.etree / json as seen by nodeset_parser and json_parser.parse); "
    "content functions (well-formedness, header, element loop) are parameters of the protocol theorems and are modelled in Model/Parse.lean",
]
ASSUMPTIONS = [
    "a failure is an exception raised by an intercepted operation (before it acts, or in the middle of the write); process kills and power loss are not exhibited",
    "the deletion of the helper file itself is not made to fail (excluded by the property)",
    "a side file that exists before the call is an input of the call (read and removed), not a leftover of this call",
]
RULE = ("every intercepted call of a fault-free run is made to raise once (write: before and in the middle), for documents that are fine, not well formed, "
        "have an undecodable alias or a malformed element, under several file names, with and without a pre-existing side file; then edit and parse again; "
        "random histories of edit / remove / parse-with-fault; multi-file calls and UAGraph.from_path with every fault position; "
        "distinct = distinct (scenario, failing call); non-trivial = the call got past the existence check")

UA = minibase.UA
NAMES = ["a.xml", "my file.xml", "x_parsed.json", "Opc.Ua.NodeSet2.xml", "ü.xml"]


def sem_of(contents):
    s = {"not_wf": [], "bad_header": [], "bad_body": []}
    for c, flags in contents.items():
        for f in flags:
            s[f].append(c)
        if "bad_header" in flags:       # the undecodable alias is met again by the element loop
            s["bad_body"].append(c)
    return s


class Dir:
    """one scratch directory holding one input (and perhaps a pre-existing side file)"""
    def __init__(self, sc, tag):
        self.d = sc.sub(tag)
        self.contents = {}      # content id -> flags

    def put(self, name, c, flags=()):
        self.contents[c] = tuple(flags)
        open(os.path.join(self.d, name), "w", encoding="utf-8").write(PR.doc_text(c, flags))

    def put_side(self, name, h):
        """a complete side file for header version h, under the name the parser looks for"""
        from opcua_tools.json_parser import parse as pm
        tmpd = os.path.join(self.d, "tmp_side_src")
        os.makedirs(tmpd)
        tmp = os.path.join(tmpd, "t.xml")
        open(tmp, "w", encoding="utf-8").write(PR.doc_text(h))
        pm.pre_process_xml_to_json(tmp)
        made = [f for f in os.listdir(tmpd) if f != "t.xml"]
        if made:
            os.replace(os.path.join(tmpd, made[0]), os.path.join(self.d, name + PR.SUFFIX))
        shutil.rmtree(tmpd)
        self.contents.setdefault(h, ())
        return bool(made)

    def path(self, name):
        return os.path.join(self.d, name)


def call(api, paths):
    from opcua_tools import nodeset_parser as npm
    if api == "parse_xml":
        return npm.parse_xml(paths[0])
    if api == "parse_xml_files":
        return npm.parse_xml_files(list(paths))
    if api == "parse_xml_dir":
        return npm.parse_xml_dir(os.path.dirname(paths[0]))
    raise ValueError(api)


def real_run(api, paths, faults=None):
    ctl = PR.Ctl()
    if faults:
        ctl.faults = {0: dict(faults)}
    with PR.Patched(ctl):
        outcome, res = PR.outcome_of(lambda: call(api, paths), ctl)
    return outcome, res, ctl.raw.get(0, [])


def model_files(d, known):
    """listing of a directory as model files; `known`: relpath -> model file description"""
    out = []
    for rel in sorted(os.listdir(d)):
        out.append(dict(known[rel], path=rel))
    return out


def listing(d):
    return sorted(os.listdir(d))


def model_listing(files):
    return sorted(f["path"] for f in files if f["kind"] != "absent")


def solo_scenarios(run):
    thorough = run.tier == "thorough"
    rng = run.rng
    scns = []
    c = 10
    for flags in [(), ("bad_header",), ("bad_body",), ("not_wf",)]:
        for name in (NAMES if thorough else rng.sample(NAMES, 3)):
            for pre in ([None, "same", "stale"] if (thorough or rng.random() < 0.5) else [None]):
                c += 1
                scns.append({"name": name, "c": c, "flags": flags, "pre": pre})
    extra = 40 if thorough else 4
    for _ in range(extra):
        c += 1
        scns.append({"name": rng.choice(NAMES), "c": c, "flags": rng.choice([(), (), ("bad_header",), ("bad_body",), ("not_wf",)]),
                     "pre": rng.choice([None, None, "same", "stale"])})
    return scns


def check_solo(run, sc, i, scn):
    name, c, flags, pre = scn["name"], scn["c"], scn["flags"], scn["pre"]

    def setup(tag):
        dr = Dir(sc, tag)
        dr.put(name, c, flags)
        known = {name: {"kind": "doc", "c": c}}
        if pre:
            h = c if pre == "same" else c + 500
            dr.put_side(name, h)
            known[name + PR.SUFFIX] = {"kind": "side", "g": 99, "h": h}
        return dr, known

    dr, known = setup("s%d_free" % i)
    before = PR.snapshot(dr.d)
    outcome, res, raw = real_run("parse_xml", [dr.path(name)])
    after = PR.snapshot(dr.d)
    plan = [(None, None)] + [(j, m) for j, (lab, _) in enumerate(raw) if lab not in PR.NOT_FAULTABLE
                             for m in (["raise", "partial", "interrupt", "partial-interrupt"] if lab == "write" else ["raise", "interrupt"] if lab == "create" else ["raise"])]
    ops = []
    for j, mode in plan:
        k = PR.op_index_of_raw(raw, j) if j is not None else None
        ops.append({"op": "proto.solo", "files": model_files(dr.d, known) if j is None else None, "sem": sem_of(dr.contents),
                    "xml": name, "faults": [] if k is None else [k]})
    start_files = [dict(v, path=k) for k, v in sorted(known.items())]
    for o in ops:
        o["files"] = start_files
    outs = run.driver.batch(ops)
    for (j, mode), mo in zip(plan, outs):
        case = {"scenario": scn, "failing_call": None if j is None else {"index": j, "call": raw[j][0], "mode": mode}}
        run.case(case, nontrivial=len(raw) > 1, tag="solo:" + ("free" if j is None else raw[j][0]))
        run.compared += 1
        if j is None:
            o2, raw2, b2, a2, d2 = outcome, raw, before, after, dr
        else:
            d2, _ = setup("s%d_f%d%s" % (i, j, mode.replace("-", "")))
            b2 = PR.snapshot(d2.d)
            o2, _, raw2 = real_run("parse_xml", [d2.path(name)], {j: mode})
            a2 = PR.snapshot(d2.d)
        # ---- the property on the real code
        problems = []
        if a2.get(name) != b2[name]:
            problems.append("input %r modified or removed by the call" % name)
        if pre is None:
            left = sorted(set(a2) - set(b2))
            if left:
                problems.append("helper file(s) left behind: %r" % left)
            if j is not None and raw[j][0] not in PR.SWALLOWED and o2 != {"err": "fault"}:
                problems.append("the injected failure did not surface: outcome %r" % (o2,))
            if not problems:
                # a later parse reflects the current content
                d2.put(name, c + 1000)
                o3, res3, _ = real_run("parse_xml", [d2.path(name)])
                lone = lone_fp(run, sc, name, c + 1000)
                if res3 is None or PR.fingerprint(res3) != lone:
                    problems.append("after the failed call and an edit, the next parse does not give the lone result of the new content: %r" % (o3,))
                if listing(d2.d) != [name]:
                    problems.append("after the second parse the directory holds %r" % listing(d2.d))
        if problems:
            run.violation(case, {"what": "; ".join(problems), "outcome": o2, "before": sorted(b2), "after": sorted(a2), "calls": raw2})
            shutil.rmtree(d2.d, ignore_errors=True)
            return False
        # ---- correspondence with the model
        impl_view = {"outcome": {k: v for k, v in o2.items() if k != "exc"}, "trace": PR.canon_trace(raw2),
                     "files": sorted(set(a2) if pre is not None or True else [])}
        if pre is None:
            impl_view["files"] = sorted(b2)     # the second parse above changed the directory; the state after the call was checked equal to b2
        model_view = {"outcome": mo["outcome"], "trace": mo["trace"], "files": model_listing(mo["files"])}
        if impl_view != model_view:
            run.disagree(case, model_view, impl_view)
        if j is not None:
            shutil.rmtree(d2.d, ignore_errors=True)
    shutil.rmtree(dr.d, ignore_errors=True)
    return True


_LONE = {}


def lone_fp(run, sc, name, c):
    key = (name, c)
    if key not in _LONE:
        from opcua_tools import nodeset_parser as npm
        d = sc.sub("lone_%d_%d" % (len(_LONE), c))
        p = os.path.join(d, name)
        open(p, "w", encoding="utf-8").write(PR.doc_text(c))
        try:
            _LONE[key] = PR.fingerprint(npm.parse_xml(p))
        except Exception as e:  # noqa: BLE001
            _LONE[key] = ("lone parse raised", type(e).__name__)
        shutil.rmtree(d, ignore_errors=True)
    return _LONE[key]


def check_history(run, sc, i, length):
    rng = run.rng
    name = rng.choice(NAMES[:3])
    dr = Dir(sc, "h%d" % i)
    c = 100 + i * 50
    dr.put(name, c)
    cur, cur_flags = c, ()
    ops, real_out = [], []
    case = {"history": [], "name": name, "start": c}
    contents = {c: ()}
    for _ in range(length):
        kind = rng.choice(["edit", "parse", "parse", "fault", "fault", "remove"])
        if kind == "edit":
            c += 1
            cur, cur_flags = c, rng.choice([(), (), ("bad_header",), ("bad_body",), ("not_wf",)])
            contents[c] = cur_flags
            dr.put(name, cur, cur_flags)
            ops.append({"k": "edit", "c": cur})
            case["history"].append(["edit", cur, list(cur_flags)])
            continue
        if kind == "remove":
            if os.path.exists(dr.path(name)):
                os.remove(dr.path(name))
            cur = None
            ops.append({"k": "remove"})
            case["history"].append(["remove"])
            continue
        before = PR.snapshot(dr.d)
        o, res, raw = real_run("parse_xml", [dr.path(name)])
        ops.append({"k": "parse"})
        case["history"].append(["parse"])
        real_out.append({k: v for k, v in o.items() if k != "exc"})
        problems = []
        if PR.snapshot(dr.d) != before:
            problems.append("directory changed by a parse: %r -> %r" % (sorted(before), listing(dr.d)))
        if cur is not None and not cur_flags and (res is None or PR.fingerprint(res) != lone_fp(run, sc, name, cur)):
            problems.append("parse does not return the lone result of the current content %d: %r" % (cur, o))
        if kind == "fault" and not problems:
            cand = [j for j, (lab, _) in enumerate(raw) if lab not in PR.NOT_FAULTABLE]
            j = rng.choice(cand)
            k = PR.op_index_of_raw(raw, j)
            mode = "partial" if raw[j][0] == "write" and rng.random() < 0.5 else "raise"
            o2, _, raw2 = real_run("parse_xml", [dr.path(name)], {j: mode})
            ops.append({"k": "parse", "fault": k})
            case["history"].append(["parse", {"failing_call": j, "call": raw[j][0], "mode": mode}])
            real_out.append({k_: v for k_, v in o2.items() if k_ != "exc"})
            if PR.snapshot(dr.d) != before:
                problems.append("directory changed by a failing parse (call %d %s): %r -> %r" % (j, raw[j][0], sorted(before), listing(dr.d)))
        if problems:
            run.case(case, tag="history")
            run.violation(case, {"what": "; ".join(problems)})
            return False
    run.case(case, nontrivial=len(real_out) > 1, tag="history")
    run.compared += 1
    mo = run.driver.ask({"op": "proto.history", "files": [{"path": name, "kind": "doc", "c": case["start"]}], "sem": sem_of(contents),
                         "xml": name, "ops": ops})
    impl_view = {"outcomes": real_out, "files": listing(dr.d)}
    model_view = {"outcomes": mo["outcomes"], "files": model_listing(mo["files"])}
    if impl_view != model_view:
        run.disagree(case, model_view, impl_view)
    shutil.rmtree(dr.d, ignore_errors=True)
    return True


def check_many(run, sc, i):
    """several files in one call: trace/outcome vs the model, and every fault position vs the property"""
    rng = run.rng
    n = rng.randint(2, 3)
    bad_at = rng.choice([None, None] + list(range(n)))
    bad_kind = rng.choice(["bad_header", "bad_body", "not_wf"])

    def setup(tag):
        dr = Dir(sc, tag)
        names = []
        for k in range(n):
            nm = "f%d.xml" % k
            dr.put(nm, 700 + 10 * i + k, (bad_kind,) if k == bad_at else ())
            names.append(nm)
        return dr, names

    api = rng.choice(["parse_xml_files", "parse_xml_dir"])
    dr, names = setup("m%d" % i)
    case = {"api": api, "files": names, "bad": None if bad_at is None else [bad_at, bad_kind]}
    before = PR.snapshot(dr.d)
    o, res, raw = real_run(api, [dr.path(x) for x in names])
    run.case(case, tag="many")
    run.compared += 1
    if PR.snapshot(dr.d) != before:
        run.violation(case, {"what": "directory changed by %s: %r -> %r" % (api, sorted(before), listing(dr.d)), "calls": raw})
        return False
    mo = run.driver.ask({"op": "proto.many", "files": [{"path": x, "kind": "doc", "c": 700 + 10 * i + k} for k, x in enumerate(names)],
                         "sem": sem_of(dr.contents), "inputs": names})
    last = mo["outcomes"][-1]
    model_view = {"outcome": "ok" if "ok" in last else last, "count": len(mo["outcomes"]), "files": model_listing(mo["files"])}
    # the real trace has one "isfile" per file that was started
    impl_view = {"outcome": "ok" if "ok" in o else {k: v for k, v in o.items() if k != "exc"},
                 "count": sum(1 for lab, _ in raw if lab == "isfile"), "files": listing(dr.d)}
    if impl_view != model_view:
        run.disagree(case, model_view, impl_view)
    for j, (lab, _) in enumerate(raw):
        if lab in PR.NOT_FAULTABLE:
            continue
        d2, names2 = setup("m%d_f%d" % (i, j))
        b2 = PR.snapshot(d2.d)
        o2, _, raw2 = real_run(api, [d2.path(x) for x in names2], {j: "raise"})
        c2 = dict(case, failing_call={"index": j, "call": lab})
        run.case(c2, tag="many:" + lab)
        if PR.snapshot(d2.d) != b2 or (o2 != {"err": "fault"} and lab not in PR.SWALLOWED):
            run.violation(c2, {"what": "%s with call %d (%s) failing: directory %r -> %r, outcome %r" % (api, j, lab, sorted(b2), listing(d2.d), o2), "calls": raw2})
            return False
        shutil.rmtree(d2.d, ignore_errors=True)
    shutil.rmtree(dr.d, ignore_errors=True)
    return True


def check_filtered(run, sc, i):
    """the list entry points with the optional `namespaces` argument (files whose model URI is not listed are left out):
    whether a file is parsed or left out, the directory holds afterwards exactly what it held — also when a call fails —
    and a later parse sees the current content"""
    from opcua_tools import nodeset_parser as npm
    rng = run.rng
    n = 3
    cs = [7500 + 10 * i + k for k in range(n)]
    keep = sorted(rng.sample(range(n), rng.randint(1, 2)))
    bad_at = rng.choice([None, None, 0, 1, 2])
    api = rng.choice(["parse_xml_files", "parse_xml_dir"])

    def setup(tag):
        dr = Dir(sc, tag)
        for k in range(n):
            dr.put("f%d.xml" % k, cs[k], ("not_wf",) if k == bad_at and k in keep else ())
        return dr

    def fn(dr):
        nss = [UA] + ["urn:c%d" % cs[k] for k in keep]
        if api == "parse_xml_dir":
            return lambda: npm.parse_xml_dir(dr.d, list(nss))
        return lambda: npm.parse_xml_files([dr.path("f%d.xml" % k) for k in range(n)], list(nss))

    def go(dr, faults=None):
        ctl = PR.Ctl()
        if faults:
            ctl.faults = {0: dict(faults)}
        with PR.Patched(ctl):
            o, res = PR.outcome_of(fn(dr), ctl)
        return o, res, ctl.raw.get(0, [])

    dr = setup("flt%d" % i)
    before = PR.snapshot(dr.d)
    o, res, raw = go(dr)
    case = {"api": api + " with namespaces", "files": ["f%d.xml" % k for k in range(n)], "listed": keep, "not_well_formed": bad_at if bad_at in keep else None}
    run.case(case, tag="filtered")
    if PR.snapshot(dr.d) != before:
        run.violation(case, {"what": "directory changed by %s(…, namespaces): %r -> %r" % (api, sorted(before), listing(dr.d)), "outcome": o, "calls": raw})
        return False
    # after the (possibly failed) call: edit a listed file and parse it alone — the result is that of the new content
    k0 = keep[0]
    dr.put("f%d.xml" % k0, cs[k0] + 3)
    o3, res3, _ = real_run("parse_xml", [dr.path("f%d.xml" % k0)])
    if res3 is None or PR.fingerprint(res3) != lone_fp(run, sc, "f%d.xml" % k0, cs[k0] + 3):
        run.violation(case, {"what": "after %s(…, namespaces) and an edit of f%d.xml, parsing it does not give the lone result of its new content: %r" % (api, k0, o3)})
        return False
    idx = [j for j, (lab, _) in enumerate(raw) if lab not in PR.NOT_FAULTABLE]
    for j in (idx if run.tier == "thorough" else rng.sample(idx, min(len(idx), 6))):
        d2 = setup("flt%d_f%d" % (i, j))
        b2 = PR.snapshot(d2.d)
        o2, _, raw2 = go(d2, {j: "raise"})
        c2 = dict(case, failing_call={"index": j, "call": raw[j][0]})
        run.case(c2, tag="filtered:" + raw[j][0])
        if PR.snapshot(d2.d) != b2:
            run.violation(c2, {"what": "%s(…, namespaces) with call %d (%s) failing: directory %r -> %r, outcome %r" % (api, j, raw[j][0], sorted(b2), listing(d2.d), o2), "calls": raw2})
            return False
        shutil.rmtree(d2.d, ignore_errors=True)
    shutil.rmtree(dr.d, ignore_errors=True)
    return True


def check_from_path(run, sc, i):
    from opcua_tools.ua_graph import UAGraph

    def setup(tag):
        d = sc.sub(tag)
        sc.write(d, {"a.xml": minibase.DOC_A})
        return d

    d = setup("g%d" % i)
    before = PR.snapshot(d)
    ctl = PR.Ctl()
    with PR.Patched(ctl):
        o, _ = PR.outcome_of(lambda: {"nodes": UAGraph.from_path(d).nodes, "namespaces": []}, ctl)
    raw = ctl.raw.get(0, [])
    case = {"api": "UAGraph.from_path", "files": sorted(before)}
    run.case(case, tag="from_path")
    if PR.snapshot(d) != before or "ok" not in o:
        run.violation(case, {"what": "UAGraph.from_path: directory %r -> %r, outcome %r" % (sorted(before), listing(d), o), "calls": raw})
        return False
    idx = [j for j, (lab, _) in enumerate(raw) if lab not in PR.NOT_FAULTABLE]
    if run.tier != "thorough":
        idx = run.rng.sample(idx, min(len(idx), 8))
    for j in idx:
        d2 = setup("g%d_f%d" % (i, j))
        ctl = PR.Ctl()
        ctl.faults = {0: {j: "raise"}}
        with PR.Patched(ctl):
            o2, _ = PR.outcome_of(lambda: {"nodes": UAGraph.from_path(d2).nodes, "namespaces": []}, ctl)
        c2 = dict(case, failing_call={"index": j, "call": raw[j][0]})
        run.case(c2, tag="from_path:" + raw[j][0])
        if PR.snapshot(d2) != before or (o2 != {"err": "fault"} and raw[j][0] not in PR.SWALLOWED):
            run.violation(c2, {"what": "UAGraph.from_path with call %d (%s) failing: directory -> %r, outcome %r" % (j, raw[j][0], listing(d2), o2)})
            return False
        shutil.rmtree(d2, ignore_errors=True)
    shutil.rmtree(d, ignore_errors=True)
    return True


def check_paths(run, sc, i):
    """the same input named in other ways — through a symbolic link in another directory, with `..` in the path:
    the call returns what it returns for the plain path, and both directories hold afterwards exactly what they held"""
    rng = run.rng
    c = 7000 + i
    store, links = sc.sub("store%d" % i), sc.sub("links%d" % i)
    os.makedirs(os.path.join(store, "sub"), exist_ok=True)
    real = os.path.join(store, "plant.xml")
    open(real, "w", encoding="utf-8").write(PR.doc_text(c))
    variants = {"dotdot": os.path.join(store, "sub", "..", "plant.xml")}
    try:
        os.symlink(real, os.path.join(links, "current.xml"))
        variants["symlink to the file"] = os.path.join(links, "current.xml")
        os.symlink(store, os.path.join(links, "dir"))
        variants["symlinked directory"] = os.path.join(links, "dir", "plant.xml")
    except OSError:
        pass
    lone = lone_fp(run, sc, "plant.xml", c)
    for how, path in variants.items():
        before = (PR.snapshot(store), sorted(os.listdir(links)))
        o, res, raw = real_run("parse_xml", [path])
        case = {"input_named_by": how, "path": path.replace(sc.dir, "<scratch>")}
        run.case(case, tag="path:" + how)
        problems = []
        if (PR.snapshot(store), sorted(os.listdir(links))) != before:
            problems.append("directories %r / %r -> %r / %r" % (sorted(before[0]), before[1], listing(store), sorted(os.listdir(links))))
        if res is None or PR.fingerprint(res) != lone:
            problems.append("the call does not return the lone result: %r" % (o,))
        if not problems:
            # … and with one operation failing
            idx = [j for j, (lab, _) in enumerate(raw) if lab not in PR.NOT_FAULTABLE and lab not in PR.SWALLOWED]
            for j in rng.sample(idx, min(len(idx), 3)):
                o2, _, _ = real_run("parse_xml", [path], {j: "raise"})
                if (PR.snapshot(store), sorted(os.listdir(links))) != before:
                    problems.append("with call %d (%s) failing: directories -> %r / %r" % (j, raw[j][0], listing(store), sorted(os.listdir(links))))
                    break
        if problems:
            run.violation(case, {"what": "; ".join(problems), "calls": raw})
            return False
    shutil.rmtree(store, ignore_errors=True)
    shutil.rmtree(links, ignore_errors=True)
    return True


def explore(run):
    missing = PR.hooks_present()
    thorough = run.tier == "thorough"
    with minibase.Scratch() as sc:
        if missing:
            run.disagree({"interception": missing}, "the parse path uses module-level os / ET / json", "names not found: %r" % missing)
            return
        for i, scn in enumerate(solo_scenarios(run)):
            if not check_solo(run, sc, i, scn):
                return
        for i in range(60 if thorough else 10):
            if not check_history(run, sc, i, 40 if thorough else 12):
                return
        for i in range(20 if thorough else 5):
            if not check_many(run, sc, i):
                return
        for i in range(3 if thorough else 1):
            if not check_from_path(run, sc, i):
                return
        for i in range(10 if thorough else 2):
            if not check_paths(run, sc, i):
                return
        for i in range(40 if thorough else 6):
            if not check_filtered(run, sc, i):
                return


def search_missing(run, disagreements):
    """the correspondence broke: look for a real failing input with the property oracle alone"""
    with minibase.Scratch() as sc:
        for i, scn in enumerate(solo_scenarios(run)):
            if not check_solo(run, sc, 1000 + i, scn):
                return
        for i in range(10):
            if not check_history(run, sc, 1000 + i, 20) or not check_many(run, sc, 1000 + i):
                return


def replay(run, path):
    body = json.load(open(path))
    print("case:", json.dumps(body["case"], ensure_ascii=False, default=str)[:2000])
    print("recorded detail:", json.dumps(body["detail"], default=str, ensure_ascii=False)[:3000])
    case = body["case"]
    if "scenario" in case:
        with minibase.Scratch() as sc:
            scn = case["scenario"]
            scn["flags"] = tuple(scn["flags"])
            ok = check_solo(run, sc, 0, scn)
            print("re-run of the scenario:", "holds now" if ok else "fails again")
    print("VIOLATION property=C19 replay=%s" % path)
    return 1

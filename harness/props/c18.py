"""C18 — model and namespace metadata are reported faithfully and consistently."""
import json
import os
from xml.sax.saxutils import escape, quoteattr

import docs as D
import gen
import minibase
import parse_run as P

UA = minibase.UA
MODULE = "OpcuaModel.Props.C18"
TRUSTED_BASE = [
    "Lean 4.33.0 kernel; axioms audited (subset of propext, Classical.choice, Quot.sound)",
    "hand model Model/Meta.lean (nsDataXml, sideLines, nsDataJson, xmlNamespaces, excludeFiles) and Model/Parse.lean (models of a document) tied to /repo by this correspondence run",
    "lxml infoset; Python set / list semantics as modelled; driver, harness, document builder",
]
ASSUMPTIONS = [
    "NamespaceUris precedes Models (schema order); header comments and ServerUris are skipped by the pre-processing (fixed defects D-C18b,c are in the corpus)",
    "recorded finding D-C18a: non-UA model and no NamespaceUris element",
]
RULE = ("documents with 0 / 1 / several required models, missing optional attributes, 0-4 NamespaceUris in any order, with and without the own URI listed, "
        "comments and ServerUris in the header, base-namespace documents under any file name, any filter list incl. None and unknown URIs; "
        "distinct = distinct document or (file list, filter); non-trivial = >= 1 NamespaceUris entry or required model")


def build(rng):
    own = rng.choice(["urn:own", "http://x.example/a?b=1&c=2", UA, "urn:own2"])
    uris = rng.sample(["urn:own", "urn:dep1", "http://dep2.example/", UA, "urn:own2", "http://x.example/a?b=1&c=2"], rng.randint(0, 4))
    has_ns = rng.random() < 0.85
    n_models = rng.choice([0, 1, 1, 1, 2])
    models = []
    for i in range(n_models):
        u = own if i == 0 else "urn:second"
        models.append({"uri": u, "version": rng.choice(["1.0", None]), "publication_date": rng.choice(["2020-01-01T00:00:00Z", None]),
                       "required": [{"uri": rng.choice([UA, "urn:dep1"]), "version": rng.choice(["1.04", None]),
                                     "publication_date": rng.choice(["2019-05-01T00:00:00Z", None])} for _ in range(rng.choice([0, 1, 2, 3]))]})
    cm = lambda: "<!-- c -->" if rng.random() < 0.2 else ""   # noqa: E731
    t = ['<?xml version="1.0" encoding="utf-8"?>', '<UANodeSet xmlns="http://opcfoundation.org/UA/2011/03/UANodeSet.xsd">', cm()]
    if has_ns:
        t.append("<NamespaceUris>%s</NamespaceUris>" % "".join("<Uri>%s</Uri>" % escape(u) for u in uris))
        if rng.random() < 0.15:
            t.append("<ServerUris><Uri>urn:server</Uri></ServerUris>")
    t.append(cm())
    if models:
        def attrs(m):
            a = " ModelUri=%s" % quoteattr(m["uri"])
            if m["version"] is not None:
                a += ' Version="%s"' % m["version"]
            if m["publication_date"] is not None:
                a += ' PublicationDate="%s"' % m["publication_date"]
            return a
        t.append("<Models>%s</Models>" % "".join("<Model%s>%s</Model>" % (attrs(m), "".join("<RequiredModel%s/>" % attrs(r) for r in m["required"])) for m in models))
    t.append("<Aliases><Alias Alias=\"HasComponent\">i=47</Alias></Aliases>")
    k = (uris.index(own) + 1) if (has_ns and own in uris) else 0
    nid = ("ns=%d;" % k if k else "") + "i=%d" % rng.randint(5000, 5999)
    t.append('<UAObject NodeId="%s" BrowseName="%d:o"><DisplayName>o</DisplayName><References><Reference ReferenceType="HasComponent" IsForward="false">i=85</Reference></References></UAObject>' % (nid, k))
    t.append("</UANodeSet>")
    name = rng.choice(["a.xml", "b.xml", "Opc.Ua.NodeSet2.xml", "My.Opc.Ua.NodeSet2.xml", "z.xml"])
    return {"name": name, "text": "\n".join(t), "own": own, "uris": uris if has_ns else [], "has_ns": has_ns, "models": models}


def impl_helpers(path):
    from opcua_tools.json_parser import namespaces as jn
    from opcua_tools.json_parser import parse as jp
    from opcua_tools.nodeset_parser import get_namespace_data_from_file, get_xml_namespaces
    out = {}
    try:
        r = get_namespace_data_from_file(path)
        out["xml"] = {"name": r["name"], "included": sorted(r["included_namespaces"])}
    except Exception as e:  # noqa: BLE001
        out["xml"] = {"err": type(e).__name__}
    side = path + "_parsed.json"
    try:
        if not path.endswith("Opc.Ua.NodeSet2.xml"):
            jp.pre_process_xml_to_json(path)
        r = jn.get_namespace_data_from_file(path)
        out["json"] = {"name": r["name"], "included": sorted(r["included_namespaces"])}
    except Exception as e:  # noqa: BLE001
        out["json"] = {"err": type(e).__name__}
    finally:
        if os.path.exists(side):
            os.remove(side)
    try:
        out["namespaces"] = get_xml_namespaces(path)
    except Exception as e:  # noqa: BLE001
        out["namespaces"] = {"err": type(e).__name__}
    return out


def canon_model(mo):
    def f(x):
        if "err" in x:
            return {"err": x["err"]}
        return {"name": x["name"], "included": sorted(x["included"])}
    return {"xml": f(mo["xml"]), "json": f(mo["json"]), "namespaces": mo["namespaces"]}


def doc_cases(run, sc, n):
    rng = run.rng
    docs_ = []
    for i in range(n):
        b = build(rng)
        d = sc.sub("d%d" % i)
        path = os.path.join(d, b["name"])
        open(path, "w", encoding="utf-8").write(b["text"])
        case = {"file": b["name"], "text": b["text"]}
        run.case({"doc": i, "name": b["name"], "uris": len(b["uris"]), "models": len(b["models"])}, nontrivial=bool(b["uris"] or b["models"]), tag="doc")
        run.compared += 1
        io = impl_helpers(path)
        info = D.infoset(b["text"])
        mo = run.driver.ask({"op": "meta.nsdata", "file": {"name": b["name"], "has_ns_uris": b["has_ns"], "doc": dict(info, nodes=[])}})
        # ---- the property on the real code
        is_base_name = b["name"].endswith("Opc.Ua.NodeSet2.xml")
        problems = []
        if is_base_name:
            want = {"name": UA, "included": []}
        elif not b["models"]:
            want = {"err": "ValueError"}
        else:
            first = b["models"][0]["uri"]
            inc = set() if first == UA else {UA}
            inc |= {u for u in b["uris"] if u != first}
            want = {"name": first, "included": sorted(inc)}
        if io["xml"] != want:
            problems.append("XML helper: %r, expected %r" % (io["xml"], want))
        if io["json"] != io["xml"]:
            non_ua_no_ns = (not is_base_name) and b["models"] and b["models"][0]["uri"] != UA and not b["has_ns"]
            if non_ua_no_ns and io["json"] == {"err": "ValueError"} and run.known("D-C18a"):
                run.count("known:D-C18a")
            else:
                problems.append("the two helpers disagree: xml %r, json %r" % (io["xml"], io["json"]))
        want_ns = ["http://opcfoundation.org/UA", UA] if is_base_name else [m["uri"] for m in b["models"]]
        if io["namespaces"] != want_ns:
            problems.append("get_xml_namespaces: %r, expected %r" % (io["namespaces"], want_ns))
        # models in the parse output
        pr = P.impl_parse_files([path])
        if "err" not in pr:
            got = [{"uri": m["uri"], "version": m["version"], "publication_date": m["publication_date"],
                    "required": [{"uri": r["uri"], "version": r["version"], "publication_date": r["publication_date"]} for r in m["required_models"]]}
                   for m in pr["models"]]
            if got != b["models"]:
                problems.append("parse output models %r, declared %r" % (got, b["models"]))
        elif not (b["name"] != "x" and (not b["models"] and False)):
            # a document that cannot be parsed at all is outside C18 unless it is well formed and complete
            if b["models"] and (b["own"] == UA or b["own"] in b["uris"] or True):
                problems.append("parse failed: %r" % (pr,))
        if problems:
            run.violation(case, {"what": "; ".join(problems)[:1500]})
            return docs_
        if canon_model(mo) != io:
            run.disagree(case, canon_model(mo), io)
        docs_.append((b, path, info))
    return docs_


def filter_cases(run, docs_, n):
    from opcua_tools.nodeset_parser import exclude_files_not_in_namespaces
    rng = run.rng
    pool = [UA, "urn:own", "urn:own2", "urn:second", "urn:dep1", "urn:nope", None, "http://opcfoundation.org/UA", "http://x.example/a?b=1&c=2"]
    ops, plan = [], []
    for i in range(n):
        sel = rng.sample(docs_, min(len(docs_), rng.randint(1, 5)))
        nss = [rng.choice(pool) for _ in range(rng.randint(0, 4))]
        plan.append((sel, nss))
        ops.append({"op": "meta.filter", "namespaces": nss,
                    "files": [{"name": p, "has_ns_uris": b["has_ns"], "doc": dict(info, nodes=[])} for b, p, info in sel]})
    outs = run.driver.batch(ops)
    for (sel, nss), mo in zip(plan, outs):
        paths = [p for _, p, _ in sel]
        run.case({"filter": nss, "files": [os.path.basename(p) for p in paths]}, tag="filter")
        run.compared += 1
        try:
            io = exclude_files_not_in_namespaces(list(paths), list(nss))
        except Exception as e:  # noqa: BLE001
            io = {"err": type(e).__name__}
        want = []
        for b, p, _ in sel:
            fns = ["http://opcfoundation.org/UA", UA] if p.endswith("Opc.Ua.NodeSet2.xml") else [m["uri"] for m in b["models"]]
            if any(u in fns for u in nss if u):
                want.append(p)
        if io != want:
            run.violation({"filter": nss, "files": paths}, {"what": "exclude_files_not_in_namespaces does not keep exactly the files with a listed model URI", "impl": io, "expected": want})
            return
        if mo["kept"] != io:
            run.disagree({"filter": nss, "files": paths}, mo, io)


def multi_file_cases(run, docs_, n):
    """several documents parsed together: the output lists every document's models, document after document
    (in the order the files are read: sorted by path), also when two documents declare the same model URI"""
    rng = run.rng
    for i in range(n):
        sel = rng.sample(docs_, min(len(docs_), rng.randint(2, 4)))
        if rng.random() < 0.5:
            # make sure two of them declare the same model URI
            same = [x for x in docs_ if x[0]["models"] and sel[0][0]["models"] and x[0]["models"][0]["uri"] == sel[0][0]["models"][0]["uri"] and x[1] != sel[0][1]]
            if same:
                sel = sel + [rng.choice(same)]
        sel = list({p: (b, p, info) for b, p, info in sel}.values())
        paths = [p for _, p, _ in sel]
        rng.shuffle(paths)
        uris = [m["uri"] for b, _, _ in sel for m in b["models"]]
        run.case({"multi": [os.path.basename(os.path.dirname(p)) + "/" + os.path.basename(p) for p in paths]}, nontrivial=len(set(uris)) < len(uris), tag="multi" + (":shared-uri" if len(set(uris)) < len(uris) else ""))
        by_path = {p: b for b, p, _ in sel}
        flt = None
        if rng.random() < 0.5:
            # with the optional namespaces argument: only the files one of whose model URIs is listed are read at all —
            # also when a listed file names an unlisted one among its NamespaceUris
            listed = [u for u in dict.fromkeys(uris) if rng.random() < 0.5]
            if listed:
                flt = [UA] + listed
        pr = P.impl_parse_files(list(paths), flt)
        if "err" in pr:
            run.count("multi:unparseable")
            continue

        def kept(p_):
            fns = ["http://opcfoundation.org/UA", UA] if p_.endswith("Opc.Ua.NodeSet2.xml") else [m["uri"] for m in by_path[p_]["models"]]
            return flt is None or any(u in fns for u in flt)
        want = [m for p in sorted(paths) if kept(p) for m in by_path[p]["models"]]
        got = [{"uri": m["uri"], "version": m["version"], "publication_date": m["publication_date"],
                "required": [{"uri": r["uri"], "version": r["version"], "publication_date": r["publication_date"]} for r in m["required_models"]]}
               for m in pr["models"]]
        if got != want:
            run.violation({"files": {p: by_path[p]["text"] for p in sorted(paths)}},
                          {"what": "parse_xml_files over several documents does not list exactly the models of the documents it was asked for, as declared", "namespaces": flt, "impl": got, "expected": want,
                           "call": "opcua_tools.parse_xml_files(files)['models']"})
            return


def explore(run):
    thorough = run.tier == "thorough"
    with minibase.Scratch() as sc:
        docs_ = doc_cases(run, sc, 6000 if thorough else 180)
        if run.full() or not docs_:
            return
        multi_file_cases(run, docs_, 1500 if thorough else 60)
        if run.full():
            return
        filter_cases(run, docs_, 5000 if thorough else 200)


def search_missing(run, disagreements):
    with minibase.Scratch() as sc:
        doc_cases(run, sc, 1500)


def replay(run, path):
    body = json.load(open(path))
    case = body["case"]
    if "text" in case:
        with minibase.Scratch() as sc:
            d = sc.sub("r")
            p = os.path.join(d, case["file"])
            open(p, "w", encoding="utf-8").write(case["text"])
            print("helpers now:", json.dumps(impl_helpers(p), default=str))
    print("recorded detail:", json.dumps(body["detail"], default=str, ensure_ascii=False)[:3000])
    print("VIOLATION property=C18 replay=%s" % path)
    return 1

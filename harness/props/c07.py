"""C07 — written NodeSets are well-formed, schema-valid and self-contained."""
import json

import docs as D
import minibase
import writecheck as W
from props import c06

UA = minibase.UA
MODULE = "OpcuaModel.Props.C07"
TRUSTED_BASE = [
    "Lean 4.33.0 kernel; axioms audited (subset of propext, Classical.choice, Quot.sound)",
    "hand model Model/Write.lean (openText, refPiece, nodeText, renderDoc = the strings generate_nodes_xml / create_header_xml concatenate) and Model/Xml.lean (XmlLite), tied to /repo by this run: the real text is compared with the model's text byte for byte up to the order of sibling nodes and Reference children",
    "XmlLite is a model of 'a conforming XML reader' for the dialect emitted; lxml decides well-formedness of the real output and lxml's XMLSchema with the bundled UANodeSet.xsd decides schema validity (the schema itself is not transcribed into Lean)",
    "driver JSON decoding, harness, generator",
]
ASSUMPTIONS = [
    "XML 1.0 limits that are not the repository's: characters outside Char, CR, and TAB/LF inside attribute values are not generated",
    "schema validity is decided by lxml on every generated document, not proved; the document-level (header + body) reading is proved per node element (node_wellformed) and checked by lxml for the whole text",
    "recorded finding D-C07e: a NodeId-typed Value with XML-special characters is written unescaped (same root cause as D-C08c)",
]
RULE = ("closed graphs with hostile text (< > & quotes ]]> : ; = non-ASCII) in every textual position (NodeIds, browse names, display names, "
        "descriptions, symbolic names, namespace and model URIs, values), every non-base namespace written; distinct = distinct (graph, namespace); "
        "non-trivial = the namespace owns a node with hostile text")


def check(run, G, gj, uri, case, sch):
    import lxml.etree as ET
    io = W.impl_write(G, uri, True)
    mo = W.model_write(run, gj, uri, True)
    run.compared += 1
    if "err" in io:
        if "err" not in mo:
            run.violation(case, {"what": "write_nodeset raised", "impl": io})
        return
    text = io["text"]
    try:
        text.encode("utf-8")
        root = ET.fromstring(text.encode("utf-8"))
    except (ET.XMLSyntaxError, UnicodeError) as e:
        run.violation(case, {"what": "written document is not well-formed UTF-8 XML", "error": str(e)[:300],
                             "call": "UAGraph.write_nodeset(StringIO, %r)" % uri})
        return
    if not sch.validate(root):
        run.violation(case, {"what": "written document does not validate against UANodeSet.xsd", "error": str(sch.error_log.last_error)[:400]})
        return
    doc = W.read_doc(text)
    problems = []
    if not doc["uris"] or doc["uris"][0] != uri:
        problems.append("the written namespace is not first in NamespaceUris")
    if not any(m["uri"] == uri for m in doc["models"]):
        problems.append("no Model element with the written namespace's URI")
    blob = json.dumps([[n["id"], n["browse_ns"], n["attrs"], n["refs"]] for n in doc["nodes"]], default=str)
    if "<undeclared index" in blob:
        problems.append("a NodeId or browse name uses a namespace index the document does not declare")
    if problems:
        run.violation(case, {"what": "; ".join(problems), "uris": doc["uris"]})
        return
    # the same write with the dates left to the library (time stamps taken from the clock, so no byte comparison):
    # still well-formed and schema-valid
    import io as _io
    buf = _io.StringIO()
    try:
        G.write_nodeset(buf, uri, include_outgoing_instance_level_references=True)
    except Exception as e:  # noqa: BLE001
        run.violation(case, {"what": "write_nodeset without dates raised although the write with dates succeeds", "impl": type(e).__name__ + ": " + str(e)[:300]})
        return
    text2 = buf.getvalue()
    try:
        root2 = ET.fromstring(text2.encode("utf-8"))
        ok2 = sch.validate(root2)
        err2 = None if ok2 else str(sch.error_log.last_error)[:400]
    except (ET.XMLSyntaxError, UnicodeError) as e:
        ok2, err2 = False, "not well-formed: " + str(e)[:300]
    if not ok2:
        run.violation(case, {"what": "the document written without explicit dates is not a valid NodeSet2 document", "error": err2,
                             "call": "UAGraph.write_nodeset(StringIO, %r)  (no last_modified / publication_date)" % uri})
        return
    # byte level against the model
    if "err" in mo:
        run.disagree(case, mo, {"ok": True})
        return
    a, b = W.split_text(text), W.split_text(mo["text"])
    if a != b:
        k = next((i for i, (x, y) in enumerate(zip(a[1], b[1])) if x != y), None)
        run.disagree(case, {"header": b[0][-300:], "node": None if k is None else b[1][k][:600]},
                     {"header": a[0][-300:], "node": None if k is None else a[1][k][:600]})


def witness(run, sc, sch):
    """D-C07e: a NodeId value with markup characters"""
    doc = minibase.DOC_A.replace("<Double xmlns=\"http://opcfoundation.org/UA/2008/02/Types.xsd\">1.5</Double>",
                                 "<NodeId xmlns=\"http://opcfoundation.org/UA/2008/02/Types.xsd\">\n<Identifier>s=a&lt;b</Identifier></NodeId>").replace('DataType="Double"', 'DataType="i=17"')
    try:
        G, _ = W.build_graph(sc, "w", {"a.xml": doc})
        io = W.impl_write(G, "http://a.example/types", True)
        import lxml.etree as ET
        try:
            ET.fromstring(io["text"].encode("utf-8"))
        except ET.XMLSyntaxError:
            run.known("D-C07e")
    except Exception:  # noqa: BLE001
        pass


def ten_namespaces(run, sc, sch):
    """ten namespaces, the last one using the one before it: written namespace indices 8 and 9 (a set of small integers
    holding 0, 1 and 9 does not iterate in ascending order)"""
    files = {}
    for j in range(1, 10):
        uri = "urn:ten:n%d" % j
        extra_uri = '<Uri>urn:ten:n8</Uri>' if j == 9 else ""
        body = '<UAObjectType NodeId="ns=1;i=%d" BrowseName="1:T%d"><DisplayName>T%d</DisplayName><References><Reference ReferenceType="i=45" IsForward="false">i=58</Reference></References></UAObjectType>' % (100 + j, j, j)
        if j == 9:
            body += ('<UAObject NodeId="ns=1;i=500" BrowseName="1:O"><DisplayName>O</DisplayName><References><Reference ReferenceType="i=40">ns=2;i=108</Reference>'
                     '<Reference ReferenceType="i=35" IsForward="false">i=85</Reference></References></UAObject>')
        files["d%d.xml" % j] = ('<?xml version="1.0" encoding="utf-8"?>\n<UANodeSet xmlns="http://opcfoundation.org/UA/2011/03/UANodeSet.xsd"><NamespaceUris><Uri>%s</Uri>%s</NamespaceUris>'
                                '<Models><Model ModelUri="%s" Version="1" PublicationDate="2020-01-01T00:00:00Z"><RequiredModel ModelUri="http://opcfoundation.org/UA/" Version="1.04" PublicationDate="2019-05-01T00:00:00Z"/></Model></Models>'
                                '<Aliases/>%s</UANodeSet>' % (uri, extra_uri, uri, body))
    try:
        G, _ = W.build_graph(sc, "ten", files)
    except Exception as e:  # noqa: BLE001
        run.violation({"files": files}, {"what": "UAGraph.from_path raised on a closed document set", "impl": type(e).__name__ + ": " + str(e)[:300]})
        return
    gj = W.graph_json(G)
    for uri in ("urn:ten:n9", "urn:ten:n8", "urn:ten:n1"):
        run.case({"ten_namespaces": uri}, tag="write:ten-namespaces")
        check(run, G, gj, uri, {"files": files, "uri": uri}, sch)


def explore(run):
    rng = run.rng
    thorough = run.tier == "thorough"
    sch = W.schema()
    with minibase.Scratch() as sc:
        witness(run, sc, sch)
        ten_namespaces(run, sc, sch)
        if run.full():
            return
        for i in range(800 if thorough else 32):
            # the first graphs have ten or more namespaces (two-digit indices; small-integer sets no longer iterate in order)
            g, files = W.gen_closed(rng, hostile=rng.random() < 0.85) if i >= 2 else W.gen_closed(rng, hostile=False, features={"many_ns": True}, n_nodes=3)
            try:
                G, _ = W.build_graph(sc, "g%d" % i, files)
            except Exception as e:  # noqa: BLE001
                run.violation({"files": files}, {"what": "UAGraph.from_path raised on a closed document set", "impl": type(e).__name__ + ": " + str(e)[:300]})
                return
            gj = W.graph_json(G)
            for uri in G.namespaces[1:]:
                run.case({"set": i, "uri": uri}, tag="write")
                check(run, G, gj, uri, {"files": files, "uri": uri}, sch)
                if run.full():
                    return


def search_missing(run, disagreements):
    rng = run.rng
    sch = W.schema()
    with minibase.Scratch() as sc:
        for i in range(200):
            g, files = W.gen_closed(rng, hostile=True)
            G, _ = W.build_graph(sc, "m%d" % i, files)
            gj = W.graph_json(G)
            for uri in G.namespaces[1:]:
                check(run, G, gj, uri, {"files": files, "uri": uri}, sch)
                if run.full():
                    return


def replay(run, path):
    body = json.load(open(path))
    case = body["case"]
    with minibase.Scratch() as sc:
        G, _ = W.build_graph(sc, "r", case["files"])
        check(run, G, W.graph_json(G), case["uri"], case, W.schema())
    for kind, c, detail in run.violations:
        print("VIOLATION property=C07 replay=%s" % path)
        print(json.dumps(detail, default=str, ensure_ascii=False)[:2000])
    for d in run.disagreements:
        print("model/implementation disagreement:", json.dumps(d, default=str, ensure_ascii=False)[:2000])
    return 1 if (run.violations or run.disagreements) else 0

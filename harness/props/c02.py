"""C02 — the references table is exactly the declared relation, oriented forward."""
import json

import docs as D
import minibase
import parse_run as P
import parsecheck as PC

MODULE = "OpcuaModel.Props.C02"
TRUSTED_BASE = [
    "Lean 4.33.0 kernel; axioms audited (subset of propext, Classical.choice, Quot.sound)",
    "hand model Model/Parse.lean (parseRef, dedup, parseDoc, parseFiles) tied to /repo by this correspondence run",
    "lxml infoset; pandas explode / boolean-mask assignment / drop_duplicates as modelled; driver, harness, abstract-graph oracle",
]
ASSUMPTIONS = ["IsForward values other than the literal 'false' are read as forward (the statement says \"false\")"]
RULE = ("document sets generated from an abstract reference relation (self, parallel, cross-namespace, dangling references), each triple placed "
        "on its source, its target or both, forward or inverse, alias or literal type, twice on one node, in one or two files; several random "
        "serialisations of one relation must give the same table; distinct = distinct document set; non-trivial = >= 1 reference")


def explore(run):
    rng = run.rng
    thorough = run.tier == "thorough"
    with minibase.Scratch() as sc:
        # corpus: finding D-C02a (fixed): a cross-file triple declared in both files
        n = 1200 if thorough else 90
        for i in range(n):
            g = D.gen_graph(rng, hostile=rng.random() < 0.5, closed=False, values_ok=False, features={"repeat_nodes": rng.random() < 0.2})
            tables = []
            for s_ in range(20 if thorough and i % 10 == 0 else 3):
                files = D.serialise(rng, g, one_file=rng.random() < 0.3)
                run.case({"set": i, "serialisation": s_, "refs": len(g["refs"])}, nontrivial=bool(g["refs"]), tag="serialisation")
                io = PC.check_set(run, sc, g, files, None, ["refs"], "s%d_%d" % (i, s_))
                if run.full():
                    return
                if io is not None:
                    tables.append(PC.resolve_refs(io))
            if any(t != tables[0] for t in tables[1:]):
                run.violation({"set": i}, {"what": "two serialisations of one reference relation give different tables"})
                return


def search_missing(run, disagreements):
    rng = run.rng
    with minibase.Scratch() as sc:
        for i in range(500):
            g = D.gen_graph(rng, hostile=True, closed=False, values_ok=False)
            PC.check_set(run, sc, g, D.serialise(rng, g), None, ["refs"], "m%d" % i)
            if run.full():
                return


def replay(run, path):
    body = json.load(open(path))
    case = body["case"]
    if "files" not in case:
        print("replay holds no document set (metamorphic case); re-run the check with seed %s" % body.get("seed"))
        return 1
    with minibase.Scratch() as sc:
        d, paths = P.write_set(sc, "r", case["files"])
        io = P.impl_parse_files(paths, case.get("caller"))
        print("implementation references:", json.dumps(io.get("refs", io), default=str, ensure_ascii=False)[:3000])
        print("recorded detail:", json.dumps(body["detail"], default=str, ensure_ascii=False)[:3000])
    print("VIOLATION property=C02 replay=%s" % path)
    return 1

"""C02 — the references table is exactly the declared relation, oriented forward."""
import json

import docs as D
import minibase
import parse_run as P
import parsecheck as PC

MODULE = "OpcuaModel.Props.C02"
TRUSTED_BASE = [
    "Lean 4.33.0 kernel; axioms audited (subset of propext, Classical.choice, Quot.sound)",
    "hand model Model/Parse.lean (parseRef, dedup, parseDoc, parseFiles) tied to /repo by this correspondence run",
    "lxml infoset; pandas explode / boolean-mask assignment / drop_duplicates as modelled; driver, harness, abstract-graph oracle",
]
ASSUMPTIONS = ["IsForward values other than the literal 'false' are read as forward (the statement says \"false\")"]
RULE = ("document sets generated from an abstract reference relation (self, parallel, cross-namespace, dangling references), each triple placed "
        "on its source, its target or both, forward or inverse, alias or literal type, twice on one node, in one or two files; several random "
        "serialisations of one relation must give the same table; distinct = distinct document set; non-trivial = >= 1 reference")


def large_graph(run, sc, n_nodes):
    """a plain but large document (more nodes than a 16-bit id holds) whose reference types are declared last:
    the relation in the parse output and in the graph built from it is still exactly the declared one"""
    import os
    import pandas as pd
    from opcua_tools import UAGraph
    rng = run.rng
    rts = {"Feeds": "ns=1;i=900001", "Drains": "ns=1;i=900002"}
    declared = set()
    written = {}
    for _ in range(12):
        a, b = rng.sample(range(n_nodes), 2)
        t = rng.choice(sorted(rts))
        declared.add(("ns=1;i=%d" % (1000 + a), "ns=1;i=%d" % (1000 + b), rts[t]))
        fwd = rng.random() < 0.5
        written.setdefault(a if fwd else b, []).append((t if rng.random() < 0.5 else rts[t], fwd, b if fwd else a))
    out = ['<?xml version="1.0" encoding="utf-8"?>\n<UANodeSet xmlns="http://opcfoundation.org/UA/2011/03/UANodeSet.xsd"><NamespaceUris><Uri>urn:large</Uri></NamespaceUris>'
           '<Models><Model ModelUri="urn:large" Version="1" PublicationDate="2020-01-01T00:00:00Z"/></Models>'
           '<Aliases><Alias Alias="Feeds">ns=1;i=900001</Alias><Alias Alias="Drains">ns=1;i=900002</Alias></Aliases>']
    for j in range(n_nodes):
        refs = "".join('<Reference ReferenceType="%s"%s>ns=1;i=%d</Reference>' % (t, "" if fwd else ' IsForward="false"', 1000 + o) for t, fwd, o in written.get(j, []))
        out.append('<UAObject NodeId="ns=1;i=%d" BrowseName="1:o%d"><DisplayName>o%d</DisplayName><References>%s</References></UAObject>' % (1000 + j, j, j, refs))
    for nm, nid in rts.items():
        out.append('<UAReferenceType NodeId="%s" BrowseName="1:%s"><DisplayName>%s</DisplayName><References/></UAReferenceType>' % (nid, nm, nm))
    out.append("</UANodeSet>")
    d = sc.sub("large")
    path = os.path.join(d, "large.xml")
    open(path, "w", encoding="utf-8").write("\n".join(out))
    case = {"large_document": {"objects": n_nodes, "reference_types_declared_last": sorted(rts.values()), "declared": sorted(declared)}}
    run.case({"large": n_nodes, "refs": len(declared)}, tag="large")
    try:
        G = UAGraph.from_file_list([path])
    except Exception as e:  # noqa: BLE001
        run.violation(case, {"what": "UAGraph.from_file_list raised on a closed, self-contained large document", "impl": type(e).__name__ + ": " + str(e)[:300]})
        return
    by_id = {int(i): str(n) for i, n in zip(G.nodes["id"], G.nodes["NodeId"])}
    got = set()
    for a, b, t in zip(G.references["Src"], G.references["Trg"], G.references["ReferenceType"]):
        got.add(tuple(by_id.get(int(x), "<id %r has no node>" % (x,)) if not pd.isna(x) else "<NA>" for x in (a, b, t)))
    if got != declared or len(G.references) != len(declared):
        run.violation(case, {"what": "the graph's references table != the declared relation", "missing": sorted(declared - got)[:4], "invented": sorted(got - declared)[:4],
                             "rows": len(G.references), "call": "UAGraph.from_file_list([file]).references"})


def forward_only(run, sc):
    """documents without a single inverse reference in which a triple is written twice on its source (alias and literal,
    with and without IsForward="true"): each declared triple appears once, through every entry point"""
    import os
    from opcua_tools.nodeset_parser import parse_xml, parse_xml_files
    rng = run.rng
    for j in range(3):
        k = rng.randint(3, 6)
        refs, declared = {}, set()
        for _ in range(rng.randint(2, 6)):
            a, b = rng.sample(range(k), 2)
            t = rng.choice([("HasComponent", "i=47"), ("Organizes", "i=35")])
            declared.add(("ns=1;i=%d" % (10 + a), "ns=1;i=%d" % (10 + b), t[1]))
            refs.setdefault(a, []).append((t, b))
        a0 = sorted(refs)[0]
        refs[a0].append(refs[a0][0])                      # the same triple once more on the same node
        nodes = []
        for a in range(k):
            rr = "".join('<Reference ReferenceType="%s"%s>ns=1;i=%d</Reference>' % (t[n_ % 2], ' IsForward="true"' if n_ % 3 == 1 else "", 10 + b)
                         for n_, (t, b) in enumerate(refs.get(a, [])))
            nodes.append('<UAObject NodeId="ns=1;i=%d" BrowseName="1:o%d"><DisplayName>o%d</DisplayName><References>%s</References></UAObject>' % (10 + a, a, a, rr))
        text = ('<?xml version="1.0" encoding="utf-8"?>\n<UANodeSet xmlns="http://opcfoundation.org/UA/2011/03/UANodeSet.xsd"><NamespaceUris><Uri>urn:fwd</Uri></NamespaceUris>'
                '<Aliases><Alias Alias="HasComponent">i=47</Alias><Alias Alias="Organizes">i=35</Alias></Aliases>' + "".join(nodes) + "</UANodeSet>")
        d = sc.sub("fwd%d" % j)
        path = os.path.join(d, "f.xml")
        open(path, "w", encoding="utf-8").write(text)
        case = {"files": {"f.xml": text}}
        run.case({"forward_only": j, "triples": len(declared)}, tag="forward-only")
        for entry, fn in (("parse_xml", lambda: parse_xml(path)), ("parse_xml_files", lambda: parse_xml_files([path]))):
            try:
                out = fn()
            except Exception as e:  # noqa: BLE001
                run.violation(case, {"what": "%s raised" % entry, "impl": type(e).__name__ + ": " + str(e)[:200]})
                return
            lk = out["lookup_df"]["uniques"].tolist()
            got = sorted((str(lk[int(a)]), str(lk[int(b)]), str(lk[int(c)])) for a, b, c in zip(out["references"]["Src"], out["references"]["Trg"], out["references"]["ReferenceType"]))
            if got != sorted(declared):
                run.violation(case, {"what": "%s: the references table is not exactly the declared relation (each triple once)" % entry,
                                     "impl": got, "expected": sorted(declared), "call": "opcua_tools.%s(file)['references']" % entry})
                return


def foreign_reference_elements(run, sc):
    """a node's references are the Reference children of its References element: elements that merely bear that name elsewhere inside the
    node (vendor data in an Extensions block, in the document's default namespace or in a vendor's) declare nothing"""
    import os
    from opcua_tools.nodeset_parser import parse_xml, parse_xml_files
    nodes = ('<UAObject NodeId="ns=1;i=1" BrowseName="1:a"><DisplayName>a</DisplayName><References><Reference ReferenceType="i=47">ns=1;i=2</Reference></References>'
             '<Extensions><Extension><Links><Reference ReferenceType="i=35" IsForward="false">ns=1;i=3</Reference></Links></Extension>'
             '<Extension><v:Links xmlns:v="urn:vendor"><v:Reference ReferenceType="i=35">ns=1;i=3</v:Reference></v:Links></Extension></Extensions></UAObject>'
             '<UAObject NodeId="ns=1;i=2" BrowseName="1:b"><DisplayName>b</DisplayName><References><Reference ReferenceType="i=47" IsForward="false">ns=1;i=1</Reference>'
             '<Reference ReferenceType="i=35">ns=1;i=3</Reference></References></UAObject>'
             '<UAObject NodeId="ns=1;i=3" BrowseName="1:c"><DisplayName>c</DisplayName><References/></UAObject>')
    text = ('<?xml version="1.0" encoding="utf-8"?>\n<UANodeSet xmlns="http://opcfoundation.org/UA/2011/03/UANodeSet.xsd"><NamespaceUris><Uri>urn:ext</Uri></NamespaceUris>'
            '<Aliases/>' + nodes + "</UANodeSet>")
    declared = sorted([("ns=1;i=1", "ns=1;i=2", "i=47"), ("ns=1;i=2", "ns=1;i=3", "i=35")])
    d = sc.sub("ext")
    path = os.path.join(d, "x.xml")
    open(path, "w", encoding="utf-8").write(text)
    case = {"files": {"x.xml": text}}
    run.case({"foreign_reference_elements": 1, "triples": len(declared)}, tag="foreign-reference-elements")
    for entry, fn in (("parse_xml", lambda: parse_xml(path)), ("parse_xml_files", lambda: parse_xml_files([path]))):
        try:
            out = fn()
        except Exception as e:  # noqa: BLE001
            run.violation(case, {"what": "%s raised" % entry, "impl": type(e).__name__ + ": " + str(e)[:200]})
            return
        lk = out["lookup_df"]["uniques"].tolist()
        got = sorted((str(lk[int(a)]), str(lk[int(b)]), str(lk[int(c)])) for a, b, c in zip(out["references"]["Src"], out["references"]["Trg"], out["references"]["ReferenceType"]))
        if got != declared:
            run.violation(case, {"what": "%s: the references table is not exactly the declared relation (a triple was invented from an element outside the node's References)" % entry,
                                 "impl": got, "expected": declared, "call": "opcua_tools.%s(file)['references']" % entry})
            return


def explore(run):
    rng = run.rng
    thorough = run.tier == "thorough"
    with minibase.Scratch() as sc:
        forward_only(run, sc)
        foreign_reference_elements(run, sc)
        if run.full():
            return
        large_graph(run, sc, 70000 if thorough else 33000)
        if run.full():
            return
        # corpus: finding D-C02a (fixed): a cross-file triple declared in both files
        n = 1200 if thorough else 90
        for i in range(n):
            g = D.gen_graph(rng, hostile=rng.random() < 0.5, closed=False, values_ok=False, features={"repeat_nodes": rng.random() < 0.2})
            tables = []
            for s_ in range(20 if thorough and i % 10 == 0 else 3):
                files = D.serialise(rng, g, one_file=rng.random() < 0.3)
                run.case({"set": i, "serialisation": s_, "refs": len(g["refs"])}, nontrivial=bool(g["refs"]), tag="serialisation")
                io = PC.check_set(run, sc, g, files, None, ["refs"], "s%d_%d" % (i, s_))
                if run.full():
                    return
                if io is not None:
                    tables.append(PC.resolve_refs(io))
            if any(t != tables[0] for t in tables[1:]):
                run.violation({"set": i}, {"what": "two serialisations of one reference relation give different tables"})
                return


def search_missing(run, disagreements):
    rng = run.rng
    with minibase.Scratch() as sc:
        for i in range(500):
            g = D.gen_graph(rng, hostile=True, closed=False, values_ok=False)
            PC.check_set(run, sc, g, D.serialise(rng, g), None, ["refs"], "m%d" % i)
            if run.full():
                return


def replay(run, path):
    body = json.load(open(path))
    case = body["case"]
    if "files" not in case:
        print("replay holds no document set (metamorphic case); re-run the check with seed %s" % body.get("seed"))
        return 1
    with minibase.Scratch() as sc:
        d, paths = P.write_set(sc, "r", case["files"])
        io = P.impl_parse_files(paths, case.get("caller"))
        print("implementation references:", json.dumps(io.get("refs", io), default=str, ensure_ascii=False)[:3000])
        print("recorded detail:", json.dumps(body["detail"], default=str, ensure_ascii=False)[:3000])
    print("VIOLATION property=C02 replay=%s" % path)
    return 1

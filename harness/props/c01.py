"""C01 — every declared node becomes exactly one faithful row of the nodes table."""
import json

import docs as D
import minibase
import parse_run as P
import parsecheck as PC

MODULE = "OpcuaModel.Props.C01"
TRUSTED_BASE = [
    "Lean 4.33.0 kernel; axioms audited (subset of propext, Classical.choice, Quot.sound)",
    "hand model Model/Parse.lean (parseNode, browseSplit, typedAttr, firstText, batches, parseDoc, parseFiles) + Model/NodeId.lean, tied to /repo by this correspondence run",
    "lxml (text -> infoset) is not the repository's code: the model receives the infoset lxml produces for the same bytes",
    "pandas from_records / convert_dtypes / astype casts as modelled (typedAttr, wrapInt), validated by the run",
    "driver JSON decoding, harness, the generator's abstract graph as the oracle",
]
ASSUMPTIONS = [
    "Aliases precede the node elements in a document (as the schema orders them)",
    "browse names with a second ':' (D-C01a), documents without node elements (D-C01b), attribute values outside the cast width (D-C01c), "
    "fractional MinimumSamplingInterval (D-C01d), xs:boolean '0'/'1' (D-C01e,h) and the standard NodeId/Guid value forms (D-C01f,g) are recorded findings",
]
RULE = ("document sets generated from an abstract graph (1-3 namespaces, the eight node classes, valid attribute subsets, i/s/g/b identifiers, "
        "hostile names and texts, alias or literal NodeIds, default-namespace or uax: prefix, random whitespace layout, typed values), parsed as "
        "files by parse_xml_files and, per document, by iterparse with small batch sizes; distinct = distinct document set; non-trivial = >= 1 node")

WITNESSES = {
    "D-C01a": ('<UAObject NodeId="ns=1;i=1" BrowseName="1:a:b"><DisplayName>x</DisplayName></UAObject>', lambda r: r["browse"] == "a"),
    "D-C01c": ('<UAVariable NodeId="ns=1;i=1" BrowseName="1:v" AccessLevel="255" ValueRank="200"><DisplayName>x</DisplayName></UAVariable>',
               lambda r: r["attrs"].get("AccessLevel") == -1),
    "D-C01e": ('<UAObjectType NodeId="ns=1;i=1" BrowseName="1:t" IsAbstract="0"><DisplayName>x</DisplayName></UAObjectType>',
               lambda r: r["attrs"].get("IsAbstract") is True),
    "D-C01f": ('<UAVariable NodeId="ns=1;i=1" BrowseName="1:v"><DisplayName>x</DisplayName><Value><NodeId xmlns="http://opcfoundation.org/UA/2008/02/Types.xsd"><Identifier>i=5</Identifier></NodeId></Value></UAVariable>',
               lambda r: r["value"] is None or r["value"] == {"t": "PyNone"}),
    "D-C01g": ('<UAVariable NodeId="ns=1;i=1" BrowseName="1:v"><DisplayName>x</DisplayName><Value><Guid xmlns="http://opcfoundation.org/UA/2008/02/Types.xsd"><String>C496578A-0DFE-4B8F-870A-745238C6AEAE</String></Guid></Value></UAVariable>',
               lambda r: r["value"] == {"t": "Guid", "v": None}),
    "D-C01h": ('<UAVariable NodeId="ns=1;i=1" BrowseName="1:v"><DisplayName>x</DisplayName><Value><Boolean xmlns="http://opcfoundation.org/UA/2008/02/Types.xsd">1</Boolean></Value></UAVariable>',
               lambda r: r["value"] == {"t": "Boolean", "v": False}),
}
DOC = ('<?xml version="1.0" encoding="utf-8"?>\n<UANodeSet xmlns="http://opcfoundation.org/UA/2011/03/UANodeSet.xsd"><NamespaceUris><Uri>urn:w</Uri></NamespaceUris>'
       '<Models><Model ModelUri="urn:w"/></Models><Aliases/>%s</UANodeSet>')


def witnesses(run, sc):
    for fid, (body, reproduces) in WITNESSES.items():
        d, paths = P.write_set(sc, "w_" + fid, {"w.xml": DOC % body})
        io = P.impl_parse_files(paths)
        run.case({"witness": fid}, tag="witness")
        if "err" not in io and io["nodes"] and reproduces(io["nodes"][0]):
            run.known(fid)
    d, paths = P.write_set(sc, "w_b", {"w.xml": DOC % ""})
    io = P.impl_parse_files(paths)
    if io.get("err") == "ValueError":
        run.known("D-C01b")
    from opcua_tools.nodeset_parser import iterparse_xml
    d, paths = P.write_set(sc, "w_i", {"w.xml": DOC % WITNESSES["D-C01a"][0]})
    try:
        iterparse_xml(paths[0], [minibase.UA], batchsize=1)
    except AttributeError:
        run.known("D-C01i")
    except Exception:  # noqa: BLE001
        pass
    d, paths = P.write_set(sc, "w_d", {"w.xml": DOC % '<UAVariable NodeId="ns=1;i=1" BrowseName="1:v" MinimumSamplingInterval="100.5"><DisplayName>x</DisplayName></UAVariable>'})
    io = P.impl_parse_files(paths)
    if io.get("err") == "ValueError":
        run.known("D-C01d")


def known(exp, got, diffs):
    """every differing component must be explained by a recorded finding; returns the list of finding ids or None"""
    fids = []
    for dname in diffs:
        if dname == "browse" and ":" in exp["browse"] and got["browse"] == exp["browse"].split(":")[0]:
            fids.append("D-C01a")
        elif dname == "attrs":
            drop = lambda d_: {k: v for k, v in d_.items() if not (k in ("IsAbstract", "Symmetric") and v is False)}   # noqa: E731
            ea, ga = drop(exp["attrs"]), drop(got["attrs"])
            for k in ("AccessLevel", "EventNotifier", "ValueRank"):
                e, g_ = ea.get(k), ga.get(k)
                if e != g_ and isinstance(e, int) and not -128 <= e <= 127 and g_ == ((e + 128) % 256) - 128:
                    ea.pop(k), ga.pop(k)
                    if "D-C01c" not in fids:
                        fids.append("D-C01c")
            if ea != ga:
                return None
        else:
            return None
    return fids or None


def batch_cases(run, sc, g, files, idx):
    """iterparse_xml with small batch sizes must give the same rows as one big batch (and as the model)"""
    from opcua_tools.nodeset_parser import iterparse_xml
    d, paths = P.write_set(sc, "b%d" % idx, files)
    for p in paths:
        info = D.infoset(open(p, encoding="utf-8").read())
        res = {}
        # batch sizes just above the number of header events, so that no batch is empty (an empty batch crashes: finding D-C01i)
        hdr = header_events(p)
        for k in (hdr + 1, hdr + 2, hdr + 5, 100000):
            try:
                out = iterparse_xml(p, [minibase.UA], batchsize=k)
                nodes = out["nodes"]
                res[k] = [[r["Tag"], str(r["Attrib"]["NodeId"]), r["DisplayName"], r["Description"], len(r["References"])] for _, r in nodes.iterrows()]
            except Exception as e:  # noqa: BLE001
                res[k] = {"err": type(e).__name__ + ": " + str(e)[:200]}
        run.case({"batch": p.rsplit("/", 1)[1], "set": idx}, tag="batch")
        run.compared += 1
        if any(res[k] != res[100000] for k in res):
            run.violation({"files": files, "batch_file": p.rsplit("/", 1)[1]},
                          {"what": "rows depend on the parser's batch size", "impl": {str(k): (v if isinstance(v, dict) else len(v)) for k, v in res.items()},
                           "call": "opcua_tools.nodeset_parser.iterparse_xml(file, [UA], batchsize=k)"})
            return
        mo1 = run.driver.ask({"op": "parse.doc", "doc": info, "caller": [minibase.UA], "batch": 2})
        mo2 = run.driver.ask({"op": "parse.doc", "doc": info, "caller": [minibase.UA]})
        if mo1 != mo2:
            run.disagree({"batch_model": p}, mo1, mo2)
        elif "err" not in mo2 and not isinstance(res[100000], dict):
            mrows = [[r["cls"], r["id"]] for r in mo2["nodes"]]
            if len(mrows) != len(res[100000]):
                run.disagree({"batch_rows": p}, len(mrows), len(res[100000]))


def header_events(path):
    """number of iterparse events (as the parser counts them) before the first node element ends"""
    import lxml.etree as ET
    X = "{%s}" % D.NS_XSD
    tags = [X + t for t in ["UANodeSet", "NamespaceUris", "Uri", "Model", "RequiredModel", "Alias"] + D.CLASSES]
    n = 0
    for ev, el in ET.iterparse(path, events=("start", "end"), tag=tags):
        if el.tag == X + "Model" or (el.tag == X + "RequiredModel" and ev == "start"):
            continue            # `continue` in the parser skips the counter too
        n += 1
        if ev == "end" and el.tag[len(X):] in D.CLASSES:
            return n
    return n


def explore(run):
    rng = run.rng
    thorough = run.tier == "thorough"
    with minibase.Scratch() as sc:
        witnesses(run, sc)
        n = 1500 if thorough else 110
        for i in range(n):
            hostile = rng.random() < 0.7
            feats = {}
            if rng.random() < 0.12:
                feats = {"browse_colon": True, "attr_overflow": True}
            feats = dict(feats, repeat_nodes=rng.random() < 0.2, many_ns=rng.random() < 0.08, vt_values=rng.random() < 0.5)   # variable types carry default Values too
            g = D.gen_graph(rng, hostile=hostile, closed=False, features=feats, n_nodes=2 if feats["many_ns"] else None)
            for n_ in g["nodes"].values():        # null Booleans belong to C08 (finding D-C08e)
                v = n_["value"]
                if v and (v["t"] == "Boolean" and v["v"] is None or v["t"] == "ListOf" and v["typename"] == "Boolean"):
                    n_["value"] = None
            files = D.serialise(rng, g, one_file=rng.random() < 0.2)
            run.case({"set": i, "nodes": len(g["nodes"]), "files": len(files)}, nontrivial=bool(g["nodes"]),
                     tag="set:%s:%s" % ("hostile" if hostile else "plain", "feat" if feats.get("browse_colon") else "supported"))
            for k_ in g["nodes"].values():
                run.count("cls:" + k_["cls"])
            PC.check_set(run, sc, g, files, None, ["nodes"], "s%d" % i, known=known)
            if run.full():
                return
            if i % (5 if not thorough else 3) == 0:
                batch_cases(run, sc, g, files, i)
                if run.full():
                    return
        extobj_probe(run, sc)
        own_children_probe(run, sc)
        if run.full():
            return
        datetime_probe(run, sc)
        if run.full():
            return
        if thorough:
            big(run, sc)
        else:
            big_plain(run, sc)


def big(run, sc):
    """one document crossing the parser's real 100 000-event batch"""
    rng = run.rng
    g = D.gen_graph(rng, n_ns=1, n_nodes=52000, hostile=False, closed=False, values_ok=False)
    files = D.serialise(rng, g)
    run.case({"big": len(g["nodes"])}, tag="big")
    PC.check_set(run, sc, g, files, None, ["nodes"], "big", model=False)


def own_children_probe(run, sc):
    """DisplayName and Description are the node element's OWN children: a data type without them whose Definition fields carry a
    DisplayName / Description (and a sibling that has both) reports '' — not the first field's text"""
    import os
    from opcua_tools.nodeset_parser import parse_xml_files
    nodes = ('<UADataType NodeId="ns=1;i=1" BrowseName="1:Colour"><References><Reference ReferenceType="i=45" IsForward="false">i=29</Reference></References>'
             '<Definition Name="1:Colour"><Field Name="Red" Value="0"><DisplayName>Rouge</DisplayName><Description>la couleur</Description></Field>'
             '<Field Name="Green" Value="1"><DisplayName>Vert</DisplayName></Field></Definition></UADataType>'
             '<UADataType NodeId="ns=1;i=2" BrowseName="1:Shape"><DisplayName>Shape</DisplayName><Description>own text</Description><References/>'
             '<Definition Name="1:Shape"><Field Name="Round" Value="0"><DisplayName>Rond</DisplayName><Description>autre</Description></Field></Definition></UADataType>'
             '<UADataType NodeId="ns=1;i=3" BrowseName="1:Size"><DisplayName>Size</DisplayName><References/>'
             '<Definition Name="1:Size"><Field Name="Big" Value="0"><Description>grand</Description></Field></Definition></UADataType>')
    text = DOC % nodes
    d = sc.sub("ownkids")
    path = os.path.join(d, "k.xml")
    open(path, "w", encoding="utf-8").write(text)
    case = {"files": {"k.xml": text}}
    run.case({"own_children_probe": 3}, tag="own-children")
    run.compared += 1
    try:
        out = parse_xml_files([path])["nodes"]
    except Exception as e:  # noqa: BLE001
        run.violation(case, {"what": "parse raised on data types with field display names: %s: %s" % (type(e).__name__, str(e)[:200])})
        return
    import pandas as pd
    txt = lambda v: "" if v is None or (not isinstance(v, str) and pd.isna(v)) else v   # noqa: E731
    got = {int(n.value): (txt(dn), txt(ds)) for n, dn, ds in zip(out["NodeId"], out["DisplayName"], out["Description"])}
    want = {1: ("", ""), 2: ("Shape", "own text"), 3: ("Size", "")}
    if got != want:
        run.violation(case, {"what": "DisplayName / Description of a node are not those of its own child elements", "impl": repr(got), "expected": repr(want),
                             "call": "parse_xml_files([k.xml])"})


def extobj_probe(run, sc):
    """typed Value of a variable holding an ExtensionObject whose TypeId is NOT one of the two structures the parser
    decodes (Range i=885 / EUInformation i=888 in namespace 0): it stays an extension object with that type id and body,
    whatever its numeric identifier and namespace"""
    import os
    from opcua_tools.nodeset_parser import parse_xml_files
    rng = run.rng
    T = "http://opcfoundation.org/UA/2008/02/Types.xsd"
    cases = [(ns_, i_) for ns_ in (1, 2) for i_ in (885, 888, 887, 12345)] + [(0, 889), (0, 12345)]
    rng.shuffle(cases)
    nodes = []
    for j, (ns_, i_) in enumerate(cases):
        tid = ("ns=%d;" % ns_ if ns_ else "") + "i=%d" % i_
        nodes.append('<UAVariable NodeId="ns=1;i=%d" BrowseName="1:x%d" DataType="i=22"><DisplayName>x%d</DisplayName>'
                     '<Value><ExtensionObject xmlns="%s"><TypeId><Identifier>%s</Identifier></TypeId><Body><v:Curve xmlns:v="urn:vendor" k="%d"><v:p>1</v:p></v:Curve></Body></ExtensionObject></Value></UAVariable>'
                     % (100 + j, j, j, T, tid, j))
    text = ('<?xml version="1.0" encoding="utf-8"?>\n<UANodeSet xmlns="http://opcfoundation.org/UA/2011/03/UANodeSet.xsd">'
            '<NamespaceUris><Uri>urn:x</Uri><Uri>urn:y</Uri></NamespaceUris><Aliases/>' + "".join(nodes) + "</UANodeSet>")
    d = sc.sub("extobj")
    path = os.path.join(d, "e.xml")
    open(path, "w", encoding="utf-8").write(text)
    case = {"files": {"e.xml": text}}
    run.case({"extobj_probe": len(cases)}, tag="extobj")
    run.compared += 1
    try:
        out = parse_xml_files([path])
    except Exception as e:  # noqa: BLE001
        run.violation(case, {"what": "parse raised on extension-object values: %s: %s" % (type(e).__name__, str(e)[:200])})
        return
    vals = {int(n.value): v for n, v in zip(out["nodes"]["NodeId"], out["nodes"]["Value"])}
    for j, (ns_, i_) in enumerate(cases):
        v = vals.get(100 + j)
        ok = type(v).__name__ == "UAExtensionObject" and v.type_nodeid.namespace == ns_ and str(v.type_nodeid.value) == str(i_) \
            and "Curve" in str(getattr(v.body, "value", "")) and 'k="%d"' % j in str(getattr(v.body, "value", ""))
        if not ok:
            run.violation(case, {"what": "the Value of a variable holding an ExtensionObject with TypeId %s is not that extension object" %
                                 (("ns=%d;" % ns_ if ns_ else "") + "i=%d" % i_), "impl": repr(v)[:300]})
            return


def datetime_probe(run, sc):
    """DateTime Values in every lexical form of xs:dateTime (Z, a numeric offset, no zone designator; scalar and in lists):
    the cell holds that point in time with that offset, not another one"""
    import os
    import datetime as dtm
    from opcua_tools.nodeset_parser import parse_xml_files
    rng = run.rng
    T = "http://opcfoundation.org/UA/2008/02/Types.xsd"
    forms = [("Z", 0), ("+00:00", 0), ("+02:00", 120), ("-05:00", -300), ("+05:30", 330), ("-09:30", -570), ("", None)]
    items = []
    for j in range(10):
        base = dtm.datetime(rng.randint(1971, 2090), rng.randint(1, 12), rng.randint(1, 28), rng.randint(0, 23), rng.randint(0, 59), rng.randint(0, 59))
        sfx, off = forms[j % len(forms)] if j < len(forms) else rng.choice(forms)
        items.append((base, sfx, off))
    nodes = []
    for j, (base, sfx, off) in enumerate(items):
        txt = base.strftime("%Y-%m-%dT%H:%M:%S") + sfx
        if j % 4 == 3:
            val = '<ListOfDateTime xmlns="%s"><DateTime>%s</DateTime><DateTime>2001-02-03T04:05:06Z</DateTime></ListOfDateTime>' % (T, txt)
        else:
            val = '<DateTime xmlns="%s">%s</DateTime>' % (T, txt)
        nodes.append('<UAVariable NodeId="ns=1;i=%d" BrowseName="1:t%d" DataType="i=13"><DisplayName>t%d</DisplayName><Value>%s</Value></UAVariable>' % (100 + j, j, j, val))
    text = ('<?xml version="1.0" encoding="utf-8"?>\n<UANodeSet xmlns="http://opcfoundation.org/UA/2011/03/UANodeSet.xsd">'
            '<NamespaceUris><Uri>urn:t</Uri></NamespaceUris><Aliases/>' + "".join(nodes) + "</UANodeSet>")
    d = sc.sub("dtprobe")
    path = os.path.join(d, "t.xml")
    open(path, "w", encoding="utf-8").write(text)
    case = {"files": {"t.xml": text}}
    run.case({"datetime_probe": len(items)}, tag="datetime")
    run.compared += 1
    try:
        out = parse_xml_files([path])
    except Exception as e:  # noqa: BLE001
        run.violation(case, {"what": "parse raised on DateTime values: %s: %s" % (type(e).__name__, str(e)[:200])})
        return
    vals = {int(n.value): v for n, v in zip(out["nodes"]["NodeId"], out["nodes"]["Value"])}
    for j, (base, sfx, off) in enumerate(items):
        v = vals.get(100 + j)
        if j % 4 == 3:
            v = v.value[0] if type(v).__name__ == "UAListOf" and len(v.value) == 2 else None
        got = getattr(v, "value", None)
        ok = type(v).__name__ == "UADateTime" and isinstance(got, dtm.datetime) and got.replace(tzinfo=None) == base and \
            (got.utcoffset() is None if off is None else (got.utcoffset() is not None and got.utcoffset() == dtm.timedelta(minutes=off)))
        if not ok:
            run.violation(case, {"what": "the Value written as %s%s is not that point in time (clock fields and offset)" % (base.isoformat(), sfx), "impl": repr(v)[:300],
                                 "call": "opcua_tools.parse_xml_files([file])['nodes']['Value']"})
            return


def big_plain(run, sc):
    """a plain document with more node elements than one parser batch holds (100 000 events = 50 000 elements):
    one row per element, in order, none lost or repeated at the batch boundary"""
    import os
    from opcua_tools.nodeset_parser import parse_xml_files
    n = 50000 + run.rng.randint(3, 40)
    head = ('<?xml version="1.0" encoding="utf-8"?>\n<UANodeSet xmlns="http://opcfoundation.org/UA/2011/03/UANodeSet.xsd">'
            '<NamespaceUris><Uri>urn:big</Uri></NamespaceUris><Aliases><Alias Alias="Organizes">i=35</Alias></Aliases>\n')
    body = "".join('<UAObject NodeId="ns=1;i=%d" BrowseName="1:n%d"><DisplayName>d%d</DisplayName></UAObject>\n' % (j, j, j) for j in range(1, n + 1))
    d = sc.sub("bigplain")
    path = os.path.join(d, "big.xml")
    open(path, "w", encoding="utf-8").write(head + body + "</UANodeSet>\n")
    case = {"big_plain": n}
    run.case(case, tag="big")
    run.compared += 1
    try:
        out = parse_xml_files([path])
    except Exception as e:  # noqa: BLE001
        run.violation(case, {"what": "parse_xml_files raised on a plain document of %d node elements (more than one parser batch): %s: %s" % (n, type(e).__name__, str(e)[:200])})
        return
    nodes = out["nodes"]
    ids = [int(x.value) for x in nodes["NodeId"]]
    names = nodes["DisplayName"].tolist()
    if ids != list(range(1, n + 1)) or names != ["d%d" % j for j in range(1, n + 1)] or nodes["BrowseName"].tolist() != ["n%d" % j for j in range(1, n + 1)]:
        bad = next((j for j in range(min(len(ids), n)) if ids[j] != j + 1), None)
        run.violation(case, {"what": "the nodes table of a %d-element document does not hold one faithful row per element, in order (rows: %d, first wrong row: %r)" % (n, len(ids), bad)})
    os.remove(path)


def search_missing(run, disagreements):
    rng = run.rng
    with minibase.Scratch() as sc:
        for i in range(600):
            g = D.gen_graph(rng, hostile=True, closed=False)
            files = D.serialise(rng, g)
            PC.check_set(run, sc, g, files, None, ["nodes"], "m%d" % i, known=known)
            if run.full():
                return


def replay(run, path):
    body = json.load(open(path))
    case = body["case"]
    with minibase.Scratch() as sc:
        d, paths = P.write_set(sc, "r", case["files"])
        io = P.impl_parse_files(paths, case.get("caller"))
        infos = [D.infoset(open(p, encoding="utf-8").read()) for p in paths]
        mo = run.driver.ask({"op": "parse.files", "docs": infos})
        print("implementation:", json.dumps(io, default=str, ensure_ascii=False)[:3000])
        print("recorded detail:", json.dumps(body["detail"], default=str, ensure_ascii=False)[:3000])
        same = "err" not in io and "err" not in mo and [P.strip_row(r) for r in io["nodes"]] == P.model_rows(mo)
        print("model agrees with implementation:", same)
    print("VIOLATION property=C01 replay=%s" % path)
    return 1

"""C20 — concurrent parses do not interfere with each other."""
import json
import os
import shutil

import minibase
import proto_run as PR

UA = minibase.UA
MODULE = "OpcuaModel.Props.C20"
TRUSTED_BASE = [
    "Lean 4.33.0 kernel; axioms audited (subset of propext, Classical.choice, Quot.sound)",
    "hand model Model/Proto.lean (step, runN over a shared file-system map with file-object identity; cacheGet) tied to /repo by this run: "
    "real threads are driven operation by operation by a deterministic scheduler, the executed order is replayed on the model, "
    "outcomes, per-thread operation traces and the final directory are compared",
    "interception layer and scheduler harness/proto_run.py; CPython threads run one at a time between two intercepted operations",
]
ASSUMPTIONS = [
    "interleaving granularity = the intercepted operations (existence check, XML read, encode, create, write, read, remove, decode, element loop); "
    "atomicity of one open/write/read/remove call is the operating system's",
    "process-level runs have no schedule control: they are a sampled stress run, not part of the proof tie",
    "recorded finding D-C20a: two parses of the very same file",
]
RULE = ("2-3 threads on different files of one directory (fine and failing documents), every thread's result against its lone result, random schedules; "
        "2 threads on the very same file under random schedules and the proved witness schedules; forked processes on different files; "
        "distinct = distinct (files, executed order); non-trivial = at least two threads interleave (the executed order is not sequential)")


def sem_of(contents):
    s = {"not_wf": [], "bad_header": [], "bad_body": []}
    for c, flags in contents.items():
        for f in flags:
            s[f].append(c)
        if "bad_header" in flags:
            s["bad_body"].append(c)
    return s


def lone_results(sc, files, caller=None, via_files=()):
    """each file parsed alone in its own directory: (canonical outcome, fingerprint or None)"""
    from opcua_tools import nodeset_parser as npm
    out = {}
    caller = caller or {}
    for name, (c, flags) in files.items():
        d = sc.sub("lone")
        p = os.path.join(d, name)
        open(p, "w", encoding="utf-8").write(PR.doc_text(c, flags))
        ctl = PR.Ctl()
        with PR.Patched(ctl):
            o, res = PR.outcome_of(lambda: npm.parse_xml(p, list(caller[name])) if name in caller else
                                   (npm.parse_xml_files([p]) if name in via_files else npm.parse_xml(p)), ctl)
        out[name] = ({k: v for k, v in o.items() if k != "exc"}, PR.fingerprint(res) if res is not None else None)
        shutil.rmtree(d, ignore_errors=True)
    return out


def interleaved(executed):
    seen, cur = set(), None
    for t, _ in executed:
        if t != cur:
            if t in seen:
                return True
            seen.add(t)
            cur = t
    return False


def run_threads(run, sc, tag, files, inputs, schedule, clear_cache, fine=False, caller=None, files_api=()):
    """files: name -> (c, flags); inputs: the file each thread parses"""
    from opcua_tools import nodeset_parser as npm
    from opcua_tools.value_parser import cached_parse_nodeid
    d = sc.sub(tag)
    for name, (c, flags) in files.items():
        open(os.path.join(d, name), "w", encoding="utf-8").write(PR.doc_text(c, flags))
    before = PR.snapshot(d)
    if clear_cache:
        getattr(cached_parse_nodeid, "cache_clear", lambda: None)()
    ctl = PR.Ctl()
    sch = PR.Scheduler(len(inputs))
    ctl.sched = sch
    ctl.fine = fine
    with PR.Patched(ctl):
        caller = caller or {}
        def target(nm, t):
            p = os.path.join(d, nm)
            if nm in caller:
                return lambda: npm.parse_xml(p, list(caller[nm]))
            if nm in files_api:
                # the same parse through the list entry point (same protocol steps after one existence check of the input)
                return lambda: npm.parse_xml_files([p])
            return lambda: npm.parse_xml(p)
        targets = [target(nm, t) for t, nm in enumerate(inputs)]
        results = sch.run(targets, schedule, ctl)
    outcomes, fps = [], []
    for t, (kind, val) in enumerate(results):
        if kind == "ok":
            outcomes.append(PR.canon_result(val))
            fps.append(PR.fingerprint(val))
        else:
            def rethrow(e=val):
                raise e
            o, _ = PR.outcome_of(rethrow, ctl, t)
            outcomes.append({k: v for k, v in o.items() if k != "exc"})
            fps.append(None)
    after = PR.snapshot(d)
    shutil.rmtree(d, ignore_errors=True)
    return {"outcomes": outcomes, "fps": fps, "before": before, "after": after, "executed": list(sch.executed),
            "traces": [PR.canon_trace(ctl.raw.get(t, [])) for t in range(len(inputs))]}


def compare_model(run, case, files, inputs, r):
    sched, _ = PR.model_schedule(r["executed"])
    contents = {c: flags for (c, flags) in files.values()}
    mo = run.driver.ask({"op": "proto.sched", "files": [{"path": n, "kind": "doc", "c": c} for n, (c, _) in sorted(files.items())],
                         "sem": sem_of(contents), "inputs": inputs, "sched": sched})
    mtr = [[op for t, op in mo["trace"] if t == i and op not in ("decode", "done")] for i in range(len(inputs))]
    impl_view = {"outcomes": r["outcomes"], "traces": [[op for op in tr if op != "decode"] for tr in r["traces"]], "files": sorted(r["after"])}
    model_view = {"outcomes": mo["outcomes"], "traces": mtr, "files": sorted(f["path"] for f in mo["files"] if f["kind"] != "absent")}
    run.compared += 1
    if impl_view != model_view:
        run.disagree(dict(case, model_schedule=sched), model_view, impl_view)


def different_files(run, sc, i):
    rng = run.rng
    n = rng.choice([2, 2, 3])
    files, inputs = {}, []
    for k in range(n):
        nm = "%s%d.xml" % (rng.choice(["a", "b", "dir file "]), k)
        flags = rng.choice([(), (), (), ("bad_header",), ("bad_body",), ("not_wf",)])
        files[nm] = (300 + 10 * i + k, flags)
        inputs.append(nm)
    fine = rng.random() < 0.5
    schedule = [rng.randrange(n) for _ in range((40 if fine else 12) * n)]
    if rng.random() < 0.4:
        # one call starts late: the others are several operations into their protocol when it begins
        late = rng.randrange(n)
        schedule = [t for t in schedule if t != late][: rng.randint(3, 8)] + schedule
    # caller-supplied namespace lists of different lengths: the files' local index 1 denotes a different global index in each call
    caller = {}
    for t, nm in enumerate(inputs):
        if rng.random() < 0.4:
            caller[nm] = [UA] + ["urn:pad%d" % j for j in range(rng.randint(0, 2) + t)]
    via_files = [nm for nm in inputs if nm not in caller and rng.random() < 0.5]
    r = run_threads(run, sc, "d%d" % i, files, inputs, schedule, clear_cache=rng.random() < 0.5, fine=fine, caller=caller, files_api=via_files)
    case = {"kind": "different files", "files": {k: list(v) for k, v in files.items()}, "caller_namespaces": caller, "via_parse_xml_files": via_files, "executed": [[t, op] for t, op in r["executed"]]}
    run.case({"files": case["files"], "executed": case["executed"]}, nontrivial=interleaved(r["executed"]), tag="threads:different" + (":fine" if fine else ""))
    lone = lone_results(sc, files, caller, via_files)
    problems = []
    for t, nm in enumerate(inputs):
        lo, lfp = lone[nm]
        if r["outcomes"][t] != lo or r["fps"][t] != lfp:
            problems.append("thread %d on %s: %r, alone: %r%s" % (t, nm, r["outcomes"][t], lo, "" if r["outcomes"][t] != lo else " (tables differ)"))
    if r["after"] != r["before"]:
        problems.append("directory %r -> %r" % (sorted(r["before"]), sorted(r["after"])))
    if problems:
        run.violation(case, {"what": "; ".join(problems)})
        return False
    compare_model(run, case, files, inputs, r)
    return True


def dir_listing(run, sc, i):
    """one call parses a file while another call parses *another* file of the same directory through the directory entry
    point with a namespace filter (parse_xml_dir(dir, [its model URI])): the listing call sees the first call's side file
    come and go in the directory; each returns what it returns when run alone"""
    from opcua_tools import nodeset_parser as npm
    rng = run.rng
    ca, cb = 900 + 2 * i, 901 + 2 * i

    def setup(tag):
        d = sc.sub(tag)
        open(os.path.join(d, "a.xml"), "w", encoding="utf-8").write(PR.doc_text(ca))
        open(os.path.join(d, "b.xml"), "w", encoding="utf-8").write(PR.doc_text(cb))
        return d

    def calls(d):
        return [lambda: npm.parse_xml(os.path.join(d, "a.xml")), lambda: npm.parse_xml_dir(d, ["urn:c%d" % cb])]

    # alone, one after the other
    d0 = setup("dl%d_lone" % i)
    lone = []
    for fn in calls(d0):
        ctl = PR.Ctl()
        with PR.Patched(ctl):
            o, res = PR.outcome_of(fn, ctl)
        lone.append(({k: v for k, v in o.items() if k != "exc"}, PR.fingerprint(res) if res is not None else None))
    shutil.rmtree(d0, ignore_errors=True)
    d = setup("dl%d" % i)
    before = PR.snapshot(d)
    # the listing call starts while the other one is somewhere inside its protocol
    k = rng.randint(1, 9)
    schedule = [0] + [0] * k + [1] + [rng.randrange(2) for _ in range(30)]
    ctl = PR.Ctl()
    sch = PR.Scheduler(2)
    ctl.sched = sch
    with PR.Patched(ctl):
        results = sch.run(calls(d), schedule, ctl)
    got = []
    for t, (kind, val) in enumerate(results):
        if kind == "ok":
            got.append((PR.canon_result(val), PR.fingerprint(val)))
        else:
            def rethrow(e=val):
                raise e
            o, _ = PR.outcome_of(rethrow, ctl, t)
            got.append(({k_: v for k_, v in o.items() if k_ != "exc"}, None))
    case = {"kind": "file + directory listing", "contents": [ca, cb], "listing_call_starts_after": k, "executed": [[t, op] for t, op in sch.executed]}
    run.case({"dir_listing": i, "executed": case["executed"]}, nontrivial=interleaved(sch.executed), tag="threads:dir-listing")
    problems = ["call %d: %r, alone: %r" % (t, got[t][0], lone[t][0]) + ("" if got[t][0] != lone[t][0] else " (tables differ)") for t in range(2) if got[t] != lone[t]]
    if PR.snapshot(d) != before:
        problems.append("directory %r -> %r" % (sorted(before), sorted(PR.snapshot(d))))
    shutil.rmtree(d, ignore_errors=True)
    if problems:
        run.violation(case, {"what": "; ".join(problems), "calls": "parse_xml(dir/a.xml)  ||  parse_xml_dir(dir, [model URI of b.xml])"})
        return False
    return True


# the proved schedules, preceded by the two "begin" stops that start the calls
WITNESSES = [
    ("same_file_missing", [0, 1] + [0, 0, 0, 0, 0, 1, 0, 0, 1, 1]),
    ("same_file_half", [0, 1] + [0, 0, 0, 0, 1, 1, 1, 1, 1]),
    ("same_file_orphan", [0, 1] + [0, 0, 0, 0, 1, 1, 1, 0, 0, 0]),
    ("same_file_sequential", [0, 1] + [0] * 9 + [1] * 9),
    # proved harmless overlaps, given as policies "(t, op): t runs until it is about to do op":
    # both find no side file; A creates; B decodes the document up to its own creation; A finishes; B finishes
    ("same_file_overlap_ok", [0, 1, (0, "isfile"), 0, (1, "isfile"), 1, (0, "create"), 0, (1, "create"), (0, None), (1, None)]),
    ("same_file_sequential", [0, 1, (0, None), (1, None)]),
]
# schedules on which the theorem says both calls return the lone result: a failure there is not D-C20a
SAFE = {"same_file_sequential", "same_file_overlap_ok"}


def same_file(run, sc, i, schedule=None, name=None):
    rng = run.rng
    files = {"s.xml": (800 + i, ())}
    inputs = ["s.xml", "s.xml"]
    fine = False
    if schedule is None:
        fine = rng.random() < 0.3
        schedule = [rng.randrange(2) for _ in range(60 if fine else 22)]
    # a model schedule counts "encode"/"decode"; the real one has a stop for each of them too, so they map one to one
    r = run_threads(run, sc, "s%d" % i, files, inputs, schedule, clear_cache=False, fine=fine)
    case = {"kind": "same file", "witness": name, "files": {"s.xml": [800 + i, []]}, "executed": [[t, op] for t, op in r["executed"]], "policy": schedule if name else None}
    run.case({"same": True, "executed": case["executed"]}, nontrivial=interleaved(r["executed"]), tag="threads:same" + (":witness" if name else ""))
    lone = lone_results(sc, files)["s.xml"]
    bad = [t for t in range(2) if r["outcomes"][t] != lone[0] or r["fps"][t] != lone[1]]
    if bad or r["after"] != r["before"]:
        if name not in SAFE and run.known("D-C20a"):
            run.count("known:D-C20a")
        else:
            run.violation(case, {"what": "two parses of one file: thread(s) %r do not return the lone result: %r; directory %r" % (bad, r["outcomes"], sorted(r["after"]))})
            return False
    compare_model(run, case, files, inputs, r)
    return True


def _proc_target(args):
    from opcua_tools import nodeset_parser as npm
    path, rounds = args
    out = []
    for _ in range(rounds):
        try:
            out.append(PR.fingerprint(npm.parse_xml(path)))
        except Exception as e:  # noqa: BLE001
            out.append(("exc", type(e).__name__))
    return out


def processes(run, sc, i, n, rounds):
    import multiprocessing as mp
    d = sc.sub("p%d" % i)
    files = {"p%d.xml" % k: (900 + 10 * i + k, ()) for k in range(n)}
    for nm, (c, flags) in files.items():
        open(os.path.join(d, nm), "w", encoding="utf-8").write(PR.doc_text(c, flags))
    lone = lone_results(sc, files)
    before = PR.snapshot(d)
    ctx = mp.get_context("fork")
    with ctx.Pool(n) as pool:
        outs = pool.map(_proc_target, [(os.path.join(d, nm), rounds) for nm in sorted(files)])
    case = {"kind": "processes, different files", "files": sorted(files), "rounds": rounds}
    run.case(case, tag="processes:different")
    for nm, out in zip(sorted(files), outs):
        for o in out:
            if o != lone[nm][1]:
                run.violation(case, {"what": "process parsing %s returned %r instead of the lone result" % (nm, o if isinstance(o, tuple) and o[:1] == ("exc",) else "different tables")})
                return False
    if PR.snapshot(d) != before:
        run.violation(case, {"what": "directory %r -> %r" % (sorted(before), sorted(os.listdir(d)))})
        return False
    shutil.rmtree(d, ignore_errors=True)
    return True


def explore(run):
    missing = PR.hooks_present()
    thorough = run.tier == "thorough"
    with minibase.Scratch() as sc:
        if missing:
            run.disagree({"interception": missing}, "the parse path uses module-level os / ET / json", "names not found: %r" % missing)
            return
        for k, (name, schedule) in enumerate(WITNESSES):
            if not same_file(run, sc, 5000 + k, schedule, name):
                return
        for i in range(1500 if thorough else 120):
            if not different_files(run, sc, i):
                return
        for i in range(1000 if thorough else 80):
            if not same_file(run, sc, i):
                return
        for i in range(200 if thorough else 12):
            if not dir_listing(run, sc, i):
                return
        for i in range(6 if thorough else 1):
            if not processes(run, sc, i, 4 if thorough else 3, 10 if thorough else 3):
                return


def search_missing(run, disagreements):
    with minibase.Scratch() as sc:
        for i in range(150):
            if not different_files(run, sc, 2000 + i):
                return
        processes(run, sc, 99, 4, 5)


def replay(run, path):
    body = json.load(open(path))
    print("case:", json.dumps(body["case"], ensure_ascii=False, default=str)[:3000])
    print("recorded detail:", json.dumps(body["detail"], default=str, ensure_ascii=False)[:3000])
    case = body["case"]
    if isinstance(case, dict) and case.get("kind") == "different files":
        with minibase.Scratch() as sc:
            files = {k: (v[0], tuple(v[1])) for k, v in case["files"].items()}
            inputs = sorted(files, key=lambda n: n[-5])
            r = run_threads(run, sc, "r", files, inputs, [t for t, _ in case["executed"]], False)
            print("re-run with the recorded order:", r["outcomes"])
    print("VIOLATION property=C20 replay=%s" % path)
    return 1

"""C09 — NodeId text is parsed and printed inversely, for every identifier."""
import json
import re

import gen

MODULE = "OpcuaModel.Props.C09"
EXTRA_AUDIT = [("OpcuaModel.Gen.NodeIdTie", "Opcua.Tie.")]
TRUSTED_BASE = [
    "Lean 4.33.0 kernel; axioms of every theorem audited by collectAxioms (subset of propext, Classical.choice, Quot.sound)",
    "hand model Model/NodeId.lean + Model/Prelude.lean (split, lstrip, int(), str(int)) tied to /repo by this correspondence run, and — tie (A) — by "
    "translation: translator/py2lean.py regenerates cached_parse_nodeid / parse_nodeid / UANodeId.__str__ from the current source on every run; "
    "Gen/NodeIdTie.lean proves generated = hand model and restates the round-trip theorems for the generated definitions (coverage.translator_tie says which case applied); "
    "the translator (about 250 lines) and Gen/PyPrims.lean (meaning of the Python primitives) are trusted",
    "model driver (Driver.lean, JSON decoding only) and this harness",
    "CPython str.split/lstrip/int semantics as modelled in the prelude (validated here on every generated text)",
]
ASSUMPTIONS = [
    "identifiers are str (int-valued numeric identifiers print the same text but compare unequal to the parsed str; outside the statement)",
    "int() / isdigit() on non-ASCII decimal digits is outside the model's domain (never generated)",
]
RULE = ("exhaustive texts over the NodeId syntax alphabet {n,s,=,;,i,b,1,0} up to a length bound, printed random NodeIds "
        "(all four types, negative/zero/large namespaces, hostile identifiers), single-character mutations of valid texts, "
        "namespace-map and alias variants; distinct = distinct (text, map, alias) triple; non-trivial = not the empty text")

ALPHABET = "ns=;ib10"


def impl():
    from opcua_tools.ua_data_types import NodeIdType, UANodeId
    from opcua_tools.value_parser import cached_parse_nodeid, parse_nodeid
    return NodeIdType, UANodeId, parse_nodeid, cached_parse_nodeid


def impl_parse(text, nsmap=None, aliases=None):
    NodeIdType, UANodeId, parse_nodeid, _ = impl()
    try:
        am = None
        if aliases is not None:
            am = {k: UANodeId(v[0], NodeIdType(v[1]), v[2]) for k, v in aliases}
        nm = dict(nsmap) if nsmap is not None else None
        r = parse_nodeid(text, nm, am)
        if not isinstance(r, UANodeId):
            return {"err": "not-a-nodeid:" + type(r).__name__}
        if not isinstance(r.value, str) or isinstance(r.namespace, bool) or not isinstance(r.namespace, int):
            return {"err": "ill-typed:" + repr(r)}
        return {"ok": [r.namespace, r.nodeid_type.value, r.value]}
    except Exception as e:  # noqa: BLE001
        return {"err": type(e).__name__}


def impl_print(nid):
    NodeIdType, UANodeId, _, _ = impl()
    try:
        return {"text": str(UANodeId(nid[0], NodeIdType(nid[1]), nid[2]))}
    except Exception as e:  # noqa: BLE001
        return {"err": type(e).__name__}


def R(x):
    """correspondence relation: ok(ns, type, ident) | error"""
    if "ok" in x:
        return ("ok", tuple(x["ok"]))
    if "text" in x:
        return ("text", x["text"])
    return ("error",)


_F1 = re.compile(r"(?s)\s*ns=([^;]*);([^=]*)=(.*)")
_F2 = re.compile(r"(?s)([^=]*)=(.*)")


def numeric_ok(v):
    return v.isdigit() and not (v.startswith("0") and len(v) > 1)


def oracle_parse(text, nsmap=None, aliases=None):
    """independent reading of the property: alias first; else `[ns=<int>;]<t>=<ident>`; else error"""
    if aliases is not None:
        for k, v in aliases:
            if k == text:
                return ("ok", tuple(v))
    if text.lstrip().startswith("ns="):
        m = _F1.fullmatch(text)
        if not m:
            return ("error",)
        try:
            ns = int(m.group(1))
        except ValueError:
            return ("error",)
        t, v = m.group(2), m.group(3)
    else:
        m = _F2.fullmatch(text)
        if not m:
            return ("error",)
        ns, t, v = 0, m.group(1), m.group(2)
    if t not in ("i", "s", "g", "b"):
        return ("error",)
    if t == "i" and not numeric_ok(v):
        return ("error",)
    if nsmap:
        d = dict(nsmap)
        if ns not in d:
            return ("error",)
        ns = d[ns]
    return ("ok", (ns, t, v))


def ascii_int_safe(text):
    """domain limit: int()/isdigit() on non-ASCII digits is not modelled"""
    return all(ord(c) < 128 or not c.isdigit() and not c.isnumeric() for c in text)


def rand_nodeid(rng):
    r = rng.random()
    ns = 0 if r < 0.3 else rng.choice([1, 2, 3, 7, 10, 255, 65535, -1, -12, 10**12]) if r < 0.9 else rng.randint(-50, 500)
    t = rng.choice("isgb")
    if t == "i":
        ident = str(rng.choice([0, 1, 5, 47, 2253, 4294967295, 10**20])) if rng.random() < 0.8 else rng.choice(["07", "", "-1", "1x", "x", "1_0", " 1"])
    else:
        ident = gen.hostile_text(rng, pool=[gen.WORDS, gen.SYNTAX, gen.SYNTAX, gen.XML_SPECIAL, gen.NONASCII, [" "], ["ns=2;s=", ";i=", "=", ";"]])
    return [ns, t, ident]


def mutate(rng, s):
    if not s:
        return rng.choice(ALPHABET)
    k = rng.randrange(len(s))
    r = rng.random()
    c = rng.choice(ALPHABET + " _+-")
    if r < 0.34:
        return s[:k] + s[k + 1:]
    if r < 0.67:
        return s[:k] + c + s[k:]
    return s[:k] + c + s[k + 1:]


def check_cases(run, cases):
    """cases: list of {"text", "nsmap"?, "aliases"?}; compares impl / model / oracle"""
    ops = []
    for c in cases:
        op = {"op": "nodeid.parse", "text": c["text"]}
        if c.get("nsmap") is not None:
            op["nsmap"] = c["nsmap"]
        if c.get("aliases") is not None:
            op["aliases"] = c["aliases"]
        ops.append(op)
    outs = run.driver.batch(ops)
    for c, mo in zip(cases, outs):
        io = impl_parse(c["text"], c.get("nsmap"), c.get("aliases"))
        run.case(c, nontrivial=bool(c["text"]))
        run.compared += 1
        ri, rm = R(io), R(mo)
        ro = oracle_parse(c["text"], c.get("nsmap"), c.get("aliases"))
        run.count("outcome:" + ri[0])
        if ri != ro:
            # the property itself fails on the real code at this text
            if run.violation(c, {"what": "parse_nodeid disagrees with the NodeId grammar of the property",
                                 "impl": io, "expected": list(ro), "call": "opcua_tools.parse_nodeid(text, namespace_map, alias_map)"}):
                return
        elif ri != rm:
            run.disagree(c, mo, io)


def roundtrip_cases(run, nids):
    """print (impl vs model) and parse(print(n)) == n on the real code"""
    outs = run.driver.batch([{"op": "nodeid.print", "id": n} for n in nids])
    texts = []
    for n, mo in zip(nids, outs):
        valid = n[1] != "i" or numeric_ok(n[2])
        io = impl_print(n)
        run.case({"print": n}, tag="print:" + ("valid" if valid else "invalid"))
        run.compared += 1
        if not valid:
            if "err" not in io:
                if run.violation({"print": n}, {"what": "constructor accepted an invalid numeric identifier", "impl": io}):
                    return
            continue
        if "err" in io:
            if run.violation({"print": n}, {"what": "constructor rejected a valid NodeId", "impl": io}):
                return
            continue
        if io["text"] != mo["text"]:
            run.disagree({"print": n}, mo, io)
        back = impl_parse(io["text"])
        if R(back) != ("ok", tuple(n)):
            if run.violation({"nodeid": n, "text": io["text"]},
                             {"what": "parse_nodeid(str(n)) != n", "impl": back, "expected": n,
                              "call": "opcua_tools.parse_nodeid(str(UANodeId(ns, NodeIdType(t), ident)))"}):
                return
        texts.append(io["text"])
    return texts


def explore(run):
    rng = run.rng
    findings = run.findings
    import core
    run.extra["translator_tie"] = core.translator_tie()
    # 1. corpus: witnesses of fixed / known findings first
    corpus = []
    for f in findings.values():
        if f["property"] == "C09":
            corpus += [{"text": t} for t in f.get("witness", {}).get("texts", [])]
    check_cases(run, corpus)
    if run.full():
        return
    # 2. exhaustive texts
    maxlen = 5 if run.tier == "quick" else 6
    texts = list(gen.all_strings(ALPHABET, maxlen))
    run.extra["exhaustive_alphabet"] = ALPHABET
    run.extra["exhaustive_maxlen"] = maxlen
    run.extra["exhaustive_texts"] = len(texts)
    check_cases(run, [{"text": t} for t in texts])
    if run.full():
        return
    # 3. printed random NodeIds
    n_rand = 5000 if run.tier == "quick" else 200000
    nids = [rand_nodeid(rng) for _ in range(n_rand)]
    nids = [n for n in nids if ascii_int_safe(n[2]) or n[1] != "i"]
    printed = roundtrip_cases(run, nids) or []
    if run.full():
        return
    # 4. mutations of valid texts, 5. maps and aliases
    cases = []
    for t in printed[: (3000 if run.tier == "quick" else 60000)]:
        m = mutate(rng, t)
        if ascii_int_safe(m):
            cases.append({"text": m})
    for t in printed[: (2000 if run.tier == "quick" else 40000)]:
        r = rng.random()
        nsmap = [[0, 0]] + [[i, rng.randint(0, 9)] for i in rng.sample(range(1, 12), rng.randint(0, 4))]
        if r < 0.15:
            nsmap = []
        aliases = None
        if rng.random() < 0.5:
            names = [rng.choice(["HasComponent", "Int32", t, "i=1", "ns=1;i=2", "x"]) for _ in range(rng.randint(0, 3))]
            aliases = [[nm, rand_valid(rng)] for nm in names]
            # dict semantics: last binding wins -> keep last per name, as a dict would
            d = {}
            for nm, v in aliases:
                d[nm] = v
            aliases = [[k, v] for k, v in d.items()]
        text = t if rng.random() < 0.8 else rng.choice(["HasComponent", "Int32", "x", "i=1"])
        cases.append({"text": text, "nsmap": nsmap, "aliases": aliases})
    check_cases(run, cases)
    run.exhaustive = False


def rand_valid(rng):
    while True:
        n = rand_nodeid(rng)
        if (n[1] != "i" or numeric_ok(n[2])) and ascii_int_safe(n[2]):
            return n


def search_missing(run, disagreements):
    """the correspondence broke without a property failure: search harder around the disagreeing texts"""
    rng = run.rng
    seeds = [d["case"].get("text") for d in disagreements if isinstance(d["case"], dict) and d["case"].get("text")]
    cases = []
    for s in seeds[:50]:
        for _ in range(200):
            m = s
            for _ in range(rng.randint(1, 3)):
                m = mutate(rng, m)
            if ascii_int_safe(m):
                cases.append({"text": m})
    check_cases(run, cases)
    roundtrip_cases(run, [rand_valid(rng) for _ in range(50000)])


def replay(run, path):
    body = json.load(open(path))
    cases = body["case"] if isinstance(body["case"], list) else [body["case"]]
    for c in cases:
        if "text" in c and "nodeid" not in c:
            check_cases(run, [c])
        elif "nodeid" in c:
            roundtrip_cases(run, [c["nodeid"]])
        elif "print" in c:
            roundtrip_cases(run, [c["print"]])
    bad = bool(run.violations or run.disagreements)
    for kind, case, detail in run.violations:
        print("VIOLATION property=C09 replay=%s" % path)
        print(json.dumps(detail, ensure_ascii=False, default=str))
    for d in run.disagreements:
        print("model/implementation disagreement:", json.dumps(d, ensure_ascii=False, default=str))
    return 1 if bad else 0

"""C13 — relatives and node paths enumerate exactly the walks of the graph."""
import json

import pandas as pd

MODULE = "OpcuaModel.Props.C13"
TRUSTED_BASE = [
    "Lean 4.33.0 kernel; axioms audited (subset of propext, Classical.choice, Quot.sound)",
    "hand model Model/Graph.lean (extendRows / levels / findRelatives / nodePaths) of navigation.find_relatives and UAGraph.create_node_paths_by_reference_types, tied to /repo by this correspondence run",
    "pandas inner join / concat / melt / groupby semantics (modelled by list operations, validated by the run)",
    "driver JSON decoding, harness, the DFS walk-enumeration oracle",
]
ASSUMPTIONS = [
    "edge set acyclic when no cut-off is given (the statement's domain); node paths: the selected references form a tree below the root",
    "node ids are integers; browse names of the nodes on a path are strings",
]
RULE = ("all 64 topologically-labelled DAGs on 4 nodes x both directions x cut-offs 1..depth+1 and none x keep_paths on/off, random DAGs "
        "(chains, trees, diamonds, several start nodes, parallel edges), random trees for node paths; distinct = distinct (graph, starts, "
        "direction, cutoff, keep_paths); non-trivial = at least one edge")


def walks(edges, starts, cutoff, ancestors):
    """oracle: every walk (as node list) of <= cutoff edges from each start occurrence; parallel edges are distinct"""
    E = [(b, a) for a, b in edges] if ancestors else [tuple(e) for e in edges]
    out = []
    level = [[s] for s in starts]
    k = 0
    while level and (cutoff is None or k <= cutoff):
        out += level
        nxt = []
        for p in level:
            for a, b in E:
                if a == p[-1]:
                    nxt.append(p + [b])
        level = nxt
        k += 1
        if k > 64:
            raise RuntimeError("cyclic input")
    return out


def impl_relatives(edges, starts, cutoff, ancestors, keep):
    from opcua_tools.navigation import find_relatives
    nodes = pd.DataFrame({"id": pd.array(starts, dtype="Int64")})
    ed = pd.DataFrame({"Src": pd.array([e[0] for e in edges], dtype="Int64"),
                       "Trg": pd.array([e[1] for e in edges], dtype="Int64")})
    try:
        r = find_relatives(nodes, "id", ed, "a" if ancestors else "d", cutoff=cutoff, keep_paths=keep)
    except Exception as e:  # noqa: BLE001
        return {"err": type(e).__name__ + ": " + str(e)[:200]}
    rows = []
    for _, row in r.iterrows():
        ln = int(row["len_path"])
        item = {"start": int(row["id"]), "len": ln, "end": None if pd.isna(row["end"]) else int(row["end"])}
        if keep:
            path = []
            for i in range(ln + 1):
                v = row[i] if i in r.columns else None
                path.append(None if v is None or pd.isna(v) else int(v))
            item["path"] = path
        rows.append(item)
    return rows


def canon_rows(rows):
    return sorted(rows, key=lambda x: json.dumps(x, sort_keys=True))


def from_walks(ws, keep):
    rows = []
    for p in ws:
        item = {"start": p[0], "len": len(p) - 1, "end": p[-1]}
        if keep:
            item["path"] = list(p)
        rows.append(item)
    return canon_rows(rows)


def relatives_cases(run, cases):
    ops = []
    for c in cases:
        op = {"op": "relatives", "edges": c["edges"], "starts": c["starts"], "ancestors": c["ancestors"]}
        if c["cutoff"] is not None:
            op["cutoff"] = c["cutoff"]
        ops.append(op)
    outs = run.driver.batch(ops)
    for c, mo in zip(cases, outs):
        run.case(c, nontrivial=bool(c["edges"]), tag="rel:%s:%s:%s" % ("a" if c["ancestors"] else "d", "keep" if c["keep"] else "nokeep",
                                                                      "cut" if c["cutoff"] is not None else "nocut"))
        run.compared += 1
        io = impl_relatives(c["edges"], c["starts"], c["cutoff"], c["ancestors"], c["keep"])
        want = from_walks(walks(c["edges"], c["starts"], c["cutoff"], c["ancestors"]), c["keep"])
        mrows = from_walks([list(reversed(q)) for q in mo["rows"]], c["keep"])
        if isinstance(io, dict) or canon_rows(io) != want:
            if run.violation(c, {"what": "find_relatives rows differ from the walks of the graph", "impl": io, "expected": want,
                                 "call": "opcua_tools.find_relatives(nodes, 'id', edges, relative_type, cutoff, keep_paths)"}):
                return
        elif mrows != canon_rows(io):
            run.disagree(c, mrows, io)


def rand_dag(rng):
    kind = rng.choice(["chain", "tree", "diamond", "dag", "parallel"])
    n = rng.randint(2, 8)
    labels = rng.sample(range(1, 50), n)
    E = []
    if kind == "chain":
        E = [[labels[i], labels[i + 1]] for i in range(n - 1)]
    elif kind == "tree":
        E = [[labels[rng.randrange(i)], labels[i]] for i in range(1, n)]
    elif kind == "diamond":
        n = max(n, 4)
        labels = rng.sample(range(1, 50), n)
        E = [[labels[0], labels[1]], [labels[0], labels[2]], [labels[1], labels[3]], [labels[2], labels[3]]]
        E += [[labels[3], labels[i]] for i in range(4, n)]
    else:
        for i in range(n):
            for j in range(i + 1, n):
                if rng.random() < 0.4:
                    E.append([labels[i], labels[j]])
        if kind == "parallel" and E:
            E += [list(rng.choice(E)) for _ in range(rng.randint(1, 3))]
    rng.shuffle(E)
    k = rng.randint(1, 3)
    starts = rng.sample(labels, min(k, len(labels)))
    if rng.random() < 0.1:
        starts.append(99)           # a start node that is not in the graph
    return E, starts, labels


def depth(edges):
    d = 0
    ws = walks(edges, sorted({x for e in edges for x in e}), None, False)
    for w in ws:
        d = max(d, len(w) - 1)
    return d


# ---------------------------------------------------------------------------------- node paths
def impl_nodepaths(tree_edges, other_edges, root, names, reftypes):
    """UAGraph with object nodes `names` and reference types; edges typed by index into reftypes"""
    from opcua_tools.ua_data_types import UANodeId, NodeIdType
    from opcua_tools.ua_graph import UAGraph
    ids = sorted(names)
    rt_ids = {nm: 1000 + i for i, nm in enumerate(reftypes)}
    nodes = pd.DataFrame({
        "id": pd.array(ids + list(rt_ids.values()), dtype="Int32"),
        # below the root there are nodes of every class (methods, types, views, …), not only objects and variables
        "NodeClass": ["UAObject" if i == root else ["UAObject", "UAVariable", "UAMethod", "UAObjectType", "UAVariableType", "UADataType", "UAView"][i % 7] for i in ids]
                     + ["UAReferenceType"] * len(rt_ids),
        "BrowseName": [names[i] for i in ids] + list(rt_ids.keys()),
    })
    nodes["NodeId"] = [UANodeId(1, NodeIdType.NUMERIC, str(int(i))) for i in nodes["id"]]
    nodes["ns"] = 1
    allr = [(a, b, rt_ids[t]) for a, b, t in tree_edges + other_edges]
    refs = pd.DataFrame({"Src": pd.array([r[0] for r in allr], dtype="Int32"), "Trg": pd.array([r[1] for r in allr], dtype="Int32"),
                         "ReferenceType": pd.array([r[2] for r in allr], dtype="Int32")})
    try:
        g = UAGraph(nodes=nodes, references=refs, namespaces=["http://opcfoundation.org/UA/", "urn:a"], models=[])
        sel = sorted({t for _, _, t in tree_edges}) or [reftypes[0]]
        r = g.create_node_paths_by_reference_types(names[root], sel)
        return sorted([int(i), str(p)] for i, p in zip(r["id"], r["NodePath"]))
    except Exception as e:  # noqa: BLE001
        return {"err": type(e).__name__ + ": " + str(e)[:200]}


def nodepath_cases(run, n):
    import gen
    rng = run.rng
    cases = []
    for _ in range(n):
        deep = rng.random() < 0.15          # a path of ten or more steps (two-digit step numbers)
        k = rng.randint(11, 16) if deep else rng.randint(1, 9)
        ids = rng.sample(range(1, 80), k)
        pool = [gen.WORDS, gen.WORDS, gen.NONASCII, ["/", " ", "a/b", ":"]]
        names = {}
        used = set()
        for i in ids:
            while True:
                nm = gen.hostile_text(rng, maxparts=2, allow_ws_edges=False, allow_empty=False, pool=pool) + str(i)
                if nm not in used:
                    used.add(nm)
                    break
            names[i] = nm
        # browse names repeat along a path (Parameters/Parameters); only the root's name has to be unique for the look-up
        for i in ids[2:]:
            if rng.random() < 0.35:
                names[i] = names[rng.choice(ids[1:ids.index(i)])]
        # a node of another class may bear the root's name (an object and its type are often called alike): the root is the Object
        others = [x for x in ids[1:] if x % 7 != 0]
        if others and rng.random() < 0.3:
            names[rng.choice(others)] = names[ids[0]]
        reftypes = ["HasComponent", "Organizes", "HasProperty"]
        tsel = rng.sample(reftypes[:2], rng.randint(1, 2))
        tree = [[ids[i - 1] if deep and rng.random() < 0.9 else ids[rng.randrange(i)], ids[i], rng.choice(tsel)] for i in range(1, k)]
        # references of a type that is not selected must not matter
        other = [[rng.choice(ids), rng.choice(ids), "HasProperty"] for _ in range(rng.randint(0, 3))]
        # objects that are not below the root but point INTO the tree with a selected reference type (listed first):
        # they add no walk from the root
        outside = []
        if k >= 2 and rng.random() < 0.5:
            for o_ in range(rng.randint(1, 2)):
                oid = 90 + o_
                names[oid] = "Outside%d" % o_
                outside.append([oid, rng.choice(ids[1:]), rng.choice(tsel)])
            ids = ids + [x[0] for x in outside]
            tree = outside + tree
        cases.append({"nodepaths": {"tree": tree, "other": other, "root": ids[0], "names": [[i, names[i]] for i in ids], "reftypes": reftypes}})
    nodepath_check(run, cases)


def nodepath_check(run, cases):
    ops = [{"op": "nodepaths", "edges": [[a, b] for a, b, _ in c["nodepaths"]["tree"]], "root": c["nodepaths"]["root"],
            "names": c["nodepaths"]["names"]} for c in cases]
    outs = run.driver.batch(ops)
    for c, mo in zip(cases, outs):
        d = c["nodepaths"]
        names = {i: nm for i, nm in d["names"]}
        run.case(c, nontrivial=bool(d["tree"]), tag="nodepaths")
        run.compared += 1
        io = impl_nodepaths([tuple(x) for x in d["tree"]], [tuple(x) for x in d["other"]], d["root"], names, d["reftypes"])
        ws = walks([[a, b] for a, b, _ in d["tree"]], [d["root"]], None, False)
        want = sorted([w[-1], "/".join(names[x] for x in w)] if len(w) > 1 else [w[-1], names[w[-1]] + "/"] for w in ws)
        if io != want:
            if run.violation(c, {"what": "node paths differ from the browse names along the walk from the root", "impl": io, "expected": want,
                                 "call": "UAGraph.create_node_paths_by_reference_types(root_browsename, reference_type_names)"}):
                return
        elif sorted(mo["rows"]) != io:
            run.disagree(c, sorted(mo["rows"]), io)


def explore(run):
    rng = run.rng
    thorough = run.tier == "thorough"
    # corpus: the history of finding D-C13a (fixed): keep_paths with a cut-off that is reached
    corpus = [{"edges": [[1, 2], [2, 3], [3, 4]], "starts": [1], "cutoff": 2, "ancestors": False, "keep": True},
              {"edges": [[1, 2], [1, 3], [2, 4], [3, 4], [2, 4]], "starts": [1, 4], "cutoff": 2, "ancestors": False, "keep": True},
              {"edges": [[1, 2], [2, 3]], "starts": [3], "cutoff": 1, "ancestors": True, "keep": True},
              {"edges": [], "starts": [5], "cutoff": None, "ancestors": False, "keep": True}]
    relatives_cases(run, corpus)
    if run.full():
        return
    cases = []
    pairs = [(a, b) for a in range(1, 5) for b in range(a + 1, 5)]
    n_ex = 0
    for mask in range(1 << len(pairs)):
        E = [[a, b] for k, (a, b) in enumerate(pairs) if mask >> k & 1]
        n_ex += 1
        dep = depth(E)
        for anc in (False, True):
            for keep in (False, True):
                for cutoff in list(range(1, dep + 2)) + [None]:
                    if thorough or rng.random() < 0.35:
                        starts = [1] if not anc else [4]
                        if rng.random() < 0.3:
                            starts = rng.sample([1, 2, 3, 4], 2)
                        cases.append({"edges": E, "starts": starts, "cutoff": cutoff, "ancestors": anc, "keep": keep})
    run.extra["exhaustive_dags_4_nodes_topological"] = n_ex
    relatives_cases(run, cases)
    if run.full():
        return
    cases = []
    for _ in range(4000 if thorough else 250):
        E, starts, _ = rand_dag(rng)
        dep = depth(E)
        cutoff = rng.choice([None] + list(range(1, dep + 3)))
        cases.append({"edges": E, "starts": starts, "cutoff": cutoff, "ancestors": rng.random() < 0.5, "keep": rng.random() < 0.6})
    relatives_cases(run, cases)
    if run.full():
        return
    nodepath_cases(run, 2000 if thorough else 120)


def search_missing(run, disagreements):
    rng = run.rng
    cases = []
    for _ in range(3000):
        E, starts, _ = rand_dag(rng)
        cases.append({"edges": E, "starts": starts, "cutoff": rng.choice([None, 1, 2, 3, 4]), "ancestors": rng.random() < 0.5,
                      "keep": rng.random() < 0.6})
    relatives_cases(run, cases)
    nodepath_cases(run, 500)


def replay(run, path):
    body = json.load(open(path))
    cases = body["case"] if isinstance(body["case"], list) else [body["case"]]
    for c in cases:
        if "nodepaths" in c:
            nodepath_check(run, [c])
        else:
            relatives_cases(run, [c])
    for kind, case, detail in run.violations:
        print("VIOLATION property=C13 replay=%s" % path)
        print(json.dumps(detail, default=str)[:2000])
    for d in run.disagreements:
        print("model/implementation disagreement:", json.dumps(d, default=str)[:2000])
    return 1 if (run.violations or run.disagreements) else 0

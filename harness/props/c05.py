"""C05 — parse -> write_nodeset -> parse reproduces the graph."""
import json
import os

import docs as D
import minibase
import parsecheck
import writecheck as W
from props import c08

UA = minibase.UA
MODULE = "OpcuaModel.Props.C05"
TRUSTED_BASE = [
    "Lean 4.33.0 kernel; axioms audited (subset of propext, Classical.choice, Quot.sound)",
    "the stage theorems of C01-C03, C06-C09 and the junction theorems of Props/C05.lean are about the models Model/Parse.lean, Model/Write.lean, Model/Value.lean; each model is tied to /repo by its own correspondence run, and this check executes the real parse -> write -> parse on generated graphs",
    "lxml, pandas as in C01/C06; harness, generator",
]
ASSUMPTIONS = [
    "supported domain: every non-base namespace owns a node (D-C06a) and uses something of namespace 0 (D-C06b); browse names without a second ':' (D-C01a); "
    "attribute values inside the cast widths (D-C01c); values inside C08's supported domain; models and required models carry Version and PublicationDate (D-C05c)",
    "the end-to-end statement RoundTrip is not proved as a single theorem: it is composed from the stage theorems and executed on the real code here",
]
RULE = ("closed multi-namespace document sets (any dependency shape, namespaces whose index shifts when unused namespaces are dropped, all attribute "
        "columns, typed values, hostile text), written namespace by namespace and re-parsed with the untouched base document; distinct = distinct document set; "
        "non-trivial = >= 2 non-base namespaces or >= 1 cross-namespace reference")


def comparable_nodes(G, skip=None):
    """skip: keys whose Value is outside C08's supported domain in the original graph (not compared)"""
    nodes, refs = W.graph_abs(G)
    out = {}
    first = skip is None
    skip = set() if skip is None else skip
    for k, n in nodes.items():
        attrs = {a: v for a, v in n["attrs"].items() if not (a in ("IsAbstract", "Symmetric") and v is False)}
        v = n["value"]
        if first and v is not None and not (c08.ok_class(v) and v["t"] not in ("XmlElement", "ExtensionObject")):
            skip.add(k)
        out[k] = {"cls": n["cls"], "browse": n["browse"], "browse_ns": n["browse_ns"], "display": n["display"],
                  "description": n["description"], "attrs": attrs, "value": None if k in skip else parsecheck.norm_value(v)}
    return out, refs, skip


def models_of(G):
    return sorted(json.dumps({"uri": m["uri"], "version": m["version"],
                              "required": sorted([r["uri"], r["version"], r["publication_date"]] for r in m["required_models"])}, sort_keys=True)
                  for m in G.models)


def roundtrip(run, sc, idx, g, files, known=None):
    case = {"files": files}
    try:
        G, d = W.build_graph(sc, "a%d" % idx, files)
    except Exception as e:  # noqa: BLE001
        run.violation(case, {"what": "UAGraph.from_path raised on a closed document set", "impl": type(e).__name__ + ": " + str(e)[:300]})
        return
    out = sc.sub("b%d" % idx)
    open(os.path.join(out, "Opc.Ua.NodeSet2.xml"), "w", encoding="utf-8").write(minibase.base_xml())
    for k, uri in enumerate(G.namespaces[1:]):
        try:
            G.write_nodeset(os.path.join(out, "w%d.xml" % k), uri, last_modified=W.FIXED, publication_date=W.FIXED)
        except Exception as e:  # noqa: BLE001
            run.violation(case, {"what": "write_nodeset raised for " + uri, "impl": type(e).__name__ + ": " + str(e)[:300]})
            return
    from opcua_tools import UAGraph
    try:
        G2 = UAGraph.from_path(out)
    except Exception as e:  # noqa: BLE001
        run.violation(case, {"what": "the written documents cannot be parsed back", "impl": type(e).__name__ + ": " + str(e)[:300]})
        return
    run.compared += 1
    n1, r1, skip = comparable_nodes(G)
    n2, r2, _ = comparable_nodes(G2, skip)
    problems = []
    if sorted(G.namespaces) != sorted(G2.namespaces):
        problems.append("namespace URIs differ: %r vs %r" % (G.namespaces, G2.namespaces))
    if sorted(n1) != sorted(n2):
        problems.append("node sets differ: lost %r, new %r" % ([k for k in n1 if k not in n2][:3], [k for k in n2 if k not in n1][:3]))
    else:
        for k in n1:
            if n1[k] != n2[k]:
                problems.append("node %s differs: %r vs %r" % (k, n1[k], n2[k]))
                break
    for which, r_ in (("original", r1), ("re-parsed", r2)):
        if len(set(r_)) != len(r_):
            twice = sorted({x for x in r_ if r_.count(x) > 1})[:3]
            problems.append("the %s graph holds reference triples more than once (a graph's references are a relation): %r" % (which, twice))
    if r1 != r2:
        problems.append("reference triples differ: lost %r, new %r" % ([x for x in r1 if x not in r2][:3], [x for x in r2 if x not in r1][:3]))
    if models_of(G) != models_of(G2):
        problems.append("model versions / required models differ: %r vs %r" % (models_of(G)[:2], models_of(G2)[:2]))
    if problems:
        fid = known(problems) if known else None
        if fid and run.known(fid):
            return
        run.violation(case, {"what": "; ".join(problems)[:1500], "call": "UAGraph.from_path -> write_nodeset per namespace -> UAGraph.from_path"})


def full_models(g):
    for m in g["models"].values():
        m["version"] = m["version"] or "1.0.0"


def extra_required(g, rng):
    """a Model may require a model none of its nodes refers to (a declared dependency): it is part of the graph's models all the same.
    Only earlier namespaces are added, so the requirements stay acyclic."""
    for i, u in enumerate(g["uris"]):
        m = g["models"].get(u)
        if m is None:
            continue
        have = {r["uri"] for r in m["required"]}
        for x in g["uris"][:i]:
            if x not in have and rng.random() < 0.7:
                m["required"].append({"uri": x, "version": "1.0.0", "publication_date": "2020-01-01T00:00:00Z"})


def witnesses(run, sc):
    rng = run.rng
    # D-C05c: a Model without Version gets the default version
    g, files = W.gen_closed(rng, hostile=False, n_ns=1, n_nodes=2)
    for m in g["models"].values():
        m["version"] = None
        for r in m["required"]:
            r["version"] = None
            r["publication_date"] = None
    files = D.serialise(rng, g, extras=False)
    run.case({"witness": "D-C05c"}, tag="witness")
    roundtrip(run, sc, 9001, g, files, known=lambda p: "D-C05c" if all("model versions" in x for x in p) else None)
    # the special floating-point values (NaN, the infinities, -0.0, subnormals), scalar and in lists, are values like any other
    specials = ["nan", "inf", "-inf", "-0.0", "5e-324", "1.7976931348623157e+308"]
    for rnd in range(2):
        for _try in range(20):           # a set with at least three variables
            g, _ = W.gen_closed(rng, hostile=False, n_ns=1, n_nodes=9)
            vs = [k for k in g["order"] if g["nodes"][k]["cls"] == "UAVariable"]
            if len(vs) >= 3:
                break
        for j, k in enumerate(vs):
            t = "Double" if (j + rnd) % 2 == 0 else "Float"
            sp = specials[(j + rnd) % len(specials)]
            if t == "Float" and sp in ("5e-324", "1.7976931348623157e+308"):
                sp = "1.5"
            v = {"t": t, "v": sp}
            if j % 3 == 2:
                v = {"t": "ListOf", "typename": t, "items": [{"t": t, "v": "1.5"}, v]}
                g["nodes"][k]["attrs"]["ValueRank"] = "1"
            else:
                g["nodes"][k]["attrs"].pop("ValueRank", None)
            g["nodes"][k]["value"] = v
            g["nodes"][k]["attrs"]["DataType"] = D.BASE(D.VALUE_DT[t])
        full_models(g)
        files = D.serialise(rng, g, extras=False)
        run.case({"witness": "special floats", "variables": len(vs)}, nontrivial=bool(vs), tag="witness")
        roundtrip(run, sc, 9100 + rnd, g, files)
    # D-C05b: a NodeId inside a Value keeps the source document's local namespace index
    doc = minibase.DOC_B.replace('<t:Double>2.5</t:Double>', '<t:NodeId>\n<t:Identifier>ns=2;i=1000</t:Identifier></t:NodeId>').replace('DataType="i=11"', 'DataType="i=17"')
    from opcua_tools import UAGraph
    try:
        G, _ = W.build_graph(sc, "w5b", {"a.xml": minibase.DOC_A, "b.xml": doc})
        v = [x for x in G.nodes["Value"] if type(x).__name__ == "UANodeId"]
        run.case({"witness": "D-C05b"}, tag="witness")
        # the value was written as ns=2 of b.xml (= http://a.example/types, global index 1) but still says 2
        if v and v[0].namespace == 2 and G.namespaces.index("http://a.example/types") != 2:
            run.known("D-C05b")
    except Exception:  # noqa: BLE001
        pass


def explore(run):
    rng = run.rng
    thorough = run.tier == "thorough"
    with minibase.Scratch() as sc:
        witnesses(run, sc)
        for i in range(600 if thorough else 40):
            if rng.random() < 0.4:      # 3-5 namespaces, sparsely linked: a namespace that uses a later one but not an earlier one
                g, files0 = W.gen_closed(rng, hostile=rng.random() < 0.5, layered=True, n_nodes=rng.randint(2, 5))
            else:
                g, files0 = W.gen_closed(rng, hostile=rng.random() < 0.5, n_ns=rng.choice([1, 2, 2, 3, 3]))
            full_models(g)
            if len(g["uris"]) > 1 and rng.random() < 0.5:
                extra_required(g, rng)
            files = D.serialise(rng, g, extras=False)
            cross = sum(1 for (a, b, c) in g["refs"] if a[0] != b[0] and UA not in (a[0], b[0]))
            run.case({"set": i, "namespaces": len(g["uris"]), "cross_refs": cross}, nontrivial=len(g["uris"]) > 1 or cross > 0, tag="set:%d-ns" % len(g["uris"]))
            roundtrip(run, sc, i, g, files)
            if run.full():
                return


def search_missing(run, disagreements):
    pass


def replay(run, path):
    body = json.load(open(path))
    with minibase.Scratch() as sc:
        roundtrip(run, sc, 0, None, body["case"]["files"])
    for kind, c, detail in run.violations:
        print("VIOLATION property=C05 replay=%s" % path)
        print(json.dumps(detail, default=str, ensure_ascii=False)[:3000])
    return 1 if run.violations else 0

"""C12 — closures and type-constrained selections agree with graph reachability."""
import itertools
import json

import pandas as pd

MODULE = "OpcuaModel.Props.C12"
TRUSTED_BASE = [
    "Lean 4.33.0 kernel; axioms audited (subset of propext, Classical.choice, Quot.sound); Mathlib.Logic.Relation (TransGen/ReflTransGen), Batteries list permutation lemmas",
    "hand model Model/Graph.lean of fast_transitive_closure / typing_transitive_reflexive / subtypes / supertypes / constrain / modelling-rule selectors / circular, tied to /repo by this correspondence run",
    "pandas joins/isin/factorize and scipy sparse products as used by navigation.py (modelled by list operations, validated by the run)",
    "driver JSON decoding, harness, the BFS oracle",
]
ASSUMPTIONS = [
    "no self-loop among the edges given to the closure (the code asserts this)",
    "reference-type selectors are applied to a type that occurs as an end point of some reference (excluded point: finding D-C12a)",
]
RULE = ("all digraphs without self-loops on 4 labelled nodes (4096), random chains/trees/DAGs/cyclic/disconnected graphs with parallel edges, "
        "random reference-type hierarchies with typed instance references and namespaces; distinct = distinct (operation, graph); "
        "non-trivial = at least one edge")

HST, HIER, NONHIER, HASPROP, HMR, HTD = 0, 1, 2, 3, 4, 5
NAMES = {HST: "HasSubtype", HIER: "HierarchicalReferences", NONHIER: "NonHierarchicalReferences",
         HASPROP: "HasProperty", HMR: "HasModellingRule", HTD: "HasTypeDefinition"}


def reach(edges):
    """oracle: (a,b), a != b, b reachable from a over >= 1 edge"""
    adj = {}
    for a, b in edges:
        adj.setdefault(a, set()).add(b)
    out = set()
    nodes = {x for e in edges for x in e}
    for s in nodes:
        seen, stack = set(), list(adj.get(s, ()))
        while stack:
            x = stack.pop()
            if x in seen:
                continue
            seen.add(x)
            stack.extend(adj.get(x, ()))
        for t in seen:
            out.add((s, t))
    return out


def impl_closure(edges):
    from opcua_tools.navigation import fast_transitive_closure
    df = pd.DataFrame({"Src": [e[0] for e in edges], "Trg": [e[1] for e in edges]}, dtype="int64")
    try:
        r = fast_transitive_closure(df)
        return sorted([int(a), int(b)] for a, b in zip(r["Src"], r["Trg"]))
    except Exception as e:  # noqa: BLE001
        return {"err": type(e).__name__}


def closure_cases(run, graphs):
    outs = run.driver.batch([{"op": "closure", "edges": g} for g in graphs])
    for g, mo in zip(graphs, outs):
        run.case({"closure": g}, nontrivial=bool(g), tag="closure:%s" % ("cyclic" if any((b, a) in reach(g) for a, b in g) else "acyclic"))
        run.compared += 1
        io = impl_closure(g)
        want = sorted([a, b] for (a, b) in reach(g) if a != b)
        if io != want:
            if run.violation({"closure": g}, {"what": "fast_transitive_closure != reachability", "impl": io, "expected": want,
                                              "call": "opcua_tools.fast_transitive_closure(DataFrame(Src,Trg))"}):
                return
        elif sorted(mo["pairs"]) != io:
            run.disagree({"closure": g}, sorted(mo["pairs"]), io)


def rand_graph(rng):
    kind = rng.choice(["chain", "tree", "dag", "cyclic", "disconnected", "parallel", "parallel_chain"])
    n = rng.randint(2, 9)
    labels = rng.sample(range(1, 60), n)
    E = []
    if kind == "parallel_chain":
        # a path (or ring) of length >= 3 some of whose edges are doubled or tripled
        n = rng.randint(4, 9)
        labels = rng.sample(range(1, 200), n)
        E = [[labels[i], labels[i + 1]] for i in range(n - 1)]
        if rng.random() < 0.3:
            E.append([labels[-1], labels[0]])
        E += [list(rng.choice(E)) for _ in range(rng.randint(1, n))]
        rng.shuffle(E)
        return E
    if kind == "chain":
        n = rng.randint(2, 40)
        labels = rng.sample(range(1, 200), n)
        E = [[labels[i], labels[i + 1]] for i in range(n - 1)]
    elif kind == "tree":
        E = [[labels[rng.randrange(i)], labels[i]] for i in range(1, n)]
    elif kind in ("dag", "parallel"):
        for i in range(n):
            for j in range(i + 1, n):
                if rng.random() < 0.35:
                    E.append([labels[i], labels[j]])
        if kind == "parallel" and E:
            E += [rng.choice(E) for _ in range(rng.randint(1, 3))]
    elif kind == "cyclic":
        for i in range(n):
            for j in range(n):
                if i != j and rng.random() < 0.25:
                    E.append([labels[i], labels[j]])
    else:
        half = n // 2
        E = [[labels[rng.randrange(max(1, i))], labels[i]] for i in range(1, half)]
        E += [[labels[half + rng.randrange(max(1, i - half))], labels[i]] for i in range(half + 1, n)]
    rng.shuffle(E)
    return E


# ------------------------------------------------------------------------------- typed graphs
def rand_typed(rng):
    """reference-type hierarchy + typed instance references (+ namespaces for the circular check)"""
    ntypes = rng.randint(6, 11)
    tids = list(range(ntypes))
    refs = []
    # hierarchy: every extra type hangs under an earlier one; the six named ones get a skeleton
    parent = {HIER: None, NONHIER: None, HST: HIER, HASPROP: HIER, HMR: NONHIER, HTD: NONHIER}
    isolated = set()
    for t in tids:
        if t in parent:
            p = parent[t]
        else:
            p = rng.choice([x for x in tids if x < t])
        if p is None:
            continue
        if t >= 6 and rng.random() < 0.25:
            isolated.add(t)
            continue
        refs.append([p, t, HST])
    if rng.random() < 0.3:   # second parent somewhere (DAG hierarchy)
        t = rng.choice(tids[2:])
        p = rng.choice(tids)
        if p != t:
            refs.append([p, t, HST])
    ninst = rng.randint(3, 9)
    inst = list(range(100, 100 + ninst))
    irefs = []
    for _ in range(rng.randint(2, 16)):
        a, b = rng.sample(inst, 2)
        irefs.append([a, b, rng.choice(tids)])
    for t in sorted(isolated):
        # a type outside the subtype hierarchy that is nevertheless an end point of some (non-HasSubtype) reference:
        # it has its reflexive pair, so the selectors must work for it (unlike the types of finding D-C12a)
        if rng.random() < 0.6:
            other = rng.choice(inst)
            ty = rng.choice([x for x in tids if x != HST])
            irefs.append([t, other, ty] if rng.random() < 0.5 else [other, t, ty])
    if rng.random() < 0.4 and irefs:
        irefs.append(list(rng.choice(irefs)))            # duplicate row
    # the named reference types are base types; further ones are partly custom types of other namespaces (deriving from each other)
    ns = {t: (0 if t < 6 else rng.choice([0, 1, 1, 2])) for t in tids}
    for i in inst:
        ns[i] = rng.choice([1, 1, 2])
    return {"types": tids, "type_refs": refs, "inst": inst, "inst_refs": irefs, "ns": ns, "isolated": sorted(isolated)}


def frames(g):
    tn = pd.DataFrame({
        "id": pd.array(g["types"] + g["inst"], dtype="Int32"),
        "NodeClass": ["UAReferenceType"] * len(g["types"]) + ["UAObject"] * len(g["inst"]),
        "BrowseName": [NAMES.get(t, "T%d" % t) for t in g["types"]] + ["n%d" % i for i in g["inst"]],
    })
    allrefs = g["type_refs"] + g["inst_refs"]
    tr = pd.DataFrame({"Src": pd.array([r[0] for r in allrefs], dtype="Int32"),
                       "Trg": pd.array([r[1] for r in allrefs], dtype="Int32"),
                       "ReferenceType": pd.array([r[2] for r in allrefs], dtype="Int32")})
    ir = pd.DataFrame({"Src": pd.array([r[0] for r in g["inst_refs"]], dtype="Int32"),
                       "Trg": pd.array([r[1] for r in g["inst_refs"]], dtype="Int32"),
                       "ReferenceType": pd.array([r[2] for r in g["inst_refs"]], dtype="Int32")})
    return tn, tr, ir


def rows3(df):
    return sorted([int(a), int(b), int(c)] for a, b, c in zip(df["Src"], df["Trg"], df["ReferenceType"]))


def sub_oracle(g):
    sub = [(r[0], r[1]) for r in g["type_refs"] + g["inst_refs"] if r[2] == HST]
    return reach(sub)


def typed_cases(run, graphs):
    from opcua_tools import navigation as nav
    ops, plan = [], []
    for g in graphs:
        allrefs = g["type_refs"] + g["inst_refs"]
        base = {"op": "typing", "hst": HST, "type_refs": allrefs}
        T = run.rng.choice(g["isolated"]) if g["isolated"] and run.rng.random() < 0.4 else run.rng.choice(g["types"])
        plan.append((g, "subtypes", T)); ops.append(dict(base, what="subtypes", types=[T]))
        plan.append((g, "supertypes", T)); ops.append(dict(base, what="supertypes", types=[T]))
        plan.append((g, "constrain", T)); ops.append(dict(base, what="constrain", inst=g["inst_refs"], types=[T]))
        # several types asked at once (their subtype sets overlap when one lies below the other): the (type, subtype) table is the
        # union of the single-type answers — round 8: a de-duplication on the subtype column alone
        occ = sorted({x for r in allrefs for x in r[:2]} & set(g["types"]))
        if len(occ) >= 2:
            many = run.rng.sample(occ, min(len(occ), run.rng.choice([2, 3])))
            below = [r[1] for r in allrefs if r[2] == HST and r[0] == many[0] and r[1] != many[0]]
            if below and below[0] not in many:
                many.append(below[0])
            plan.append((g, "subtypes_many", many)); ops.append(dict(base, what="subtypes", types=many))
            plan.append((g, "supertypes_many", many)); ops.append(dict(base, what="supertypes", types=many))
        for sel, nm in ((HIER, "hier"), (NONHIER, "nonhier"), (HASPROP, "hasprop"), (HMR, "hmr")):
            plan.append((g, nm, sel)); ops.append(dict(base, what="constrain", inst=g["inst_refs"], types=[sel]))
        plan.append((g, "hier_mr", HIER)); ops.append(dict(base, what="with_mr", inst=g["inst_refs"], sel=HIER, hmr=HMR))
        plan.append((g, "hier_nomr", HIER)); ops.append(dict(base, what="no_mr", inst=g["inst_refs"], sel=HIER, hmr=HMR))
        plan.append((g, "nonhier_nomr", NONHIER)); ops.append(dict(base, what="no_mr", inst=g["inst_refs"], sel=NONHIER, hmr=HMR))
    outs = run.driver.batch(ops)
    for (g, what, T), mo in zip(plan, outs):
        tn, tr, ir = frames(g)
        allrefs = g["type_refs"] + g["inst_refs"]
        occurs = {x for r in allrefs for x in r[:2]}
        so = sub_oracle(g)
        subs_of = lambda t: {t} | {b for (a, b) in so if a == t}   # noqa: E731
        case = {"typed": g, "what": what, "type": T}
        run.case(case, tag="typed:" + what)
        run.compared += 1
        try:
            if what == "subtypes_many":
                r = nav.subtypes_of_nodes(list(T), tn, tr)
                io = sorted([int(a), int(b)] for a, b in zip(r["type"], r["subtype"]))
                want = sorted([t, b] for t in T for b in subs_of(t))
                mo_c = sorted(mo["pairs"])
            elif what == "supertypes_many":
                r = nav.supertypes_of_nodes(list(T), tn, tr)
                io = sorted([int(a), int(b)] for a, b in zip(r["supertype"], r["type"]))
                want = sorted([a, t] for t in T for a in ({t} | {a for (a, b) in so if b == t}))
                mo_c = sorted(mo["pairs"])
            elif what == "subtypes":
                r = nav.subtypes_of_nodes([T], tn, tr)
                io = sorted([int(a), int(b)] for a, b in zip(r["type"], r["subtype"]))
                want = sorted([T, b] for b in subs_of(T))
                mo_c = sorted(mo["pairs"])
            elif what == "supertypes":
                r = nav.supertypes_of_nodes([T], tn, tr)
                io = sorted([int(a), int(b)] for a, b in zip(r["supertype"], r["type"]))
                want = sorted([a, T] for a in ({T} | {a for (a, b) in so if b == T}))
                mo_c = sorted(mo["pairs"])
            else:
                hmr_src = {r[0] for r in g["inst_refs"] if r[2] in subs_of(HMR)}
                if what == "constrain":
                    r = nav.constrain_to_reference_type(ir, tn, tr, [T]); sel = T; filt = None
                elif what == "hier":
                    r = nav.hierarchical_references(ir, tr, tn); sel = HIER; filt = None
                elif what == "nonhier":
                    r = nav.non_hierarchical_references(ir, tr, tn); sel = NONHIER; filt = None
                elif what == "hasprop":
                    r = nav.has_property_references(ir, tr, tn); sel = HASPROP; filt = None
                elif what == "hmr":
                    r = nav.has_modelling_rule_references(ir, tr, tn); sel = HMR; filt = None
                elif what == "hier_mr":
                    r = nav.hierarchical_references_trg_has_modelling_rule(ir, tr, tn); sel = HIER; filt = True
                elif what == "hier_nomr":
                    r = nav.hierarchical_references_trg_has_no_modelling_rule(ir, tr, tn); sel = HIER; filt = False
                else:
                    r = nav.non_hierarchical_references_trg_has_no_modelling_rule(ir, tr, tn); sel = NONHIER; filt = False
                io = rows3(r)
                mo_c = sorted(mo["refs"])
                T = sel
                chosen = [x for x in g["inst_refs"] if x[2] in subs_of(sel)]
                if filt is None:
                    want = sorted(chosen)
                elif filt:
                    # one row per (reference, HasModellingRule reference leaving its target): the property speaks of the set
                    want = None
                    want_set = sorted({tuple(x) for x in chosen if x[1] in hmr_src})
                else:
                    want = sorted(x for x in chosen if x[1] not in hmr_src)
        except Exception as e:  # noqa: BLE001
            io, want, mo_c = {"err": type(e).__name__ + ": " + str(e)[:200]}, "no-exception", None
        if want is None:
            ok = isinstance(io, list) and sorted({tuple(x) for x in io}) == want_set
            want = [list(x) for x in want_set]
        else:
            ok = io == want
        if not ok:
            if not isinstance(T, list) and T not in occurs and isinstance(io, list) and run.known("D-C12a"):
                run.count("known:D-C12a")
                continue
            if run.violation(case, {"what": "selection differs from the reachability-based specification", "impl": io,
                                    "expected": want, "call": "opcua_tools.navigation.<%s>" % what}):
                return
        elif mo_c is not None and io != mo_c:
            run.disagree(case, mo_c, io)


def cyc_oracle(edges):
    r = reach(edges)
    return sorted({a for (a, b) in r if a == b} | {a for (a, b) in r if (b, a) in r and a != b})


def circular_cases(run, graphs):
    from opcua_tools.ua_data_types import UANodeId, NodeIdType
    from opcua_tools.ua_graph import UAGraph
    ops, plan = [], []
    for g in graphs:
        so = sub_oracle(g)
        hier = {HIER} | {b for (a, b) in so if a == HIER}
        for U in (1, 2):
            # every reference of the graph counts — also the HasSubtype references between reference types of that namespace
            touch = [r for r in g["type_refs"] + g["inst_refs"] if g["ns"][r[0]] == U or g["ns"][r[1]] == U]
            E = [[r[0], r[1]] for r in touch if r[2] in hier]
            plan.append((g, U, E)); ops.append({"op": "circular", "edges": E})
    outs = run.driver.batch(ops)
    for (g, U, E), mo in zip(plan, outs):
        case = {"circular": g, "namespace": U}
        run.case(case, nontrivial=bool(E), tag="circular")
        run.compared += 1
        try:
            tn, tr, ir = frames(g)
            nodes = tn.copy()
            nodes["NodeId"] = [UANodeId(g["ns"][int(i)], NodeIdType.NUMERIC, str(int(i))) for i in nodes["id"]]
            nodes["ns"] = [g["ns"][int(i)] for i in nodes["id"]]
            graph = UAGraph(nodes=nodes, references=tr.copy(), namespaces=["http://opcfoundation.org/UA/", "urn:a", "urn:b"], models=[])
            r = graph.find_circular_reference_nodes(["http://opcfoundation.org/UA/", "urn:a", "urn:b"][U])
            io = sorted(int(x.value) for x in r["NodeId"])
        except Exception as e:  # noqa: BLE001
            io = {"err": type(e).__name__ + ": " + str(e)[:200]}
        want = cyc_oracle(E)
        if io != want:
            if run.violation(case, {"what": "find_circular_reference_nodes != nodes on a cycle of hierarchical references touching the namespace",
                                    "impl": io, "expected": want, "call": "UAGraph.find_circular_reference_nodes(uri)"}):
                return
        elif sorted(mo["nodes"]) != io:
            run.disagree(case, sorted(mo["nodes"]), io)


def all_digraphs4():
    pairs = [(a, b) for a in range(1, 5) for b in range(1, 5) if a != b]
    for mask in range(1 << len(pairs)):
        yield [[a, b] for k, (a, b) in enumerate(pairs) if mask >> k & 1]


def explore(run):
    rng = run.rng
    thorough = run.tier == "thorough"
    closure_cases(run, [[[1, 2], [2, 3], [3, 1], [4, 5]], [], [[7, 8]], [[1, 2], [2, 3], [3, 4], [1, 2], [2, 3]],
                        [[a, a % 5 + 1] for a in range(1, 6)] * 2])
    if run.full():
        return
    gs = list(all_digraphs4())
    run.extra["exhaustive_digraphs_4_nodes"] = len(gs)
    closure_cases(run, gs)
    if run.full():
        return
    closure_cases(run, [rand_graph(rng) for _ in range(3000 if thorough else 300)])
    # wide diamonds: many two-step walks between one pair (the squaring step adds up 130 / 256 products for it)
    closure_cases(run, [[[0, 1]] + [[1, c] for c in range(10, 10 + k)] + [[c, 2] for c in range(10, 10 + k)] + [[2, 3]] for k in ((130, 256) if thorough else (130,))])
    if thorough:
        closure_cases(run, [[[i, i + 1] for i in range(1, n)] for n in (33, 64, 65, 100)])
    if run.full():
        return
    corpus = []
    for f in run.findings.values():
        if f["property"] == "C12" and "typed" in f.get("witness", {}):
            g = dict(f["witness"]["typed"]); g["ns"] = {int(k): v for k, v in g["ns"].items()}
            corpus.append(g)
    typed_cases(run, corpus)
    if run.full():
        return
    tg = [rand_typed(rng) for _ in range(2500 if thorough else 120)]
    typed_cases(run, tg)
    if run.full():
        return
    # a custom hierarchical reference type deriving from another custom type (both outside the base namespace), used on a cycle
    wit = {"types": list(range(8)), "type_refs": [[HIER, HST, HST], [HIER, HASPROP, HST], [NONHIER, HMR, HST], [NONHIER, HTD, HST], [HASPROP, 6, HST], [6, 7, HST]],
           "inst": [100, 101, 102, 103], "inst_refs": [[100, 101, 7], [101, 102, 7], [102, 100, 7], [102, 103, 6], [103, 102, HTD]],
           "ns": {0: 0, 1: 0, 2: 0, 3: 0, 4: 0, 5: 0, 6: 1, 7: 1, 100: 1, 101: 1, 102: 1, 103: 2}, "isolated": []}
    circular_cases(run, [wit] + tg[: (800 if thorough else 60)])


def search_missing(run, disagreements):
    rng = run.rng
    closure_cases(run, [rand_graph(rng) for _ in range(3000)])
    typed_cases(run, [rand_typed(rng) for _ in range(600)])


def replay(run, path):
    body = json.load(open(path))
    cases = body["case"] if isinstance(body["case"], list) else [body["case"]]
    for c in cases:
        if "closure" in c:
            closure_cases(run, [c["closure"]])
        elif "typed" in c:
            g = c["typed"]; g["ns"] = {int(k): v for k, v in g["ns"].items()}
            typed_cases(run, [g])
        elif "circular" in c:
            g = c["circular"]; g["ns"] = {int(k): v for k, v in g["ns"].items()}
            circular_cases(run, [g])
    for kind, case, detail in run.violations:
        print("VIOLATION property=C12 replay=%s" % path)
        print(json.dumps(detail, default=str)[:2000])
    for d in run.disagreements:
        print("model/implementation disagreement:", json.dumps(d, default=str)[:2000])
    return 1 if (run.violations or run.disagreements) else 0

"""Shared machinery for C05–C07 (and C15, C16): real graphs built from generated closed document sets,
written by the real write_nodeset and by the model's writeDoc, read back by an independent reader."""
import datetime
import io
import json
import os

import docs as D
import minibase
import parse_run as P
import values
import xmltree
from props import c08

UA = minibase.UA
NS_XSD = D.NS_XSD
FIXED = datetime.datetime(2024, 1, 2, 3, 4, 5, tzinfo=datetime.timezone.utc)
META = P.META | {"IsAbstract", "Symmetric"}


def build_graph(scratch, name, files):
    from opcua_tools import UAGraph
    d = scratch.sub(name)
    k = 0
    while os.listdir(d):            # never mix two document sets in one directory
        k += 1
        d = scratch.sub("%s_%d" % (name, k))
    scratch.write(d, files, with_base=True)
    return UAGraph.from_path(d), d


def graph_json(g):
    """UAGraph -> the model's Graph JSON"""
    import pandas as pd
    nodes = []
    cols = [c for c in g.nodes.columns if c not in P.META]
    for _, r in g.nodes.iterrows():
        attrs = []
        for c in cols:
            v = P.cell(r[c])
            if v is None:
                continue
            attrs.append([c, v])
        val = values.describe(r["Value"]) if "Value" in g.nodes.columns else None
        if val is not None and val.get("t") == "PyNone":
            val = None
        node = {"id": int(r["id"]), "cls": r["NodeClass"], "nid": P.nid_json(r["NodeId"]), "browse": r["BrowseName"],
                "browse_ns": int(r["BrowseNameNamespace"]), "display": r["DisplayName"], "description": r["Description"],
                "dt": None if "DataType" not in g.nodes.columns or pd.isna(r["DataType"]) else int(r["DataType"]),
                "parent": None if "ParentNodeId" not in g.nodes.columns or pd.isna(r["ParentNodeId"]) else int(r["ParentNodeId"]),
                "md": None if "MethodDeclarationId" not in g.nodes.columns or pd.isna(r["MethodDeclarationId"]) else int(r["MethodDeclarationId"]),
                "attrs": attrs}
        if val is not None:
            node["value"] = c08.for_model(fix_value(val))
        nodes.append(node)
    refs = [[int(a), int(b), int(c)] for a, b, c in zip(g.references["Src"], g.references["Trg"], g.references["ReferenceType"])]
    return {"namespaces": list(g.namespaces), "nodes": nodes, "refs": refs, "models": g.models}


def fix_value(v):
    """describe() output -> description usable by for_model (raw XML carried as text)"""
    v = dict(v)
    if v["t"] == "ExtensionObject" and isinstance(v.get("body"), dict):
        v["raw"] = v["body"].get("v")
    if v["t"] == "ListOf":
        v["items"] = [fix_value(x) for x in v["items"]]
    return v


def impl_write(g, uri, outgoing, version=None):
    buf = io.StringIO()
    try:
        g.write_nodeset(buf, uri, include_outgoing_instance_level_references=outgoing, last_modified=FIXED, publication_date=FIXED,
                        new_model_version=version)
        return {"text": buf.getvalue()}
    except Exception as e:  # noqa: BLE001
        return {"err": type(e).__name__, "msg": str(e)[:300], "partial": buf.getvalue()[:200]}


def read_doc(text):
    """independent NodeSet2 reader (lxml + the schema's structure, not the repository's parser):
    returns None when the text is not well-formed"""
    import lxml.etree as ET
    try:
        root = ET.fromstring(text.encode("utf-8"))
    except ET.XMLSyntaxError as e:
        return {"not_well_formed": str(e)[:300]}
    X = "{%s}" % NS_XSD
    uris = [u.text for nsu in root.findall(X + "NamespaceUris") for u in nsu.findall(X + "Uri")]
    table = [UA] + uris

    def res(text_):
        """a NodeId text of the document -> [uri, type, identifier]; anything that is not a NodeId text is kept as
        an unresolvable identifier (so that it shows up as a difference, not as a reader failure)"""
        m = (text_ or "").strip()
        try:
            if m.startswith("ns="):
                k, rest = m[3:].split(";", 1)
                k = int(k)
            else:
                k, rest = 0, m
            t, ident = rest.split("=", 1)
        except ValueError:
            return ["<not a NodeId text>", "", m]
        return [table[k] if 0 <= k < len(table) else "<undeclared index %d>" % k, t, ident]
    models = []
    for ms in root.findall(X + "Models"):
        for m in ms.findall(X + "Model"):
            models.append({"uri": m.get("ModelUri"), "version": m.get("Version"), "publication_date": m.get("PublicationDate"),
                           "required": [{"uri": r.get("ModelUri"), "version": r.get("Version"), "publication_date": r.get("PublicationDate")}
                                        for r in m.findall(X + "RequiredModel")]})
    aliases = {a.get("Alias"): a.text for als in root.findall(X + "Aliases") for a in als.findall(X + "Alias")}
    nodes = []
    for e in root:
        loc = e.tag[len(X):] if e.tag.startswith(X) else None
        if loc not in D.CLASSES:
            continue
        attrs = dict(e.attrib)
        nid = res(attrs.pop("NodeId"))
        bn = attrs.pop("BrowseName")
        if ":" in bn and bn.split(":", 1)[0].isdigit():
            k, name = bn.split(":", 1)
            bns = table[int(k)] if int(k) < len(table) else "<undeclared index %s>" % k
        else:
            bns, name = UA, bn
        for a in ("DataType", "ParentNodeId", "MethodDeclarationId"):
            if a in attrs:
                attrs[a] = res(aliases.get(attrs[a], attrs[a]))
        dn = e.find(X + "DisplayName")
        ds = e.find(X + "Description")
        refs = []
        for rs in e.findall(X + "References"):
            for r in rs.findall(X + "Reference"):
                other = res(aliases.get((r.text or "").strip(), r.text))
                ty = res(aliases.get(r.get("ReferenceType"), r.get("ReferenceType")))
                refs.append([nid, other, ty] if r.get("IsForward", "true") != "false" else [other, nid, ty])
        val = e.find(X + "Value")
        nodes.append({"cls": loc, "id": nid, "browse": name, "browse_ns": bns, "display": (dn.text or "") if dn is not None else "",
                      "description": (ds.text or "") if ds is not None else "", "attrs": attrs, "refs": refs,
                      "value": None if val is None or len(val) == 0 else val[0], "raw_attrs": dict(e.attrib)})
    return {"uris": uris, "models": models, "nodes": nodes, "root": root}


def graph_abs(g):
    """the abstract content of a UAGraph: nodes keyed by (uri, type, ident), reference triples"""
    import pandas as pd
    ns = list(g.namespaces)
    look = {int(r["id"]): r["NodeId"] for _, r in g.nodes.iterrows()}
    key = lambda n: [ns[n.namespace], n.nodeid_type.value, n.value]   # noqa: E731
    nodes = {}
    cols = [c for c in g.nodes.columns if c not in P.META]
    for _, r in g.nodes.iterrows():
        attrs = {}
        for c in cols:
            v = P.cell(r[c])
            if v is None:
                continue
            attrs[c] = v
        for c in ("DataType", "ParentNodeId", "MethodDeclarationId"):
            if c in g.nodes.columns and not pd.isna(r[c]) and int(r[c]) in look:
                attrs[c] = key(look[int(r[c])])
        nodes[json.dumps(key(r["NodeId"]))] = {
            "cls": r["NodeClass"], "id": key(r["NodeId"]), "browse": r["BrowseName"], "browse_ns": ns[int(r["BrowseNameNamespace"])],
            "display": r["DisplayName"], "description": r["Description"], "attrs": attrs,
            "value": values.describe(r["Value"]) if "Value" in g.nodes.columns else None}
    refs = sorted(json.dumps([key(look[int(a)]), key(look[int(b)]), key(look[int(c)])])
                  for a, b, c in zip(g.references["Src"], g.references["Trg"], g.references["ReferenceType"]))
    return nodes, refs


WRITTEN_ATTRS = ["DataType", "ValueRank", "AccessLevel", "UserAccessLevel", "IsAbstract", "Symmetric", "ParentNodeId", "ArrayDimensions",
                 "MinimumSamplingInterval", "MethodDeclarationId", "EventNotifier", "Historizing", "WriteMask", "SymbolicName"]


def attr_as_text(v):
    if isinstance(v, bool):
        return "true" if v else "false"
    return str(v)


def model_doc_canon(md):
    """model WDoc JSON -> comparable form (nodes sorted by NodeId text, refs sorted)"""
    return {"uris": md["uris"], "model_uri": md["model_uri"], "version": md["version"],
            "required": [[r["uri"], r["version"], r["publication_date"]] for r in md["required"]],
            "nodes": sorted(({"cls": n["cls"], "attrs": dict(n["attrs"]), "display": n["display"], "description": n["description"],
                              "refs": sorted(map(json.dumps, n["refs"])), "value": canon_value_text(n["value_text"])}
                             for n in md["nodes"]), key=lambda n: n["attrs"]["NodeId"])}


def canon_value_text(t):
    import lxml.etree as ET
    if t is None:
        return None
    try:
        e = ET.fromstring(t.encode("utf-8"))
        return json.dumps(xmltree.strip_ws(xmltree.resolved(e)), sort_keys=True)
    except ET.XMLSyntaxError:
        return "ILL-FORMED:" + t


def impl_doc_canon(text):
    """the infoset of the implementation's text in the same comparable form (L1)"""
    import lxml.etree as ET
    root = ET.fromstring(text.encode("utf-8"))
    X = "{%s}" % NS_XSD
    uris = [u.text for nsu in root.findall(X + "NamespaceUris") for u in nsu.findall(X + "Uri")]
    m = root.find(X + "Models").find(X + "Model")
    nodes = []
    for e in root:
        loc = e.tag[len(X):] if e.tag.startswith(X) else None
        if loc not in D.CLASSES:
            continue
        dn, ds = e.find(X + "DisplayName"), e.find(X + "Description")
        val = e.find(X + "Value")
        refs = [json.dumps([r.get("IsForward", "true") != "false", r.get("ReferenceType"), r.text or ""])
                for rs in e.findall(X + "References") for r in rs.findall(X + "Reference")]
        nodes.append({"cls": loc, "attrs": dict(e.attrib), "display": (dn.text or "") if dn is not None else None,
                      "description": (ds.text or "") if ds is not None else "", "refs": sorted(refs),
                      "value": None if val is None or len(val) == 0 else json.dumps(xmltree.strip_ws(xmltree.resolved(val[0])), sort_keys=True)})
    return {"uris": uris, "model_uri": m.get("ModelUri"), "version": m.get("Version"),
            "required": [[r.get("ModelUri"), r.get("Version"), r.get("PublicationDate")] for r in m.findall(X + "RequiredModel")],
            "_now": None,
            "nodes": sorted(nodes, key=lambda n: n["attrs"]["NodeId"])}


def same_docs(a, b):
    """L1 equality"""
    a, b = dict(a), dict(b)
    a.pop("_now", None), b.pop("_now", None)
    return a == b


def schema():
    import lxml.etree as ET
    import opcua_tools
    p = os.path.join(os.path.dirname(opcua_tools.__file__), "static", "UANodeSet.xsd")
    return ET.XMLSchema(ET.parse(p))


# ------------------------------------------------------------------------------------------------
# byte level (L2): the implementation's text against the model's, up to sibling order
# ------------------------------------------------------------------------------------------------
import re as _re


def split_text(text):
    """header, [node texts with sorted Reference children], footer"""
    m = _re.search(r"<Aliases></Aliases>\n", text)
    if not m:
        return text, [], ""
    head, body = text[:m.end()], text[m.end():]
    foot = ""
    if body.endswith("\n</UANodeSet>"):
        body, foot = body[:-len("\n</UANodeSet>")], "\n</UANodeSet>"
    chunks = _re.split(r"\n(?=<UA(?:Object|Variable|Method|View|DataType|ReferenceType|ObjectType|VariableType)[ >])", body) if body else []
    out = []
    for c in chunks:
        # a raw XML element value carries the white space that followed it in its source document (lxml tail)
        c = _re.sub(r">\s+</Value>", "></Value>", c)
        mm = _re.search(r"<References>(.*?)</References>", c, _re.S)
        if mm:
            parts = sorted(p for p in _re.split(r"(?=<Reference )", mm.group(1)) if p)
            c = c[:mm.start(1)] + "".join(parts) + c[mm.end(1):]
        out.append(c)
    return head, sorted(out), foot


def now_masked(text):
    return _re.sub(r'PublicationDate="\d\d\d\d-[^"]*\+00:00" />', 'PublicationDate="<now>" />', text)


def _plain_nodeid_values(v, rng):
    import gen
    if v is None:
        return v
    if v["t"] == "Boolean" and v["v"] is None:
        v = dict(v, v=False)           # a null Boolean is read as Python None (finding D-C08e); in a list it aborts the parse
    elif v["t"] == "NodeId" and v["v"][1] != "i":
        v = dict(v, v=[v["v"][0], v["v"][1], gen.plain_text(rng) + "é"])
    elif v["t"] == "ListOf":
        v = dict(v, items=[_plain_nodeid_values(x, rng) for x in v["items"]])
    return v


def gen_closed(rng, hostile, safe_values=True, **kw):
    """safe_values: NodeId-typed Values get identifiers without XML-special characters (a NodeId value is
    written unescaped — finding D-C08c / D-C07e — which would make the whole document ill-formed)"""
    g = D.gen_graph(rng, hostile=hostile, closed=True, **kw)
    if safe_values:
        for n in g["nodes"].values():
            n["value"] = _plain_nodeid_values(n["value"], rng)
    return g, D.serialise(rng, g)


def model_write(run, gj, uri, outgoing):
    return run.driver.ask({"op": "write.doc", "graph": gj, "uri": uri, "outgoing": outgoing,
                           "last_modified": FIXED.isoformat(), "publication_date": FIXED.isoformat()})

"""Seeded generators shared by the checks (one PRNG per run: every choice replays)."""

XML_SPECIAL = ["<", ">", "&", '"', "'", "]]>", "&amp;", "<!--"]
SYNTAX = [":", ";", "=", "ns", "ns=", "/", "\\", ","]
NONASCII = ["é", "Ø", "ß", "ü", "λ", "Ж", "中", "文", "日本", "😀", "𝔘", " ", " "]
WORDS = ["Pump", "Speed", "Mode", "transform", "answers", "Temp", "Valve", "a", "b", "x", "Type", "Inst", "1", "07", "42"]
BLANKS = [" ", "  ", "\t", "\n"]


def hostile_text(rng, maxparts=4, allow_ws_edges=True, allow_empty=True, pool=None):
    """text mixing words, XML-special, syntax and non-ASCII fragments"""
    if allow_empty and rng.random() < 0.04:
        return ""
    pools = pool or [WORDS, WORDS, XML_SPECIAL, SYNTAX, NONASCII, [" "]]
    n = rng.randint(1, maxparts)
    s = "".join(rng.choice(rng.choice(pools)) for _ in range(n))
    if allow_ws_edges and rng.random() < 0.1:
        s = rng.choice(BLANKS) + s
    if allow_ws_edges and rng.random() < 0.1:
        s = s + rng.choice(BLANKS)
    return s


def plain_text(rng, maxparts=3):
    return "".join(rng.choice(WORDS) for _ in range(rng.randint(1, maxparts)))


def all_strings(alphabet, maxlen):
    cur = [""]
    yield ""
    for _ in range(maxlen):
        nxt = []
        for s in cur:
            for a in alphabet:
                t = s + a
                nxt.append(t)
                yield t
        cur = nxt
